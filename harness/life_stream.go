package main

// The `life` stream: the termination scenario matrix on real programs vs the
// Lifecycle LTS (Tea/Runtime/Lifecycle.lean). The driver turns each scenario
// tuple into the matching external labels, then runs lifecycle steps greedily;
// both sides print whether Run returned and with which error class.

import (
	"fmt"
)

func streamLife(c *corrOut, r *rng, n int, thorough bool) map[string]interface{} {
	quietStdio()
	causes := []string{"quitmsg", "quitapi", "interrupt", "kill", "ctx", "readerr", "panic-update", "panic-view", "panic-cmd"}
	strikes := []string{"idle", "in-update", "in-view", "in-filter", "in-writer"}
	pendings := []string{"none", "senders1", "senders50", "nevercmd"}
	inputs := []string{"nil", "blocking", "pipe"}
	var all []termScenario
	for _, ca := range causes {
		for _, st := range strikes {
			for _, p := range pendings {
				for _, in := range inputs {
					s := termScenario{ca, st, p, in}
					if !s.valid() {
						continue
					}
					all = append(all, s)
				}
			}
		}
	}
	// a seeded subset of the deterministic part of the matrix
	for i := len(all) - 1; i > 0; i-- {
		j := r.intn(i + 1)
		all[i], all[j] = all[j], all[i]
	}
	if len(all) > n {
		all = all[:n]
	}
	// termination while the command of an Exec runs (always run)
	for _, ca := range []string{"kill", "ctx", "quitmsg", "quitapi", "interrupt", "panic-update"} {
		for _, in := range []string{"nil", "pipe"} {
			all = append(all, termScenario{ca, "in-exec", "none", in})
		}
	}
	// termination while Run is still starting up (always run): inside the writer of the start-up mode
	// sequences (the renderer exists but is not started), inside Init, inside the first View
	for _, ca := range []string{"kill", "ctx"} {
		for _, st := range []string{"startup-write", "in-init", "first-view"} {
			for _, in := range []string{"nil", "pipe", "blocking"} {
				all = append(all, termScenario{ca, st, "none", in})
			}
		}
	}
	type res struct {
		s   termScenario
		out string
	}
	results := make([]res, len(all))
	sem := make(chan struct{}, 8)
	done := make(chan struct{})
	for i, s := range all {
		sem <- struct{}{}
		go func(i int, s termScenario) {
			defer func() { <-sem; done <- struct{}{} }()
			tr := runTermScenario(s, nil)
			o := "HANG"
			if tr.returned {
				o = "returned err=" + tr.errClass
			}
			results[i] = res{s, o}
		}(i, s)
	}
	for range all {
		<-done
	}
	for _, x := range results {
		strike := x.s.Strike
		if strike == "first-view" {
			strike = "in-first-view"
		}
		c.emit(fmt.Sprintf("%s %s %s %s", x.s.Cause, strike, x.s.Pending, x.s.Input), x.out, x.s.Cause)
	}
	return nil
}

func init() { streams["life"] = streamLife }
