package main

// go/ast fact extractor: static facts about /repo's source that the Lean
// models are parameterised by. Emitted as Tea/Gen/Facts.lean on every run.

import (
	"bytes"
	"fmt"
	"go/ast"
	"go/parser"
	"go/printer"
	"go/token"
	"os"
	"path/filepath"
	"sort"
	"strings"
)

type factSet struct {
	fset  *token.FileSet
	files []*ast.File
	funcs map[string]*ast.FuncDecl // "Recv.name" or "name"
	lists map[string][]string
}

func repoDir() string {
	if d := os.Getenv("VERIF_REPO"); d != "" {
		return d
	}
	return "/repo"
}

func loadFacts(dir string) (*factSet, error) {
	fs := &factSet{fset: token.NewFileSet(), funcs: map[string]*ast.FuncDecl{}, lists: map[string][]string{}}
	ents, err := os.ReadDir(dir)
	if err != nil {
		return nil, err
	}
	for _, e := range ents {
		n := e.Name()
		if e.IsDir() || !strings.HasSuffix(n, ".go") || strings.HasSuffix(n, "_test.go") ||
			strings.HasSuffix(n, "_windows.go") || strings.HasPrefix(n, "verif_") {
			continue
		}
		src, err := os.ReadFile(filepath.Join(dir, n))
		if err != nil {
			return nil, err
		}
		head := string(src)
		if i := strings.Index(head, "package "); i >= 0 {
			head = head[:i]
		}
		if strings.Contains(head, "go:build") && !strings.Contains(head, "linux") {
			continue // files for other platforms
		}
		f, err := parser.ParseFile(fs.fset, filepath.Join(dir, n), src, 0) // comments are not facts
		if err != nil {
			return nil, err
		}
		fs.files = append(fs.files, f)
		for _, d := range f.Decls {
			fd, ok := d.(*ast.FuncDecl)
			if !ok || fd.Body == nil {
				continue
			}
			fs.funcs[funcName(fd)] = fd
		}
	}
	return fs, nil
}

func funcName(fd *ast.FuncDecl) string {
	if fd.Recv != nil && len(fd.Recv.List) > 0 {
		t := fd.Recv.List[0].Type
		if s, ok := t.(*ast.StarExpr); ok {
			t = s.X
		}
		if id, ok := t.(*ast.Ident); ok {
			return id.Name + "." + fd.Name.Name
		}
	}
	return fd.Name.Name
}

func (fs *factSet) text(n ast.Node) string {
	var b bytes.Buffer
	printer.Fprint(&b, fs.fset, n)
	return strings.Join(strings.Fields(b.String()), " ")
}

func (fs *factSet) add(key, val string) { fs.lists[key] = append(fs.lists[key], val) }

// isDoneRecv: `<-X.Done()`
func isDoneRecv(e ast.Expr) bool {
	u, ok := e.(*ast.UnaryExpr)
	if !ok || u.Op != token.ARROW {
		return false
	}
	c, ok := u.X.(*ast.CallExpr)
	if !ok {
		return false
	}
	s, ok := c.Fun.(*ast.SelectorExpr)
	return ok && s.Sel.Name == "Done"
}

func commRecvExpr(s ast.Stmt) ast.Expr {
	switch v := s.(type) {
	case *ast.ExprStmt:
		return v.X
	case *ast.AssignStmt:
		if len(v.Rhs) == 1 {
			return v.Rhs[0]
		}
	}
	return nil
}

// channelOps inventories every send and receive of the package with the
// guard it sits under.
func (fs *factSet) channelOps() {
	for name, fd := range fs.funcs {
		fs.walkChan(name, fd.Body, "bare", false, map[ast.Node]bool{})
	}
	sort.Strings(fs.lists["sends"])
	sort.Strings(fs.lists["recvs"])
}

func (fs *factSet) walkChan(fn string, n ast.Node, guard string, inGo bool, done map[ast.Node]bool) {
	ast.Inspect(n, func(x ast.Node) bool {
		if x == nil || done[x] {
			return false
		}
		switch v := x.(type) {
		case *ast.GoStmt:
			done[v] = true
			fs.walkChan(fn, v.Call, "bare", true, done)
			return false
		case *ast.SelectStmt:
			done[v] = true
			g := "select"
			hasDone, hasDefault := false, false
			for _, cl := range v.Body.List {
				cc := cl.(*ast.CommClause)
				if cc.Comm == nil {
					hasDefault = true
					continue
				}
				if r := commRecvExpr(cc.Comm); r != nil && isDoneRecv(r) {
					hasDone = true
				}
			}
			if hasDone {
				g += "+done"
			}
			if hasDefault {
				g += "+default"
			}
			for _, cl := range v.Body.List {
				cc := cl.(*ast.CommClause)
				if cc.Comm != nil {
					switch c := cc.Comm.(type) {
					case *ast.SendStmt:
						fs.add("sends", fmt.Sprintf("%s|%s|%s|go=%t", fn, fs.text(c.Chan), g, inGo))
						done[c] = true
					default:
						if r := commRecvExpr(cc.Comm); r != nil {
							if u, ok := r.(*ast.UnaryExpr); ok && u.Op == token.ARROW {
								fs.add("recvs", fmt.Sprintf("%s|%s|%s|go=%t", fn, fs.text(u.X), g, inGo))
								done[u] = true
							}
						}
					}
				}
				for _, st := range cc.Body {
					fs.walkChan(fn, st, "bare", inGo, done)
				}
			}
			return false
		case *ast.SendStmt:
			fs.add("sends", fmt.Sprintf("%s|%s|%s|go=%t", fn, fs.text(v.Chan), guard, inGo))
		case *ast.UnaryExpr:
			if v.Op == token.ARROW {
				fs.add("recvs", fmt.Sprintf("%s|%s|%s|go=%t", fn, fs.text(v.X), guard, inGo))
			}
		case *ast.CallExpr:
			if id, ok := v.Fun.(*ast.Ident); ok && id.Name == "close" && len(v.Args) == 1 {
				fs.add("closes", fmt.Sprintf("%s|%s", fn, fs.text(v.Args[0])))
			}
			if id, ok := v.Fun.(*ast.Ident); ok && id.Name == "make" && len(v.Args) >= 1 {
				if _, ok := v.Args[0].(*ast.ChanType); ok {
					capText := "0"
					if len(v.Args) > 1 {
						capText = fs.text(v.Args[1])
					}
					fs.add("makechans", fmt.Sprintf("%s|%s|cap=%s", fn, fs.text(v.Args[0]), capText))
				}
			}
		}
		return true
	})
}

// callSites: where the user callbacks and a few internal functions are called.
func (fs *factSet) callSites() {
	watch := map[string]bool{"Update": true, "View": true, "Init": true, "filter": true, "flush": true,
		"recover": true, "recoverFromPanic": true, "shutdown": true, "restoreTerminalState": true, "handleMessages": true}
	for name, fd := range fs.funcs {
		var walk func(n ast.Node, inGo, inDefer bool)
		walk = func(n ast.Node, inGo, inDefer bool) {
			ast.Inspect(n, func(x ast.Node) bool {
				switch v := x.(type) {
				case *ast.GoStmt:
					walk(v.Call, true, inDefer)
					return false
				case *ast.DeferStmt:
					walk(v.Call, inGo, true)
					return false
				case *ast.CallExpr:
					var callee string
					switch f := v.Fun.(type) {
					case *ast.SelectorExpr:
						callee = f.Sel.Name
					case *ast.Ident:
						callee = f.Name
					}
					if watch[callee] {
						fs.add("calls", fmt.Sprintf("%s|%s|go=%t|defer=%t", name, fs.text(v.Fun), inGo, inDefer))
					}
				}
				return true
			})
		}
		walk(fd.Body, false, false)
	}
	sort.Strings(fs.lists["calls"])
}

// goStmts: every goroutine the package starts.
func (fs *factSet) goStmts() {
	for name, fd := range fs.funcs {
		ast.Inspect(fd.Body, func(x ast.Node) bool {
			if g, ok := x.(*ast.GoStmt); ok {
				t := fs.text(g.Call.Fun)
				if _, isLit := g.Call.Fun.(*ast.FuncLit); isLit {
					t = "func-literal"
				}
				fs.add("gostmts", fmt.Sprintf("%s|%s", name, t))
			}
			return true
		})
	}
	sort.Strings(fs.lists["gostmts"])
}

// callOrder: the sequence of method/function calls in a function body, in
// source order, with the enclosing condition for calls directly under an `if`.
func (fs *factSet) callOrder(key, fn string) {
	fd, ok := fs.funcs[fn]
	if !ok {
		fs.add(key, "missing function "+fn)
		return
	}
	var walk func(n ast.Node, cond string)
	walk = func(n ast.Node, cond string) {
		ast.Inspect(n, func(x ast.Node) bool {
			switch v := x.(type) {
			case *ast.FuncLit:
				walk(v.Body, cond+"{lit}")
				return false
			case *ast.IfStmt:
				if v.Init != nil {
					walk(v.Init, cond)
				}
				walk(v.Cond, cond)
				c := fs.text(v.Cond)
				walk(v.Body, cond+"["+c+"]")
				if v.Else != nil {
					walk(v.Else, cond+"[!"+c+"]")
				}
				return false
			case *ast.CallExpr:
				t := fs.text(v.Fun)
				if _, isLit := v.Fun.(*ast.FuncLit); isLit {
					return true
				}
				plain := false
				if id, ok := v.Fun.(*ast.Ident); ok && id.Obj == nil && !isBuiltinName(id.Name) {
					plain = true // a package-level function such as openInputTTY or newRenderer
				}
				if plain || strings.HasPrefix(t, "p.") || strings.HasPrefix(t, "r.") || strings.HasPrefix(t, "c.") || t == "close" || strings.HasPrefix(t, "atomic.") {
					arg := ""
					if t == "p.shutdown" || t == "close" || t == "p.initCancelReader" || strings.HasPrefix(t, "atomic.") || t == "r.execute" {
						as := make([]string, len(v.Args))
						for i, a := range v.Args {
							as[i] = fs.text(a)
						}
						arg = "(" + strings.Join(as, ",") + ")"
					}
					fs.add(key, cond+t+arg)
				}
			}
			return true
		})
	}
	walk(fd.Body, "")
}

func isBuiltinName(n string) bool {
	switch n {
	case "len", "cap", "append", "make", "new", "panic", "recover", "copy", "delete", "string", "int", "byte", "rune", "error",
		"Model", "Msg", "Cmd", "KeyMsg", "MouseMsg", "BatchMsg", "sequenceMsg", "QuitMsg", "float64", "uint32", "bool":
		return true
	}
	return false
}

// ctxChecks: every place the program context is consulted (the guard points of
// the termination protocol).
func (fs *factSet) ctxChecks() {
	for name, fd := range fs.funcs {
		ast.Inspect(fd.Body, func(x ast.Node) bool {
			if c, ok := x.(*ast.CallExpr); ok {
				if s, ok := c.Fun.(*ast.SelectorExpr); ok && (s.Sel.Name == "Err" || s.Sel.Name == "Done") {
					t := fs.text(s.X)
					if strings.HasSuffix(t, "ctx") {
						fs.add("ctxchecks", fmt.Sprintf("%s|%s.%s", name, t, s.Sel.Name))
					}
				}
			}
			return true
		})
	}
}

// eventLoopShape splits eventLoop into the pieces the models mirror: the
// receive/filter head, one entry per case of the message type switch, and the
// tail (renderer messages, Update, command hand-over, View).
func (fs *factSet) eventLoopShape() {
	fd, ok := fs.funcs["Program.eventLoop"]
	if !ok {
		fs.add("el.head", "missing")
		return
	}
	var sel *ast.SelectStmt
	ast.Inspect(fd.Body, func(x ast.Node) bool {
		if s, ok := x.(*ast.SelectStmt); ok && sel == nil {
			sel = s
			return false
		}
		return true
	})
	if sel == nil {
		fs.add("el.head", "no select")
		return
	}
	for _, cl := range sel.Body.List {
		cc := cl.(*ast.CommClause)
		comm := "default"
		if cc.Comm != nil {
			comm = fs.text(cc.Comm)
		}
		if !strings.Contains(comm, "p.msgs") {
			body := make([]string, len(cc.Body))
			for i, st := range cc.Body {
				body[i] = fs.text(st)
			}
			fs.add("el.head", "case "+comm+": "+strings.Join(body, "; "))
			continue
		}
		fs.add("el.head", "case "+comm+":")
		seenSwitch := false
		for _, st := range cc.Body {
			if ts, ok := st.(*ast.TypeSwitchStmt); ok && !seenSwitch {
				seenSwitch = true
				for _, c := range ts.Body.List {
					cl := c.(*ast.CaseClause)
					types := make([]string, len(cl.List))
					for i, t := range cl.List {
						types[i] = fs.text(t)
					}
					body := make([]string, len(cl.Body))
					for i, b := range cl.Body {
						body[i] = fs.text(b)
					}
					fs.add("el.case."+strings.Join(types, "_"), strings.Join(body, "; "))
				}
				continue
			}
			if seenSwitch {
				fs.add("el.tail", fs.text(st))
			} else {
				fs.add("el.head", fs.text(st))
			}
		}
	}
}

// smallBodies: the normalised text of small leaf functions whose exact shape
// the models mirror.
func (fs *factSet) smallBodies(names ...string) {
	for _, n := range names {
		fd, ok := fs.funcs[n]
		if !ok {
			fs.add("body."+n, "missing")
			continue
		}
		fs.add("body."+n, fs.text(fd.Body))
	}
}

func (fs *factSet) signature(fn string) {
	fd, ok := fs.funcs[fn]
	if !ok {
		fs.add("sig."+fn, "missing")
		return
	}
	fs.add("sig."+fn, fs.text(fd.Type))
}

// bufSize: the length of the reader's buffer (`var buf [N]byte`).
func (fs *factSet) bufSize() {
	fd, ok := fs.funcs["readAnsiInputs"]
	if !ok {
		fs.add("bufsize", "missing")
		return
	}
	ast.Inspect(fd.Body, func(x ast.Node) bool {
		if vs, ok := x.(*ast.ValueSpec); ok && len(vs.Names) == 1 && vs.Names[0].Name == "buf" {
			if at, ok := vs.Type.(*ast.ArrayType); ok && at.Len != nil {
				fs.add("bufsize", fs.text(at.Len))
			}
		}
		return true
	})
}

func collectFacts(dir string) (*factSet, error) {
	fs, err := loadFacts(dir)
	if err != nil {
		return nil, err
	}
	fs.channelOps()
	fs.callSites()
	fs.goStmts()
	fs.ctxChecks()
	fs.eventLoopShape()
	for _, fn := range []string{"Program.shutdown", "Program.restoreTerminalState", "Program.ReleaseTerminal", "Program.RestoreTerminal",
		"Program.exec", "Program.Run", "Program.initTerminal", "Program.disableMouse", "Program.recoverFromPanic",
		"standardRenderer.stop", "standardRenderer.kill", "standardRenderer.start", "standardRenderer.listen"} {
		fs.callOrder("order."+fn, fn)
	}
	fs.smallBodies("Every", "Tick", "Batch", "Sequence", "Program.Send", "Program.Quit", "Program.Kill", "Program.Wait",
		"Program.Println", "Program.Printf", "newRenderer", "standardRenderer.write", "standardRenderer.repaint",
		"Program.readLoop", "Program.waitForReadLoop", "Program.checkResize", "Program.listenForResize", "channelHandlers.shutdown",
		"WithFilter", "WithFPS", "detectReportFocus", "Program.handleSignals", "Program.handleCommands", "Program.handleResize",
		"Program.initCancelReader", "standardRenderer.listen", "standardRenderer.start", "standardRenderer.handleMessages")
	fs.signature("Program.Run")
	fs.bufSize()
	fs.lockDiscipline()
	fs.sendCalls()
	return fs, nil
}

// sendCalls: every call of p.Send in the package (who forwards what into the message channel,
// and whether from a goroutine). The pipeline model assumes that EVERY message a command,
// sequence element, signal or helper produces is forwarded with Send, i.e. passes the event
// loop (and so the filter) like any other message.
func (fs *factSet) sendCalls() {
	for name, fd := range fs.funcs {
		var walk func(n ast.Node, inGo bool)
		walk = func(n ast.Node, inGo bool) {
			ast.Inspect(n, func(x ast.Node) bool {
				switch v := x.(type) {
				case *ast.GoStmt:
					walk(v.Call, true)
					return false
				case *ast.CallExpr:
					if fs.text(v.Fun) == "p.Send" && len(v.Args) == 1 {
						fs.add("sendcalls", fmt.Sprintf("%s|%s|go=%t", name, fs.text(v.Args[0]), inGo))
					}
				}
				return true
			})
		}
		walk(fd.Body, false)
	}
	sort.Strings(fs.lists["sendcalls"])
}

// lockDiscipline: for every method of standardRenderer, in source order, the
// mutex operations and the writes to the terminal. The renderer model treats
// each method as ONE atomic step (write / flush / the mode methods exclude one
// another); that is an assumption about this inventory.
func (fs *factSet) lockDiscipline() {
	var names []string
	for name := range fs.funcs {
		if strings.HasPrefix(name, "standardRenderer.") {
			names = append(names, name)
		}
	}
	sort.Strings(names)
	for _, name := range names {
		var ev []string
		inDefer := map[ast.Node]bool{}
		ast.Inspect(fs.funcs[name].Body, func(x ast.Node) bool {
			switch v := x.(type) {
			case *ast.DeferStmt:
				inDefer[v.Call] = true
			case *ast.CallExpr:
				t := fs.text(v.Fun)
				pre := ""
				if inDefer[v] {
					pre = "defer "
				}
				switch {
				case strings.HasSuffix(t, "mtx.Lock"), strings.HasSuffix(t, "mtx.Unlock"):
					ev = append(ev, pre+t[strings.LastIndex(t, ".")+1:])
				case t == "r.out.Write", t == "r.execute", t == "io.WriteString", t == "r.flush", t == "r.buf.Reset", t == "r.buf.WriteString":
					ev = append(ev, pre+t)
				}
			}
			return true
		})
		if len(ev) > 0 {
			fs.add("locks", strings.TrimPrefix(name, "standardRenderer.")+"|"+strings.Join(ev, ";"))
		}
	}
}

func factDefName(k string) string {
	r := strings.NewReplacer(".", "_", " ", "_", "*", "", "-", "_")
	return "fact_" + r.Replace(k)
}

func genFacts() []byte {
	return genFactsNS("Tea.Gen", "-- GENERATED by `harness gen` (go/ast fact extractor) from /repo's working tree. Do not edit.\n")
}

func genFactsNS(ns, header string) []byte {
	fs, err := collectFacts(repoDir())
	var b bytes.Buffer
	b.WriteString(header)
	fmt.Fprintf(&b, "namespace %s\n\n", ns)
	if err != nil {
		fmt.Fprintf(&b, "def factsError : String := %s\n", leanString(err.Error()))
		fs = &factSet{lists: map[string][]string{}}
	}
	keys := make([]string, 0, len(fs.lists))
	for k := range fs.lists {
		keys = append(keys, k)
		if !strings.HasPrefix(k, "order.") && !strings.HasPrefix(k, "el.") {
			sort.Strings(fs.lists[k]) // inventories are sets; call orders keep source order
		}
	}
	sort.Strings(keys)
	for _, k := range keys {
		vals := fs.lists[k]
		parts := make([]string, len(vals))
		for j, v := range vals {
			parts[j] = "    " + leanString(v)
		}
		fmt.Fprintf(&b, "def %s : List String := [\n%s]\n\n", factDefName(k), strings.Join(parts, ",\n"))
	}
	fmt.Fprintf(&b, "end %s\n", ns)
	return b.Bytes()
}

func init() {
	genExtra["Tea/Gen/Facts.lean"] = genFacts
}

// cmdFreezeFacts writes the frozen expectation Tea/Doc/Facts.lean from the tree
// as it is now. Run by hand after a change of the code has been reviewed and
// the models/theorems follow it; never by a check.
func cmdFreezeFacts() int {
	b := genFactsNS("Tea.Doc", "-- FROZEN expectation of the facts extracted from the source (written by `harness freeze-facts`\n-- after the models were brought in line with the code; kept by hand). The specification side of the bridge.\n")
	if err := os.WriteFile(filepath.Join(verifDir(), "lean", "Tea", "Doc", "Facts.lean"), b, 0o644); err != nil {
		fmt.Fprintln(os.Stderr, err)
		return 1
	}
	return 0
}

// cmdFacts prints the facts (for inspection and for freezing the expectation).
func cmdFacts() int {
	os.Stdout.Write(genFacts())
	return 0
}
