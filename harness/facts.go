package main

// go/ast fact extractor: static facts about /repo's source that the Lean
// models are parameterised by. Emitted as Tea/Gen/Facts.lean on every run.

import (
	"bytes"
	"encoding/json"
	"fmt"
	"go/ast"
	"go/parser"
	"go/printer"
	"go/token"
	"os"
	"path/filepath"
	"regexp"
	"sort"
	"strings"
)

type factSet struct {
	fset  *token.FileSet
	files []*ast.File
	funcs map[string]*ast.FuncDecl // "Recv.name" or "name"
	lists map[string][]string
	// single-use unexported helpers: full name -> the function that calls it; bare name -> declaration
	owner      map[string]string
	helperDecl map[string]*ast.FuncDecl
	// unexported helpers added since the freeze that are called from SEVERAL places: inlined in the
	// call-order facts only (what a function calls, in order, is the same with the helper's body
	// written out); the inventories keep them under their own name
	multiHelper map[string]*ast.FuncDecl
}

func repoDir() string {
	if d := os.Getenv("VERIF_REPO"); d != "" {
		return d
	}
	return "/repo"
}

func loadFacts(dir string) (*factSet, error) {
	fs := &factSet{fset: token.NewFileSet(), funcs: map[string]*ast.FuncDecl{}, lists: map[string][]string{}}
	ents, err := os.ReadDir(dir)
	if err != nil {
		return nil, err
	}
	for _, e := range ents {
		n := e.Name()
		if e.IsDir() || !strings.HasSuffix(n, ".go") || strings.HasSuffix(n, "_test.go") ||
			strings.HasSuffix(n, "_windows.go") || strings.HasPrefix(n, "verif_") {
			continue
		}
		src, err := os.ReadFile(filepath.Join(dir, n))
		if err != nil {
			return nil, err
		}
		head := string(src)
		if i := strings.Index(head, "package "); i >= 0 {
			head = head[:i]
		}
		if strings.Contains(head, "go:build") && !strings.Contains(head, "linux") && !strings.Contains(head, "go:build !windows") {
			continue // files for other platforms
		}
		f, err := parser.ParseFile(fs.fset, filepath.Join(dir, n), src, 0) // comments are not facts
		if err != nil {
			return nil, err
		}
		fs.files = append(fs.files, f)
		for _, d := range f.Decls {
			fd, ok := d.(*ast.FuncDecl)
			if !ok || fd.Body == nil {
				continue
			}
			canonicalNames(fd)
			dropEmptyDefaults(fd)
			fs.funcs[funcName(fd)] = fd
		}
	}
	return fs, nil
}

// dropEmptyDefaults removes `default:` arms without statements from switch and type-switch
// statements (they do nothing; NOT from select, where a default arm means "do not block").
func dropEmptyDefaults(fd *ast.FuncDecl) {
	strip := func(b *ast.BlockStmt) {
		out := b.List[:0]
		for _, st := range b.List {
			if cc, ok := st.(*ast.CaseClause); ok && cc.List == nil && len(cc.Body) == 0 {
				continue
			}
			out = append(out, st)
		}
		b.List = out
	}
	ast.Inspect(fd.Body, func(x ast.Node) bool {
		switch v := x.(type) {
		case *ast.SwitchStmt:
			strip(v.Body)
		case *ast.TypeSwitchStmt:
			strip(v.Body)
		}
		return true
	})
}

// canonicalNames renames, in place, the parameters (a1, a2, …), named results (o1, …) and
// the variables declared inside the body (v1, v2, …; closure parameters included) of a
// function, in order of declaration, so that the facts do not depend on how locals are called
// (renaming a local is not a change of the code's structure). Receivers, fields, package-level
// names and labels keep their names. The parser's object resolution links every use to its
// declaration.
func canonicalNames(fd *ast.FuncDecl) {
	type decl struct {
		obj *ast.Object
		pos token.Pos
	}
	seen := map[*ast.Object]bool{}
	var params, results, locals []decl
	inRange := func(p token.Pos, n ast.Node) bool { return n != nil && n.Pos() <= p && p < n.End() }
	var paramsNode, resultsNode ast.Node
	if fd.Type.Params != nil {
		paramsNode = fd.Type.Params
	}
	if fd.Type.Results != nil {
		resultsNode = fd.Type.Results
	}
	collect := func(id *ast.Ident) {
		o := id.Obj
		if o == nil || o.Kind != ast.Var || seen[o] || o.Name == "_" {
			return
		}
		p := o.Pos()
		switch {
		case paramsNode != nil && inRange(p, paramsNode):
			seen[o] = true
			params = append(params, decl{o, p})
		case resultsNode != nil && inRange(p, resultsNode):
			seen[o] = true
			results = append(results, decl{o, p})
		case inRange(p, fd.Body):
			seen[o] = true
			locals = append(locals, decl{o, p})
		}
	}
	ast.Inspect(fd.Type, func(x ast.Node) bool {
		if id, ok := x.(*ast.Ident); ok {
			collect(id)
		}
		return true
	})
	ast.Inspect(fd.Body, func(x ast.Node) bool {
		if id, ok := x.(*ast.Ident); ok {
			collect(id)
		}
		return true
	})
	newName := map[*ast.Object]string{}
	for _, grp := range []struct {
		prefix string
		ds     []decl
	}{{"a", params}, {"o", results}, {"v", locals}} {
		sort.Slice(grp.ds, func(i, j int) bool { return grp.ds[i].pos < grp.ds[j].pos })
		for i, d := range grp.ds {
			newName[d.obj] = fmt.Sprintf("%s%d", grp.prefix, i+1)
		}
	}
	rename := func(x ast.Node) bool {
		if id, ok := x.(*ast.Ident); ok && id.Obj != nil {
			if n, ok := newName[id.Obj]; ok {
				id.Name = n
			}
		}
		return true
	}
	ast.Inspect(fd.Type, rename)
	ast.Inspect(fd.Body, rename)
}

func funcName(fd *ast.FuncDecl) string {
	if fd.Recv != nil && len(fd.Recv.List) > 0 {
		t := fd.Recv.List[0].Type
		if s, ok := t.(*ast.StarExpr); ok {
			t = s.X
		}
		if id, ok := t.(*ast.Ident); ok {
			return id.Name + "." + fd.Name.Name
		}
	}
	return fd.Name.Name
}

func (fs *factSet) text(n ast.Node) string {
	var b bytes.Buffer
	printer.Fprint(&b, fs.fset, n)
	return strings.Join(strings.Fields(b.String()), " ")
}

// inventories keyed by function name: a fact found in a single-use unexported helper is
// attributed to the function that calls it (extracting a helper does not change what the
// calling function does)
var inventoryKeys = map[string]bool{"sends": true, "recvs": true, "closes": true, "makechans": true, "calls": true,
	"gostmts": true, "ctxchecks": true, "sendcalls": true}

func (fs *factSet) add(key, val string) {
	if inventoryKeys[key] {
		if i := strings.Index(val, "|"); i > 0 {
			val = fs.ownerOf(val[:i]) + val[i:]
		}
	}
	fs.lists[key] = append(fs.lists[key], val)
}

func (fs *factSet) ownerOf(fn string) string {
	for n := 0; n < 8; n++ {
		o, ok := fs.owner[fn]
		if !ok {
			return fn
		}
		fn = o
	}
	return fn
}

// knownFuncs: the functions of the package at the time the expectations were frozen
// (doc/funcs.json, written by `harness freeze-facts`); nil if there is no such list.
func knownFuncs() map[string]bool {
	b, err := os.ReadFile(filepath.Join(verifDir(), "doc", "funcs.json"))
	if err != nil {
		return nil
	}
	var names []string
	if json.Unmarshal(b, &names) != nil {
		return nil
	}
	m := map[string]bool{}
	for _, n := range names {
		m[n] = true
	}
	return m
}

// calleeName: the bare name a call refers to (method or function).
func calleeName(c *ast.CallExpr) string {
	switch f := c.Fun.(type) {
	case *ast.SelectorExpr:
		return f.Sel.Name
	case *ast.Ident:
		return f.Name
	}
	return ""
}

// findHelpers: unexported functions with exactly one call site in the package, which is a
// plain call (not go / defer / inside a function literal). owner[helper] = calling function.
func (fs *factSet) findHelpers() {
	fs.owner = map[string]string{}
	fs.helperDecl = map[string]*ast.FuncDecl{}
	fs.multiHelper = map[string]*ast.FuncDecl{}
	type site struct {
		caller string
		plain  bool
	}
	sites := map[string][]site{}
	for name, fd := range fs.funcs {
		var walk func(n ast.Node, plain bool)
		walk = func(n ast.Node, plain bool) {
			ast.Inspect(n, func(x ast.Node) bool {
				switch v := x.(type) {
				case *ast.GoStmt:
					walk(v.Call, false)
					return false
				case *ast.DeferStmt:
					walk(v.Call, false)
					return false
				case *ast.FuncLit:
					walk(v.Body, false)
					return false
				case *ast.CallExpr:
					if cn := calleeName(v); cn != "" {
						sites[cn] = append(sites[cn], site{name, plain})
					}
				}
				return true
			})
		}
		walk(fd.Body, true)
	}
	byBare := map[string][]string{}
	for name, fd := range fs.funcs {
		byBare[fd.Name.Name] = append(byBare[fd.Name.Name], name)
	}
	known := knownFuncs()
	// two passes: single-use helpers first, then helpers all of whose call sites lie in ONE
	// function once single-use helpers are counted as part of their callers
	for pass := 0; pass < 2; pass++ {
		for bare, names := range byBare {
			if len(names) != 1 || bare == "" || !(bare[0] >= 'a' && bare[0] <= 'z') {
				continue
			}
			if known == nil || known[names[0]] {
				// a function that existed when the expectations were frozen keeps its own identity:
				// only helpers extracted SINCE then are folded into their caller
				continue
			}
			if _, done := fs.owner[names[0]]; done {
				continue
			}
			ss := sites[bare]
			if pass == 0 {
				if len(ss) == 1 && ss[0].plain && ss[0].caller != names[0] {
					fs.owner[names[0]] = ss[0].caller
					fs.helperDecl[bare] = fs.funcs[names[0]]
				}
				continue
			}
			if len(ss) < 2 {
				continue
			}
			allPlain, sameCaller := true, true
			first := fs.ownerOf(ss[0].caller)
			for _, st := range ss {
				if !st.plain || st.caller == names[0] {
					allPlain = false
				}
				if fs.ownerOf(st.caller) != first {
					sameCaller = false
				}
			}
			if !allPlain {
				continue
			}
			if sameCaller {
				// called several times, but (directly or through single-use helpers) by ONE function:
				// its channel operations, goroutines and context checks are that function's
				fs.owner[names[0]] = first
			}
			fs.multiHelper[bare] = fs.funcs[names[0]]
		}
	}
}

// isDoneRecv: `<-X.Done()`
func isDoneRecv(e ast.Expr) bool {
	u, ok := e.(*ast.UnaryExpr)
	if !ok || u.Op != token.ARROW {
		return false
	}
	c, ok := u.X.(*ast.CallExpr)
	if !ok {
		return false
	}
	s, ok := c.Fun.(*ast.SelectorExpr)
	return ok && s.Sel.Name == "Done"
}

func commRecvExpr(s ast.Stmt) ast.Expr {
	switch v := s.(type) {
	case *ast.ExprStmt:
		return v.X
	case *ast.AssignStmt:
		if len(v.Rhs) == 1 {
			return v.Rhs[0]
		}
	}
	return nil
}

// channelOps inventories every send and receive of the package with the
// guard it sits under.
func (fs *factSet) channelOps() {
	for name, fd := range fs.funcs {
		fs.walkChan(name, fd.Body, "bare", false, map[ast.Node]bool{})
	}
	sort.Strings(fs.lists["sends"])
	sort.Strings(fs.lists["recvs"])
}

func (fs *factSet) walkChan(fn string, n ast.Node, guard string, inGo bool, done map[ast.Node]bool) {
	ast.Inspect(n, func(x ast.Node) bool {
		if x == nil || done[x] {
			return false
		}
		switch v := x.(type) {
		case *ast.GoStmt:
			done[v] = true
			fs.walkChan(fn, v.Call, "bare", true, done)
			return false
		case *ast.SelectStmt:
			done[v] = true
			g := "select"
			hasDone, hasDefault := false, false
			for _, cl := range v.Body.List {
				cc := cl.(*ast.CommClause)
				if cc.Comm == nil {
					hasDefault = true
					continue
				}
				if r := commRecvExpr(cc.Comm); r != nil && isDoneRecv(r) {
					hasDone = true
				}
			}
			if hasDone {
				g += "+done"
			}
			if hasDefault {
				g += "+default"
			}
			for _, cl := range v.Body.List {
				cc := cl.(*ast.CommClause)
				if cc.Comm != nil {
					switch c := cc.Comm.(type) {
					case *ast.SendStmt:
						fs.add("sends", fmt.Sprintf("%s|%s|%s|go=%t", fn, fs.text(c.Chan), g, inGo))
						done[c] = true
					default:
						if r := commRecvExpr(cc.Comm); r != nil {
							if u, ok := r.(*ast.UnaryExpr); ok && u.Op == token.ARROW {
								fs.add("recvs", fmt.Sprintf("%s|%s|%s|go=%t", fn, fs.text(u.X), g, inGo))
								done[u] = true
							}
						}
					}
				}
				for _, st := range cc.Body {
					fs.walkChan(fn, st, "bare", inGo, done)
				}
			}
			return false
		case *ast.SendStmt:
			fs.add("sends", fmt.Sprintf("%s|%s|%s|go=%t", fn, fs.text(v.Chan), guard, inGo))
		case *ast.UnaryExpr:
			if v.Op == token.ARROW {
				fs.add("recvs", fmt.Sprintf("%s|%s|%s|go=%t", fn, fs.text(v.X), guard, inGo))
			}
		case *ast.CallExpr:
			if id, ok := v.Fun.(*ast.Ident); ok && id.Name == "close" && len(v.Args) == 1 {
				fs.add("closes", fmt.Sprintf("%s|%s", fn, fs.text(v.Args[0])))
			}
			if id, ok := v.Fun.(*ast.Ident); ok && id.Name == "make" && len(v.Args) >= 1 {
				if _, ok := v.Args[0].(*ast.ChanType); ok {
					capText := "0"
					if len(v.Args) > 1 {
						capText = fs.text(v.Args[1])
					}
					fs.add("makechans", fmt.Sprintf("%s|%s|cap=%s", fn, fs.text(v.Args[0]), capText))
				}
			}
		}
		return true
	})
}

// callSites: where the user callbacks and a few internal functions are called.
func (fs *factSet) callSites() {
	watch := map[string]bool{"Update": true, "View": true, "Init": true, "filter": true, "flush": true,
		"recover": true, "recoverFromPanic": true, "shutdown": true, "restoreTerminalState": true, "handleMessages": true}
	for name, fd := range fs.funcs {
		var walk func(n ast.Node, inGo, inDefer bool)
		walk = func(n ast.Node, inGo, inDefer bool) {
			ast.Inspect(n, func(x ast.Node) bool {
				switch v := x.(type) {
				case *ast.GoStmt:
					walk(v.Call, true, inDefer)
					return false
				case *ast.DeferStmt:
					walk(v.Call, inGo, true)
					return false
				case *ast.CallExpr:
					var callee string
					switch f := v.Fun.(type) {
					case *ast.SelectorExpr:
						callee = f.Sel.Name
					case *ast.Ident:
						callee = f.Name
					}
					if watch[callee] {
						fs.add("calls", fmt.Sprintf("%s|%s|go=%t|defer=%t", name, fs.text(v.Fun), inGo, inDefer))
					}
				}
				return true
			})
		}
		walk(fd.Body, false, false)
	}
	sort.Strings(fs.lists["calls"])
}

// goStmts: every goroutine the package starts.
func (fs *factSet) goStmts() {
	for name, fd := range fs.funcs {
		ast.Inspect(fd.Body, func(x ast.Node) bool {
			if g, ok := x.(*ast.GoStmt); ok {
				t := fs.text(g.Call.Fun)
				if _, isLit := g.Call.Fun.(*ast.FuncLit); isLit {
					t = "func-literal"
				}
				fs.add("gostmts", fmt.Sprintf("%s|%s", name, t))
			}
			return true
		})
	}
	sort.Strings(fs.lists["gostmts"])
}

// callOrder: the sequence of method/function calls in a function body, in
// source order, with the enclosing condition for calls directly under an `if`.
func (fs *factSet) callOrder(key, fn string) {
	fd, ok := fs.funcs[fn]
	if !ok {
		fs.add(key, "missing function "+fn)
		return
	}
	depth := 0
	var walk func(n ast.Node, cond string)
	walk = func(n ast.Node, cond string) {
		ast.Inspect(n, func(x ast.Node) bool {
			switch v := x.(type) {
			case *ast.FuncLit:
				walk(v.Body, cond+"{lit}")
				return false
			case *ast.IfStmt:
				if v.Init != nil {
					walk(v.Init, cond)
				}
				walk(v.Cond, cond)
				c := anonLocals(fs.text(v.Cond)) // (which local holds the value is not part of the call order)
				walk(v.Body, cond+"["+c+"]")
				if v.Else != nil {
					walk(v.Else, cond+"[!"+c+"]")
				}
				return false
			case *ast.CallExpr:
				t := fs.text(v.Fun)
				if _, isLit := v.Fun.(*ast.FuncLit); isLit {
					return true
				}
				if hd, ok := fs.helperDecl[calleeName(v)]; ok && !strings.Contains(cond, "{lit}") {
					// a single-use helper: what it calls is what this function calls, here
					for _, a := range v.Args {
						walk(a, cond)
					}
					walk(hd.Body, cond)
					return false
				}
				if hd, ok := fs.multiHelper[calleeName(v)]; ok && !strings.Contains(cond, "{lit}") && depth < 4 {
					for _, a := range v.Args {
						walk(a, cond)
					}
					depth++
					walk(hd.Body, cond)
					depth--
					return false
				}
				plain := false
				if id, ok := v.Fun.(*ast.Ident); ok && id.Obj == nil && !isBuiltinName(id.Name) {
					plain = true // a package-level function such as openInputTTY or newRenderer
				}
				if plain || strings.HasPrefix(t, "p.") || strings.HasPrefix(t, "r.") || strings.HasPrefix(t, "c.") || t == "close" || strings.HasPrefix(t, "atomic.") {
					arg := ""
					if t == "p.shutdown" || t == "close" || t == "p.initCancelReader" || strings.HasPrefix(t, "atomic.") || t == "r.execute" {
						as := make([]string, len(v.Args))
						for i, a := range v.Args {
							as[i] = anonLocals(fs.text(a))
						}
						arg = "(" + strings.Join(as, ",") + ")"
					}
					fs.add(key, cond+t+arg)
				}
			}
			return true
		})
	}
	walk(fd.Body, "")
}

// isContextParam: is `name` a parameter of fd whose declared type is context.Context?
func isContextParam(fd *ast.FuncDecl, name string) bool {
	if fd.Type.Params == nil {
		return false
	}
	for _, f := range fd.Type.Params.List {
		if s, ok := f.Type.(*ast.SelectorExpr); ok && s.Sel.Name == "Context" {
			for _, n := range f.Names {
				if n.Name == name {
					return true
				}
			}
		}
	}
	return false
}

var localNameRe = regexp.MustCompile(`\b[avo][0-9]+\b`)

// anonLocals replaces the canonical names of parameters / results / locals by `_`.
func anonLocals(s string) string { return localNameRe.ReplaceAllString(s, "_") }

func isBuiltinName(n string) bool {
	switch n {
	case "len", "cap", "append", "make", "new", "panic", "recover", "copy", "delete", "string", "int", "byte", "rune", "error",
		"Model", "Msg", "Cmd", "KeyMsg", "MouseMsg", "BatchMsg", "sequenceMsg", "QuitMsg", "float64", "uint32", "bool":
		return true
	}
	return false
}

// ctxChecks: every place the program context is consulted (the guard points of
// the termination protocol).
func (fs *factSet) ctxChecks() {
	for name, fd := range fs.funcs {
		ast.Inspect(fd.Body, func(x ast.Node) bool {
			if c, ok := x.(*ast.CallExpr); ok {
				if s, ok := c.Fun.(*ast.SelectorExpr); ok && (s.Sel.Name == "Err" || s.Sel.Name == "Done") {
					t := fs.text(s.X)
					if strings.HasSuffix(t, "ctx") || isContextParam(fd, t) {
						fs.add("ctxchecks", fmt.Sprintf("%s|%s.%s", name, t, s.Sel.Name))
					}
				}
			}
			return true
		})
	}
}

// eventLoopShape splits eventLoop into the pieces the models mirror: the
// receive/filter head, one entry per case of the message type switch, and the
// tail (renderer messages, Update, command hand-over, View).
func (fs *factSet) eventLoopShape() {
	fd, ok := fs.funcs["Program.eventLoop"]
	if !ok {
		fs.add("el.head", "missing")
		return
	}
	var sel *ast.SelectStmt
	ast.Inspect(fd.Body, func(x ast.Node) bool {
		if s, ok := x.(*ast.SelectStmt); ok && sel == nil {
			sel = s
			return false
		}
		return true
	})
	if sel == nil {
		fs.add("el.head", "no select")
		return
	}
	for _, cl := range sel.Body.List {
		cc := cl.(*ast.CommClause)
		comm := "default"
		if cc.Comm != nil {
			comm = fs.text(cc.Comm)
		}
		if !strings.Contains(comm, "p.msgs") {
			body := make([]string, len(cc.Body))
			for i, st := range cc.Body {
				body[i] = fs.text(st)
			}
			fs.add("el.head", "case "+comm+": "+strings.Join(body, "; "))
			continue
		}
		fs.add("el.head", "case "+comm+":")
		seenSwitch := false
		for _, st := range cc.Body {
			if ts, ok := st.(*ast.TypeSwitchStmt); ok && !seenSwitch {
				seenSwitch = true
				for _, c := range ts.Body.List {
					cl := c.(*ast.CaseClause)
					types := make([]string, len(cl.List))
					for i, t := range cl.List {
						types[i] = fs.text(t)
					}
					body := make([]string, len(cl.Body))
					for i, b := range cl.Body {
						body[i] = fs.text(b)
					}
					fs.add("el.case."+strings.Join(types, "_"), strings.Join(body, "; "))
					// the inventory of the switch: a message kind that gets an arm of its own is handled
					// by the library before (or instead of) reaching Update
					fs.add("el.cases", strings.Join(types, "_"))
				}
				continue
			}
			if seenSwitch {
				fs.add("el.tail", fs.text(st))
			} else {
				fs.add("el.head", fs.text(st))
			}
		}
	}
}

// smallBodies: the normalised text of small leaf functions whose exact shape
// the models mirror.
func (fs *factSet) smallBodies(names ...string) {
	for _, n := range names {
		fd, ok := fs.funcs[n]
		if !ok {
			fs.add("body."+n, "missing")
			continue
		}
		fs.add("body."+n, fs.text(fd.Body))
	}
}

// ancillaryFuncs: see collectFacts.
var ancillaryFuncs = []string{
	"NewProgram", "Program.handlePanic", "channelHandlers.add", "startupOptions.has",
	"WithContext", "WithOutput", "WithInput", "WithInputTTY", "WithEnvironment", "WithoutSignalHandler", "WithoutCatchPanics",
	"WithoutSignals", "WithAltScreen", "WithoutBracketedPaste", "WithMouseCellMotion", "WithMouseAllMotion", "WithoutRenderer",
	"WithANSICompressor", "WithReportFocus",
	"ClearScreen", "EnterAltScreen", "ExitAltScreen", "EnableMouseCellMotion", "EnableMouseAllMotion", "DisableMouse",
	"HideCursor", "ShowCursor", "EnableBracketedPaste", "DisableBracketedPaste", "EnableReportFocus", "DisableReportFocus",
	"SetWindowTitle", "WindowSize", "Quit", "Interrupt", "Suspend", "Println", "Printf", "Sequentially",
	"Program.EnterAltScreen", "Program.ExitAltScreen", "Program.EnableMouseCellMotion", "Program.DisableMouseCellMotion",
	"Program.EnableMouseAllMotion", "Program.DisableMouseAllMotion", "Program.SetWindowTitle",
	"Program.Start", "Program.StartReturningModel",
	"newInputReader", "readInputs", "openInputTTY", "suspendProcess", "MouseEvent.IsWheel",
	"standardRenderer.setWindowTitle", "standardRenderer.execute", "standardRenderer.lastLinesRendered",
	"standardRenderer.altScreen", "standardRenderer.bracketedPasteActive", "standardRenderer.reportFocus",
}

// bodiesOfType: one inventory fact with `method|normalised body` for every method of a type
// (the nil renderer: every method must stay an empty body or a constant).
func (fs *factSet) bodiesOfType(typ string) {
	key := "bodies." + typ
	fs.lists[key] = []string{}
	for n, fd := range fs.funcs {
		if strings.HasPrefix(n, typ+".") && fd.Body != nil {
			fs.add(key, strings.TrimPrefix(n, typ+".")+"|"+fs.text(fd.Body))
		}
	}
}

func (fs *factSet) signature(fn string) {
	fd, ok := fs.funcs[fn]
	if !ok {
		fs.add("sig."+fn, "missing")
		return
	}
	fs.add("sig."+fn, fs.text(fd.Type))
}

// bufSize: the length of the reader's buffer (`var buf [N]byte`).
func (fs *factSet) bufSize() {
	fd, ok := fs.funcs["readAnsiInputs"]
	if !ok {
		fs.add("bufsize", "missing")
		return
	}
	ast.Inspect(fd.Body, func(x ast.Node) bool {
		if vs, ok := x.(*ast.ValueSpec); ok && len(vs.Names) == 1 && len(fs.lists["bufsize"]) == 0 {
			if at, ok := vs.Type.(*ast.ArrayType); ok && at.Len != nil && fs.text(at.Elt) == "byte" {
				fs.add("bufsize", fs.text(at.Len))
			}
		}
		return true
	})
}

// regexps: every package-level `regexp.MustCompile(...)` with its name and pattern (the input model
// spells out what these two expressions match; a bounded repetition or a changed class is a
// different decoder).
func (fs *factSet) regexps() {
	for _, f := range fs.files {
		for _, d := range f.Decls {
			gd, ok := d.(*ast.GenDecl)
			if !ok || gd.Tok != token.VAR {
				continue
			}
			for _, sp := range gd.Specs {
				vs, ok := sp.(*ast.ValueSpec)
				if !ok {
					continue
				}
				for i, v := range vs.Values {
					if c, ok := v.(*ast.CallExpr); ok && fs.text(c.Fun) == "regexp.MustCompile" && i < len(vs.Names) && len(c.Args) == 1 {
						fs.add("regexps", vs.Names[i].Name+"|"+fs.text(c.Args[0]))
					}
				}
			}
		}
	}
	sort.Strings(fs.lists["regexps"])
}

// methodSet: the names of the methods declared on a type, sorted.
func (fs *factSet) methodSet(typ string) {
	var ms []string
	for name := range fs.funcs {
		if strings.HasPrefix(name, typ+".") {
			ms = append(ms, strings.TrimPrefix(name, typ+"."))
		}
	}
	sort.Strings(ms)
	for _, m := range ms {
		fs.add("methods."+typ, m)
	}
}

func collectFacts(dir string) (*factSet, error) {
	fs, err := loadFacts(dir)
	if err != nil {
		return nil, err
	}
	fs.findHelpers()
	fs.channelOps()
	fs.callSites()
	fs.goStmts()
	fs.ctxChecks()
	fs.eventLoopShape()
	for _, fn := range []string{"Program.shutdown", "Program.restoreTerminalState", "Program.ReleaseTerminal", "Program.RestoreTerminal",
		"Program.exec", "Program.Run", "Program.initTerminal", "Program.disableMouse", "Program.recoverFromPanic",
		"standardRenderer.stop", "standardRenderer.kill", "standardRenderer.start", "standardRenderer.listen"} {
		fs.callOrder("order."+fn, fn)
	}
	fs.smallBodies("Every", "Tick", "Batch", "Sequence", "Program.Send", "Program.Quit", "Program.Kill", "Program.Wait",
		"Program.Println", "Program.Printf", "newRenderer", "standardRenderer.write", "standardRenderer.repaint",
		"Program.readLoop", "Program.waitForReadLoop", "Program.checkResize", "Program.listenForResize", "channelHandlers.shutdown",
		"WithFilter", "WithFPS", "detectReportFocus", "Program.handleSignals", "Program.handleCommands", "Program.handleResize",
		"Program.initCancelReader", "standardRenderer.listen", "standardRenderer.start", "standardRenderer.handleMessages",
		"Program.initInput", "Program.restoreInput", "Program.suspend", "standardRenderer.halt",
		"Exec", "ExecProcess", "wrapExecCommand", "osExecCommand.SetStdin", "osExecCommand.SetStdout", "osExecCommand.SetStderr",
		// the functions the Lean models mirror statement by statement (round 13: a threshold added to
		// one of them - `if n > 32`, a timeout, a size limit - is a regime the model does not have; the
		// behavioural ties see it only if a generator happens to cross the number, the body fact always)
		"standardRenderer.render", "standardRenderer.flush", "standardRenderer.stop", "standardRenderer.kill",
		"standardRenderer.clearScreen", "standardRenderer.enterAltScreen", "standardRenderer.exitAltScreen",
		"readAnsiInputs", "detectOneMsg", "detectSequence", "detectBracketedPaste", "isIncompleteEvent",
		"parseSGRMouseEvent", "parseX10MouseEvent", "parseMouseButton", "Key.String")
	// ancillary functions: small, outside the models' statement-by-statement mirrors, but each one decides
	// something a model takes for granted (what a fresh Program consists of, which start-up option sets which
	// bit, which message a mode command carries, that the renderer of WithoutRenderer does nothing, how the
	// input is opened and wrapped, what the panic handler does). Round 15 missed two changes that lived
	// entirely in such functions; since round 16 their normalised text is a fact of the properties that rest on them.
	fs.smallBodies(ancillaryFuncs...)
	fs.bodiesOfType("nilRenderer")
	fs.signature("Program.Run")
	// the method set of the wrapper ExecProcess hands to exec: Run (and everything else) must be
	// os/exec's own, promoted from the embedded *exec.Cmd; only the three Set… methods are the library's
	fs.methodSet("osExecCommand")
	fs.regexps()
	fs.bufSize()
	fs.lockDiscipline()
	fs.sendCalls()
	return fs, nil
}

// sendCalls: every call of p.Send in the package (who forwards what into the message channel,
// and whether from a goroutine). The pipeline model assumes that EVERY message a command,
// sequence element, signal or helper produces is forwarded with Send, i.e. passes the event
// loop (and so the filter) like any other message.
func (fs *factSet) sendCalls() {
	for name, fd := range fs.funcs {
		var walk func(n ast.Node, inGo bool)
		walk = func(n ast.Node, inGo bool) {
			ast.Inspect(n, func(x ast.Node) bool {
				switch v := x.(type) {
				case *ast.GoStmt:
					walk(v.Call, true)
					return false
				case *ast.CallExpr:
					if fs.text(v.Fun) == "p.Send" && len(v.Args) == 1 {
						fs.add("sendcalls", fmt.Sprintf("%s|%s|go=%t", name, fs.text(v.Args[0]), inGo))
					}
				}
				return true
			})
		}
		walk(fd.Body, false)
	}
	sort.Strings(fs.lists["sendcalls"])
}

// lockDiscipline: for every method of standardRenderer, in source order, the
// mutex operations and the writes to the terminal. The renderer model treats
// each method as ONE atomic step (write / flush / the mode methods exclude one
// another); that is an assumption about this inventory.
func (fs *factSet) lockDiscipline() {
	known := knownFuncs()
	isNew := func(full string) bool { return known != nil && !known[full] }
	var names []string
	for name := range fs.funcs {
		if strings.HasPrefix(name, "standardRenderer.") {
			names = append(names, name)
		}
	}
	sort.Strings(names)
	// events of a function; helpers added since the expectations were frozen are spliced in at
	// their call sites (their deferred unlock happens when they return, i.e. right there)
	var events func(name string, depth int) []string
	events = func(name string, depth int) []string {
		var ev, deferred []string
		inDefer := map[ast.Node]bool{}
		ast.Inspect(fs.funcs[name].Body, func(x ast.Node) bool {
			switch v := x.(type) {
			case *ast.DeferStmt:
				inDefer[v.Call] = true
			case *ast.CallExpr:
				t := fs.text(v.Fun)
				pre := ""
				if inDefer[v] {
					pre = "defer "
				}
				if strings.HasPrefix(t, "r.") && depth < 4 {
					if callee := "standardRenderer." + strings.TrimPrefix(t, "r."); fs.funcs[callee] != nil && isNew(callee) {
						ev = append(ev, events(callee, depth+1)...)
						return true
					}
				}
				switch {
				case strings.HasSuffix(t, "mtx.Lock"), strings.HasSuffix(t, "mtx.Unlock"):
					op := t[strings.LastIndex(t, ".")+1:]
					if depth > 0 && pre != "" {
						deferred = append([]string{op}, deferred...) // runs when the helper returns
					} else {
						ev = append(ev, pre+op)
					}
				case t == "r.out.Write", t == "r.execute", t == "io.WriteString", t == "r.flush", t == "r.buf.Reset", t == "r.buf.WriteString":
					ev = append(ev, pre+t)
				}
			}
			return true
		})
		return append(ev, deferred...)
	}
	for _, name := range names {
		if isNew(name) {
			continue // spliced into its callers
		}
		if ev := events(name, 0); len(ev) > 0 {
			fs.add("locks", strings.TrimPrefix(name, "standardRenderer.")+"|"+strings.Join(ev, ";"))
		}
	}
}

func factDefName(k string) string {
	r := strings.NewReplacer(".", "_", " ", "_", "*", "", "-", "_")
	return "fact_" + r.Replace(k)
}

func genFacts() []byte {
	return genFactsNS("Tea.Gen", "-- GENERATED by `harness gen` (go/ast fact extractor) from /repo's working tree. Do not edit.\n")
}

func genFactsNS(ns, header string) []byte {
	fs, err := collectFacts(repoDir())
	var b bytes.Buffer
	b.WriteString(header)
	fmt.Fprintf(&b, "namespace %s\n\n", ns)
	if err != nil {
		fmt.Fprintf(&b, "def factsError : String := %s\n", leanString(err.Error()))
		fs = &factSet{lists: map[string][]string{}}
	}
	keys := make([]string, 0, len(fs.lists))
	for k := range fs.lists {
		keys = append(keys, k)
		if !strings.HasPrefix(k, "order.") && !strings.HasPrefix(k, "el.") {
			sort.Strings(fs.lists[k]) // inventories are sets; call orders keep source order
		}
	}
	sort.Strings(keys)
	for _, k := range keys {
		vals := fs.lists[k]
		parts := make([]string, len(vals))
		for j, v := range vals {
			parts[j] = "    " + leanString(v)
		}
		fmt.Fprintf(&b, "def %s : List String := [\n%s]\n\n", factDefName(k), strings.Join(parts, ",\n"))
	}
	fmt.Fprintf(&b, "end %s\n", ns)
	return b.Bytes()
}

func init() {
	genExtra["Tea/Gen/Facts.lean"] = genFacts
}

// cmdFreezeFacts writes the frozen expectation Tea/Doc/Facts.lean from the tree
// as it is now. Run by hand after a change of the code has been reviewed and
// the models/theorems follow it; never by a check.
func cmdFreezeFacts() int {
	b := genFactsNS("Tea.Doc", "-- FROZEN expectation of the facts extracted from the source (written by `harness freeze-facts`\n-- after the models were brought in line with the code; kept by hand). The specification side of the bridge.\n")
	if err := os.WriteFile(filepath.Join(verifDir(), "lean", "Tea", "Doc", "Facts.lean"), b, 0o644); err != nil {
		fmt.Fprintln(os.Stderr, err)
		return 1
	}
	// the functions that exist now (helpers extracted later are folded into their callers)
	if fs, err := loadFacts(repoDir()); err == nil {
		var names []string
		for n := range fs.funcs {
			names = append(names, n)
		}
		sort.Strings(names)
		jb, _ := json.MarshalIndent(names, "", " ")
		if err := os.WriteFile(filepath.Join(verifDir(), "doc", "funcs.json"), jb, 0o644); err != nil {
			fmt.Fprintln(os.Stderr, err)
			return 1
		}
	}
	return 0
}

// cmdFacts prints the facts (for inspection and for freezing the expectation).
func cmdFacts() int {
	os.Stdout.Write(genFacts())
	return 0
}
