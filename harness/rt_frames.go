package main

// `frames` scenario (C19, real time): however fast the view changes, the renderer writes at most one
// frame per frame interval (an upper bound: a busy machine only makes it write fewer), and an
// unchanged view writes nothing at all.

import (
	"fmt"
	"strings"
	"sync/atomic"
	"time"

	tea "github.com/charmbracelet/bubbletea"
)

func init() { scenarios["frames"] = scenFrames }

func scenFrames(out *scenOut, r *rng, thorough bool) {
	out.Rule = "real programs at fps in {5, 20, 60, 0 (= default 60), 500 (clamped to 120)} whose view changes every millisecond for about a second, then stays constant: writes to the output are counted; distinct = fps"
	quietStdio()
	for _, fps := range []int{5, 20, 60, 0, 500} {
		framesOnce(out, fps)
	}
	for _, fps := range []int{5, 20} {
		framesWithModeTraffic(out, fps)
	}
	framesAfterIdle(out, 20)
}

func framesOnce(out *scenOut, fps int) {
	ctl := newRecCtl()
	buf := &safeBuffer{}
	var lastUps int64
	ctl.viewOf = func(version, ups int) string {
		atomic.StoreInt64(&lastUps, int64(ups))
		return fmt.Sprintf("tick %d\nsecond line\n", ups)
	}
	run := startProgram(ctl, buf, tea.WithInput(nil), tea.WithoutSignalHandler(), tea.WithFPS(fps))
	eff := fps
	if eff < 1 {
		eff = 60
	}
	if eff > 120 {
		eff = 120
	}
	desc := fmt.Sprintf("WithFPS(%d): the view changes every millisecond for 1 s, then stays constant for 0.3 s", fps)
	run.p.Send(tea.WindowSizeMsg{Width: 40, Height: 10})
	waitFor(2*time.Second, func() bool { return ctl.log.has("view-exit", "") })
	time.Sleep(30 * time.Millisecond)
	buf.mu.Lock()
	w0 := buf.writes
	buf.mu.Unlock()
	t0 := time.Now()
	for time.Since(t0) < time.Second {
		run.p.Send(userMsg{0, 0})
		time.Sleep(time.Millisecond)
	}
	elapsed := time.Since(t0)
	// the last pending frame goes out (wait until the count of the last Update is on the screen)
	time.Sleep(5 * time.Millisecond)
	last := fmt.Sprintf("tick %d", atomic.LoadInt64(&lastUps))
	waitFor(3*time.Second, func() bool { return strings.Contains(buf.String(), last) })
	time.Sleep(2*time.Second/time.Duration(eff) + 20*time.Millisecond)
	buf.mu.Lock()
	w1 := buf.writes
	buf.mu.Unlock()
	// constant view: nothing more is written
	time.Sleep(300 * time.Millisecond)
	buf.mu.Lock()
	w2 := buf.writes
	buf.mu.Unlock()
	run.p.Quit()
	run.wait(4 * time.Second)
	out.record(fmt.Sprintf("frames/%d", fps), desc)
	// one write per flush; allow the frames of the two partial intervals at the ends and one of slack
	limit := int(elapsed.Seconds()*float64(eff)+2*float64(eff)/float64(eff)) + 3 + int(float64(eff)*0.07)
	if n := w1 - w0; n > limit {
		out.fail(finding{Property: "C19", Class: "new", What: "more than one render per frame interval", Input: desc,
			Expected: fmt.Sprintf("at most %d writes in %v at %d fps", limit, elapsed.Round(time.Millisecond), eff), Observed: fmt.Sprint(n)})
	}
	if w2 != w1 {
		out.fail(finding{Property: "C19", Class: "new", What: "an unchanged view wrote output", Input: desc, Expected: "0 writes while the view is constant", Observed: fmt.Sprint(w2 - w1)})
	}
}

// paintCounter counts the writes that carry view content (the marker), as opposed to the short
// control sequences the mode commands write on their own.
type paintCounter struct {
	safeBuffer
	marker string
	paints int64
}

func (s *paintCounter) Write(p []byte) (int, error) {
	if strings.Contains(string(p), s.marker) {
		atomic.AddInt64(&s.paints, 1)
	}
	return s.safeBuffer.Write(p)
}

// framesWithModeTraffic: the view changes every millisecond WHILE the program switches between the
// main and the alt screen and issues other mode commands every few milliseconds (no prints): the view
// is still painted by the ticker only - at most one painting write per frame interval
// (C19_renders_only_at_ticks: a history without prints paints at flushes and at stop only).
func framesWithModeTraffic(out *scenOut, fps int) {
	ctl := newRecCtl()
	buf := &paintCounter{marker: "tick "}
	ctl.viewOf = func(version, ups int) string { return fmt.Sprintf("tick %d\nsecond line\n", ups) }
	run := startProgram(ctl, &buf.safeBuffer, tea.WithOutput(buf), tea.WithInput(nil), tea.WithoutSignalHandler(), tea.WithFPS(fps))
	desc := fmt.Sprintf("WithFPS(%d): the view changes every millisecond for 1 s while EnterAltScreen / ExitAltScreen / HideCursor / ShowCursor / EnableMouseCellMotion / DisableMouse / ClearScreen arrive every 3 ms (no prints)", fps)
	run.p.Send(tea.WindowSizeMsg{Width: 40, Height: 10})
	waitFor(2*time.Second, func() bool { return ctl.log.has("view-exit", "") })
	time.Sleep(30 * time.Millisecond)
	p0 := atomic.LoadInt64(&buf.paints)
	cmds := []func() tea.Msg{tea.EnterAltScreen, tea.HideCursor, tea.EnableMouseCellMotion, tea.ExitAltScreen, tea.ShowCursor, tea.DisableMouse, tea.ClearScreen}
	t0 := time.Now()
	for i := 0; time.Since(t0) < time.Second; i++ {
		run.p.Send(userMsg{0, 0})
		if i%3 == 0 {
			run.p.Send(cmds[(i/3)%len(cmds)]())
		}
		time.Sleep(time.Millisecond)
	}
	elapsed := time.Since(t0)
	n := atomic.LoadInt64(&buf.paints) - p0
	run.p.Quit()
	run.wait(4 * time.Second)
	out.record(fmt.Sprintf("frames-mode-traffic/%d", fps), desc)
	limit := int(elapsed.Seconds()*float64(fps)) + 4 + int(float64(fps)*0.07)
	if int(n) > limit {
		out.fail(finding{Property: "C19", Class: "new", What: "more than one render per frame interval (the view was painted outside the frame ticker while mode commands were handled)", Input: desc,
			Expected: fmt.Sprintf("at most %d painting writes in %v at %d fps", limit, elapsed.Round(time.Millisecond), fps), Observed: fmt.Sprint(n)})
	}
}

// framesAfterIdle: the view is constant for 1.4 s (longer than any plausible "idle" threshold), then
// changes every millisecond for half a second: the frame-rate bound holds after a quiet spell as
// it does from the start.
func framesAfterIdle(out *scenOut, fps int) {
	ctl := newRecCtl()
	buf := &paintCounter{marker: "tick "}
	ctl.viewOf = func(version, ups int) string { return fmt.Sprintf("tick %d\nsecond line\n", ups) }
	run := startProgram(ctl, &buf.safeBuffer, tea.WithOutput(buf), tea.WithInput(nil), tea.WithoutSignalHandler(), tea.WithFPS(fps))
	desc := fmt.Sprintf("WithFPS(%d): a constant view for 1.4 s, then the view changes every millisecond for 0.5 s", fps)
	run.p.Send(tea.WindowSizeMsg{Width: 40, Height: 10})
	waitFor(2*time.Second, func() bool { return ctl.log.has("view-exit", "") })
	time.Sleep(1400 * time.Millisecond)
	p0 := atomic.LoadInt64(&buf.paints)
	t0 := time.Now()
	for time.Since(t0) < 500*time.Millisecond {
		run.p.Send(userMsg{0, 0})
		time.Sleep(time.Millisecond)
	}
	elapsed := time.Since(t0)
	n := atomic.LoadInt64(&buf.paints) - p0
	run.p.Quit()
	run.wait(4 * time.Second)
	out.record(fmt.Sprintf("frames-after-idle/%d", fps), desc)
	limit := int(elapsed.Seconds()*float64(fps)) + 4
	if int(n) > limit {
		out.fail(finding{Property: "C19", Class: "new", What: "more than one render per frame interval (after a quiet spell)", Input: desc,
			Expected: fmt.Sprintf("at most %d painting writes in %v at %d fps", limit, elapsed.Round(time.Millisecond), fps), Observed: fmt.Sprint(n)})
	}
}
