package main

import (
	"bufio"
	"encoding/hex"
	"encoding/json"
	"fmt"
	"os"
	"path/filepath"
	"sort"
	"strings"
)

func hexOf(b []byte) string {
	if len(b) == 0 {
		return "-"
	}
	return hex.EncodeToString(b)
}

func unhex(s string) ([]byte, error) {
	if s == "-" {
		return nil, nil
	}
	return hex.DecodeString(s)
}

// corrOut collects the files one correspondence stream writes.
type corrOut struct {
	dir    string
	stream string
	ops    *bufio.Writer
	impl   *bufio.Writer
	files  []*os.File
	// statistics
	count    int
	hist     map[string]int
	distinct map[string]struct{}
	samples  []string
	findings []finding
	// scope: the properties whose quantifier domain the lines emitted from now on lie in
	// ("" = every property that uses the stream); written line by line to <stream>.scope
	scope  string
	scopeW *bufio.Writer
}

// finding is a property failure observed directly on the implementation.
type finding struct {
	Property string `json:"property"`
	Class    string `json:"class"` // known-finding class or "new"
	What     string `json:"what"`
	Input    string `json:"input"`
	Expected string `json:"expected"`
	Observed string `json:"observed"`
	Stream   string `json:"stream"`
}

func newCorrOut(dir, stream string) (*corrOut, error) {
	if err := os.MkdirAll(dir, 0o755); err != nil {
		return nil, err
	}
	c := &corrOut{dir: dir, stream: stream, hist: map[string]int{}, distinct: map[string]struct{}{}}
	for _, suffix := range []string{"ops", "impl", "scope"} {
		f, err := os.Create(filepath.Join(dir, stream+"."+suffix))
		if err != nil {
			return nil, err
		}
		c.files = append(c.files, f)
		w := bufio.NewWriterSize(f, 1<<20)
		switch suffix {
		case "ops":
			c.ops = w
		case "impl":
			c.impl = w
		default:
			c.scopeW = w
		}
	}
	return c, nil
}

// emit records one operation line and the implementation's answer.
func (c *corrOut) emit(op, impl, bucket string) {
	if strings.ContainsAny(op, "\n\r") || strings.ContainsAny(impl, "\n\r") {
		panic("newline in protocol line: " + op + " / " + impl)
	}
	fmt.Fprintln(c.ops, op)
	fmt.Fprintln(c.impl, impl)
	if c.scope == "" {
		fmt.Fprintln(c.scopeW, "*")
	} else {
		fmt.Fprintln(c.scopeW, c.scope)
	}
	c.count++
	c.hist[bucket]++
	if bucket != "trivial" {
		c.distinct[op] = struct{}{}
	}
	if len(c.samples) < 8 && (c.count%97 == 1) {
		c.samples = append(c.samples, op+" => "+impl)
	}
}

func (c *corrOut) addFinding(f finding) {
	f.Stream = c.stream
	if len(c.findings) < 200 {
		c.findings = append(c.findings, f)
	}
}

func (c *corrOut) close(extra map[string]interface{}) error {
	c.ops.Flush()
	c.impl.Flush()
	c.scopeW.Flush()
	for _, f := range c.files {
		f.Close()
	}
	keys := make([]string, 0, len(c.hist))
	for k := range c.hist {
		keys = append(keys, k)
	}
	sort.Strings(keys)
	stats := map[string]interface{}{
		"stream":              c.stream,
		"evaluations":         c.count,
		"distinct_nontrivial": len(c.distinct),
		"histogram":           c.hist,
		"samples":             c.samples,
		"findings":            c.findings,
	}
	for k, v := range extra {
		stats[k] = v
	}
	b, _ := json.MarshalIndent(stats, "", " ")
	return os.WriteFile(filepath.Join(c.dir, c.stream+".stats.json"), b, 0o644)
}
