package main

// The `glue` stream: start-up options x mode-command histories x exit kinds on
// a real Program; the sequence of DECSET/DECRST it writes is compared with the
// Lean model of the program glue (Tea/Render/Program.lean).

import (
	"context"
	"fmt"
	"regexp"
	"strings"
	"time"

	tea "github.com/charmbracelet/bubbletea"
)

var decModeRe = regexp.MustCompile(`\x1b\[\?(\d+)([hl])`)

func modeSeq(out string) string {
	var parts []string
	for _, m := range decModeRe.FindAllStringSubmatch(out, -1) {
		parts = append(parts, m[1]+m[2])
	}
	return strings.Join(parts, " ")
}

var glueCmdNames = []string{"enterAlt", "exitAlt", "mouseCell", "mouseAll", "disableMouse", "paste", "noPaste", "focus", "noFocus", "show", "hide", "clear"}

func glueRun(bits int, exit string, hist []int) string {
	quietStdio()
	o := modeOpts{alt: bits&1 != 0, cell: bits&2 != 0, all: bits&4 != 0, nopaste: bits&8 != 0, focus: bits&16 != 0}
	if o.cell && o.all {
		o.cell = false // the later option (all motion) replaces the earlier one in options.go
	}
	ctl := newRecCtl()
	buf := &safeBuffer{}
	parent, cancel := context.WithCancel(context.Background())
	defer cancel()
	opts := append(o.options(), tea.WithoutSignalHandler(), tea.WithInput(nil), tea.WithContext(parent))
	run := startProgram(ctl, buf, opts...)
	if !waitFor(3*time.Second, func() bool { return ctl.log.has("view-exit", "") }) {
		return "did-not-start"
	}
	for _, i := range hist {
		run.p.Send(modeCmds[i].msg())
	}
	run.p.Send(userMsg{0, 0})
	waitFor(2*time.Second, func() bool { return ctl.log.has("update-exit", "u0.0") })
	switch exit {
	case "quit":
		run.p.Quit()
	case "ctx":
		cancel()
	case "kill":
		killNow(run.p)
	}
	if !run.wait(5 * time.Second) {
		return "hang"
	}
	time.Sleep(12 * time.Millisecond)
	if exit == "kill" {
		t := newVterm(80, 24)
		t.write([]byte(buf.String()))
		return "final " + vtModes(t)
	}
	return modeSeq(buf.String())
}

func streamGlue(c *corrOut, r *rng, n int, thorough bool) map[string]interface{} {
	exits := []string{"quit", "ctx", "kill"}
	emit := func(bits int, exit string, hist []int) {
		names := make([]string, len(hist))
		for i, h := range hist {
			names[i] = glueCmdNames[h]
		}
		op := fmt.Sprintf("%d %s %s", bits, exit, strings.Join(names, " "))
		c.emit(strings.TrimSpace(op), glueRun(bits, exit, hist), exit)
	}
	for bits := 0; bits < 32; bits++ {
		for _, e := range exits {
			k := r.intn(9)
			hist := make([]int, k)
			for i := range hist {
				hist[i] = r.intn(len(glueCmdNames))
			}
			emit(bits, e, hist)
		}
	}
	for c.count < n {
		k := r.intn(14)
		hist := make([]int, k)
		for i := range hist {
			hist[i] = r.intn(len(glueCmdNames))
		}
		emit(r.intn(32), exits[r.intn(3)], hist)
	}
	return nil
}

func init() {
	streams["glue"] = streamGlue
}
