package main

// The `ptrace` stream: real runs of a recording program are abstracted to a
// label sequence of the Pipeline LTS (Tea/Runtime/Pipeline.lean); the Lean
// driver replays the labels on the model. The implementation's behaviour must
// be a run of the model with the same Update log and the same final model.

import (
	"fmt"
	"sort"
	"strings"
	"sync"
	"sync/atomic"
	"time"

	tea "github.com/charmbracelet/bubbletea"
)

func init() { streams["ptrace"] = streamPTrace }

type traceCmd struct {
	id     int
	result string // "res" | "nil" | "batch"
	parts  []int  // command ids of a batch result (0 = nil entry)
}

func tokenOf(name string) string {
	switch {
	case strings.HasPrefix(name, "u"):
		return name
	case strings.HasPrefix(name, "c:"):
		return "r" + name[2:]
	case name == "quit":
		return "q"
	case strings.HasPrefix(name, "batch"):
		return "b"
	}
	return "o"
}

func streamPTrace(c *corrOut, r *rng, n int, thorough bool) map[string]interface{} {
	quietStdio()
	for c.count < n {
		op, impl := ptraceOnce(r.fork())
		if op != "" {
			c.emit(op, impl, "trace")
		}
	}
	return nil
}

func ptraceOnce(r *rng) (string, string) {
	ns := r.rangeIn(1, 4)
	nm := r.rangeIn(1, 6)
	withInit := r.chance(1, 3)
	ctl := newRecCtl()
	// the program: which command each user message's Update returns
	var mu sync.Mutex
	cmds := map[int]*traceCmd{}
	nextID := 1
	newCmd := func(depth int) *traceCmd {
		var mk func(depth int) *traceCmd
		mk = func(depth int) *traceCmd {
			tc := &traceCmd{id: nextID}
			nextID++
			cmds[tc.id] = tc
			k := r.intn(6)
			switch {
			case k == 0:
				tc.result = "nil"
			case k == 1 && depth > 0:
				tc.result = "batch"
				for j := r.rangeIn(1, 3); j > 0; j-- {
					if r.chance(1, 4) {
						tc.parts = append(tc.parts, 0)
					} else {
						tc.parts = append(tc.parts, mk(depth-1).id)
					}
				}
			default:
				tc.result = "res"
			}
			return tc
		}
		return mk(depth)
	}
	updTable := map[string]int{} // message token -> command id (0 = nil)
	for s := 0; s < ns; s++ {
		for k := 0; k < nm; k++ {
			tok := fmt.Sprintf("u%d.%d", s, k)
			if r.chance(1, 2) {
				updTable[tok] = newCmd(2).id
			} else {
				updTable[tok] = 0
			}
		}
	}
	initID := 0
	if withInit {
		initID = newCmd(1).id
	}
	var build func(id int) tea.Cmd
	build = func(id int) tea.Cmd {
		if id == 0 {
			return nil
		}
		tc := cmds[id]
		return func() tea.Msg {
			ctl.log.add("cmd-start", fmt.Sprint(tc.id))
			switch tc.result {
			case "nil":
				return nil
			case "batch":
				b := make(tea.BatchMsg, len(tc.parts))
				for i, p := range tc.parts {
					b[i] = build(p)
				}
				return registerBatch(b, tc.id)
			}
			return cmdMsg{fmt.Sprint(tc.id)}
		}
	}
	ctl.initCmd = build(initID)
	ctl.onUpdate = func(m tea.Msg, v int) tea.Cmd {
		mu.Lock()
		defer mu.Unlock()
		return build(updTable[tokenOf(msgName(m))])
	}
	// a BatchMsg does not say which command produced it: remember it by length+identity
	run := startProgram(ctl, nil, tea.WithInput(nil), tea.WithoutSignalHandler(), loggingFilter(ctl, nil))
	var wg sync.WaitGroup
	for s := 0; s < ns; s++ {
		wg.Add(1)
		go func(s int) {
			defer wg.Done()
			for k := 0; k < nm; k++ {
				run.p.Send(userMsg{s, k})
			}
		}(s)
	}
	wg.Wait()
	// wait for every command result to arrive, then quit
	expectRes := 0
	var countRes func(id int)
	countRes = func(id int) {
		if id == 0 {
			return
		}
		tc := cmds[id]
		switch tc.result {
		case "res":
			expectRes++
		case "batch":
			for _, p := range tc.parts {
				countRes(p)
			}
		}
	}
	for _, id := range updTable {
		countRes(id)
	}
	countRes(initID)
	waitFor(5*time.Second, func() bool { return ctl.log.count("update-exit", "c:") >= expectRes })
	time.Sleep(2 * time.Millisecond)
	run.p.Quit()
	if !run.wait(5 * time.Second) {
		return "", ""
	}
	// ---- abstraction: event log -> labels ------------------------------------
	evs := ctl.log.snapshot()
	var labels []string
	senderIdx := map[string]int{} // "u<s>" -> s ; "cmd<id>" -> spawned index
	next := ns + 1                // index ns is the quitter
	spawn := func(id int) {
		if id != 0 {
			senderIdx[fmt.Sprintf("cmd%d", id)] = next
			next++
		}
	}
	initDone := !withInit
	elIdxOfMsg := func(name string) (int, bool) {
		var s, k int
		if n, _ := fmt.Sscanf(name, "u%d.%d", &s, &k); n == 2 {
			return s, true
		}
		if strings.HasPrefix(name, "c:") {
			var id int
			fmt.Sscanf(name[2:], "%d", &id)
			i, ok := senderIdx[fmt.Sprintf("cmd%d", id)]
			return i, ok
		}
		if name == "quit" {
			return ns, true
		}
		return 0, false
	}
	ok := true
	for _, e := range evs {
		switch e.Kind {
		case "cmd-start":
			var id int
			fmt.Sscanf(e.Arg, "%d", &id)
			if id == initID && !initDone {
				// the Init hand-over happened before its command could start
				labels = append(labels, "initHandOver")
				spawn(id)
				initDone = true
			}
			i, found := senderIdx[fmt.Sprintf("cmd%d", id)]
			if !found {
				ok = false
				labels = append(labels, fmt.Sprintf("cmdRun 999 # command %d started without a hand-over", id))
				continue
			}
			labels = append(labels, fmt.Sprintf("cmdRun %d", i))
		case "filter-exit":
			name := e.Arg
			if name == "nil" {
				continue // a nil result: sends nothing in the model
			}
			if strings.HasPrefix(name, "batchof:") {
				var id int
				fmt.Sscanf(name[len("batchof:"):], "%d", &id)
				i, found := senderIdx[fmt.Sprintf("cmd%d", id)]
				if !found {
					ok = false
					continue
				}
				labels = append(labels, fmt.Sprintf("sendStart %d", i), fmt.Sprintf("process %d", i))
				for _, p := range cmds[id].parts {
					labels = append(labels, "batchNext")
					spawn(p)
				}
				labels = append(labels, "batchDone")
				continue
			}
			if name == "quit" {
				labels = append(labels, fmt.Sprintf("sendStart %d", ns), fmt.Sprintf("process %d", ns))
			}
		case "update-exit":
			name := e.Arg
			i, found := elIdxOfMsg(name)
			if !found {
				ok = false
				continue
			}
			labels = append(labels, fmt.Sprintf("sendStart %d", i), fmt.Sprintf("process %d", i), "cmdHandOver")
			mu.Lock()
			spawn(updTable[tokenOf(name)])
			mu.Unlock()
		}
	}
	if !initDone {
		// the Init command never started: it was handed over late or not at all
		labels = append(labels, "initHandOver")
		spawn(initID)
	}
	// ---- the op line -----------------------------------------------------------
	var sb strings.Builder
	fmt.Fprintf(&sb, "senders %d %d init %d | upd", ns, nm, initID)
	keys := make([]string, 0, len(updTable))
	for k := range updTable {
		keys = append(keys, k)
	}
	sort.Strings(keys)
	for _, k := range keys {
		fmt.Fprintf(&sb, " %s=%d", k, updTable[k])
	}
	sb.WriteString(" | cmds")
	ids := make([]int, 0, len(cmds))
	for id := range cmds {
		ids = append(ids, id)
	}
	sort.Ints(ids)
	for _, id := range ids {
		tc := cmds[id]
		switch tc.result {
		case "res":
			fmt.Fprintf(&sb, " %d=r", id)
		case "nil":
			fmt.Fprintf(&sb, " %d=n", id)
		case "batch":
			ps := make([]string, len(tc.parts))
			for i, p := range tc.parts {
				ps[i] = fmt.Sprint(p)
			}
			fmt.Fprintf(&sb, " %d=b%s", id, strings.Join(ps, ","))
		}
	}
	sb.WriteString(" | labels ")
	sb.WriteString(strings.Join(labels, ";"))
	// ---- what the implementation did ---------------------------------------------
	var ups []string
	for _, u := range updatesOf(evs) {
		ups = append(ups, tokenOf(u))
	}
	versions := atomic.LoadInt32(&ctl.versions)
	impl := fmt.Sprintf("accepted upd=[%s] model=%d exit=quit", strings.Join(ups, " "), versions)
	if !ok {
		impl += " (abstraction incomplete)"
	}
	return sb.String(), impl
}

// batchIDs lets the log say which command produced a BatchMsg (the slice's
// address identifies it; ptrace never builds empty batches).
var batchIDs sync.Map

func registerBatch(b tea.BatchMsg, id int) tea.Msg {
	batchIDs.Store(fmt.Sprintf("%p", []tea.Cmd(b)), id)
	return b
}
