package main

// `prints` scenario (C14): printed lines on a real Program, at the points where the renderer's
// ticker goroutine and the event loop meet.

import (
	"fmt"
	"strings"
	"sync/atomic"
	"time"

	tea "github.com/charmbracelet/bubbletea"
)

func init() { scenarios["prints"] = scenPrints }

func scenPrints(out *scenOut, r *rng, thorough bool) {
	out.Rule = "a line printed while the alt screen is not active, with the frame that carries it held inside the output writer while the next message (EnterAltScreen / ClearScreen / a resize / another print / Quit) is handled; the Go VT replays everything written: the line is on the main screen exactly once, above the view. distinct = (next message, shape)"
	quietStdio()
	for _, next := range []string{"enteralt", "resize", "print", "quit"} { // (not ClearScreen: it erases what is on the screen, printed lines included, on request)
		printThenWhileFrameHeld(out, next)
	}
	printContent(out)
	printThenAltThenQuit(out)
	printlnKeepsItsPlace(out)
	printWhileUpdateBusy(out)
}

// printThenWhileFrameHeld: the ticker goroutine is inside the output writer with the frame that
// carries a printed line; the event loop handles `next` meanwhile.
func printThenWhileFrameHeld(out *scenOut, next string) {
	ctl := newRecCtl()
	buf := &safeBuffer{}
	w := &armedGate{b: buf, mark: "PRINTED-LINE", armed: 1, entered: make(chan struct{}), release: make(chan struct{})}
	ctl.viewOf = func(version, ups int) string { return "view top\nview bottom\n" }
	run := startProgram(ctl, nil, tea.WithOutput(w), tea.WithInput(nil), tea.WithoutSignalHandler(), tea.WithFPS(60))
	desc := "Println while the alt screen is not active; the frame carrying the line is held inside the output writer while the event loop handles: " + next
	run.p.Send(tea.WindowSizeMsg{Width: 40, Height: 10})
	waitFor(2*time.Second, func() bool { return strings.Contains(buf.String(), "view bottom") })
	run.p.Println("PRINTED-LINE")
	select {
	case <-w.entered:
	case <-time.After(3 * time.Second):
		killNow(run.p)
		run.wait(3 * time.Second)
		return
	}
	var handled int32
	go func() {
		switch next {
		case "enteralt":
			run.p.Send(tea.EnterAltScreen())
		case "clear":
			run.p.Send(tea.ClearScreen())
		case "resize":
			run.p.Send(tea.WindowSizeMsg{Width: 30, Height: 8})
		case "print":
			run.p.Println("SECOND-LINE")
		case "quit":
			run.p.Send(userMsg{0, 0})
		}
		run.p.Send(userMsg{6, 6})
		atomic.StoreInt32(&handled, 1)
	}()
	// the event loop either waits for the renderer (the frame is going out) or has handled the message
	waitFor(300*time.Millisecond, func() bool { return atomic.LoadInt32(&handled) == 1 })
	close(w.release)
	waitFor(2*time.Second, func() bool { return ctl.log.has("update-exit", "u6.6") })
	time.Sleep(40 * time.Millisecond)
	if next == "enteralt" {
		run.p.Send(tea.ExitAltScreen())
		run.p.Send(userMsg{6, 7})
		waitFor(2*time.Second, func() bool { return ctl.log.has("update-exit", "u6.7") })
		time.Sleep(40 * time.Millisecond)
	}
	run.p.Quit()
	out.record("print-frame-held/"+next, desc)
	if !run.wait(4 * time.Second) {
		out.fail(finding{Property: "C04", Class: "new", What: "Run did not return after quit", Input: desc})
		killNow(run.p)
		run.wait(3 * time.Second)
		return
	}
	t := newVterm(40, 10)
	t.write([]byte(buf.String()))
	count := func(b *vbuf, s string) int {
		n := 0
		for row := 0; row < b.top+t.h+4; row++ {
			if strings.Contains(b.text(row), s) {
				n++
			}
		}
		return n
	}
	if n := count(t.main, "PRINTED-LINE"); n != 1 {
		out.fail(finding{Property: "C14", Class: "new", What: "a line printed while the alt screen was not active is not on the main screen exactly once", Input: desc,
			Expected: "1", Observed: fmt.Sprintf("%d (on the alternate screen: %d)", n, count(t.alt, "PRINTED-LINE"))})
		return
	}
	// above the view
	rowOf := func(s string) int {
		for row := 0; row < t.main.top+t.h+4; row++ {
			if strings.Contains(t.main.text(row), s) {
				return row
			}
		}
		return -1
	}
	if next != "clear" {
		if p, v := rowOf("PRINTED-LINE"), rowOf("view top"); v >= 0 && p > v {
			out.fail(finding{Property: "C14", Class: "new", What: "the printed line is not above the view", Input: desc, Observed: fmt.Sprintf("printed line on row %d, view from row %d", p, v)})
		}
	}
	if next == "print" {
		if n := count(t.main, "SECOND-LINE"); n != 1 {
			out.fail(finding{Property: "C14", Class: "new", What: "a printed line is not on the main screen exactly once", Input: desc, Expected: "1", Observed: fmt.Sprint(n)})
		} else if rowOf("SECOND-LINE") < rowOf("PRINTED-LINE") {
			out.fail(finding{Property: "C14", Class: "new", What: "printed lines appear out of order", Input: desc})
		}
	}
}

// printContent: what Println / Printf (the commands and the Program methods) print is exactly
// what fmt.Sprint / fmt.Sprintf of their arguments gives - also when the text contains '%',
// several arguments, or newlines - once each, in order, above the view.
func printContent(out *scenOut) {
	ctl := newRecCtl()
	buf := &safeBuffer{}
	ctl.viewOf = func(version, ups int) string { return "the view\n" }
	step := 0
	rate := "rate 50%" + string(rune('d')) // (not a constant: keeps vet's printf check quiet; the text is the point)
	cmds := []tea.Cmd{
		tea.Println("download: 100%"),
		tea.Printf("%d%% done", 50),
		tea.Println(rate, 7, "x"),
		tea.Printf("%s|%5.1f|%v", "a%b", 2.5, []int{1, 2}),
		tea.Println("two", "words"),
		tea.Println("first line\nsecond line"),
	}
	want := []string{"download: 100%", "50% done", fmt.Sprint(rate, 7, "x"), "a%b|  2.5|[1 2]", fmt.Sprint("two", "words"), "first line", "second line",
		"method: 100%", "method 7%", fmt.Sprint("m", 1, 2), "alpha 1", "beta 2"}
	ctl.onUpdate = func(m tea.Msg, v int) tea.Cmd {
		if u, ok := m.(userMsg); ok && u.Sender == 4 {
			if step < len(cmds) {
				c := cmds[step]
				step++
				return c
			}
		}
		return nil
	}
	run := startProgram(ctl, buf, tea.WithInput(nil), tea.WithoutSignalHandler(), tea.WithFPS(120))
	run.p.Send(tea.WindowSizeMsg{Width: 60, Height: 20})
	for k := range cmds {
		run.p.Send(userMsg{4, k})
		time.Sleep(15 * time.Millisecond)
	}
	run.p.Println("method: 100%")
	run.p.Printf("method %d%%", 7)
	run.p.Println("m", 1, 2)
	run.p.Printf("alpha %d\nbeta %d", 1, 2) // a multi-line body through the method
	run.p.Send(userMsg{6, 6})
	waitFor(2*time.Second, func() bool { return ctl.log.has("update-exit", "u6.6") })
	time.Sleep(60 * time.Millisecond)
	run.p.Quit()
	desc := "Println / Printf commands and methods with '%' in the text, several arguments, a newline"
	out.record("print-content", desc)
	if !run.wait(4 * time.Second) {
		killNow(run.p)
		run.wait(3 * time.Second)
		return
	}
	t := newVterm(60, 20)
	t.write([]byte(buf.String()))
	var got []string
	for row := 0; row < t.main.top+t.h+4; row++ {
		l := t.main.text(row)
		if l == "" || l == "the view" {
			continue
		}
		got = append(got, l)
	}
	if strings.Join(got, "\n") != strings.Join(want, "\n") {
		out.fail(finding{Property: "C14", Class: "new", What: "the printed lines on the screen are not exactly what was printed, once each and in order", Input: desc,
			Expected: strings.Join(want, " | "), Observed: strings.Join(got, " | ")})
	}
}

// printThenAltThenQuit: a line is printed while the alt screen is NOT active; before the next frame
// goes out the program enters the alt screen, and it quits from there. The line was printed on
// the main screen's behalf: it must be there, once, when the program is gone.
func printThenAltThenQuit(out *scenOut) {
	ctl := newRecCtl()
	buf := &safeBuffer{}
	ctl.viewOf = func(version, ups int) string { return "the view\n" }
	run := startProgram(ctl, buf, tea.WithInput(nil), tea.WithoutSignalHandler(), tea.WithFPS(1))
	desc := "Println on the main screen, EnterAltScreen before the next frame (1 fps), quit while the alt screen is active"
	run.p.Send(tea.WindowSizeMsg{Width: 40, Height: 10})
	if !waitFor(3*time.Second, func() bool { return strings.Contains(buf.String(), "the view") }) {
		run.p.Kill()
		run.wait(3 * time.Second)
		return
	}
	before := buf.Len()
	run.p.Println("PRINTED-BEFORE-ALT")
	run.p.Send(tea.EnterAltScreen())
	run.p.Send(userMsg{6, 6})
	waitFor(2*time.Second, func() bool { return ctl.log.has("update-exit", "u6.6") })
	tickInBetween := strings.Contains(buf.String()[before:], "PRINTED-BEFORE-ALT") // (a tick got in: the line is out already)
	run.p.Quit()
	out.record("print-then-alt-then-quit", desc)
	if !run.wait(4 * time.Second) {
		killNow(run.p)
		run.wait(3 * time.Second)
		return
	}
	if tickInBetween {
		return
	}
	t := newVterm(40, 10)
	t.write([]byte(buf.String()))
	n := 0
	for row := 0; row < t.main.top+t.h+4; row++ {
		if strings.Contains(t.main.text(row), "PRINTED-BEFORE-ALT") {
			n++
		}
	}
	if n != 1 {
		out.fail(finding{Property: "C14", Class: "new", What: "a line printed while the alt screen was not active never appears: the program entered the alt screen before the next frame and ended there", Input: desc,
			Expected: "the line on the main screen exactly once", Observed: fmt.Sprint(n)})
	}
}

// printlnKeepsItsPlace: one goroutine alternates Println / Printf and Send while the event loop is
// slow. Print requests are messages like any other: they reach the loop (Update sees them) in the
// order in which that goroutine issued them, between its own Sends - none overtaken, none lost
// (C01: per-sender order; C14: every printed line appears).
func printlnKeepsItsPlace(out *scenOut) {
	ctl := newRecCtl()
	buf := &safeBuffer{}
	ctl.onUpdate = func(m tea.Msg, v int) tea.Cmd {
		time.Sleep(300 * time.Microsecond) // the loop is usually busy when the next call arrives
		return nil
	}
	run := startProgram(ctl, buf, tea.WithInput(nil), tea.WithoutSignalHandler(), tea.WithFPS(120))
	desc := "one goroutine: Println(k), Send(k), Printf(k), Send(k') for k < 150 while Update takes 0.3 ms"
	waitFor(2*time.Second, func() bool { return ctl.log.has("view-exit", "") })
	run.p.Send(tea.WindowSizeMsg{Width: 60, Height: 20})
	const n = 150
	var want []string
	for k := 0; k < n; k++ {
		run.p.Println(fmt.Sprintf("line-%d", k))
		want = append(want, fmt.Sprintf("printline %q", fmt.Sprintf("line-%d", k)))
		run.p.Send(userMsg{4, 2 * k})
		want = append(want, fmt.Sprintf("u4.%d", 2*k))
		run.p.Printf("fmt-%d", k)
		want = append(want, fmt.Sprintf("printline %q", fmt.Sprintf("fmt-%d", k)))
		run.p.Send(userMsg{4, 2*k + 1})
		want = append(want, fmt.Sprintf("u4.%d", 2*k+1))
	}
	run.p.Send(userMsg{6, 6})
	waitFor(5*time.Second, func() bool { return ctl.log.has("update-exit", "u6.6") })
	time.Sleep(40 * time.Millisecond)
	run.p.Quit()
	run.wait(4 * time.Second)
	out.record("println-keeps-its-place", desc)
	var got []string
	for _, u := range updatesOf(ctl.log.snapshot()) {
		if strings.HasPrefix(u, "printline ") || strings.HasPrefix(u, "u4.") {
			got = append(got, u)
		}
	}
	if strings.Join(got, "|") != strings.Join(want, "|") {
		i := 0
		for i < len(got) && i < len(want) && got[i] == want[i] {
			i++
		}
		exp, obs := "(end)", "(end)"
		if i < len(want) {
			exp = want[i]
		}
		if i < len(got) {
			obs = got[i]
		}
		for _, prop := range []string{"C01", "C14"} {
			out.fail(finding{Property: prop, Class: "new", What: "print requests and messages issued by ONE goroutine did not reach the event loop in the order issued, once each", Input: desc,
				Expected: fmt.Sprintf("position %d: %s (of %d)", i, exp, len(want)), Observed: fmt.Sprintf("%s (of %d)", obs, len(got))})
		}
	}
	// and every line is on the terminal, in order
	t := newVterm(60, 20)
	t.write([]byte(buf.String()))
	var rows []string
	for r := 0; r < len(t.main.rows); r++ {
		rows = append(rows, t.main.text(r))
	}
	screen := "\n" + strings.Join(rows, "\n") + "\n"
	last := -1
	for k := 0; k < n; k++ {
		i := strings.Index(screen, fmt.Sprintf("\nline-%d\n", k))
		j := strings.Index(screen, fmt.Sprintf("\nfmt-%d\n", k))
		if i < 0 || j < 0 || i < last || j < i {
			out.fail(finding{Property: "C14", Class: "new", What: "a printed line is missing from the terminal or out of order", Input: desc, Observed: fmt.Sprintf("line-%d at %d, fmt-%d at %d (previous at %d)", k, i, k, j, last)})
			break
		}
		last = j
	}
}

// printWhileUpdateBusy: Println / Printf called while Update is busy for 0.7 s: the calls wait (they
// are Sends), and both lines appear above the view once the loop is free again - a print is never
// dropped because the loop was slow to take it (C14: every line printed appears exactly once).
func printWhileUpdateBusy(out *scenOut) {
	ctl := newRecCtl()
	buf := &safeBuffer{}
	ctl.onUpdate = func(m tea.Msg, v int) tea.Cmd {
		if u, ok := m.(userMsg); ok && u.Sender == 2 {
			time.Sleep(700 * time.Millisecond)
		}
		return nil
	}
	run := startProgram(ctl, buf, tea.WithInput(nil), tea.WithoutSignalHandler(), tea.WithFPS(120))
	desc := "Println and Printf called while Update is busy for 0.7 s"
	waitFor(2*time.Second, func() bool { return ctl.log.has("view-exit", "") })
	run.p.Send(tea.WindowSizeMsg{Width: 60, Height: 20})
	go run.p.Send(userMsg{2, 0})
	waitFor(2*time.Second, func() bool { return ctl.log.has("update-enter", "u2.0") })
	done := make(chan struct{})
	go func() {
		run.p.Println("busy-line-one")
		run.p.Printf("busy-line-%s", "two")
		close(done)
	}()
	select {
	case <-done:
	case <-time.After(4 * time.Second):
		out.fail(finding{Property: "C13", Class: "new", What: "Println / Printf did not return after the busy Update had finished", Input: desc})
	}
	run.p.Send(userMsg{6, 6})
	waitFor(3*time.Second, func() bool { return ctl.log.has("update-exit", "u6.6") })
	waitFor(2*time.Second, func() bool { return strings.Contains(buf.String(), "busy-line-two") })
	run.p.Quit()
	run.wait(4 * time.Second)
	out.record("print-while-update-busy", desc)
	t := newVterm(60, 20)
	t.write([]byte(buf.String()))
	var rows []string
	for r := 0; r < len(t.main.rows); r++ {
		rows = append(rows, t.main.text(r))
	}
	screen := "\n" + strings.Join(rows, "\n") + "\n"
	i, j := strings.Index(screen, "\nbusy-line-one\n"), strings.Index(screen, "\nbusy-line-two\n")
	if i < 0 || j < 0 || j < i || strings.Count(screen, "busy-line-one") != 1 || strings.Count(screen, "busy-line-two") != 1 {
		out.fail(finding{Property: "C14", Class: "new", What: "a line printed while Update was busy does not appear exactly once, in order, above the view", Input: desc,
			Expected: "busy-line-one, busy-line-two", Observed: fmt.Sprintf("positions %d, %d", i, j)})
	}
}
