package main

import (
	"encoding/json"
	"fmt"
	"os"
	"os/signal"
	"syscall"
)

func cmdScen(args []string) int {
	if len(args) < 4 {
		fmt.Println("usage: harness scen <name> <seed> <tier> <out.json>")
		return 2
	}
	name := args[0]
	var seed uint64
	fmt.Sscanf(args[1], "%d", &seed)
	thorough := args[2] == "thorough"
	fn, ok := scenarios[name]
	if !ok {
		fmt.Println("unknown scenario", name)
		return 2
	}
	out := &scenOut{Scenario: name}
	// a library change that leaves EVERY goroutine of a scenario blocked must end up as a finding of
	// that scenario's watchdog, not as the runtime's "all goroutines are asleep" (which ends the
	// process): a registered signal channel keeps the runtime's deadlock detector off
	keepAlive := make(chan os.Signal, 1)
	signal.Notify(keepAlive, syscall.SIGUSR2)
	fn(out, newRng(seed), thorough)
	b, _ := json.MarshalIndent(out, "", " ")
	if err := os.WriteFile(args[3], b, 0o644); err != nil {
		fmt.Println(err)
		return 1
	}
	return 0
}
