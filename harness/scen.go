package main

import (
	"encoding/json"
	"fmt"
	"os"
	"os/signal"
	"syscall"
	"time"
)

func cmdScen(args []string) int {
	if len(args) < 4 {
		fmt.Println("usage: harness scen <name> <seed> <tier> <out.json>")
		return 2
	}
	name := args[0]
	var seed uint64
	fmt.Sscanf(args[1], "%d", &seed)
	thorough := args[2] == "thorough"
	fn, ok := scenarios[name]
	if !ok {
		fmt.Println("unknown scenario", name)
		return 2
	}
	out := &scenOut{Scenario: name}
	// a library change that leaves EVERY goroutine of a scenario blocked must end up as a finding of
	// that scenario's watchdog, not as the runtime's "all goroutines are asleep" (which ends the
	// process): a registered signal channel keeps the runtime's deadlock detector off
	keepAlive := make(chan os.Signal, 1)
	signal.Notify(keepAlive, syscall.SIGUSR2)
	// the last line of defence against a scenario that hangs with the library: after ten minutes
	// (quick; the slowest set takes under one) or two hours (thorough) the process says where it
	// is stuck and gives up - the check reports the set as failed to run instead of waiting for ever
	limit := 10 * time.Minute
	if thorough {
		limit = 2 * time.Hour
	}
	go func() {
		time.Sleep(limit)
		fmt.Fprintln(os.Stderr, "harness: scenario set", name, "did not finish within", limit)
		fmt.Fprintln(os.Stderr, goroutineDump())
		os.Exit(3)
	}()
	fn(out, newRng(seed), thorough)
	b, _ := json.MarshalIndent(out, "", " ")
	if err := os.WriteFile(args[3], b, 0o644); err != nil {
		fmt.Println(err)
		return 1
	}
	return 0
}
