package main

// `wide` scenario (C06, Go-side oracle only: the Lean text metric covers printable ASCII and
// escape sequences, not multi-byte or wide characters): views whose lines contain 2- and 3-byte
// characters of one cell (é, €), wide characters of two cells (世, 한, 🙂), DEL (one byte, no cell) and SGR sequences are
// rendered by the real standardRenderer; the Go VT (UTF-8 aware here) must show, after every
// render, exactly the latest view: each line cut at `width` CELLS (a wide character that does
// not fit is dropped, and nothing after it is shown), the rows below blank.

import (
	"bytes"
	"fmt"
	"strings"
	"unicode/utf8"

	tea "github.com/charmbracelet/bubbletea"
)

func init() { scenarios["wide"] = scenWide }

var wideAlphabet = []string{"a", "b", " ", "é", "ü", "€", "世", "界", "한", "🙂", "\x1b[1m", "\x1b[0m", "\x1b[38;5;201m", "x", "y"}

// asciiDelAlphabet: printable ASCII up to '~' and DEL (0x7f), which is a byte below 0x80 that is NOT
// printable: one byte, no cell.
var asciiDelAlphabet = []string{"a", "b", " ", "x", "~", "}", "\x7f", "\x7f", "0"}

func genWideLine(r *rng, w int) string {
	n := r.intn(w + 3)
	var sb strings.Builder
	if r.chance(1, 4) {
		for i := 0; i < n; i++ {
			sb.WriteString(asciiDelAlphabet[r.intn(len(asciiDelAlphabet))])
		}
		return sb.String()
	}
	for i := 0; i < n; i++ {
		sb.WriteString(wideAlphabet[r.intn(len(wideAlphabet))])
	}
	return sb.String()
}

// cutCells: what a terminal row shows of a line cut at w cells the way ansi.Truncate cuts it
// (escape sequences take no cell; once a character does not fit, nothing after it is shown).
func cutCells(l string, w int) string {
	l = visibleOf(l)
	var sb strings.Builder
	cur := 0
	for len(l) > 0 {
		r, n := utf8.DecodeRuneInString(l)
		if r == 0x7f { // DEL takes no cell and shows nothing
			l = l[n:]
			continue
		}
		c := runeCells(r)
		if cur+c > w {
			break
		}
		cur += c
		sb.WriteRune(r)
		l = l[n:]
	}
	return strings.TrimRight(sb.String(), " ")
}

func scenWide(out *scenOut, r *rng, thorough bool) {
	out.Rule = "histories of views with multi-byte, wide and styled characters on the alt screen and inline, widths 2..12 and 40, heights 2..6: after every render the UTF-8 aware Go VT shows each line cut at `width` cells, rows below blank, cursor in column 0. distinct = histories"
	n := 300
	if thorough {
		n = 6000
	}
	for i := 0; i < n; i++ {
		w := []int{2, 3, 4, 5, 6, 8, 12, 40}[r.intn(8)]
		h := r.rangeIn(2, 6)
		alt := r.chance(1, 2)
		var outb bytes.Buffer
		rd := tea.VerifNewRenderer(&outb, 60)
		t := newVterm(w, h)
		t.utf8 = true
		rd.HandleMessages(tea.WindowSizeMsg{Width: w, Height: h})
		if alt {
			rd.EnterAltScreen()
		}
		var hist []string
		var prev []string
		steps := r.rangeIn(1, 6)
		for s := 0; s < steps; s++ {
			var v []string
			if prev != nil && r.chance(1, 2) {
				v = append([]string(nil), prev...)
				if len(v) > 0 {
					v[r.intn(len(v))] = genWideLine(r, w)
				}
				if r.chance(1, 3) && len(v) > 1 {
					v = v[:len(v)-1]
				}
			} else {
				for k := r.rangeIn(1, h); k > 0; k-- {
					v = append(v, genWideLine(r, w))
				}
			}
			prev = v
			view := strings.Join(v, "\n")
			hist = append(hist, fmt.Sprintf("%q", view))
			rd.Write(view)
			rd.Flush()
			t.write(outb.Bytes())
			outb.Reset()
			desc := fmt.Sprintf("w=%d h=%d alt=%t views=[%s]", w, h, alt, strings.Join(hist, ", "))
			if len(t.unknown) > 0 {
				out.fail(finding{Property: "C06", Class: "new", What: "renderer emitted a sequence outside its alphabet", Input: desc, Observed: strings.Join(t.unknown, ",")})
				t.unknown = nil
			}
			lines := v
			if view == "" {
				lines = []string{""}
			}
			b := t.buf()
			start := b.top
			if !alt {
				start = b.cr - len(lines) + 1
			}
			bad := false
			for k, l := range lines {
				want := cutCells(l, w)
				if got := b.text(start + k); got != want {
					out.fail(finding{Property: "C06", Class: "new", What: "a row does not show the view's line cut at `width` cells (multi-byte / wide / styled characters)", Input: desc,
						Expected: fmt.Sprintf("line %d = %q", k, want), Observed: fmt.Sprintf("%q", got)})
					bad = true
					break
				}
			}
			if !bad {
				for row := start + len(lines); row < b.top+h; row++ {
					if got := b.text(row); got != "" {
						out.fail(finding{Property: "C06", Class: "new", What: "stale content remains below the view (multi-byte / wide / styled characters)", Input: desc, Observed: fmt.Sprintf("%q", got)})
						break
					}
				}
				if b.cc != 0 && !alt {
					out.fail(finding{Property: "C06", Class: "new", What: "cursor does not rest at the first column after a render", Input: desc, Observed: fmt.Sprint(b.cc)})
				}
			}
			if bad {
				break
			}
		}
		out.record(fmt.Sprintf("w%d-h%d-alt%t-%d", w, h, alt, i), strings.Join(hist, ", "))
	}
}
