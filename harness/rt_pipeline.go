package main

// C01 / C02 / C03 / C16 scenarios on a real tea.Program: senders, command
// trees, sequences and filters, with oracles over the recorded event log.

import (
	"context"
	"fmt"
	"os"
	"os/exec"
	"os/signal"
	"runtime"
	"strings"
	"sync"
	"sync/atomic"
	"syscall"
	"time"

	tea "github.com/charmbracelet/bubbletea"
	"github.com/charmbracelet/x/term"
)

func init() {
	scenarios["fold"] = scenFold
	scenarios["cmds"] = scenCmds
	scenarios["seq"] = scenSeq
	scenarios["filter"] = scenFilter
}

func loggingFilter(ctl *recCtl, policy func(name string, m tea.Msg) tea.Msg) tea.ProgramOption {
	return tea.WithFilter(func(model tea.Model, m tea.Msg) tea.Msg {
		name := msgName(m)
		ver := -1
		if rm, ok := model.(recModel); ok {
			ver = rm.version
		}
		ctl.enter("filter", fmt.Sprintf("%s v%d", name, ver))
		defer ctl.exit("filter", name)
		if int32(ver) != atomic.LoadInt32(&ctl.versions) {
			atomic.AddInt32(&ctl.badVersion, 1)
		}
		ctl.pause("filter")
		if policy != nil {
			return policy(name, m)
		}
		return m
	})
}

// updatesOf returns the names of the messages Update was entered with, in order.
func updatesOf(evs []logEvent) []string {
	var out []string
	for _, e := range evs {
		if e.Kind == "update-enter" {
			name := e.Arg
			if i := strings.LastIndex(name, " v"); i >= 0 {
				name = name[:i] // strip the model version
			}
			out = append(out, name)
		}
	}
	return out
}

// ---- C01 ---------------------------------------------------------------------

func scenFold(out *scenOut, r *rng, thorough bool) {
	out.Rule = "1..8 sender goroutines x 1..50 messages each (plus commands as extra senders), yielding/slow callbacks, GOMAXPROCS in {1,2,16}; distinct = (senders, messages, procs, seed)"
	quietStdio()
	runs := 24
	if thorough {
		runs = 200
	}
	defer runtime.GOMAXPROCS(runtime.GOMAXPROCS(0))
	// a message whose Send completed before termination began reaches Update,
	// even when the termination strikes right behind it
	for _, cause := range []string{"kill", "ctx", "quit"} {
		for _, slow := range []string{"filter", "none", "update"} {
			reps := 6
			if thorough {
				reps = 40
			}
			for i := 0; i < reps; i++ {
				sendThenEnd(out, cause, slow, i)
			}
		}
	}
	kindsReachUpdate(out)
	heldMessagesStayIntact(out)
	slowViewNoOverlap(out)
	restoreFromOutsideDuringUpdate(out)
	printlnKeepsItsPlace(out)
	sendsAcrossExec(out, "nil")
	sendsAcrossExec(out, "blocking")
	for _, end := range []string{"order", "kill"} {
		for _, procs := range []int{1, 4} {
			runtime.GOMAXPROCS(procs)
			sendsDuringExec(out, end, procs)
		}
	}
	for i := 0; i < runs; i++ {
		procs := []int{1, 2, 16}[i%3]
		runtime.GOMAXPROCS(procs)
		ns := r.rangeIn(1, 8)
		nm := r.rangeIn(1, 50)
		rr := r.fork()
		desc := fmt.Sprintf("senders=%d msgs=%d procs=%d", ns, nm, procs)
		foldOnce(out, rr, ns, nm, desc)
	}
}

func sendThenEnd(out *scenOut, cause, slow string, idx int) {
	ctl := newRecCtl()
	parent, cancel := context.WithCancel(context.Background())
	defer cancel()
	opts := []tea.ProgramOption{tea.WithInput(nil), tea.WithoutSignalHandler(), tea.WithContext(parent)}
	if slow == "filter" {
		opts = append(opts, loggingFilter(ctl, func(name string, m tea.Msg) tea.Msg {
			if strings.HasPrefix(name, "u3.") {
				time.Sleep(2 * time.Millisecond) // termination lands between the receive and Update
			}
			return m
		}))
	}
	inUpdate := make(chan struct{})
	release := make(chan struct{})
	if slow == "update" {
		// the termination strikes while Update runs; Update returns only after it has struck
		ctl.onUpdate = func(m tea.Msg, v int) tea.Cmd {
			if u, ok := m.(userMsg); ok && u.Sender == 3 {
				close(inUpdate)
				select {
				case <-release:
				case <-time.After(3 * time.Second):
				}
			}
			return nil
		}
	}
	run := startProgram(ctl, nil, opts...)
	desc := fmt.Sprintf("send-then-%s slow=%s #%d", cause, slow, idx)
	run.p.Send(userMsg{3, idx}) // returns: the event loop has taken the message
	if slow == "update" {
		<-inUpdate
		go func() {
			// Kill() itself waits for the handlers; the context is what Update must outlast
			select {
			case <-tea.VerifCtx(run.p).Done():
				time.Sleep(2 * time.Millisecond)
			case <-time.After(50 * time.Millisecond): // a quit message is only queued behind Update
			}
			close(release)
		}()
	}
	switch cause {
	case "kill":
		killNow(run.p)
	case "ctx":
		cancel()
	case "quit":
		run.p.Quit()
	}
	if !run.wait(5 * time.Second) {
		out.fail(finding{Property: "C01", Class: "new", What: "Run did not return", Input: desc, Observed: goroutineDump()})
		return
	}
	out.record(fmt.Sprintf("send-then-%s/%s", cause, slow), desc)
	if n := ctl.log.count("update-enter", fmt.Sprintf("u3.%d ", idx)); n != 1 {
		out.fail(finding{Property: "C01", Class: "new", What: "a message whose Send completed before the program began terminating did not reach Update exactly once",
			Input: desc, Expected: "1 Update", Observed: fmt.Sprintf("%d", n)})
	}
	// Run returns the model the last Update returned, whatever ended the program
	if rm, ok := run.model.(recModel); !ok || int32(rm.version) != atomic.LoadInt32(&ctl.versions) {
		got := -1
		if ok {
			got = rm.version
		}
		out.fail(finding{Property: "C01", Class: "new", What: "Run did not return the model of the last Update", Input: desc,
			Expected: fmt.Sprintf("version %d", atomic.LoadInt32(&ctl.versions)), Observed: fmt.Sprintf("version %d", got)})
	}
}

// kindsReachUpdate: a message is a message, whatever its type: every message one goroutine
// sends - user types, the library's own exported message types, and the messages that
// Sequence / mode commands produce - reaches Update exactly once and in order; only a BatchMsg
// (expanded into its commands) and the terminating messages do not.
func kindsReachUpdate(out *scenOut) {
	ctl := newRecCtl()
	noop := func() tea.Msg { return nil }
	msgs := []tea.Msg{
		userMsg{4, 0},
		tea.Sequence(noop, noop)(), // the (unexported) sequence message
		userMsg{4, 1},
		tea.WindowSizeMsg{Width: 80, Height: 24},
		tea.WindowSizeMsg{}, // what an un-sized pty reports: still a message
		tea.WindowSizeMsg{Width: 80, Height: 0},
		tea.WindowSizeMsg{Width: -1, Height: -1},
		tea.WindowSizeMsg{Width: 1 << 30, Height: 1},
		tea.KeyMsg{},
		tea.MouseMsg{X: -1, Y: -1},
		tea.EnableReportFocus(),
		tea.FocusMsg{},
		tea.BlurMsg{},
		tea.KeyMsg{Type: tea.KeyRunes, Runes: []rune{'x'}},
		tea.MouseMsg{X: 1, Y: 2},
		tea.HideCursor(),
		tea.SetWindowTitle("t")(),
		tea.BatchMsg{noop}, // NOT passed to Update
		tea.ClearScreen(),
		userMsg{4, 2},
		// the same message again: a message is delivered however often it is sent, whatever came before it
		tea.FocusMsg{}, tea.FocusMsg{}, userMsg{4, 4}, tea.FocusMsg{}, tea.BlurMsg{}, tea.BlurMsg{},
		tea.WindowSizeMsg{Width: 80, Height: 24}, tea.WindowSizeMsg{Width: 80, Height: 24},
		tea.KeyMsg{Type: tea.KeyRunes, Runes: []rune{'x'}}, tea.KeyMsg{Type: tea.KeyRunes, Runes: []rune{'x'}},
		tea.MouseMsg{X: 1, Y: 2}, tea.MouseMsg{X: 1, Y: 2},
		tea.HideCursor(), tea.HideCursor(), tea.ClearScreen(), tea.ClearScreen(),
		tea.EnableReportFocus(), tea.EnableReportFocus(), tea.DisableReportFocus(), tea.FocusMsg{}, tea.FocusMsg{},
		userMsg{4, 2}, userMsg{4, 2},
	}
	// a message may be ANY value - also a function value (even of type Cmd): it is handed to Update as it
	// is, never called
	var fnCalled int32
	msgs = append(msgs, tea.Cmd(func() tea.Msg { atomic.AddInt32(&fnCalled, 1); return userMsg{4, 90} }), userMsg{4, 5},
		func() tea.Msg { atomic.AddInt32(&fnCalled, 1); return userMsg{4, 91} }, userMsg{4, 6})
	// ... and a value whose CONTENT is nil - a nil slice, map or pointer of a named type - is a message
	// (only the nil interface value is "no message")
	msgs = append(msgs, nilListMsg(nil), userMsg{4, 7}, nilMapMsg(nil), (*ptrMsg)(nil), userMsg{4, 8})
	run := startProgram(ctl, nil, tea.WithInput(nil), tea.WithoutSignalHandler())
	var want []string
	for _, m := range msgs {
		run.p.Send(m)
		if _, isBatch := m.(tea.BatchMsg); !isBatch {
			want = append(want, msgName(m))
		}
	}
	run.p.Send(userMsg{4, 3})
	want = append(want, "u4.3")
	waitFor(3*time.Second, func() bool { return ctl.log.has("update-exit", "u4.3") })
	run.p.Quit()
	run.wait(5 * time.Second)
	desc := "one goroutine sends user messages interleaved with a sequence message, size / focus / key / mouse / mode messages and a BatchMsg"
	out.record("kinds-reach-update", desc)
	var got []string
	for _, u := range updatesOf(ctl.log.snapshot()) {
		if !strings.HasPrefix(u, "c:") && u != "nil" {
			got = append(got, u)
		}
	}
	if n := atomic.LoadInt32(&fnCalled); n != 0 {
		out.fail(finding{Property: "C01", Class: "new", What: "a function value sent as a message was called by the library instead of being handed to Update", Input: desc, Expected: "0 calls", Observed: fmt.Sprint(n)})
	}
	if strings.Join(got, " , ") != strings.Join(want, " , ") {
		out.fail(finding{Property: "C01", Class: "new", What: "a message whose Send completed did not reach Update exactly once and in order (library-defined message kinds included; only BatchMsg is expanded instead)", Input: desc,
			Expected: strings.Join(want, " , "), Observed: strings.Join(got, " , ")})
	}
}

// sendsDuringExec: while a command started with Exec runs, the event loop is parked; Send still
// completes only when the loop has taken the message, so messages sent by one goroutine during
// the exec reach Update in order ("order"), and a message whose Send completed is not lost when
// the program is killed right afterwards ("kill").
func sendsDuringExec(out *scenOut, end string, procs int) {
	ctl := newRecCtl()
	running := make(chan struct{})
	release := make(chan struct{})
	fe := &fakeExec{run: func(f *fakeExec) error { close(running); <-release; return nil }}
	ctl.onUpdate = func(m tea.Msg, v int) tea.Cmd {
		if u, ok := m.(userMsg); ok && u.Sender == 9 {
			return tea.Exec(fe, nil)
		}
		return nil
	}
	pr, pw, _ := os.Pipe() // a file-descriptor input that stays silent
	defer pr.Close()
	defer pw.Close()
	run := startProgram(ctl, nil, tea.WithInput(pr), tea.WithoutSignalHandler())
	desc := fmt.Sprintf("sends-during-exec end=%s procs=%d", end, procs)
	run.p.Send(userMsg{9, 0})
	select {
	case <-running:
	case <-time.After(3 * time.Second):
		out.fail(finding{Property: "C01", Class: "harness", What: "exec did not start", Input: desc})
		killNow(run.p)
		return
	}
	const n = 48
	completed := make(chan int, n)
	go func() {
		for k := 0; k < n; k++ {
			run.p.Send(userMsg{5, k})
			completed <- k
		}
	}()
	time.Sleep(20 * time.Millisecond) // the sender is blocked in its first Send (the loop is parked)
	done := 0
	if end == "kill" {
		// let exactly the Sends complete that complete, then kill at once
		close(release)
		select {
		case <-completed:
			done = 1
		case <-time.After(3 * time.Second):
		}
		killNow(run.p)
	} else {
		close(release)
		for done < n {
			select {
			case <-completed:
				done++
			case <-time.After(3 * time.Second):
				out.fail(finding{Property: "C01", Class: "new", What: "Send blocked although the program is running", Input: desc, Observed: fmt.Sprintf("%d of %d sends completed", done, n)})
				killNow(run.p)
				run.wait(3 * time.Second)
				return
			}
		}
		run.p.Quit()
	}
	if !run.wait(5 * time.Second) {
		out.fail(finding{Property: "C01", Class: "new", What: "Run did not return", Input: desc, Observed: goroutineDump()})
		return
	}
	out.record(desc, desc)
	var got []int
	for _, u := range updatesOf(ctl.log.snapshot()) {
		var sdr, seq int
		if _, err := fmt.Sscanf(u, "u%d.%d", &sdr, &seq); err == nil && sdr == 5 {
			got = append(got, seq)
		}
	}
	for i := 1; i < len(got); i++ {
		if got[i] != got[i-1]+1 {
			out.fail(finding{Property: "C01", Class: "new", What: "messages sent by one goroutine (during an Exec) reached Update out of order, duplicated or with gaps", Input: desc, Observed: fmt.Sprint(got)})
			break
		}
	}
	if len(got) > 0 && got[0] != 0 {
		out.fail(finding{Property: "C01", Class: "new", What: "the first message sent during an Exec did not reach Update first", Input: desc, Observed: fmt.Sprint(got)})
	}
	if len(got) < done {
		out.fail(finding{Property: "C01", Class: "new", What: "a message whose Send completed (during / right after an Exec) before the program began terminating never reached Update", Input: desc,
			Expected: fmt.Sprintf(">= %d messages", done), Observed: fmt.Sprint(got)})
	}
}

func foldOnce(out *scenOut, r *rng, ns, nm int, desc string) {
	ctl := newRecCtl()
	ctl.yield = true
	ctl.rng = r.fork()
	var cmdCount int32
	ctl.onUpdate = func(m tea.Msg, v int) tea.Cmd {
		if u, ok := m.(userMsg); ok && u.Seq%7 == 3 {
			id := fmt.Sprintf("k%d.%d", u.Sender, u.Seq)
			atomic.AddInt32(&cmdCount, 1)
			return func() tea.Msg { return cmdMsg{id} }
		}
		return nil
	}
	run := startProgram(ctl, nil, tea.WithInput(nil), tea.WithoutSignalHandler(), loggingFilter(ctl, nil))
	var wg sync.WaitGroup
	for s := 0; s < ns; s++ {
		wg.Add(1)
		go func(s int) {
			defer wg.Done()
			for k := 0; k < nm; k++ {
				run.p.Send(userMsg{s, k})
				if k%5 == 0 {
					runtime.Gosched()
				}
			}
		}(s)
	}
	sendersDone := make(chan struct{})
	go func() { wg.Wait(); close(sendersDone) }()
	select {
	case <-sendersDone:
	case <-time.After(20 * time.Second):
		out.fail(finding{Property: "C01", Class: "new", What: "senders blocked forever while the program runs", Input: desc, Observed: goroutineDump()})
		return
	}
	// every Send has completed; wait for the commands' results, then quit
	waitFor(5*time.Second, func() bool {
		return ctl.log.count("update-exit", "c:") >= int(atomic.LoadInt32(&cmdCount))
	})
	run.p.Quit()
	if !run.wait(5 * time.Second) {
		out.fail(finding{Property: "C01", Class: "new", What: "Run did not return after Quit", Input: desc, Observed: goroutineDump()})
		return
	}
	evs := ctl.log.snapshot()
	out.record(desc, desc+fmt.Sprintf(" events=%d", len(evs)))
	if n := atomic.LoadInt32(&ctl.overlaps); n != 0 {
		out.fail(finding{Property: "C01", Class: "new", What: "Init/Update/View/filter executed concurrently", Input: desc, Observed: fmt.Sprintf("%d overlapping entries", n)})
	}
	if n := atomic.LoadInt32(&ctl.badVersion); n != 0 {
		out.fail(finding{Property: "C01", Class: "new", What: "Update/filter did not receive the model returned by the previous Update", Input: desc, Observed: fmt.Sprintf("%d stale models", n)})
	}
	// per-sender order, exactly once, nothing invented
	next := make([]int, ns)
	for _, name := range updatesOf(evs) {
		var s, k int
		if n, _ := fmt.Sscanf(name, "u%d.%d", &s, &k); n == 2 {
			if s < 0 || s >= ns {
				out.fail(finding{Property: "C01", Class: "new", What: "Update received a message nobody sent", Input: desc, Observed: name})
				continue
			}
			if k != next[s] {
				out.fail(finding{Property: "C01", Class: "new", What: "message dropped, duplicated or reordered for one sender", Input: desc,
					Expected: fmt.Sprintf("u%d.%d", s, next[s]), Observed: name})
			}
			next[s] = k + 1
		}
	}
	for s := 0; s < ns; s++ {
		if next[s] != nm {
			out.fail(finding{Property: "C01", Class: "new", What: "message whose Send completed never reached Update", Input: desc,
				Expected: fmt.Sprintf("sender %d: %d messages", s, nm), Observed: fmt.Sprintf("%d", next[s])})
		}
	}
	if rm, ok := run.model.(recModel); !ok || int32(rm.version) != atomic.LoadInt32(&ctl.versions) {
		out.fail(finding{Property: "C01", Class: "new", What: "Run did not return the model of the last Update", Input: desc})
	}
	if run.err != nil {
		out.fail(finding{Property: "C01", Class: "new", What: "Run returned an error after a plain quit", Input: desc, Observed: run.err.Error()})
	}
	// the event loop's goroutine runs every callback
	el := int64(-1)
	for _, e := range evs {
		if strings.HasSuffix(e.Kind, "-enter") && (strings.HasPrefix(e.Kind, "update") || strings.HasPrefix(e.Kind, "view") || strings.HasPrefix(e.Kind, "filter") || strings.HasPrefix(e.Kind, "init")) {
			if el == -1 {
				el = e.Gid
			} else if e.Gid != el {
				out.fail(finding{Property: "C01", Class: "new", What: "a callback ran on a goroutine other than the event loop's", Input: desc, Observed: e.Kind})
				break
			}
		}
	}
	out.mu.Lock()
	out.TracesOK++
	out.mu.Unlock()
}

// ---- C02 ---------------------------------------------------------------------

type cmdNode struct {
	id       string
	kind     string // plain nil batch
	children []*cmdNode
	result   string // "msg" or "nil"
	block    string // "" | "until:<msg>" | "forever"
}

func randCmdTree(r *rng, depth int, prefix string, plain *[]*cmdNode) *cmdNode {
	k := r.intn(10)
	switch {
	case k == 0:
		return &cmdNode{kind: "nil"}
	case k <= 3 && depth > 0:
		n := &cmdNode{kind: "batch", id: prefix}
		cnt := r.intn(6) // 0..5 children: empty and single-element batches included
		for i := 0; i < cnt; i++ {
			n.children = append(n.children, randCmdTree(r, depth-1, fmt.Sprintf("%s.%d", prefix, i), plain))
		}
		return n
	}
	n := &cmdNode{kind: "plain", id: prefix, result: "msg"}
	if r.chance(1, 5) {
		n.result = "nil"
	}
	switch r.intn(6) {
	case 0:
		n.block = "forever"
	case 1, 2:
		n.block = "until"
	}
	*plain = append(*plain, n)
	return n
}

func scenCmds(out *scenOut, r *rng, thorough bool) {
	out.Rule = "random Batch/plain command trees (depth<=4, fan-out<=5, nil entries, nil results, commands blocking until a later message or forever) returned by Init and by Update; distinct = tree shapes"
	quietStdio()
	runs := 30
	if thorough {
		runs = 300
	}
	for i := 0; i < runs; i++ {
		cmdsOnce(out, r.fork(), i)
	}
	reps := 3
	if thorough {
		reps = 20
	}
	for i := 0; i < reps; i++ {
		scratchReuse(out, i)
	}
	for _, n := range []int{3, 70, 300} {
		manyBlocked(out, n)
	}
	manyBlocked(out, -5) // (negative: the same with WithoutCatchPanics, 5 blocked commands)
	for _, shape := range []string{"returned-twice", "twice-in-one-tree", "batchmsg-sent-twice"} {
		batchReuse(out, shape)
	}
	rawBatchNil(out, false)
	rawBatchNil(out, true)
	for _, input := range []string{"nil", "blocking", "pipe"} {
		cmdResultsAcrossExec(out, input)
	}
	twoBigBatches(out)
	for _, shape := range []string{"update", "init", "nested", "nils"} {
		quitBesideBlockedCommand(out, shape)
	}
	twoProgramsCommands(out)
	typedNilResults(out)
}

// batchReuse: the SAME Batch command value (or the same BatchMsg value) occurs more than once:
// returned by two Updates, twice inside one tree, or sent twice as a message. Every occurrence
// runs every command of the batch once and delivers every result once.
func batchReuse(out *scenOut, shape string) {
	ctl := newRecCtl()
	var ca, cb int32
	a := func() tea.Msg { atomic.AddInt32(&ca, 1); return cmdMsg{"ra"} }
	b := func() tea.Msg { atomic.AddInt32(&cb, 1); return cmdMsg{"rb"} }
	inner := tea.Batch(a, nil, b)
	ctl.onUpdate = func(m tea.Msg, v int) tea.Cmd {
		u, ok := m.(userMsg)
		if !ok || u.Sender != 0 {
			return nil
		}
		switch shape {
		case "returned-twice":
			if u.Seq == 0 || u.Seq == 1 {
				return inner
			}
		case "twice-in-one-tree":
			if u.Seq == 0 {
				return tea.Batch(inner, inner)
			}
		}
		return nil
	}
	run := startProgram(ctl, nil, tea.WithInput(nil), tea.WithoutSignalHandler())
	desc := "the same Batch(a, nil, b) value " + shape
	switch shape {
	case "returned-twice":
		run.p.Send(userMsg{0, 0})
		waitFor(2*time.Second, func() bool { return ctl.log.count("update-exit", "c:r") >= 2 })
		run.p.Send(userMsg{0, 1})
	case "twice-in-one-tree":
		run.p.Send(userMsg{0, 0})
	case "batchmsg-sent-twice":
		bm := inner().(tea.BatchMsg)
		run.p.Send(bm)
		waitFor(2*time.Second, func() bool { return ctl.log.count("update-exit", "c:r") >= 2 })
		run.p.Send(bm)
	}
	okAll := waitFor(3*time.Second, func() bool { return ctl.log.count("update-exit", "c:r") >= 4 })
	time.Sleep(10 * time.Millisecond)
	run.p.Quit()
	run.wait(3 * time.Second)
	out.record("batch-reuse/"+shape, desc)
	na, nb, nres := atomic.LoadInt32(&ca), atomic.LoadInt32(&cb), ctl.log.count("update-exit", "c:r")
	if !okAll || na != 2 || nb != 2 || nres != 4 {
		out.fail(finding{Property: "C02", Class: "new", What: "a Batch value that occurs twice did not run each of its commands once per occurrence (or their results were not all delivered once)", Input: desc,
			Expected: "a invoked 2, b invoked 2, 4 results", Observed: fmt.Sprintf("a invoked %d, b invoked %d, %d results", na, nb, nres)})
	}
}

// manyBlocked: however many commands are blocked at the same time, a further command of the
// same Batch is invoked and its result delivered; other messages keep flowing; then every
// blocked command completes exactly once.
func manyBlocked(out *scenOut, n int) {
	opts := []tea.ProgramOption{tea.WithInput(nil), tea.WithoutSignalHandler()}
	optDesc := ""
	if n < 0 {
		n = -n
		opts = append(opts, tea.WithoutCatchPanics())
		optDesc = " (WithoutCatchPanics)"
	}
	ctl := newRecCtl()
	release := make(chan struct{})
	var started, probeRan int32
	cmds := []tea.Cmd{nil}
	for i := 0; i < n; i++ {
		id := fmt.Sprintf("blk%d", i)
		cmds = append(cmds, func() tea.Msg { atomic.AddInt32(&started, 1); <-release; return cmdMsg{id} })
	}
	cmds = append(cmds, nil, func() tea.Msg { atomic.AddInt32(&probeRan, 1); return cmdMsg{"probe"} })
	ctl.onUpdate = func(m tea.Msg, v int) tea.Cmd {
		if u, ok := m.(userMsg); ok && u.Sender == 0 && u.Seq == 0 {
			return tea.Batch(cmds...)
		}
		return nil
	}
	run := startProgram(ctl, nil, opts...)
	desc := fmt.Sprintf("Batch(nil, %d commands that block until released, nil, probe)%s", n, optDesc)
	run.p.Send(userMsg{0, 0})
	okProbe := waitFor(3*time.Second, func() bool { return ctl.log.has("update-exit", "c:probe") })
	okStarted := waitFor(3*time.Second, func() bool { return atomic.LoadInt32(&started) == int32(n) })
	sent := make(chan struct{})
	go func() { run.p.Send(userMsg{0, 1}); close(sent) }()
	okOther := waitFor(2*time.Second, func() bool { return ctl.log.has("update-exit", "u0.1") })
	out.record(fmt.Sprintf("many-blocked/%d%s", n, optDesc), desc)
	if !okProbe {
		out.fail(finding{Property: "C02", Class: "new", What: "a command of a Batch was not invoked (or its result not delivered) while other commands of the Batch were blocked", Input: desc,
			Expected: "probe invoked and delivered", Observed: fmt.Sprintf("probe ran %d times, %d of %d blocking commands started", atomic.LoadInt32(&probeRan), atomic.LoadInt32(&started), n)})
	}
	if !okStarted {
		out.fail(finding{Property: "C02", Class: "new", What: "not every command of the Batch was invoked while its siblings were blocked", Input: desc,
			Expected: fmt.Sprint(n), Observed: fmt.Sprint(atomic.LoadInt32(&started))})
	}
	if !okOther {
		out.fail(finding{Property: "C02", Class: "new", What: "blocked commands delayed an unrelated message", Input: desc})
	}
	close(release)
	okAll := waitFor(5*time.Second, func() bool { return ctl.log.count("update-exit", "c:blk") == n })
	if okProbe && okStarted && !okAll {
		out.fail(finding{Property: "C02", Class: "new", What: "results of released commands were not all delivered exactly once", Input: desc,
			Expected: fmt.Sprint(n), Observed: fmt.Sprint(ctl.log.count("update-exit", "c:blk"))})
	}
	run.p.Quit()
	if !run.wait(3 * time.Second) {
		killNow(run.p)
		run.wait(3 * time.Second)
		out.fail(finding{Property: "C02", Class: "new", What: "blocked commands delayed the program's exit", Input: desc})
	}
	if c := ctl.log.count("update-exit", "c:blk"); okAll && c != n {
		out.fail(finding{Property: "C02", Class: "new", What: "a command result was delivered more than once", Input: desc, Observed: fmt.Sprint(c)})
	}
}

// scratchReuse: a model that keeps one scratch []Cmd and returns
// Batch(scratch...) from consecutive Updates. The second Update is processed
// after the first Batch was returned but before its BatchMsg reaches the loop.
func scratchReuse(out *scenOut, idx int) {
	ctl := newRecCtl()
	var counts [4]int32
	mk := func(k int) tea.Cmd {
		return func() tea.Msg { atomic.AddInt32(&counts[k], 1); return cmdMsg{fmt.Sprintf("r%d", k)} }
	}
	scratch := make([]tea.Cmd, 2)
	g := newGate(true)
	defer g.open()
	ctl.gates["update:u0.1"] = g
	ctl.onUpdate = func(m tea.Msg, v int) tea.Cmd {
		switch msgName(m) {
		case "u0.1":
			scratch[0], scratch[1] = mk(0), mk(1)
			return tea.Batch(scratch...)
		case "u0.2":
			scratch[0], scratch[1] = mk(2), mk(3)
			return tea.Batch(scratch...)
		}
		return nil
	}
	run := startProgram(ctl, nil, tea.WithInput(nil), tea.WithoutSignalHandler())
	go run.p.Send(userMsg{0, 1})
	if !g.waitArrived(3 * time.Second) {
		return
	}
	second := make(chan struct{})
	go func() { run.p.Send(userMsg{0, 2}); close(second) }()
	time.Sleep(3 * time.Millisecond) // the second message is waiting in Send when the first Update returns
	g.open()
	select {
	case <-second:
	case <-time.After(4 * time.Second):
	}
	waitFor(2*time.Second, func() bool { return ctl.log.count("update-exit", "c:r") >= 4 })
	time.Sleep(2 * time.Millisecond)
	run.p.Quit()
	run.wait(3 * time.Second)
	desc := fmt.Sprintf("scratch-reuse#%d: Update(u0.1) returns Batch(scratch...) with scratch=[a,b]; Update(u0.2) rewrites scratch=[c,d] and returns Batch(scratch...)", idx)
	out.record("scratch-reuse", desc)
	got := fmt.Sprint(atomic.LoadInt32(&counts[0]), atomic.LoadInt32(&counts[1]), atomic.LoadInt32(&counts[2]), atomic.LoadInt32(&counts[3]))
	if got != "1 1 1 1" {
		out.fail(finding{Property: "C02", Class: "new", What: "commands of a Batch built from a reused slice are not each invoked exactly once", Input: desc, Expected: "1 1 1 1", Observed: got})
	}
	for k := 0; k < 4; k++ {
		if n := ctl.log.count("update-enter", fmt.Sprintf("c:r%d ", k)); n != 1 {
			out.fail(finding{Property: "C02", Class: "new", What: "result of a command of a Batch built from a reused slice not delivered exactly once", Input: desc, Expected: "1", Observed: fmt.Sprint(n)})
			break
		}
	}
}

func cmdsOnce(out *scenOut, r *rng, idx int) {
	ctl := newRecCtl()
	var plain []*cmdNode
	nTrees := r.rangeIn(1, 4)
	trees := make([]*cmdNode, nTrees)
	for i := range trees {
		trees[i] = randCmdTree(r, 4, fmt.Sprintf("t%d", i), &plain)
	}
	var starts sync.Map // id -> *int32
	processed := map[string]chan struct{}{}
	var pmu sync.Mutex
	procCh := func(name string) chan struct{} {
		pmu.Lock()
		defer pmu.Unlock()
		ch, ok := processed[name]
		if !ok {
			ch = make(chan struct{})
			processed[name] = ch
		}
		return ch
	}
	forever := make(chan struct{})
	defer close(forever)
	laterMsg := "u0.5" // blocked commands wait until this later message has been processed
	var build func(n *cmdNode) tea.Cmd
	build = func(n *cmdNode) tea.Cmd {
		switch n.kind {
		case "nil":
			return nil
		case "batch":
			cs := make([]tea.Cmd, len(n.children))
			for i, c := range n.children {
				cs[i] = build(c)
			}
			return tea.Batch(cs...)
		}
		cnt := new(int32)
		starts.Store(n.id, cnt)
		return func() tea.Msg {
			atomic.AddInt32(cnt, 1)
			ctl.log.add("cmd-start", n.id)
			switch n.block {
			case "forever":
				<-forever
				return nil
			case "until":
				<-procCh(laterMsg)
			}
			ctl.log.add("cmd-end", n.id)
			if n.result == "nil" {
				return nil
			}
			return cmdMsg{n.id}
		}
	}
	cmds := make([]tea.Cmd, nTrees)
	for i, t := range trees {
		cmds[i] = build(t)
	}
	ctl.initCmd = cmds[0]
	ctl.onUpdate = func(m tea.Msg, v int) tea.Cmd {
		name := msgName(m)
		defer func() {
			ch := procCh(name)
			select {
			case <-ch:
			default:
				close(ch)
			}
		}()
		if u, ok := m.(userMsg); ok && u.Sender == 0 && u.Seq >= 1 && u.Seq < nTrees {
			return cmds[u.Seq]
		}
		return nil
	}
	run := startProgram(ctl, nil, tea.WithInput(nil), tea.WithoutSignalHandler())
	desc := fmt.Sprintf("cmds#%d trees=%d plain=%d", idx, nTrees, len(plain))
	sendAll := make(chan struct{})
	go func() {
		defer close(sendAll)
		for k := 0; k <= 5; k++ {
			run.p.Send(userMsg{0, k})
		}
	}()
	select {
	case <-sendAll:
	case <-time.After(10 * time.Second):
		out.fail(finding{Property: "C02", Class: "new", What: "a blocked command delays message processing", Input: desc, Observed: goroutineDump()})
		return
	}
	want := 0
	for _, n := range plain {
		if n.block != "forever" && n.result == "msg" {
			want++
		}
	}
	ok := waitFor(10*time.Second, func() bool { return ctl.log.count("update-exit", "c:") >= want })
	time.Sleep(2 * time.Millisecond)
	run.p.Quit()
	if !run.wait(5 * time.Second) {
		out.fail(finding{Property: "C02", Class: "new", What: "a command that never returns delays the program's exit", Input: desc, Observed: goroutineDump()})
		return
	}
	evs := ctl.log.snapshot()
	out.record(fmt.Sprintf("%d/%d/%d", nTrees, len(plain), want), desc)
	el := atomic.LoadInt64(&ctl.elGid)
	for _, n := range plain {
		c, _ := starts.Load(n.id)
		got := atomic.LoadInt32(c.(*int32))
		if got != 1 {
			out.fail(finding{Property: "C02", Class: "new", What: "command not invoked exactly once", Input: desc + " cmd=" + n.id, Expected: "1", Observed: fmt.Sprint(got)})
		}
	}
	for _, e := range evs {
		if e.Kind == "cmd-start" && e.Gid == el {
			out.fail(finding{Property: "C02", Class: "new", What: "command invoked on the event loop's goroutine", Input: desc + " cmd=" + e.Arg})
		}
	}
	ups := map[string]int{}
	for _, u := range updatesOf(evs) {
		ups[u]++
		if strings.HasPrefix(u, "batch") || u == "nil" {
			out.fail(finding{Property: "C02", Class: "new", What: "a BatchMsg or nil message reached Update", Input: desc, Observed: u})
		}
	}
	for _, n := range plain {
		got := ups["c:"+n.id]
		exp := 0
		if n.block != "forever" && n.result == "msg" {
			exp = 1
		}
		if got != exp && (ok || got > exp) {
			out.fail(finding{Property: "C02", Class: "new", What: "command result not delivered exactly once", Input: desc + " cmd=" + n.id, Expected: fmt.Sprint(exp), Observed: fmt.Sprint(got)})
		}
	}
	if !ok {
		out.fail(finding{Property: "C02", Class: "new", What: "some command results never arrived", Input: desc, Expected: fmt.Sprint(want), Observed: fmt.Sprint(ctl.log.count("update-exit", "c:"))})
	}
	// Batch as a pure function (commands.go)
	if tea.Batch() != nil || tea.Batch(nil, nil) != nil {
		out.fail(finding{Property: "C02", Class: "new", What: "Batch of no commands is not nil", Input: "Batch(nil,nil)"})
	}
	out.mu.Lock()
	out.TracesOK++
	out.mu.Unlock()
}

// ---- C03 ---------------------------------------------------------------------

type seqElem struct {
	kind  string // plain nil nilresult batch rawbatch
	id    string
	parts []string // ids of the batch's commands ("" = nil entry)
}

func scenSeq(out *scenOut, r *rng, thorough bool) {
	out.Rule = "random sequences (length<=8) of plain commands, nil commands, nil results and batches (<=4 commands, nil entries) with random durations and unrelated traffic; plus the raw-BatchMsg-with-nil-entry program in a child process; distinct = sequence shapes"
	quietStdio()
	runs := 30
	if thorough {
		runs = 300
	}
	for i := 0; i < runs; i++ {
		seqOnce(out, r.fork(), i)
	}
	seqReuse(out)
	seqWhileLoopBusyLong(out, false)
	seqWhileLoopBusyLong(out, true)
	seqSlowBatchElement(out)
	twoSequencesAtOnce(out, false)
	// a sequence element yielding a raw BatchMsg with a nil entry: run in a
	// child process, because a failure kills the whole process
	self, _ := os.Executable()
	cmd := exec.Command(self, "child", "seqrawnil")
	cmd.Env = os.Environ()
	done := make(chan error, 1)
	var outb strings.Builder
	cmd.Stdout = &outb
	cmd.Stderr = &outb
	if err := cmd.Start(); err == nil {
		go func() { done <- cmd.Wait() }()
		select {
		case err := <-done:
			out.record("seqrawnil", "sequence [A, rawBatch{nil,B}, C] in a child process")
			if err != nil || !strings.Contains(outb.String(), "SEQ-OK") {
				tail := outb.String()
				if i := strings.Index(tail, "panic:"); i >= 0 {
					tail = tail[i:]
				}
				if len(tail) > 400 {
					tail = tail[:400]
				}
				out.fail(finding{Property: "C03", Class: "new", What: "sequence element yielding a raw BatchMsg with a nil entry crashes or stalls the sequence",
					Input: "Sequence(A, func() Msg { return BatchMsg{nil, B} }, C)", Expected: "nil entry skipped; A, B, C delivered in order", Observed: fmt.Sprint(err) + " :: " + strings.ReplaceAll(tail, "\n", " / ")})
			}
		case <-time.After(10 * time.Second):
			cmd.Process.Kill()
			out.fail(finding{Property: "C03", Class: "new", What: "sequence with a raw BatchMsg containing nil stalls", Input: "seqrawnil"})
		}
	}
}

// seqReuse: the SAME Sequence command value (with a nil entry in the middle) is
// returned by several Updates, one after the other: every run must start each
// command once and deliver its messages once, in order.
func seqReuse(out *scenOut) {
	ctl := newRecCtl()
	mk := func(id string) tea.Cmd {
		return func() tea.Msg { ctl.log.add("cmd-start", id); return cmdMsg{id} }
	}
	seq := tea.Sequence(mk("a"), nil, mk("b"), tea.Batch(mk("c"), nil, mk("d")), nil, mk("done"))
	ctl.onUpdate = func(m tea.Msg, v int) tea.Cmd {
		if u, ok := m.(userMsg); ok && u.Sender == 0 {
			return seq
		}
		return nil
	}
	run := startProgram(ctl, nil, tea.WithInput(nil), tea.WithoutSignalHandler())
	const rounds = 3
	for k := 0; k < rounds; k++ {
		run.p.Send(userMsg{0, k})
		want := k + 1
		if !waitFor(3*time.Second, func() bool { return ctl.log.count("update-exit", "c:done") >= want }) {
			break
		}
		time.Sleep(2 * time.Millisecond)
	}
	run.p.Quit()
	run.wait(3 * time.Second)
	desc := "the same Sequence(a, nil, b, Batch(c, nil, d), nil, done) value returned by three consecutive Updates"
	out.record("seq-reuse", desc)
	var got []string
	for _, u := range updatesOf(ctl.log.snapshot()) {
		if strings.HasPrefix(u, "c:") {
			got = append(got, u[2:])
		}
	}
	// per round: a, b, then c and d in either order, then done
	ok := len(got) == rounds*5
	for k := 0; ok && k < rounds; k++ {
		g := got[k*5 : k*5+5]
		if g[0] != "a" || g[1] != "b" || g[4] != "done" || !((g[2] == "c" && g[3] == "d") || (g[2] == "d" && g[3] == "c")) {
			ok = false
		}
	}
	if !ok {
		out.fail(finding{Property: "C03", Class: "new", What: "a Sequence value run more than once does not run its commands once each, in order, every time", Input: desc,
			Expected: "a b {c d} done, three times", Observed: strings.Join(got, " ")})
	}
}

func childSeqRawNil() int {
	ctl := newRecCtl()
	mk := func(id string) tea.Cmd { return func() tea.Msg { return cmdMsg{id} } }
	ctl.initCmd = tea.Sequence(mk("A"), func() tea.Msg { return tea.BatchMsg{nil, mk("B")} }, mk("C"))
	run := startProgram(ctl, nil, tea.WithInput(nil), tea.WithoutSignalHandler())
	ok := waitFor(3*time.Second, func() bool { return ctl.log.has("update-exit", "c:C") })
	run.p.Quit()
	run.wait(3 * time.Second)
	ups := strings.Join(updatesOf(ctl.log.snapshot()), ",")
	if ok && strings.Contains(ups, "c:A") && strings.Contains(ups, "c:B") && strings.Index(ups, "c:A") < strings.Index(ups, "c:B") && strings.Index(ups, "c:B") < strings.Index(ups, "c:C") {
		fmt.Println("SEQ-OK", ups)
		return 0
	}
	fmt.Println("SEQ-BAD", ups)
	return 1
}

func seqOnce(out *scenOut, r *rng, idx int) {
	ctl := newRecCtl()
	n := r.rangeIn(1, 8)
	elems := make([]seqElem, n)
	shape := ""
	for i := range elems {
		id := fmt.Sprintf("s%d", i)
		switch r.intn(8) {
		case 0:
			elems[i] = seqElem{kind: "nil"}
		case 1:
			elems[i] = seqElem{kind: "nilresult", id: id}
		case 2, 3, 7:
			e := seqElem{kind: "batch", id: id}
			k := r.rangeIn(0, 4)
			if r.chance(1, 2) {
				// a hand-built BatchMsg (tea.Batch would collapse batches of 0 or 1 commands)
				e.kind = "rawbatch"
				k = r.rangeIn(0, 2)
			}
			for j := 0; j < k; j++ {
				switch {
				case r.chance(1, 5):
					e.parts = append(e.parts, "")
				case r.chance(1, 5):
					e.parts = append(e.parts, fmt.Sprintf("%s.%d!nil", id, j)) // a command whose result is nil
				default:
					e.parts = append(e.parts, fmt.Sprintf("%s.%d", id, j))
				}
			}
			elems[i] = e
		default:
			elems[i] = seqElem{kind: "plain", id: id}
		}
		shape += elems[i].kind[:1] + fmt.Sprint(len(elems[i].parts))
	}
	dur := func() time.Duration { return time.Duration(r.intn(300)) * time.Microsecond }
	mk := func(id string, d time.Duration, nilres bool) tea.Cmd {
		return func() tea.Msg {
			ctl.log.add("cmd-start", id)
			time.Sleep(d)
			if nilres {
				return nil
			}
			return cmdMsg{id}
		}
	}
	var cmds []tea.Cmd
	for _, e := range elems {
		switch e.kind {
		case "nil":
			cmds = append(cmds, nil)
		case "nilresult":
			cmds = append(cmds, mk(e.id, dur(), true))
		case "plain":
			cmds = append(cmds, mk(e.id, dur(), false))
		case "batch", "rawbatch":
			var parts []tea.Cmd
			for _, pid := range e.parts {
				if pid == "" {
					parts = append(parts, nil)
				} else {
					d := dur()
					if e.kind == "rawbatch" {
						d += 2 * time.Millisecond // slower than whatever follows: not awaiting it shows
					}
					parts = append(parts, mk(pid, d, strings.HasSuffix(pid, "!nil")))
				}
			}
			if e.kind == "rawbatch" {
				bm := tea.BatchMsg(parts)
				cmds = append(cmds, func() tea.Msg { return bm })
			} else {
				cmds = append(cmds, tea.Batch(parts...))
			}
		}
	}
	last := "end"
	cmds = append(cmds, mk(last, 0, false))
	ctl.onUpdate = func(m tea.Msg, v int) tea.Cmd {
		if u, ok := m.(userMsg); ok && u.Sender == 0 && u.Seq == 0 {
			return tea.Sequence(cmds...)
		}
		if u, ok := m.(userMsg); ok && u.Sender == 1 {
			time.Sleep(150 * time.Microsecond) // a busy event loop widens every window
		}
		return nil
	}
	run := startProgram(ctl, nil, tea.WithInput(nil), tea.WithoutSignalHandler(), loggingFilter(ctl, nil))
	desc := fmt.Sprintf("seq#%d shape=%s", idx, shape)
	stop := make(chan struct{})
	go func() { // unrelated traffic
		for k := 0; ; k++ {
			select {
			case <-stop:
				return
			default:
			}
			run.p.Send(userMsg{1, k})
			time.Sleep(50 * time.Microsecond)
		}
	}()
	run.p.Send(userMsg{0, 0})
	ok := waitFor(10*time.Second, func() bool { return ctl.log.has("update-exit", "c:"+last) })
	close(stop)
	run.p.Quit()
	if !run.wait(5 * time.Second) {
		out.fail(finding{Property: "C03", Class: "new", What: "program does not exit after a sequence", Input: desc, Observed: goroutineDump()})
		return
	}
	out.record(shape, desc)
	if !ok {
		out.fail(finding{Property: "C03", Class: "new", What: "sequence stalled: its last command's message never arrived", Input: desc})
		return
	}
	evs := ctl.log.snapshot()
	// element index of every command id, in sequence order
	order := []string{}
	elemOf := map[string]int{}
	for i, e := range elems {
		switch e.kind {
		case "plain", "nilresult":
			elemOf[e.id] = i
			order = append(order, e.id)
		case "batch", "rawbatch":
			for _, pid := range e.parts {
				if pid != "" {
					elemOf[pid] = i
				}
			}
		}
	}
	elemOf[last] = len(elems)
	nilPart := func(id string) bool { return strings.HasSuffix(id, "!nil") }
	recvAt := map[string]int{} // id -> log index of filter-enter (event loop received it)
	startAt := map[string]int{}
	for i, e := range evs {
		switch e.Kind {
		case "filter-enter":
			name := strings.Fields(e.Arg)[0]
			if strings.HasPrefix(name, "c:") {
				recvAt[name[2:]] = i
			}
		case "cmd-start":
			if _, dup := startAt[e.Arg]; dup {
				out.fail(finding{Property: "C03", Class: "new", What: "sequence command started twice", Input: desc, Observed: e.Arg})
			}
			startAt[e.Arg] = i
		}
	}
	for id, k := range elemOf {
		st, started := startAt[id]
		if !started {
			out.fail(finding{Property: "C03", Class: "new", What: "sequence command never started", Input: desc, Observed: id})
			continue
		}
		// every message of every earlier element was received before this command started
		for id2, k2 := range elemOf {
			if k2 < k {
				if isNilResult(elems, id2) || nilPart(id2) {
					continue
				}
				rc, got := recvAt[id2]
				// The receive itself is not observable: the event loop logs it when it
				// calls the filter, right after the hand-over. The sequence goroutine may
				// log its next start inside that window -- but then no other event-loop
				// activity can lie between the two log entries.
				if got && rc > st && !elActiveBetween(evs, st, rc) {
					continue
				}
				if !got || rc > st {
					out.fail(finding{Property: "C03", Class: "new", What: "sequence command started before the previous element's message was received", Input: desc,
						Expected: id2 + " received before " + id + " starts", Observed: fmt.Sprintf("recv=%v@%d start@%d", got, rc, st)})
				}
			}
		}
	}
	// messages reach Update in sequence order
	lastElem := -1
	for _, u := range updatesOf(evs) {
		if strings.HasPrefix(u, "c:") {
			k := elemOf[u[2:]]
			if k < lastElem {
				out.fail(finding{Property: "C03", Class: "new", What: "sequence messages reached Update out of order", Input: desc, Observed: u})
			}
			lastElem = k
		}
	}
	out.mu.Lock()
	out.TracesOK++
	out.mu.Unlock()
}

// elActiveBetween: did the event loop log anything strictly between a and b?
func elActiveBetween(evs []logEvent, a, b int) bool {
	for i := a + 1; i < b; i++ {
		k := evs[i].Kind
		if strings.HasPrefix(k, "update") || strings.HasPrefix(k, "view") || strings.HasPrefix(k, "filter") {
			return true
		}
	}
	return false
}

func isNilResult(elems []seqElem, id string) bool {
	for _, e := range elems {
		if e.id == id && e.kind == "nilresult" {
			return true
		}
	}
	return false
}

// ---- C16 ---------------------------------------------------------------------

func scenFilter(out *scenOut, r *rng, thorough bool) {
	out.Rule = "seeded filter policies (drop/keep/replace per message) over histories containing user, quit, interrupt, batch and mode messages; distinct = (policy seed, history)"
	quietStdio()
	runs := 40
	if thorough {
		runs = 400
	}
	for i := 0; i < runs; i++ {
		filterOnce(out, r.fork(), i)
	}
	filterSignal(out)
	filterQuitParked(out)
	filterBigBatch(out, "keep")
	filterBigBatch(out, "drop")
	twoSequencesAtOnce(out, true)
	for _, verdict := range []string{"keep", "drop", "replace"} {
		filterRepeated(out, verdict)
		for _, outcome := range []string{"ok", "fails", "release-fails"} {
			filterExecResult(out, verdict, outcome)
		}
		filterNestedSeq(out, verdict)
		for _, nested := range []bool{false, true} {
			for _, from := range []string{"update", "init"} {
				filterCmdBatch(out, verdict, nested, from)
			}
		}
	}
}

// filterNestedSeq: a sequence message that a command INSIDE a running sequence produced
// (Sequence nested in Sequence) is a message like any other: the filter is consulted for it and
// its verdict obeyed.
func filterNestedSeq(out *scenOut, verdict string) {
	ctl := newRecCtl()
	var seqs int32
	var ran [4]int32
	leaf := func(k int, id string) tea.Cmd {
		return func() tea.Msg { atomic.AddInt32(&ran[k], 1); return cmdMsg{id} }
	}
	cmd := tea.Sequence(leaf(0, "na"), tea.Sequence(leaf(1, "nb"), leaf(2, "nc")), leaf(3, "nd"))
	filter := func(name string, m tea.Msg) tea.Msg {
		if _, ok := tea.VerifSequenceCmds(m); ok {
			if atomic.AddInt32(&seqs, 1) == 2 { // the nested one
				switch verdict {
				case "drop":
					return nil
				case "replace":
					return userMsg{78, 0}
				}
			}
		}
		return m
	}
	ctl.onUpdate = func(m tea.Msg, v int) tea.Cmd {
		if u, ok := m.(userMsg); ok && u.Sender == 0 && u.Seq == 0 {
			return cmd
		}
		return nil
	}
	run := startProgram(ctl, nil, tea.WithInput(nil), tea.WithoutSignalHandler(), loggingFilter(ctl, filter))
	desc := "filter verdict=" + verdict + " for the sequence message produced inside a running sequence: Sequence(a, Sequence(b, c), d)"
	run.p.Send(userMsg{0, 0})
	waitFor(3*time.Second, func() bool { return ctl.log.has("update-exit", "c:nd") })
	time.Sleep(20 * time.Millisecond)
	run.p.Quit()
	if !run.wait(5 * time.Second) {
		out.fail(finding{Property: "C16", Class: "new", What: "program did not end", Input: desc, Observed: goroutineDump()})
		return
	}
	out.record(desc, desc)
	if got := atomic.LoadInt32(&seqs); got != 2 {
		out.fail(finding{Property: "C16", Class: "new", What: "filter not consulted exactly once for every sequence message (also the one a command inside a sequence produced)", Input: desc,
			Expected: "2", Observed: fmt.Sprint(got)})
	}
	wantInner := int32(1)
	if verdict != "keep" {
		wantInner = 0
	}
	if atomic.LoadInt32(&ran[0]) != 1 || atomic.LoadInt32(&ran[3]) != 1 || atomic.LoadInt32(&ran[1]) != wantInner || atomic.LoadInt32(&ran[2]) != wantInner {
		out.fail(finding{Property: "C16", Class: "new", What: "the commands of a nested sequence did not follow the filter's verdict on its message", Input: desc,
			Expected: fmt.Sprintf("a,d once; b,c %d times", wantInner), Observed: fmt.Sprint(ran)})
	}
	ups := strings.Join(updatesOf(ctl.log.snapshot()), ",")
	if verdict == "replace" && strings.Count(ups, "u78.0") != 1 {
		out.fail(finding{Property: "C16", Class: "new", What: "the message substituted for a nested sequence message did not reach Update exactly once", Input: desc, Observed: ups})
	}
}

// filterCmdBatch: a BatchMsg that a COMMAND produced (Init / Update returned tea.Batch) is a
// message like any other: the filter is consulted for it exactly once and its verdict obeyed.
func filterCmdBatch(out *scenOut, verdict string, nested bool, from string) {
	ctl := newRecCtl()
	var ran, batches int32
	leaf := func(id string) tea.Cmd {
		return func() tea.Msg { atomic.AddInt32(&ran, 1); return cmdMsg{id} }
	}
	var cmd tea.Cmd
	wantBatches, leaves := 1, 2
	if nested {
		cmd = tea.Batch(tea.Batch(leaf("a"), leaf("b")), leaf("c"))
		wantBatches, leaves = 2, 3
	} else {
		cmd = tea.Batch(leaf("a"), leaf("b"))
	}
	filter := func(name string, m tea.Msg) tea.Msg {
		if _, ok := m.(tea.BatchMsg); ok {
			n := atomic.AddInt32(&batches, 1)
			if n == 1 { // the verdict concerns the outermost batch
				switch verdict {
				case "drop":
					return nil
				case "replace":
					return userMsg{77, 0}
				}
			}
		}
		return m
	}
	if from == "init" {
		ctl.initCmd = cmd
	}
	ctl.onUpdate = func(m tea.Msg, v int) tea.Cmd {
		if u, ok := m.(userMsg); ok && u.Sender == 0 && u.Seq == 0 && from == "update" {
			return cmd
		}
		return nil
	}
	run := startProgram(ctl, nil, tea.WithInput(nil), tea.WithoutSignalHandler(), loggingFilter(ctl, filter))
	desc := fmt.Sprintf("filter verdict=%s for a BatchMsg produced by the command that %s returned (nested=%t)", verdict, from, nested)
	run.p.Send(userMsg{0, 0})
	expectRan := int32(leaves)
	if verdict != "keep" {
		expectRan = 0
		wantBatches = 1
	}
	waitFor(2*time.Second, func() bool {
		return atomic.LoadInt32(&batches) >= int32(wantBatches) && atomic.LoadInt32(&ran) >= expectRan &&
			(verdict != "replace" || ctl.log.has("update-exit", "u77.0"))
	})
	time.Sleep(20 * time.Millisecond) // anything that should NOT happen has had its chance
	run.p.Send(userMsg{0, 1})
	run.p.Quit()
	if !run.wait(5 * time.Second) {
		out.fail(finding{Property: "C16", Class: "new", What: "program did not end", Input: desc, Observed: goroutineDump()})
		return
	}
	out.record(desc, desc)
	if got := atomic.LoadInt32(&batches); got != int32(wantBatches) {
		out.fail(finding{Property: "C16", Class: "new", What: "filter not consulted exactly once for every batch message a command produced", Input: desc,
			Expected: fmt.Sprint(wantBatches), Observed: fmt.Sprint(got)})
	}
	if got := atomic.LoadInt32(&ran); got != expectRan {
		out.fail(finding{Property: "C16", Class: "new", What: "the commands of a batch message ran although the filter suppressed or replaced it (or did not run although it was let through)", Input: desc,
			Expected: fmt.Sprint(expectRan), Observed: fmt.Sprint(got)})
	}
	ups := strings.Join(updatesOf(ctl.log.snapshot()), ",")
	if verdict == "replace" && strings.Count(ups, "u77.0") != 1 {
		out.fail(finding{Property: "C16", Class: "new", What: "the message substituted for a batch message did not reach Update exactly once", Input: desc, Observed: ups})
	}
}

// filterSignal: an interrupt that comes from SIGINT is a message like any
// other: the filter is consulted for it and its verdict is obeyed.
func filterSignal(out *scenOut) {
	guard := make(chan os.Signal, 8)
	signal.Notify(guard, syscall.SIGINT, syscall.SIGTERM)
	defer signal.Stop(guard)
	for _, sig := range []syscall.Signal{syscall.SIGINT, syscall.SIGTERM} {
		ctl := newRecCtl()
		var seen int32
		filter := func(name string, m tea.Msg) tea.Msg {
			if name == "interrupt" || name == "quit" {
				if atomic.AddInt32(&seen, 1) == 1 {
					return nil // drop the one that comes from the signal
				}
			}
			return m
		}
		run := startProgram(ctl, nil, tea.WithInput(nil), loggingFilter(ctl, filter))
		waitFor(2*time.Second, func() bool { return ctl.log.has("view-exit", "") })
		time.Sleep(30 * time.Millisecond) // the handler goroutine has registered
		syscall.Kill(syscall.Getpid(), sig)
		desc := fmt.Sprintf("%v delivered to a program whose filter drops the resulting message", sig)
		ended := run.wait(300 * time.Millisecond)
		out.record("filter-signal/"+sig.String(), desc)
		if ended {
			out.fail(finding{Property: "C16", Class: "new", What: "a signal ended the program although the filter suppressed the message it is forwarded as", Input: desc,
				Expected: "the filter is consulted and obeyed", Observed: fmt.Sprintf("Run returned %v; filter consulted for it %d times", run.err, atomic.LoadInt32(&seen))})
			continue
		}
		if atomic.LoadInt32(&seen) != 1 {
			out.fail(finding{Property: "C16", Class: "new", What: "the filter was not consulted for the message a signal is forwarded as", Input: desc, Observed: fmt.Sprint(atomic.LoadInt32(&seen))})
		}
		run.p.Quit()
		run.wait(3 * time.Second)
	}
}

type fmsg struct {
	name string
	make func() tea.Msg
	mark string // bytes the built-in effect writes ("" = none)
	ends string // "", "nil", "interrupted"
}

func filterOnce(out *scenOut, r *rng, idx int) {
	ctl := newRecCtl()
	var batchRan int32
	kinds := []fmsg{
		{"user", nil, "", ""},
		{"enteraltscreen", func() tea.Msg { return tea.EnterAltScreen() }, "\x1b[?1049h", ""},
		{"exitaltscreen", func() tea.Msg { return tea.ExitAltScreen() }, "", ""},
		{"enablemouseallmotion", func() tea.Msg { return tea.EnableMouseAllMotion() }, "\x1b[?1003h", ""},
		{"disablemouse", func() tea.Msg { return tea.DisableMouse() }, "\x1b[?1003l", ""},
		{"hidecursor", func() tea.Msg { return tea.HideCursor() }, "", ""},
		{"enablereportfocus", func() tea.Msg { return tea.EnableReportFocus() }, "\x1b[?1004h", ""},
		{"clearscreen", func() tea.Msg { return tea.ClearScreen() }, "", ""}, // (its bytes are also part of entering the alt screen)
		{"batch", func() tea.Msg {
			return tea.BatchMsg{func() tea.Msg { atomic.AddInt32(&batchRan, 1); return nil }}
		}, "", ""},
		{"println", func() tea.Msg { return tea.Println("SECRET-LINE")() }, "SECRET-LINE", ""},
		{"quit", func() tea.Msg { return tea.QuitMsg{} }, "", "nil"},
		{"interrupt", func() tea.Msg { return tea.InterruptMsg{} }, "", "interrupted"},
	}
	n := r.rangeIn(3, 14)
	type item struct {
		k       fmsg
		msg     tea.Msg
		name    string
		verdict string // keep drop replace
		repl    tea.Msg
		replK   fmsg
	}
	items := make([]item, n)
	policy := map[string]*item{}
	ended := false
	for i := range items {
		k := kinds[r.intn(len(kinds))]
		if ended {
			k = kinds[0]
		}
		it := item{k: k}
		if k.make == nil {
			it.msg = userMsg{0, i}
		} else {
			it.msg = k.make()
		}
		it.name = msgName(it.msg)
		switch r.intn(5) {
		case 0:
			it.verdict = "drop"
		case 1:
			it.verdict = "replace"
			rk := kinds[r.intn(len(kinds))]
			if rk.make == nil {
				it.repl = userMsg{50, i}
			} else {
				it.repl = rk.make()
			}
			it.replK = rk
		default:
			it.verdict = "keep"
		}
		items[i] = it
	}
	// the filter is keyed by position: the messages arrive in order from one sender
	var pos int32
	out0 := &safeBuffer{}
	filter := func(name string, m tea.Msg) tea.Msg {
		if strings.HasPrefix(name, "c:") || name == "nil" {
			return m
		}
		i := int(atomic.AddInt32(&pos, 1)) - 1
		if i >= len(items) {
			return m
		}
		it := &items[i]
		policy[name] = it
		switch it.verdict {
		case "drop":
			return nil
		case "replace":
			return it.repl
		}
		return m
	}
	run := startProgram(ctl, out0, tea.WithInput(nil), tea.WithoutSignalHandler(), tea.WithFPS(120), loggingFilter(ctl, filter))
	desc := fmt.Sprintf("filter#%d", idx)
	hist := ""
	// effective end: first item whose effective message ends the program
	endAt, endErr := -1, ""
	for i, it := range items {
		eff := it.k
		if it.verdict == "replace" {
			eff = it.replK
		}
		hist += fmt.Sprintf("%s:%s ", it.k.name, it.verdict)
		if it.verdict != "drop" && eff.ends != "" && endAt < 0 {
			endAt, endErr = i, eff.ends
		}
	}
	desc += " " + hist
	sent := 0
	for i, it := range items {
		done := make(chan struct{})
		go func() { run.p.Send(it.msg); close(done) }()
		select {
		case <-done:
			sent++
		case <-time.After(3 * time.Second):
			out.fail(finding{Property: "C16", Class: "new", What: "Send blocked while the program should be running", Input: desc, Observed: goroutineDump()})
			return
		}
		if it.k.name == "println" || (it.verdict == "replace" && it.replK.name == "println") {
			time.Sleep(25 * time.Millisecond) // a few frames: the printed line (if any) reaches the output now
		}
		if endAt >= 0 && i >= endAt {
			break
		}
	}
	if endAt < 0 {
		time.Sleep(3 * time.Millisecond)
		// nothing ended it: a dropped quit must not have quit the program
		select {
		case <-run.done:
			out.fail(finding{Property: "C16", Class: "new", What: "program ended although every terminating message was suppressed by the filter", Input: desc})
			return
		default:
		}
		atomic.StoreInt32(&pos, int32(len(items)+1))
		run.p.Quit()
		endErr = "nil"
	}
	if !run.wait(5 * time.Second) {
		out.fail(finding{Property: "C16", Class: "new", What: "program did not end on a terminating message that passed the filter", Input: desc, Observed: goroutineDump()})
		return
	}
	out.record(hist, desc)
	if errClass(run.err) != endErr {
		out.fail(finding{Property: "C16", Class: "new", What: "wrong Run result for the filtered history", Input: desc, Expected: endErr, Observed: errClass(run.err)})
	}
	evs := ctl.log.snapshot()
	if n := atomic.LoadInt32(&ctl.badVersion); n != 0 {
		out.fail(finding{Property: "C16", Class: "new", What: "filter did not receive the current model", Input: desc})
	}
	// consulted exactly once per message handed over, in order
	fcount := 0
	for _, e := range evs {
		if e.Kind == "filter-enter" && !strings.HasPrefix(e.Arg, "c:") && !strings.HasPrefix(e.Arg, "nil ") {
			fcount++
		}
	}
	expectF := sent
	if endAt < 0 {
		expectF = sent + 1 // the final Quit()
	}
	if fcount != expectF {
		out.fail(finding{Property: "C16", Class: "new", What: "filter not consulted exactly once per message", Input: desc, Expected: fmt.Sprint(expectF), Observed: fmt.Sprint(fcount)})
	}
	// Update saw exactly the effective messages
	var wantUps []string
	limit := len(items)
	if endAt >= 0 {
		limit = endAt
	}
	wantMarks := map[string]bool{}
	altNow := false
	for i := 0; i < limit; i++ {
		it := items[i]
		eff, effMsg := it.k, it.msg
		if it.verdict == "drop" {
			continue
		}
		if it.verdict == "replace" {
			eff, effMsg = it.replK, it.repl
		}
		if eff.name == "batch" {
			continue // expanded, never passed to Update
		}
		if eff.name == "enteraltscreen" {
			altNow = true
		}
		if eff.name == "exitaltscreen" {
			altNow = false
		}
		if eff.mark != "" && !(eff.name == "println" && altNow) {
			wantMarks[eff.mark] = true
		}
		wantUps = append(wantUps, msgName(effMsg))
	}
	var gotUps []string
	for _, u := range updatesOf(evs) {
		if !strings.HasPrefix(u, "c:") {
			gotUps = append(gotUps, u)
		}
	}
	if strings.Join(gotUps, ",") != strings.Join(wantUps, ",") {
		out.fail(finding{Property: "C16", Class: "new", What: "Update did not see exactly the messages the filter let through or substituted", Input: desc,
			Expected: strings.Join(wantUps, ","), Observed: strings.Join(gotUps, ",")})
	}
	// built-in effects: present for effective messages, absent for suppressed ones
	written := out0.String()
	for _, k := range kinds {
		if k.mark == "" {
			continue
		}
		has := strings.Contains(written, k.mark)
		if k.mark == "\x1b[?1003l" {
			continue // also written by the terminal restore at exit
		}
		if has != wantMarks[k.mark] {
			out.fail(finding{Property: "C16", Class: "new", What: "built-in effect of a message does not follow the filter's verdict", Input: desc,
				Expected: fmt.Sprintf("%q written=%t", k.mark, wantMarks[k.mark]), Observed: fmt.Sprintf("written=%t", has)})
		}
	}
	out.mu.Lock()
	out.TracesOK++
	out.mu.Unlock()
}

// filterExecResult: the message an Exec callback produces is a message like any other, whatever
// the outcome of the command (success, failure, terminal could not be released): the filter is
// consulted for it exactly once and its verdict obeyed.
func filterExecResult(out *scenOut, verdict, outcome string) {
	ctl := newRecCtl()
	pr, pw, err := os.Pipe()
	if err != nil {
		return
	}
	defer pw.Close()
	defer pr.Close()
	var run *progRun
	ready := make(chan struct{})
	fe := &fakeExec{run: func(f *fakeExec) error {
		if outcome == "fails" {
			return errExecFailed
		}
		return nil
	}}
	var consulted int32
	filter := func(name string, m tea.Msg) tea.Msg {
		if _, ok := m.(execDoneMsg); ok {
			atomic.AddInt32(&consulted, 1)
			switch verdict {
			case "drop":
				return nil
			case "replace":
				return userMsg{78, 0}
			}
		}
		return m
	}
	ctl.onUpdate = func(m tea.Msg, v int) tea.Cmd {
		if u, ok := m.(userMsg); ok && u.Sender == 9 {
			<-ready
			if outcome == "release-fails" {
				gone, err := os.Open(os.DevNull)
				if err == nil {
					gone.Close()
					tea.VerifSetTTYInput(run.p, gone, &term.State{})
				}
			}
			return tea.Exec(fe, func(err error) tea.Msg { return execDoneMsg{Tag: "x", Err: err} })
		}
		return nil
	}
	run = startProgram(ctl, nil, tea.WithInput(pr), tea.WithoutSignalHandler(), loggingFilter(ctl, filter))
	close(ready)
	desc := fmt.Sprintf("Exec with a callback, command outcome=%s; the filter's verdict on the callback's message: %s", outcome, verdict)
	waitFor(2*time.Second, func() bool { return ctl.log.has("view-exit", "") })
	run.p.Send(userMsg{9, 0})
	waitFor(3*time.Second, func() bool { return atomic.LoadInt32(&consulted) > 0 || ctl.log.has("update-exit", "execdone:x") })
	run.p.Send(userMsg{0, 1}) // a probe: everything before it has been processed
	waitFor(2*time.Second, func() bool { return ctl.log.has("update-exit", "u0.1") })
	out.record("filter-exec/"+verdict+"/"+outcome, desc)
	if n := atomic.LoadInt32(&consulted); n != 1 {
		out.fail(finding{Property: "C16", Class: "new", What: "the filter was not consulted exactly once for the message of an Exec callback", Input: desc, Expected: "1", Observed: fmt.Sprint(n)})
	}
	gotDone := ctl.log.count("update-enter", "execdone:x")
	gotRepl := ctl.log.count("update-enter", "u78.0")
	wantDone, wantRepl := 0, 0
	switch verdict {
	case "keep":
		wantDone = 1
	case "replace":
		wantRepl = 1
	}
	if gotDone != wantDone || gotRepl != wantRepl {
		out.fail(finding{Property: "C16", Class: "new", What: "the filter's verdict on the message of an Exec callback was not obeyed", Input: desc,
			Expected: fmt.Sprintf("Update sees the callback message %d times and the replacement %d times", wantDone, wantRepl),
			Observed: fmt.Sprintf("callback message %d times, replacement %d times", gotDone, gotRepl)})
	}
	run.p.Quit()
	if !run.wait(3 * time.Second) {
		killNow(run.p)
		run.wait(3 * time.Second)
	}
}

// filterRepeated: the same message sent twice in a row is two messages: the filter is consulted for
// each, and its verdicts (drop the first, keep the second; replace the first, keep the second)
// are obeyed independently - whatever the library remembers of the first must not matter.
func filterRepeated(out *scenOut, verdict string) {
	ctl := newRecCtl()
	pairs := []tea.Msg{
		tea.WindowSizeMsg{Width: 80, Height: 24}, tea.FocusMsg{}, tea.BlurMsg{},
		tea.KeyMsg{Type: tea.KeyRunes, Runes: []rune{'x'}}, tea.MouseMsg{X: 3, Y: 4}, userMsg{6, 0},
		tea.HideCursor(), tea.EnableReportFocus(), tea.ClearScreen(),
		// messages whose VALUE is nil but which are not the nil message: a nil slice, map, pointer
		nilListMsg(nil), nilMapMsg(nil), (*ptrMsg)(nil),
	}
	var mu sync.Mutex
	seen := map[string]int{}
	inPairs := map[string]bool{}
	for _, m := range pairs {
		inPairs[msgName(m)] = true
	}
	filter := func(name string, m tea.Msg) tea.Msg {
		if !inPairs[name] {
			return m
		}
		mu.Lock()
		seen[name]++
		n := seen[name]
		mu.Unlock()
		if n == 1 {
			switch verdict {
			case "drop":
				return nil
			case "replace":
				return userMsg{77, len(name)}
			}
		}
		return m
	}
	run := startProgram(ctl, nil, tea.WithInput(nil), tea.WithoutSignalHandler(), loggingFilter(ctl, filter))
	var want []string
	for _, m := range pairs {
		run.p.Send(m)
		run.p.Send(m)
		name := msgName(m)
		switch verdict {
		case "keep":
			want = append(want, name, name)
		case "drop":
			want = append(want, name)
		case "replace":
			want = append(want, fmt.Sprintf("u77.%d", len(name)), name)
		}
	}
	run.p.Send(userMsg{6, 9})
	want = append(want, "u6.9")
	waitFor(3*time.Second, func() bool { return ctl.log.has("update-exit", "u6.9") })
	run.p.Quit()
	run.wait(5 * time.Second)
	desc := "every message sent twice in a row (size, focus, blur, key, mouse, user, mode commands); the filter's verdict on the FIRST of each pair: " + verdict + ", on the second: keep"
	out.record("filter-repeated/"+verdict, desc)
	mu.Lock()
	var under []string
	for _, m := range pairs {
		if n := seen[msgName(m)]; n != 2 {
			under = append(under, fmt.Sprintf("%s:%d", msgName(m), n))
		}
	}
	mu.Unlock()
	if len(under) > 0 {
		out.fail(finding{Property: "C16", Class: "new", What: "the filter was not consulted exactly once for every message (the same message sent twice)", Input: desc,
			Expected: "2 consultations per pair", Observed: strings.Join(under, " ")})
	}
	var got []string
	for _, u := range updatesOf(ctl.log.snapshot()) {
		if !strings.HasPrefix(u, "c:") && u != "nil" {
			got = append(got, u)
		}
	}
	if strings.Join(got, " , ") != strings.Join(want, " , ") {
		out.fail(finding{Property: "C16", Class: "new", What: "the filter's verdicts were not obeyed message by message (the same message sent twice)", Input: desc,
			Expected: strings.Join(want, " , "), Observed: strings.Join(got, " , ")})
	}
}

// filterQuitParked: the event loop holds a QuitMsg (the filter is being consulted about it) while a
// sender is parked in Send with a message the filter would replace. Whatever happens to that
// message at shutdown - dropped with the program, or delivered - Update never receives anything
// the filter did not pass.
func filterQuitParked(out *scenOut) {
	ctl := newRecCtl()
	hold := make(chan struct{})
	var holding int32
	filter := func(name string, m tea.Msg) tea.Msg {
		if u, ok := m.(userMsg); ok && u.Sender == 5 {
			return userMsg{55, u.Seq}
		}
		if _, ok := m.(tea.QuitMsg); ok && atomic.CompareAndSwapInt32(&holding, 0, 1) {
			<-hold
		}
		return m
	}
	run := startProgram(ctl, nil, tea.WithInput(nil), tea.WithoutSignalHandler(), loggingFilter(ctl, filter))
	desc := "the filter replaces u5.* by u55.*; while it is consulted about a QuitMsg two senders park in Send with u5.1 and u5.2; then the filter returns"
	run.p.Send(userMsg{5, 0})
	waitFor(2*time.Second, func() bool { return ctl.log.has("update-exit", "u55.0") })
	go run.p.Send(tea.Quit())
	if !waitFor(2*time.Second, func() bool { return atomic.LoadInt32(&holding) == 1 }) {
		close(hold)
		killNow(run.p)
		run.wait(3 * time.Second)
		return
	}
	sent := make(chan struct{}, 2)
	for k := 1; k <= 2; k++ {
		go func(k int) { run.p.Send(userMsg{5, k}); sent <- struct{}{} }(k)
	}
	time.Sleep(60 * time.Millisecond) // both are parked in Send: the loop is busy in the filter
	close(hold)
	out.record("filter-quit-parked", desc)
	if !run.wait(4 * time.Second) {
		out.fail(finding{Property: "C04", Class: "new", What: "Run did not return after quit", Input: desc})
		killNow(run.p)
		run.wait(3 * time.Second)
		return
	}
	for k := 0; k < 2; k++ {
		select {
		case <-sent:
		case <-time.After(2 * time.Second):
			out.fail(finding{Property: "C13", Class: "new", What: "a Send parked at termination never returned", Input: desc})
		}
	}
	for _, u := range updatesOf(ctl.log.snapshot()) {
		if strings.HasPrefix(u, "u5.") {
			out.fail(finding{Property: "C16", Class: "new", What: "Update received a message the filter had replaced (a sender parked in Send while the program quit)", Input: desc,
				Expected: "only what the filter passed: u55.*", Observed: u})
		}
	}
	if got := errClass(run.err); got != "nil" {
		out.fail(finding{Property: "C04", Class: "new", What: "wrong Run result", Input: desc, Expected: "nil", Observed: got})
	}
}

// rawBatchNil: a BatchMsg built by hand (or returned by a command) may contain nil entries; they
// are skipped, and the other commands of the batch run once and deliver their results once.
func rawBatchNil(out *scenOut, nested bool) {
	ctl := newRecCtl()
	var ran [3]int32
	mk := func(k int, id string) tea.Cmd {
		return func() tea.Msg { atomic.AddInt32(&ran[k], 1); return cmdMsg{id} }
	}
	a, b, c := mk(0, "na"), mk(1, "nb"), mk(2, "nc")
	if nested {
		inner := func() tea.Msg { return tea.BatchMsg{b, nil, c} }
		ctl.initCmd = tea.Batch(a, nil, inner)
	} else {
		ctl.initCmd = func() tea.Msg { return tea.BatchMsg{nil, a, nil, b, c, nil} }
	}
	run := startProgram(ctl, nil, tea.WithInput(nil), tea.WithoutSignalHandler())
	desc := fmt.Sprintf("a hand-built BatchMsg with nil entries (nested=%t) produced by Init's command", nested)
	ok := waitFor(3*time.Second, func() bool {
		return ctl.log.has("update-exit", "c:na") && ctl.log.has("update-exit", "c:nb") && ctl.log.has("update-exit", "c:nc")
	})
	out.record(fmt.Sprintf("raw-batch-nil/%t", nested), desc)
	select {
	case <-run.done:
		out.fail(finding{Property: "C02", Class: "new", What: "a nil entry of a BatchMsg ended the program instead of being skipped", Input: desc, Expected: "still running", Observed: "Run returned " + errClass(run.err)})
		return
	default:
	}
	if !ok {
		out.fail(finding{Property: "C02", Class: "new", What: "the commands next to a nil entry of a BatchMsg did not all deliver their results", Input: desc,
			Expected: "na nb nc", Observed: strings.Join(updatesOf(ctl.log.snapshot()), " ")})
	}
	for k, id := range []string{"na", "nb", "nc"} {
		if n := atomic.LoadInt32(&ran[k]); n != 1 {
			out.fail(finding{Property: "C02", Class: "new", What: "command not invoked exactly once", Input: desc + " cmd=" + id, Expected: "1", Observed: fmt.Sprint(n)})
		}
		if n := ctl.log.count("update-enter", "c:"+id); n != 1 {
			out.fail(finding{Property: "C02", Class: "new", What: "command result not delivered exactly once", Input: desc + " cmd=" + id, Expected: "1", Observed: fmt.Sprint(n)})
		}
	}
	run.p.Quit()
	if !run.wait(3 * time.Second) {
		killNow(run.p)
		run.wait(3 * time.Second)
	}
}

// sendsAcrossExec: one goroutine keeps sending numbered messages while an Exec releases the
// terminal, runs its command and takes the terminal back. With an input that cannot be cancelled
// (or no input) the release waits 500 ms for the read loop: a long window in which Sends complete.
// Every completed Send reaches Update, in order.
func sendsAcrossExec(out *scenOut, input string) {
	ctl := newRecCtl()
	fe := &fakeExec{run: func(f *fakeExec) error { time.Sleep(20 * time.Millisecond); return nil }}
	ctl.onUpdate = func(m tea.Msg, v int) tea.Cmd {
		if u, ok := m.(userMsg); ok && u.Sender == 9 {
			return tea.Exec(fe, func(err error) tea.Msg { return execDoneMsg{Tag: "x", Err: err} })
		}
		return nil
	}
	opts := []tea.ProgramOption{tea.WithoutSignalHandler()}
	var cleanup func()
	switch input {
	case "nil":
		opts = append(opts, tea.WithInput(nil))
	case "blocking":
		br := blockingReader{ch: make(chan struct{})}
		cleanup = func() { close(br.ch) }
		opts = append(opts, tea.WithInput(br))
	}
	run := startProgram(ctl, nil, opts...)
	if cleanup != nil {
		defer cleanup()
	}
	desc := "a goroutine sends numbered messages continuously while an Exec releases the terminal (500 ms wait for a read loop that cannot be cancelled), runs its command and restores; input=" + input
	waitFor(2*time.Second, func() bool { return ctl.log.has("view-exit", "") })
	var sent int32
	stop := make(chan struct{})
	senderDone := make(chan struct{})
	go func() {
		defer close(senderDone)
		for k := 0; ; k++ {
			select {
			case <-stop:
				return
			default:
			}
			run.p.Send(userMsg{3, k})
			atomic.StoreInt32(&sent, int32(k+1))
			time.Sleep(2 * time.Millisecond)
		}
	}()
	waitFor(time.Second, func() bool { return atomic.LoadInt32(&sent) >= 5 })
	run.p.Send(userMsg{9, 0})
	okCb := waitFor(4*time.Second, func() bool { return ctl.log.has("update-exit", "execdone:x") })
	base := atomic.LoadInt32(&sent)
	waitFor(time.Second, func() bool { return atomic.LoadInt32(&sent) >= base+5 })
	close(stop)
	<-senderDone
	n := int(atomic.LoadInt32(&sent))
	run.p.Send(userMsg{6, 6})
	waitFor(2*time.Second, func() bool { return ctl.log.has("update-exit", "u6.6") })
	run.p.Quit()
	run.wait(4 * time.Second)
	out.record("sends-across-exec/"+input, desc)
	if !okCb {
		return // (a C17 matter)
	}
	var got []string
	for _, u := range updatesOf(ctl.log.snapshot()) {
		if strings.HasPrefix(u, "u3.") {
			got = append(got, u)
		}
	}
	want := make([]string, n)
	for k := range want {
		want[k] = fmt.Sprintf("u3.%d", k)
	}
	if strings.Join(got, " ") != strings.Join(want, " ") {
		miss := 0
		seen := map[string]bool{}
		for _, g := range got {
			seen[g] = true
		}
		for _, w := range want {
			if !seen[w] {
				miss++
			}
		}
		out.fail(finding{Property: "C01", Class: "new", What: "messages whose Send completed while an Exec released / restored the terminal did not all reach Update exactly once and in order", Input: desc,
			Expected: fmt.Sprintf("u3.0 … u3.%d", n-1), Observed: fmt.Sprintf("%d of %d received, %d missing; first received: %s", len(got), n, miss, strings.Join(got[:min(len(got), 12)], " "))})
	}
}

// seqWhileLoopBusyLong: the event loop is busy for a long time (0.8 s inside Update for an
// unrelated message) while an element of a sequence delivers its result: the next element must
// not start before that message has been received, however long that takes.
func seqWhileLoopBusyLong(out *scenOut, batch bool) {
	ctl := newRecCtl()
	gate := make(chan struct{})
	var order []string
	var mu sync.Mutex
	note := func(s string) { mu.Lock(); order = append(order, s); mu.Unlock() }
	started := make(chan struct{})
	var startedOnce sync.Once
	first := func() tea.Msg {
		startedOnce.Do(func() { close(started) })
		<-gate
		note("first-returns")
		return cmdMsg{"lf"}
	}
	b2 := func() tea.Msg { <-gate; return cmdMsg{"lb"} }
	last := func() tea.Msg { note("last-starts"); return cmdMsg{"ll"} }
	var x tea.Cmd = first
	if batch {
		x = tea.Batch(first, nil, b2)
	}
	hold := make(chan struct{})
	ctl.onUpdate = func(m tea.Msg, v int) tea.Cmd {
		switch msgName(m) {
		case "u0.0":
			return tea.Sequence(x, last)
		case "u0.1":
			<-hold // an unrelated, slow Update
		case "c:lf":
			note("first-received")
		}
		return nil
	}
	run := startProgram(ctl, nil, tea.WithInput(nil), tea.WithoutSignalHandler())
	desc := fmt.Sprintf("Sequence(X, last), X batch=%t; the loop is inside an unrelated Update for 0.8 s while X delivers its result(s)", batch)
	run.p.Send(userMsg{0, 0})
	select { // the sequence is running: its first element has started
	case <-started:
	case <-time.After(2 * time.Second):
	}
	go run.p.Send(userMsg{0, 1})
	waitFor(time.Second, func() bool { return ctl.log.has("update-enter", "u0.1") })
	close(gate) // X's commands return now; their Sends park behind the busy loop
	time.Sleep(800 * time.Millisecond)
	mu.Lock()
	early := false
	for _, o := range order {
		if o == "last-starts" {
			early = true
		}
	}
	mu.Unlock()
	close(hold)
	waitFor(3*time.Second, func() bool { return ctl.log.has("update-exit", "c:ll") })
	run.p.Quit()
	run.wait(4 * time.Second)
	out.record(fmt.Sprintf("seq-loop-busy-long/%t", batch), desc)
	if early {
		out.fail(finding{Property: "C03", Class: "new", What: "sequence command started before the previous element's message was received (the event loop was busy for 0.8 s)", Input: desc,
			Expected: "the last element starts after the loop has received X's message(s)", Observed: "it started while the loop was still inside the unrelated Update"})
	}
	ups := updatesOf(ctl.log.snapshot())
	idx := func(n string) int {
		for i, u := range ups {
			if u == n {
				return i
			}
		}
		return -1
	}
	if idx("c:ll") >= 0 && idx("c:lf") > idx("c:ll") {
		out.fail(finding{Property: "C03", Class: "new", What: "messages of a sequence reached Update out of order", Input: desc, Observed: strings.Join(ups, " ")})
	}
}

// message types of reference kinds: their zero value is a nil slice / map / pointer, which is a
// perfectly good message (an empty result list, …), not "no message"
type nilListMsg []string
type nilMapMsg map[string]int
type ptrMsg struct{ n int }

// cmdResultsAcrossExec: commands started together with an Exec (one Batch) finish at staggered
// times - while the terminal is being released (with an input that cannot be cancelled the release
// waits 500 ms for the read loop), while the command runs, while the terminal is taken back and
// afterwards. Every result reaches Update exactly once, whatever the program is doing with its
// terminal at that moment (C02: "if it returns a non-nil message while the program is running, that
// message is delivered to Update exactly once").
func cmdResultsAcrossExec(out *scenOut, input string) {
	ctl := newRecCtl()
	fe := &fakeExec{run: func(f *fakeExec) error { time.Sleep(60 * time.Millisecond); return nil }}
	const n = 40
	ctl.onUpdate = func(m tea.Msg, v int) tea.Cmd {
		if u, ok := m.(userMsg); ok && u.Sender == 9 {
			cmds := []tea.Cmd{tea.Exec(fe, func(err error) tea.Msg { return execDoneMsg{Tag: "x", Err: err} })}
			for k := 0; k < n; k++ {
				k := k
				cmds = append(cmds, func() tea.Msg {
					time.Sleep(time.Duration(k*20) * time.Millisecond) // 0 .. 780 ms: across release, command and restore
					return cmdMsg{fmt.Sprintf("r%d", k)}
				})
			}
			return tea.Batch(cmds...)
		}
		return nil
	}
	opts := []tea.ProgramOption{tea.WithoutSignalHandler()}
	var cleanup func()
	switch input {
	case "nil":
		opts = append(opts, tea.WithInput(nil))
	case "blocking":
		br := blockingReader{ch: make(chan struct{})}
		cleanup = func() { close(br.ch) }
		opts = append(opts, tea.WithInput(br))
	case "pipe":
		pr, pw, err := os.Pipe()
		if err != nil {
			return
		}
		cleanup = func() { pr.Close(); pw.Close() }
		opts = append(opts, tea.WithInput(pr))
	}
	run := startProgram(ctl, nil, opts...)
	if cleanup != nil {
		defer cleanup()
	}
	desc := fmt.Sprintf("Update returns Batch(Exec, %d commands finishing 0, 20, … %d ms later); input=%s", n, (n-1)*20, input)
	waitFor(2*time.Second, func() bool { return ctl.log.has("view-exit", "") })
	run.p.Send(userMsg{9, 0})
	okCb := waitFor(4*time.Second, func() bool { return ctl.log.has("update-exit", "execdone:x") })
	waitFor(3*time.Second, func() bool { return ctl.log.count("update-exit", "c:r") >= n })
	time.Sleep(50 * time.Millisecond)
	run.p.Quit()
	run.wait(4 * time.Second)
	out.record("cmd-results-across-exec/"+input, desc)
	if !okCb {
		return // (a C17 matter)
	}
	counts := map[string]int{}
	for _, u := range updatesOf(ctl.log.snapshot()) {
		if strings.HasPrefix(u, "c:r") {
			counts[u]++
		}
	}
	var bad []string
	for k := 0; k < n; k++ {
		if c := counts[fmt.Sprintf("c:r%d", k)]; c != 1 {
			bad = append(bad, fmt.Sprintf("r%d x%d", k, c))
		}
	}
	if len(bad) > 0 {
		out.fail(finding{Property: "C02", Class: "new", What: "results of commands that finished while an Exec released / held / restored the terminal did not all reach Update exactly once", Input: desc,
			Expected: fmt.Sprintf("%d results, once each", n), Observed: strings.Join(bad[:min(len(bad), 12)], ", ")})
	}
}

// ---- crossing thresholds (round 13): many, big, slow -----------------------------------------

// twoBigBatches: two Batches of 300 commands each returned by consecutive Updates (more commands than
// any internal queue or limit could hold), each command returning its own message: all 600 are
// invoked once and all 600 results reach Update once.
func twoBigBatches(out *scenOut) {
	ctl := newRecCtl()
	const n = 300
	var invoked [2 * n]int32
	mk := func(base int) tea.Cmd {
		cmds := make([]tea.Cmd, n)
		for i := range cmds {
			k := base + i
			cmds[i] = func() tea.Msg { atomic.AddInt32(&invoked[k], 1); return cmdMsg{fmt.Sprintf("big%d", k)} }
		}
		return tea.Batch(cmds...)
	}
	ctl.onUpdate = func(m tea.Msg, v int) tea.Cmd {
		if u, ok := m.(userMsg); ok && u.Sender == 0 {
			return mk(u.Seq * n)
		}
		return nil
	}
	run := startProgram(ctl, nil, tea.WithInput(nil), tea.WithoutSignalHandler())
	desc := fmt.Sprintf("two consecutive Updates each return a Batch of %d commands", n)
	run.p.Send(userMsg{0, 0})
	run.p.Send(userMsg{0, 1})
	waitFor(6*time.Second, func() bool { return ctl.log.count("update-exit", "c:big") >= 2*n })
	time.Sleep(30 * time.Millisecond)
	run.p.Quit()
	run.wait(4 * time.Second)
	out.record("two-big-batches", desc)
	notOnce := 0
	for i := range invoked {
		if atomic.LoadInt32(&invoked[i]) != 1 {
			notOnce++
		}
	}
	counts := map[string]int{}
	for _, u := range updatesOf(ctl.log.snapshot()) {
		if strings.HasPrefix(u, "c:big") {
			counts[u]++
		}
	}
	bad := 0
	for k := 0; k < 2*n; k++ {
		if counts[fmt.Sprintf("c:big%d", k)] != 1 {
			bad++
		}
	}
	if notOnce > 0 || bad > 0 {
		out.fail(finding{Property: "C02", Class: "new", What: "commands of two large consecutive Batches were not all invoked exactly once with their results delivered exactly once", Input: desc,
			Expected: fmt.Sprintf("%d invoked once, %d results once", 2*n, 2*n), Observed: fmt.Sprintf("%d commands not invoked exactly once, %d results not delivered exactly once", notOnce, bad)})
	}
}

// slowViewNoOverlap: a View that takes 70 ms, several times in a row, while messages keep arriving:
// callbacks still never overlap, and the model each Update gets is the one the previous returned.
func slowViewNoOverlap(out *scenOut) {
	ctl := newRecCtl()
	var slow int32 = 1
	ctl.viewOf = func(version, ups int) string {
		if atomic.LoadInt32(&slow) == 1 {
			time.Sleep(70 * time.Millisecond)
		}
		return fmt.Sprintf("v%d\n", ups)
	}
	run := startProgram(ctl, nil, tea.WithInput(nil), tea.WithoutSignalHandler())
	desc := "View takes 70 ms for the first eight messages; a sender keeps sending every 5 ms"
	waitFor(2*time.Second, func() bool { return ctl.log.has("view-exit", "") })
	done := make(chan struct{})
	go func() {
		defer close(done)
		for k := 0; k < 40; k++ {
			run.p.Send(userMsg{3, k})
			if k == 8 {
				atomic.StoreInt32(&slow, 0)
			}
			time.Sleep(5 * time.Millisecond)
		}
	}()
	select {
	case <-done:
	case <-time.After(8 * time.Second):
	}
	run.p.Send(userMsg{6, 6})
	waitFor(3*time.Second, func() bool { return ctl.log.has("update-exit", "u6.6") })
	run.p.Quit()
	run.wait(4 * time.Second)
	out.record("slow-view-no-overlap", desc)
	if n := atomic.LoadInt32(&ctl.overlaps); n != 0 {
		out.fail(finding{Property: "C01", Class: "new", What: "Init / Update / View / filter executed concurrently with one another (a slow View)", Input: desc, Expected: "0 overlaps", Observed: fmt.Sprint(n)})
	}
	if got := ctl.log.count("update-enter", "u3."); got != 40 {
		out.fail(finding{Property: "C01", Class: "new", What: "messages lost or duplicated while View was slow", Input: desc, Expected: "40", Observed: fmt.Sprint(got)})
	}
}

// seqSlowBatchElement: an element of a Sequence is a Batch one of whose commands takes 1.4 s (and a
// second batch whose messages are taken slowly by a busy loop): the next element does not start
// before EVERY message of the batch has been received, however long that takes (C03).
func seqSlowBatchElement(out *scenOut) {
	ctl := newRecCtl()
	var mu sync.Mutex
	var order []string
	note := func(s string) { mu.Lock(); order = append(order, s); mu.Unlock() }
	quick := func(id string) tea.Cmd { return func() tea.Msg { return cmdMsg{id} } }
	slow := func() tea.Msg { time.Sleep(1400 * time.Millisecond); note("slow-returns"); return cmdMsg{"sb-slow"} }
	next := func() tea.Msg { note("next-starts"); return cmdMsg{"sb-next"} }
	ctl.onUpdate = func(m tea.Msg, v int) tea.Cmd {
		if u, ok := m.(userMsg); ok && u.Sender == 9 {
			return tea.Sequence(quick("sb-first"), tea.Batch(quick("sb-a"), slow, quick("sb-b")), next)
		}
		if c, ok := m.(cmdMsg); ok && c.ID == "sb-slow" {
			note("slow-received")
		}
		return nil
	}
	run := startProgram(ctl, nil, tea.WithInput(nil), tea.WithoutSignalHandler())
	desc := "Sequence(first, Batch(a, a command taking 1.4 s, b), next)"
	waitFor(2*time.Second, func() bool { return ctl.log.has("view-exit", "") })
	run.p.Send(userMsg{9, 0})
	waitFor(5*time.Second, func() bool { return ctl.log.has("update-exit", "c:sb-next") })
	run.p.Quit()
	run.wait(4 * time.Second)
	out.record("seq-slow-batch-element", desc)
	mu.Lock()
	var starts []string
	for _, o := range order {
		if o != "slow-received" { // (handled by Update: later than "received by the loop", which is all the next start waits for)
			starts = append(starts, o)
		}
	}
	got := strings.Join(starts, " ")
	mu.Unlock()
	if got != "slow-returns next-starts" {
		out.fail(finding{Property: "C03", Class: "new", What: "the element after a Batch started before every command of the batch had delivered its message (a slow command in the batch)", Input: desc,
			Expected: "slow-returns next-starts", Observed: got})
	}
	var ups []string
	for _, u := range updatesOf(ctl.log.snapshot()) {
		if u == "c:sb-slow" || u == "c:sb-next" || u == "c:sb-first" {
			ups = append(ups, u)
		}
	}
	if strings.Join(ups, " ") != "c:sb-first c:sb-slow c:sb-next" {
		out.fail(finding{Property: "C03", Class: "new", What: "the messages of a sequence with a slow batch element did not reach Update in sequence order", Input: desc,
			Expected: "c:sb-first c:sb-slow c:sb-next", Observed: strings.Join(ups, " ")})
	}
}

// filterBigBatch: Update returns a Batch of 300 commands (more than any slice size the loop might
// work a batch off in): the filter is consulted for exactly ONE batch message, that of all 300
// commands, and - having let it through - every command runs once and every result is filtered and
// delivered once. With the verdict "drop" for that batch none of the commands runs.
func filterBigBatch(out *scenOut, verdict string) {
	ctl := newRecCtl()
	const n = 300
	var ran int32
	var mu sync.Mutex
	var batchSizes []int
	cmds := make([]tea.Cmd, n)
	for i := range cmds {
		id := fmt.Sprintf("fb%d", i)
		cmds[i] = func() tea.Msg { atomic.AddInt32(&ran, 1); return cmdMsg{id} }
	}
	filter := func(name string, m tea.Msg) tea.Msg {
		if b, ok := m.(tea.BatchMsg); ok {
			mu.Lock()
			batchSizes = append(batchSizes, len(b))
			mu.Unlock()
			if verdict == "drop" {
				return nil
			}
		}
		return m
	}
	ctl.onUpdate = func(m tea.Msg, v int) tea.Cmd {
		if u, ok := m.(userMsg); ok && u.Sender == 0 && u.Seq == 0 {
			return tea.Batch(cmds...)
		}
		return nil
	}
	run := startProgram(ctl, nil, tea.WithInput(nil), tea.WithoutSignalHandler(), loggingFilter(ctl, filter))
	desc := fmt.Sprintf("filter verdict=%s for the BatchMsg of a Batch of %d commands", verdict, n)
	run.p.Send(userMsg{0, 0})
	if verdict == "drop" {
		time.Sleep(150 * time.Millisecond)
	} else {
		waitFor(5*time.Second, func() bool { return ctl.log.count("update-exit", "c:fb") >= n })
		time.Sleep(30 * time.Millisecond)
	}
	run.p.Quit()
	if !run.wait(5 * time.Second) {
		out.fail(finding{Property: "C16", Class: "new", What: "program did not end", Input: desc, Observed: goroutineDump()})
		return
	}
	out.record(desc, desc)
	mu.Lock()
	sizes := fmt.Sprint(batchSizes)
	mu.Unlock()
	if sizes != fmt.Sprintf("[%d]", n) {
		out.fail(finding{Property: "C16", Class: "new", What: "the filter was not consulted exactly once, for the batch as it was produced (batch messages nobody sent reached it, or none did)", Input: desc,
			Expected: fmt.Sprintf("[%d]", n), Observed: sizes})
	}
	wantRan := int32(n)
	if verdict == "drop" {
		wantRan = 0
	}
	if got := atomic.LoadInt32(&ran); got != wantRan {
		out.fail(finding{Property: "C16", Class: "new", What: "the commands of a large batch did not follow the filter's verdict on its message", Input: desc, Expected: fmt.Sprint(wantRan), Observed: fmt.Sprint(got)})
	}
	if got := ctl.log.count("update-enter", "c:fb"); got != int(wantRan) {
		out.fail(finding{Property: "C16", Class: "new", What: "results of the commands of a large batch did not reach Update exactly once", Input: desc, Expected: fmt.Sprint(wantRan), Observed: fmt.Sprint(got)})
	}
}

// ---- sharing between things that run at the same time (round 14) -----------------------------------

// twoSequencesAtOnce: two sequences of ONE program in flight together, each with a nil command in it
// and each with a Batch element whose commands are slow. Each sequence runs ITS OWN commands, each
// once, in its own order; the element after a batch starts only when that batch's own commands have
// all delivered (C03) - whatever the other sequence is doing meanwhile. With a filter that lets
// everything through (C16: the message let through is treated exactly as if it had been sent).
func twoSequencesAtOnce(out *scenOut, withFilter bool) {
	ctl := newRecCtl()
	var mu sync.Mutex
	var order []string
	note := func(s string) { mu.Lock(); order = append(order, s); mu.Unlock() }
	leaf := func(id string, d time.Duration) tea.Cmd {
		return func() tea.Msg { note("start " + id); time.Sleep(d); note("end " + id); return cmdMsg{id} }
	}
	seqA := tea.Sequence(leaf("A1", 60*time.Millisecond), nil, tea.Batch(leaf("A2a", 150*time.Millisecond), leaf("A2b", 120*time.Millisecond)), leaf("A3", 0), leaf("A4", 0))
	mkFast := func(L string) tea.Cmd {
		return tea.Sequence(leaf(L+"1", 5*time.Millisecond), nil, tea.Batch(leaf(L+"2a", 10*time.Millisecond), leaf(L+"2b", 5*time.Millisecond)), leaf(L+"3", 0), nil, leaf(L+"4", 0))
	}
	// B, C and D start while A waits for its slow batch: their batches finish in that time
	seqB := tea.Batch(mkFast("B"), mkFast("C"), mkFast("D"))
	ctl.onUpdate = func(m tea.Msg, v int) tea.Cmd {
		if u, ok := m.(userMsg); ok && u.Sender == 9 {
			if u.Seq == 0 {
				return seqA
			}
			return seqB
		}
		return nil
	}
	opts := []tea.ProgramOption{tea.WithInput(nil), tea.WithoutSignalHandler()}
	if withFilter {
		opts = append(opts, loggingFilter(ctl, func(name string, m tea.Msg) tea.Msg { return m }))
	}
	run := startProgram(ctl, nil, opts...)
	desc := fmt.Sprintf("two sequences in flight together, A = (A1, nil, Batch(A2a, A2b), A3, A4) with slow commands; B, C, D = (x1, nil, Batch(x2a, x2b), x3, nil, x4) with fast ones, started while A waits for its batch; filter=%t", withFilter)
	waitFor(2*time.Second, func() bool { return ctl.log.has("view-exit", "") })
	run.p.Send(userMsg{9, 0})
	time.Sleep(80 * time.Millisecond) // A1 has finished, A waits for its batch (another 120 / 150 ms)
	run.p.Send(userMsg{9, 1})
	waitFor(4*time.Second, func() bool {
		return ctl.log.has("update-exit", "c:A4") && ctl.log.has("update-exit", "c:B4") && ctl.log.has("update-exit", "c:C4") && ctl.log.has("update-exit", "c:D4")
	})
	time.Sleep(30 * time.Millisecond)
	run.p.Quit()
	run.wait(4 * time.Second)
	out.record(fmt.Sprintf("two-sequences-at-once/%t", withFilter), desc)
	props := []string{"C03"}
	if withFilter {
		props = []string{"C16", "C03"}
	}
	fail := func(what, exp, obs string) {
		for _, p := range props {
			out.fail(finding{Property: p, Class: "new", What: what, Input: desc, Expected: exp, Observed: obs})
		}
	}
	mu.Lock()
	ord := append([]string(nil), order...)
	mu.Unlock()
	idx := func(s string) int {
		for i, o := range ord {
			if o == s {
				return i
			}
		}
		return -1
	}
	cnt := func(s string) int {
		n := 0
		for _, o := range ord {
			if o == s {
				n++
			}
		}
		return n
	}
	for _, id := range []string{"A1", "A2a", "A2b", "A3", "A4", "B1", "B2a", "B2b", "B3", "B4", "C1", "C2a", "C2b", "C3", "C4", "D1", "D2a", "D2b", "D3", "D4"} {
		if cnt("start "+id) != 1 {
			fail("a command of one of two concurrent sequences did not run exactly once (the sequences share what should be their own)", id+" once", fmt.Sprintf("%d times; order: %s", cnt("start "+id), strings.Join(ord, ", ")))
			return
		}
	}
	for _, c := range [][2]string{{"end A1", "start A2a"}, {"end A1", "start A2b"}, {"end A2a", "start A3"}, {"end A2b", "start A3"}, {"end A3", "start A4"},
		{"end B1", "start B2a"}, {"end B2a", "start B3"}, {"end B2b", "start B3"}, {"end B3", "start B4"},
		{"end C2a", "start C3"}, {"end C2b", "start C3"}, {"end D2a", "start D3"}, {"end D2b", "start D3"}} {
		if idx(c[0]) > idx(c[1]) {
			fail("an element of a sequence started before the previous element (every command of the batch before it) had finished", c[0]+" before "+c[1], strings.Join(ord, ", "))
			return
		}
	}
	ups := updatesOf(ctl.log.snapshot())
	pos := func(s string) int {
		for i, u := range ups {
			if u == s {
				return i
			}
		}
		return -1
	}
	for _, c := range [][2]string{{"c:A1", "c:A2a"}, {"c:A2a", "c:A3"}, {"c:A2b", "c:A3"}, {"c:A3", "c:A4"}, {"c:B1", "c:B2a"}, {"c:B2a", "c:B3"}, {"c:B2b", "c:B3"}, {"c:B3", "c:B4"}} {
		if pos(c[0]) < 0 || pos(c[1]) < 0 || pos(c[0]) > pos(c[1]) {
			fail("the messages of two concurrent sequences did not reach Update in the order of their own sequence", c[0]+" before "+c[1], strings.Join(ups, ","))
			return
		}
	}
}

// twoProgramsCommands: two programs in one process. Each starts commands that block until released;
// the other program starts further commands meanwhile. Every result reaches the Update of the
// program whose command returned it, exactly once - never the other program's (C02).
func twoProgramsCommands(out *scenOut) {
	type prog struct {
		ctl     *recCtl
		run     *progRun
		release chan struct{}
	}
	mk := func(tag string) *prog {
		p := &prog{ctl: newRecCtl(), release: make(chan struct{})}
		p.ctl.onUpdate = func(m tea.Msg, v int) tea.Cmd {
			if u, ok := m.(userMsg); ok && u.Sender == 9 {
				var cmds []tea.Cmd
				for k := 0; k < 6; k++ {
					id := fmt.Sprintf("%s-blocked-%d-%d", tag, u.Seq, k)
					cmds = append(cmds, func() tea.Msg { <-p.release; return cmdMsg{id} })
				}
				for k := 0; k < 6; k++ {
					id := fmt.Sprintf("%s-quick-%d-%d", tag, u.Seq, k)
					cmds = append(cmds, func() tea.Msg { return cmdMsg{id} })
				}
				return tea.Batch(cmds...)
			}
			return nil
		}
		p.run = startProgram(p.ctl, nil, tea.WithInput(nil), tea.WithoutSignalHandler())
		return p
	}
	a, b := mk("A"), mk("B")
	desc := "programs A and B in one process; each twice returns Batch(6 commands blocked until released, 6 quick ones), alternately; then A's are released, then B's"
	for _, p := range []*prog{a, b} {
		waitFor(2*time.Second, func() bool { return p.ctl.log.has("view-exit", "") })
	}
	for round := 0; round < 2; round++ {
		a.run.p.Send(userMsg{9, round})
		time.Sleep(5 * time.Millisecond)
		b.run.p.Send(userMsg{9, round})
		time.Sleep(5 * time.Millisecond)
	}
	time.Sleep(30 * time.Millisecond)
	close(a.release)
	time.Sleep(30 * time.Millisecond)
	close(b.release)
	for _, p := range []*prog{a, b} {
		waitFor(3*time.Second, func() bool { return p.ctl.log.count("update-exit", "c:") >= 24 })
	}
	time.Sleep(30 * time.Millisecond)
	for _, p := range []*prog{a, b} {
		p.run.p.Quit()
		p.run.wait(4 * time.Second)
	}
	out.record("two-programs-commands", desc)
	for _, x := range []struct {
		tag, other string
		p          *prog
	}{{"A", "B", a}, {"B", "A", b}} {
		own, foreign := 0, 0
		counts := map[string]int{}
		for _, u := range updatesOf(x.p.ctl.log.snapshot()) {
			if strings.HasPrefix(u, "c:"+x.tag+"-") {
				own++
				counts[u]++
			}
			if strings.HasPrefix(u, "c:"+x.other+"-") {
				foreign++
			}
		}
		dup := 0
		for _, n := range counts {
			if n != 1 {
				dup++
			}
		}
		if own != 24 || foreign != 0 || dup != 0 {
			out.fail(finding{Property: "C02", Class: "new", What: "with two programs in one process the results of a program's commands did not all reach THAT program's Update exactly once", Input: desc,
				Expected: "program " + x.tag + ": 24 results of its own, none of the other's", Observed: fmt.Sprintf("%d of its own (%d not exactly once), %d of the other program's", own, dup, foreign)})
		}
	}
}

// heldMessagesStayIntact: the model KEEPS every message it is given (a history, an undo list). Keys,
// a paste, a mouse report and an unknown sequence are typed one after the other on a pipe; at the
// end every message the model holds still says what it said when Update received it - a message
// handed to Update is the model's, nothing it refers to is written again by the library (C01:
// "every Update receives ... never invented"; what was received must not turn into something else).
func heldMessagesStayIntact(out *scenOut) {
	ctl := newRecCtl()
	var mu sync.Mutex
	var held []tea.Msg
	var said []string
	ctl.onUpdate = func(m tea.Msg, v int) tea.Cmd {
		switch m.(type) {
		case tea.KeyMsg, tea.MouseMsg:
			mu.Lock()
			held = append(held, m)
			said = append(said, tea.VerifDescribeMsg(m))
			mu.Unlock()
		}
		return nil
	}
	pr, pw, err := os.Pipe()
	if err != nil {
		return
	}
	defer pr.Close()
	defer pw.Close()
	run := startProgram(ctl, nil, tea.WithInput(pr), tea.WithoutSignalHandler())
	desc := "typed one after the other on a pipe: a, b, c, 'hello', a paste of 'first', a paste of 'SECOND', a mouse report, xyz; the model keeps every message"
	waitFor(2*time.Second, func() bool { return ctl.log.has("view-exit", "") })
	inputs := []string{"a", "b", "c", "hello", "\x1b[200~first\x1b[201~", "\x1b[200~SECOND\x1b[201~", "\x1b[<0;10;5M", "xyz", "q"}
	for i, in := range inputs {
		pw.Write([]byte(in))
		n := i + 1
		if !waitFor(2*time.Second, func() bool { mu.Lock(); defer mu.Unlock(); return len(held) >= n }) {
			break
		}
		time.Sleep(2 * time.Millisecond)
	}
	run.p.Quit()
	run.wait(4 * time.Second)
	out.record("held-messages-stay-intact", desc)
	mu.Lock()
	defer mu.Unlock()
	if len(held) != len(inputs) {
		out.fail(finding{Property: "C01", Class: "new", What: "typed input did not reach Update as one message per piece", Input: desc, Expected: fmt.Sprint(len(inputs)), Observed: strings.Join(said, " | ")})
		return
	}
	for i, m := range held {
		if now := tea.VerifDescribeMsg(m); now != said[i] {
			for _, prop := range []string{"C01", "C08"} {
				out.fail(finding{Property: prop, Class: "new", What: "a message the model kept changed after Update had received it (it shares memory with something the library went on using)", Input: desc,
					Expected: said[i], Observed: now})
			}
			return
		}
	}
}

// (the message types with nil content are nilListMsg, nilMapMsg and *ptrMsg, declared above)

// typedNilResults: commands whose results are non-nil messages with nil content (an empty result
// list as a nil slice, a nil map, a nil pointer): each is delivered to Update exactly once (C02).
func typedNilResults(out *scenOut) {
	ctl := newRecCtl()
	var seen [3]int32
	ctl.onUpdate = func(m tea.Msg, v int) tea.Cmd {
		switch m.(type) {
		case nilListMsg:
			atomic.AddInt32(&seen[0], 1)
		case nilMapMsg:
			atomic.AddInt32(&seen[1], 1)
		case *ptrMsg:
			atomic.AddInt32(&seen[2], 1)
		}
		if u, ok := m.(userMsg); ok && u.Sender == 9 {
			return tea.Batch(func() tea.Msg { return nilListMsg(nil) }, func() tea.Msg { return nilMapMsg(nil) }, func() tea.Msg { return (*ptrMsg)(nil) },
				tea.Sequence(func() tea.Msg { return nilListMsg(nil) }, func() tea.Msg { return cmdMsg{"after-nil-content"} }))
		}
		return nil
	}
	run := startProgram(ctl, nil, tea.WithInput(nil), tea.WithoutSignalHandler())
	desc := "commands returning a nil slice, a nil map and a nil pointer of named message types (in a Batch, and as the first element of a Sequence)"
	waitFor(2*time.Second, func() bool { return ctl.log.has("view-exit", "") })
	run.p.Send(userMsg{9, 0})
	waitFor(3*time.Second, func() bool {
		return ctl.log.has("update-exit", "c:after-nil-content") && atomic.LoadInt32(&seen[2]) >= 1
	})
	time.Sleep(30 * time.Millisecond)
	run.p.Quit()
	run.wait(4 * time.Second)
	out.record("typed-nil-results", desc)
	got := fmt.Sprint(atomic.LoadInt32(&seen[0]), atomic.LoadInt32(&seen[1]), atomic.LoadInt32(&seen[2]))
	if got != "2 1 1" {
		out.fail(finding{Property: "C02", Class: "new", What: "a command's non-nil result whose content is nil (a nil slice / map / pointer of a message type) was not delivered to Update exactly once", Input: desc,
			Expected: "nil slice twice, nil map once, nil pointer once", Observed: got})
	}
}

// restoreFromOutsideDuringUpdate (round 16, C01-p): ReleaseTerminal / RestoreTerminal are public and may be
// called from any goroutine. Called while an Update is in progress they must not run any of the model's
// callbacks themselves (the overlap monitor counts a callback entered while another is in progress).
func restoreFromOutsideDuringUpdate(out *scenOut) {
	ctl := newRecCtl()
	hold := make(chan struct{})
	entered := make(chan struct{})
	var once sync.Once
	ctl.onUpdate = func(m tea.Msg, v int) tea.Cmd {
		if u, ok := m.(userMsg); ok && u.Sender == 4 {
			once.Do(func() { close(entered) })
			<-hold
		}
		return nil
	}
	run := startProgram(ctl, nil, tea.WithInput(nil), tea.WithoutSignalHandler())
	desc := "Update held; ReleaseTerminal and RestoreTerminal called from another goroutine meanwhile, twice"
	run.p.Send(userMsg{0, 0})
	waitFor(2*time.Second, func() bool { return ctl.log.has("view-exit", "") })
	go run.p.Send(userMsg{4, 0})
	select {
	case <-entered:
	case <-time.After(3 * time.Second):
		killNow(run.p)
		run.wait(3 * time.Second)
		return
	}
	outside := make(chan struct{})
	go func() {
		defer close(outside)
		for i := 0; i < 2; i++ {
			_ = run.p.ReleaseTerminal()
			_ = run.p.RestoreTerminal()
		}
	}()
	select {
	case <-outside:
	case <-time.After(4 * time.Second):
	}
	close(hold)
	run.p.Send(userMsg{6, 6})
	waitFor(3*time.Second, func() bool { return ctl.log.has("update-exit", "u6.6") })
	run.p.Quit()
	if !run.wait(4 * time.Second) {
		killNow(run.p)
		run.wait(3 * time.Second)
	}
	out.record("restore-from-outside-during-update", desc)
	if n := atomic.LoadInt32(&ctl.overlaps); n != 0 {
		out.fail(finding{Property: "C01", Class: "new", What: "Init / Update / View / filter executed concurrently with one another (RestoreTerminal from another goroutine during an Update)", Input: desc, Expected: "0 overlaps", Observed: fmt.Sprint(n)})
	}
}

// quitBesideBlockedCommand (round 16, C02-p): a Batch holding a command that blocks for ever next to Quit.
// "A command that blocks (even forever) never delays other commands of the same Batch, or the program's
// exit": the quit message must arrive and Run return while the blocked command is still blocked.
func quitBesideBlockedCommand(out *scenOut, shape string) {
	ctl := newRecCtl()
	block := make(chan struct{})
	defer close(block)
	blocker := func() tea.Msg { <-block; return nil }
	quick := func() tea.Msg { return cmdMsg{"quick"} }
	var batch tea.Cmd
	switch shape {
	case "nested":
		batch = tea.Batch(quick, tea.Batch(blocker, tea.Quit))
	case "nils":
		batch = tea.Batch(nil, blocker, nil, tea.Quit)
	default:
		batch = tea.Batch(blocker, tea.Quit)
	}
	if shape == "init" {
		ctl.initCmd = batch
	}
	ctl.onUpdate = func(m tea.Msg, v int) tea.Cmd {
		if u, ok := m.(userMsg); ok && u.Sender == 0 && u.Seq == 0 && shape != "init" {
			return batch
		}
		return nil
	}
	run := startProgram(ctl, nil, tea.WithInput(nil), tea.WithoutSignalHandler())
	desc := "Batch(a command that never returns, Quit) shape=" + shape
	if shape != "init" {
		go run.p.Send(userMsg{0, 0})
	}
	out.record("quit-beside-blocked "+shape, desc)
	if !run.wait(4 * time.Second) {
		out.fail(finding{Property: "C02", Class: "new", What: "a command that blocks for ever delayed a command of the same Batch (Quit) and with it the program's exit", Input: desc,
			Expected: "Run returns nil while the blocked command is still blocked", Observed: "Run has not returned after 4 s"})
		killNow(run.p)
		run.wait(3 * time.Second)
		return
	}
	if errClass(run.err) != "nil" {
		out.fail(finding{Property: "C02", Class: "new", What: "Quit beside a blocked command ended the program with an error", Input: desc, Expected: "nil", Observed: fmt.Sprint(run.err)})
	}
}
