package main

// Infrastructure for scenarios that drive a real tea.Program: a recording
// model whose callbacks are pause points, a thread-safe output, a watchdog.

import (
	"bytes"
	"errors"
	"fmt"
	"io"
	"os"
	"runtime"
	"strconv"
	"strings"
	"sync"
	"sync/atomic"
	"time"

	tea "github.com/charmbracelet/bubbletea"
)

func goid() int64 {
	var buf [64]byte
	n := runtime.Stack(buf[:], false)
	f := strings.Fields(string(buf[:n]))
	if len(f) < 2 {
		return -1
	}
	id, _ := strconv.ParseInt(f[1], 10, 64)
	return id
}

// safeBuffer is an output writer usable from several goroutines, with an
// optional gate that blocks Write (a "slow terminal").
type safeBuffer struct {
	mu     sync.Mutex
	buf    bytes.Buffer
	writes int
	gate   *gate
}

func (s *safeBuffer) Write(p []byte) (int, error) {
	if s.gate != nil {
		s.gate.pass()
	}
	s.mu.Lock()
	defer s.mu.Unlock()
	s.writes++
	return s.buf.Write(p)
}

func (s *safeBuffer) String() string {
	s.mu.Lock()
	defer s.mu.Unlock()
	return s.buf.String()
}

func (s *safeBuffer) Len() int {
	s.mu.Lock()
	defer s.mu.Unlock()
	return s.buf.Len()
}

// gate is a pause point: a goroutine calling pass() announces its arrival and
// blocks until open() (if the gate is armed).
type gate struct {
	armed   int32
	arrived chan struct{}
	release chan struct{}
	once    sync.Once
	ronce   sync.Once
}

func newGate(armed bool) *gate {
	g := &gate{arrived: make(chan struct{}), release: make(chan struct{})}
	if armed {
		g.armed = 1
	}
	return g
}

func (g *gate) pass() {
	if atomic.LoadInt32(&g.armed) == 0 {
		return
	}
	g.once.Do(func() { close(g.arrived) })
	<-g.release
}

func (g *gate) open() {
	atomic.StoreInt32(&g.armed, 0)
	g.ronce.Do(func() { close(g.release) })
}

func (g *gate) waitArrived(d time.Duration) bool {
	select {
	case <-g.arrived:
		return true
	case <-time.After(d):
		return false
	}
}

// ---- event log ---------------------------------------------------------------

type logEvent struct {
	Seq  int64
	Kind string // init-enter, init-exit, update-enter, update-exit, view-enter, view-exit, filter-enter, filter-exit, cmd-start, cmd-end, send-start, send-done ...
	Arg  string
	Gid  int64
}

type evLog struct {
	mu     sync.Mutex
	events []logEvent
}

func (l *evLog) add(kind, arg string) {
	g := goid()
	l.mu.Lock()
	l.events = append(l.events, logEvent{Seq: int64(len(l.events)), Kind: kind, Arg: arg, Gid: g})
	l.mu.Unlock()
}

func (l *evLog) snapshot() []logEvent {
	l.mu.Lock()
	defer l.mu.Unlock()
	return append([]logEvent(nil), l.events...)
}

func (l *evLog) lines() []string {
	evs := l.snapshot()
	out := make([]string, len(evs))
	for i, e := range evs {
		out[i] = e.Kind + " " + e.Arg
	}
	return out
}

// ---- the recording model -----------------------------------------------------

// userMsg is a message injected by a sender goroutine of the harness.
type userMsg struct {
	Sender int
	Seq    int
}

func (u userMsg) String() string { return fmt.Sprintf("u%d.%d", u.Sender, u.Seq) }

// cmdMsg is the result of a harness command.
type cmdMsg struct{ ID string }

func msgName(m tea.Msg) string {
	switch v := m.(type) {
	case userMsg:
		return v.String()
	case cmdMsg:
		return "c:" + v.ID
	case execDoneMsg:
		return "execdone:" + v.Tag
	case tea.BatchMsg:
		if len(v) > 0 {
			if id, ok := batchIDs.Load(fmt.Sprintf("%p", []tea.Cmd(v))); ok {
				return fmt.Sprintf("batchof:%d", id)
			}
		}
		return tea.VerifDescribeMsg(m)
	default:
		return tea.VerifDescribeMsg(m)
	}
}

type execDoneMsg struct {
	Tag string
	Err error
}

// recCtl is shared by all versions of the recording model of one run.
type recCtl struct {
	log        *evLog
	inCallback int32 // number of Init/Update/View/filter calls in progress
	overlaps   int32
	versions   int32 // last version handed out
	badVersion int32
	elGid      int64

	// behaviour
	initCmd  tea.Cmd
	onUpdate func(m tea.Msg, version int) tea.Cmd // decides the command returned
	viewOf   func(version int, updates int) string
	gates    map[string]*gate // "init", "update:<msg>", "view", "filter:<msg>"
	panicOn  panicSet         // same keys: panic there
	yield    bool
	rng      *rng
	rmu      sync.Mutex
}

func newRecCtl() *recCtl {
	return &recCtl{log: &evLog{}, gates: map[string]*gate{}, panicOn: panicSet{m: map[string]bool{}, mu: &sync.Mutex{}}}
}

// panicSet: the callbacks at which the model panics; set while the program runs, read by its callbacks
type panicSet struct {
	mu *sync.Mutex
	m  map[string]bool
}

func (p panicSet) set(key string) {
	p.mu.Lock()
	p.m[key] = true
	p.mu.Unlock()
}

func (p panicSet) has(key string) bool {
	p.mu.Lock()
	defer p.mu.Unlock()
	return p.m[key]
}

func (c *recCtl) enter(kind, arg string) {
	if atomic.AddInt32(&c.inCallback, 1) != 1 {
		atomic.AddInt32(&c.overlaps, 1)
	}
	c.log.add(kind+"-enter", arg)
}

func (c *recCtl) exit(kind, arg string) {
	c.log.add(kind+"-exit", arg)
	atomic.AddInt32(&c.inCallback, -1)
}

func (c *recCtl) pause(key string) {
	if g, ok := c.gates[key]; ok {
		g.pass()
	}
	if c.yield {
		c.rmu.Lock()
		k := c.rng.intn(4)
		c.rmu.Unlock()
		switch k {
		case 0:
			runtime.Gosched()
		case 1:
			time.Sleep(time.Duration(50) * time.Microsecond)
		}
	}
	if c.panicOn.has(key) {
		panic("harness: injected panic at " + key)
	}
}

type recModel struct {
	c       *recCtl
	version int
	updates int
}

func (m recModel) Init() tea.Cmd {
	m.c.enter("init", "")
	defer m.c.exit("init", "")
	atomic.StoreInt64(&m.c.elGid, goid())
	m.c.pause("init")
	return m.c.initCmd
}

func (m recModel) Update(msg tea.Msg) (tea.Model, tea.Cmd) {
	name := msgName(msg)
	m.c.enter("update", fmt.Sprintf("%s v%d", name, m.version))
	defer m.c.exit("update", name)
	if int32(m.version) != atomic.LoadInt32(&m.c.versions) {
		atomic.AddInt32(&m.c.badVersion, 1) // not the model returned by the previous Update
	}
	m.c.pause("update:" + name)
	m.c.pause("update")
	var cmd tea.Cmd
	if m.c.onUpdate != nil {
		cmd = m.c.onUpdate(msg, m.version)
	}
	nv := int(atomic.AddInt32(&m.c.versions, 1))
	return recModel{c: m.c, version: nv, updates: m.updates + 1}, cmd
}

func (m recModel) View() string {
	m.c.enter("view", fmt.Sprintf("v%d", m.version))
	defer m.c.exit("view", "")
	m.c.pause("view")
	if m.c.viewOf != nil {
		return m.c.viewOf(m.version, m.updates)
	}
	return fmt.Sprintf("view %d\nline two\n", m.version)
}

// ---- running a program ---------------------------------------------------------

type progRun struct {
	p        *tea.Program
	ctl      *recCtl
	out      *safeBuffer
	done     chan struct{}
	model    tea.Model
	err      error
	panicVal interface{}
	start    time.Time
	end      time.Time
}

// blockingReader never returns (a terminal nobody types on); not cancelable.
type blockingReader struct{ ch chan struct{} }

func (b blockingReader) Read(p []byte) (int, error) { <-b.ch; return 0, io.EOF }

// errReader returns its error after the gate opens.
type errReader struct {
	g   *gate
	err error
}

func (e errReader) Read(p []byte) (int, error) { e.g.pass(); return 0, e.err }

// endlessReader produces input forever.
type endlessReader struct{ n int64 }

func (e *endlessReader) Read(p []byte) (int, error) {
	atomic.AddInt64(&e.n, 1)
	for i := range p {
		p[i] = 'x'
	}
	time.Sleep(200 * time.Microsecond)
	return len(p), nil
}

func startProgram(ctl *recCtl, out *safeBuffer, opts ...tea.ProgramOption) *progRun {
	if out == nil {
		out = &safeBuffer{}
	}
	all := append([]tea.ProgramOption{tea.WithOutput(out)}, opts...)
	p := tea.NewProgram(recModel{c: ctl}, all...)
	r := &progRun{p: p, ctl: ctl, out: out, done: make(chan struct{}), start: time.Now()}
	go func() {
		defer close(r.done)
		defer func() {
			if v := recover(); v != nil {
				r.panicVal = v
			}
			r.end = time.Now()
		}()
		r.model, r.err = p.Run()
	}()
	return r
}

func (r *progRun) wait(d time.Duration) bool {
	select {
	case <-r.done:
		return true
	case <-time.After(d):
		return false
	}
}

func errClass(err error) string {
	switch {
	case err == nil:
		return "nil"
	case errors.Is(err, tea.ErrInterrupted):
		return "interrupted"
	case errors.Is(err, tea.ErrProgramKilled):
		return "killed"
	default:
		return "other:" + err.Error()
	}
}

// waitFor polls cond for up to d.
func waitFor(d time.Duration, cond func() bool) bool {
	deadline := time.Now().Add(d)
	for time.Now().Before(deadline) {
		if cond() {
			return true
		}
		time.Sleep(200 * time.Microsecond)
	}
	return cond()
}

func (l *evLog) has(kind, argPrefix string) bool {
	for _, e := range l.snapshot() {
		if e.Kind == kind && strings.HasPrefix(e.Arg, argPrefix) {
			return true
		}
	}
	return false
}

func (l *evLog) count(kind, argPrefix string) int {
	n := 0
	for _, e := range l.snapshot() {
		if e.Kind == kind && strings.HasPrefix(e.Arg, argPrefix) {
			n++
		}
	}
	return n
}

var devNullOnce sync.Once

// quietStdio: recoverFromPanic prints to the process's stdout/stderr.
func quietStdio() {
	devNullOnce.Do(func() {
		if f, err := os.OpenFile(os.DevNull, os.O_WRONLY, 0); err == nil {
			os.Stdout = f
			os.Stderr = f
		}
	})
}

// goroutineDump is attached to hang findings.
func goroutineDump() string {
	buf := make([]byte, 1<<16)
	n := runtime.Stack(buf, true)
	var keep []string
	for _, blk := range strings.Split(string(buf[:n]), "\n\n") {
		if strings.Contains(blk, "bubbletea") && !strings.Contains(blk, "goroutineDump") {
			lines := strings.Split(blk, "\n")
			if len(lines) > 7 {
				lines = lines[:7]
			}
			keep = append(keep, strings.Join(lines, " / "))
		}
	}
	if len(keep) > 8 {
		keep = keep[:8]
	}
	return strings.Join(keep, " || ")
}

// killNow: Kill, as a scenario's way of cleaning up or of ending a program. In the normal case it
// has returned when killNow returns; if a seeded change makes Kill itself hang, the scenario goes
// on after two seconds (its own watchdogs report what there is to report) instead of hanging with it.
func killNow(p *tea.Program) {
	done := make(chan struct{})
	go func() { p.Kill(); close(done) }()
	select {
	case <-done:
	case <-time.After(2 * time.Second):
	}
}
