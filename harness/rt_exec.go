package main

// C17 (and the exec-related exits of C05): Exec on a real Program with input
// on a pipe (a file-descriptor input, like a terminal).

import (
	"errors"
	"fmt"
	"golang.org/x/sys/unix"
	"io"
	"os"
	"os/exec"
	"os/signal"
	"runtime"
	"strings"
	"sync"
	"sync/atomic"
	"syscall"
	"time"

	tea "github.com/charmbracelet/bubbletea"
	"github.com/charmbracelet/x/term"
)

func init() {
	scenarios["exec"] = scenExec
	scenarios["sigexec"] = func(out *scenOut, r *rng, thorough bool) {
		out.Rule = "signals after an Exec whose terminal restore fails part-way (the command closed the program's input), and after ReleaseTerminal called n times followed by one RestoreTerminal: SIGTERM and SIGINT must end the program; while released they must not; distinct = (case, signal)"
		quietStdio()
		execRestoreFailsThenSignal(out, syscall.SIGTERM)
		execRestoreFailsThenSignal(out, syscall.SIGINT)
		signalsOptionAcrossExec(out, syscall.SIGTERM)
		signalsOptionAcrossExec(out, syscall.SIGINT)
		for _, n := range []int{1, 2} {
			signalAfterReleases(out, n, syscall.SIGTERM)
			signalAfterReleases(out, n, syscall.SIGINT)
		}
	}
}

type fakeExec struct {
	stdin  io.Reader
	stdout io.Writer
	run    func(f *fakeExec) error
}

func (f *fakeExec) Run() error            { return f.run(f) }
func (f *fakeExec) SetStdin(r io.Reader)  { f.stdin = r }
func (f *fakeExec) SetStdout(w io.Writer) { f.stdout = w }
func (f *fakeExec) SetStderr(w io.Writer) {}

var errExecFailed = errors.New("harness: exec'd command failed")

func scenExec(out *scenOut, r *rng, thorough bool) {
	out.Rule = "mode state at the moment of the exec (options + mode commands) x outcome (success, error) x callback present or not x 1..3 consecutive execs x what ends the program (quit afterwards, Kill or context cancellation DURING the exec), input on an os.Pipe; distinct = tuples"
	quietStdio()
	n := 16
	if thorough {
		n = 200
	}
	// the shapes the property singles out run first: consecutive execs from the
	// alt screen and inline, with a view the launching update leaves unchanged
	for _, bits := range []int{1, 0, 1 | 16, 8} {
		execOnce(out, bits, nil, 3, bits == 0, true, "quit", true, 60)
		execOnce(out, bits, nil, 2, false, false, "quit", false, 20)
	}
	// every tracked mode in the state the OPTIONS did not ask for (the command changed it):
	// what counts at exec time is the current mode, not how the program was started
	for _, c := range []struct {
		bits int
		hist []int
	}{
		{8, []int{5}},  // WithoutBracketedPaste, then EnableBracketedPaste
		{0, []int{6}},  // default (paste on), then DisableBracketedPaste
		{16, []int{8}}, // WithReportFocus, then DisableReportFocus
		{0, []int{7}},  // then EnableReportFocus
		{1, []int{1}},  // WithAltScreen, then ExitAltScreen
		{0, []int{0}},  // then EnterAltScreen
		{8 | 16, []int{5, 8, 0}},
		{2, []int{4}},    // WithMouseCellMotion, then DisableMouse: no mouse mode may come back with the terminal
		{4, []int{4}},    // WithMouseAllMotion, then DisableMouse
		{0, []int{2, 4}}, // EnableMouseCellMotion, then DisableMouse
	} {
		execOnce(out, c.bits, c.hist, 2, false, true, "quit", false, 60)
	}
	// modes changed BETWEEN consecutive execs (indices: 0 enteralt 1 exitalt 5 paste 6 nopaste 7 focus 8 nofocus)
	for _, c := range []struct {
		bits    int
		between [][]int
	}{
		{8, [][]int{{5}}},            // paste off at the first exec, switched on, second exec
		{0, [][]int{{6}, {5}}},       // on, off, on
		{1 | 16, [][]int{{1, 8}}},    // alt screen and focus reporting at the first exec, both off at the second
		{0, [][]int{{0, 7}, {1, 8}}}, // off, on, off
	} {
		execBetweenCmds = c.between
		execOnce(out, c.bits, nil, len(c.between)+1, false, true, "quit", false, 60)
		execBetweenCmds = nil
	}
	// a program built with WithoutSignals hands its terminal over like any other
	execExtraOpts, execExtraDesc = []tea.ProgramOption{tea.WithoutSignals()}, "WithoutSignals"
	execOnce(out, 1|16, nil, 2, false, true, "quit", false, 60)
	execOnce(out, 0, []int{2}, 1, true, true, "quit", true, 60)
	execExtraOpts, execExtraDesc = nil, ""
	execNilInput(out)
	execCallbackWhileLoopBusy(out, false)
	execCallbackWhileLoopBusy(out, true)
	execReleaseFailsOnceOnTTY(out, "quit")
	execReleaseFailsOnceOnTTY(out, "kill")
	execReleaseFails(out, "quit-msg")
	execAfterEOF(out)
	execProcessReal(out)
	restartKeepsTicking(out, "release-restore")
	restartKeepsTicking(out, "exec")
	for i := 0; i < n; i++ {
		bits := r.intn(32)
		nexec := r.rangeIn(1, 3)
		var hist []int
		for k := r.intn(5); k > 0; k-- {
			hist = append(hist, r.intn(len(modeCmds)))
		}
		end := []string{"quit", "quit", "kill-during", "panic-cmd-during"}[r.intn(4)]
		execOnce(out, bits, hist, nexec, r.chance(1, 3), r.chance(3, 4), end, r.chance(1, 2), []int{20, 60, 120}[r.intn(3)])
	}
}

func init() {
	prev := childMain
	childMain = func(args []string) int {
		if len(args) > 0 && args[0] == "execnilinput" {
			return childExecNilInput()
		}
		if len(args) > 0 && args[0] == "execkeyhandover" {
			return childExecKeyAtHandover()
		}
		return prev(args)
	}
}

// childExecNilInput: a program WITHOUT input (WithInput(nil)) runs a command with Exec, twice;
// afterwards it must still be running, deliver the callback messages and quit normally.
func childExecNilInput() int {
	ctl := newRecCtl()
	ran := 0
	fe := func() tea.ExecCommand { return &fakeExec{run: func(f *fakeExec) error { ran++; return nil }} }
	ctl.onUpdate = func(m tea.Msg, v int) tea.Cmd {
		if u, ok := m.(userMsg); ok && u.Sender == 9 {
			return tea.Exec(fe(), func(err error) tea.Msg { return execDoneMsg{Tag: fmt.Sprint(u.Seq), Err: err} })
		}
		return nil
	}
	run := startProgram(ctl, nil, tea.WithInput(nil), tea.WithoutSignalHandler())
	run.p.Send(userMsg{9, 0})
	ok1 := waitFor(3*time.Second, func() bool { return ctl.log.has("update-exit", "execdone:0") })
	run.p.Send(userMsg{9, 1})
	ok2 := waitFor(3*time.Second, func() bool { return ctl.log.has("update-exit", "execdone:1") })
	time.Sleep(50 * time.Millisecond) // anything started by the terminal restore has had its chance
	run.p.Send(userMsg{0, 7})
	run.p.Quit()
	ended := run.wait(3 * time.Second)
	ups := strings.Join(updatesOf(ctl.log.snapshot()), ",")
	if ok1 && ok2 && ended && run.err == nil && ran == 2 && strings.Contains(ups, "u0.7") {
		fmt.Println("EXEC-OK", ups)
		return 0
	}
	fmt.Println("EXEC-BAD", ok1, ok2, ended, run.err, ran, ups)
	return 1
}

// execRestoreFailsThenSignal: the command run by Exec closes the program's input, so taking the
// terminal back fails part-way (the callback delivers that error and the program keeps running).
// Signals count again once the terminal is no longer released: SIGTERM / SIGINT must end the program.
func execRestoreFailsThenSignal(out *scenOut, sig syscall.Signal) {
	guard := make(chan os.Signal, 8)
	signal.Notify(guard, syscall.SIGINT, syscall.SIGTERM)
	defer signal.Stop(guard)
	ctl := newRecCtl()
	pr, pw, err := os.Pipe()
	if err != nil {
		return
	}
	defer pw.Close()
	fe := &fakeExec{run: func(f *fakeExec) error { pr.Close(); return nil }}
	var cbErr atomic.Value
	ctl.onUpdate = func(m tea.Msg, v int) tea.Cmd {
		if u, ok := m.(userMsg); ok && u.Sender == 9 {
			return tea.Exec(fe, func(err error) tea.Msg {
				if err != nil {
					cbErr.Store(err.Error())
				}
				return execDoneMsg{Tag: "x", Err: err}
			})
		}
		return nil
	}
	run := startProgram(ctl, nil, tea.WithInput(pr))
	desc := fmt.Sprintf("Exec whose command closes the program's input (the terminal restore fails part-way), then %v", sig)
	waitFor(2*time.Second, func() bool { return ctl.log.has("view-exit", "") })
	time.Sleep(30 * time.Millisecond) // the signal handler goroutine has registered
	run.p.Send(userMsg{9, 0})
	if !waitFor(3*time.Second, func() bool { return ctl.log.has("update-exit", "execdone:x") }) {
		out.fail(finding{Property: "C17", Class: "new", What: "the callback message of an Exec was not delivered", Input: desc})
		killNow(run.p)
		run.wait(3 * time.Second)
		return
	}
	time.Sleep(10 * time.Millisecond)
	syscall.Kill(syscall.Getpid(), sig)
	ended := run.wait(2 * time.Second)
	out.record("exec-restore-fails/"+sig.String(), desc)
	if !ended {
		for _, p := range []string{"C18", "C04"} {
			out.fail(finding{Property: p, Class: "new", What: "a signal did not end the program although the terminal is no longer released (signals stayed ignored after a failed terminal restore)", Input: desc,
				Expected: "Run returns", Observed: fmt.Sprintf("still running; restore error delivered to the callback: %v", cbErr.Load())})
		}
		killNow(run.p)
		run.wait(3 * time.Second)
		return
	}
	want := "nil"
	if sig == syscall.SIGINT {
		want = "interrupted"
	}
	if got := errClass(run.err); got != want {
		for _, prop := range []string{"C18", "C04"} {
			out.fail(finding{Property: prop, Class: "new", What: "wrong Run result after a signal", Input: desc, Expected: want, Observed: got})
		}
	}
}

// childExecKeyAtHandover: a key arrives just before an Exec takes the terminal: the read loop
// has read it and is blocked handing it to the (busy) event loop, so releasing the terminal
// runs into its read-loop timeout and the old read loop outlives the release. Three execs in
// a row must all work, every callback message arrive once, and input be read afterwards.
func childExecKeyAtHandover() int {
	ctl := newRecCtl()
	pr, pw, err := os.Pipe()
	if err != nil {
		return 3
	}
	var ran int32
	hold := make(chan struct{})
	var held int32
	filter := func(name string, m tea.Msg) tea.Msg {
		if strings.HasPrefix(name, "exec") && atomic.CompareAndSwapInt32(&held, 0, 1) {
			<-hold // the event loop is busy while the key is typed
		}
		return m
	}
	ctl.onUpdate = func(m tea.Msg, v int) tea.Cmd {
		if u, ok := m.(userMsg); ok && u.Sender == 9 {
			return tea.Exec(&fakeExec{run: func(f *fakeExec) error { atomic.AddInt32(&ran, 1); return nil }},
				func(err error) tea.Msg { return execDoneMsg{Tag: fmt.Sprint(u.Seq), Err: err} })
		}
		return nil
	}
	run := startProgram(ctl, nil, tea.WithInput(pr), tea.WithoutSignalHandler(), loggingFilter(ctl, filter))
	waitFor(2*time.Second, func() bool { return ctl.log.has("view-exit", "") })
	go run.p.Send(userMsg{9, 0})
	waitFor(2*time.Second, func() bool { return atomic.LoadInt32(&held) == 1 })
	pw.Write([]byte("k"))
	time.Sleep(60 * time.Millisecond) // the read loop has the key and waits for the event loop
	close(hold)
	ok := waitFor(5*time.Second, func() bool { return ctl.log.has("update-exit", "execdone:0") })
	for k := 1; k <= 2 && ok; k++ {
		time.Sleep(30 * time.Millisecond)
		run.p.Send(userMsg{9, k})
		ok = waitFor(5*time.Second, func() bool { return ctl.log.has("update-exit", fmt.Sprintf("execdone:%d", k)) })
	}
	pw.Write([]byte("z"))
	okKey := waitFor(3*time.Second, func() bool { return ctl.log.count("update-enter", "key") >= 2 })
	run.p.Quit()
	ended := run.wait(3 * time.Second)
	ups := strings.Join(updatesOf(ctl.log.snapshot()), ",")
	if ok && okKey && ended && run.err == nil && atomic.LoadInt32(&ran) == 3 && strings.Count(ups, "execdone:") == 3 {
		fmt.Println("EXEC-OK", ups)
		return 0
	}
	fmt.Println("EXEC-BAD", ok, okKey, ended, run.err, atomic.LoadInt32(&ran), ups)
	return 1
}

// execNilInput runs childExecNilInput in a child process (a failure kills the process).
func execNilInput(out *scenOut) {
	execChild(out, "execnilinput", "exec-nil-input", "two consecutive Execs in a program without input (WithInput(nil)), then a message, then quit",
		"after an Exec in a program without input the program crashes / does not take the terminal back (the restore starts an input reader on a nil input)")
	execChild(out, "execkeyhandover", "exec-key-at-handover", "a key typed just before the first of three consecutive Execs (the old read loop outlives the release), a key typed afterwards, then quit",
		"consecutive Execs after a key arrived at the hand-over: the program crashes, a callback message is missing, or input is not read afterwards")
}

func execChild(out *scenOut, childName, key, desc, what string) {
	self, _ := os.Executable()
	cmd := exec.Command(self, "child", childName)
	cmd.Env = os.Environ()
	var outb strings.Builder
	cmd.Stdout = &outb
	cmd.Stderr = &outb
	if err := cmd.Start(); err != nil {
		return
	}
	done := make(chan error, 1)
	go func() { done <- cmd.Wait() }()
	select {
	case err := <-done:
		out.record(key, desc)
		if err != nil || !strings.Contains(outb.String(), "EXEC-OK") {
			tail := outb.String()
			if i := strings.Index(tail, "panic:"); i >= 0 {
				tail = tail[i:]
			}
			if len(tail) > 500 {
				tail = tail[:500]
			}
			f := finding{Class: "new", What: what,
				Input: desc, Expected: "callback messages delivered, program keeps running, quits with nil", Observed: fmt.Sprint(err) + " :: " + strings.ReplaceAll(tail, "\n", " / ")}
			for _, p := range []string{"C17", "C04", "C05"} {
				f.Property = p
				out.fail(f)
			}
		}
	case <-time.After(30 * time.Second):
		cmd.Process.Kill()
		out.fail(finding{Property: "C17", Class: "new", What: "the program stalls: " + what, Input: desc})
	}
}

// execBetweenCmds: mode commands (indices into modeCmds) sent after the k-th exec of the next
// execOnce call, before the following one (set by the caller, reset afterwards).
var execBetweenCmds [][]int

// execExtraOpts: further program options for the next execOnce calls (the runs are sequential)
var execExtraOpts []tea.ProgramOption
var execExtraDesc string

func execOnce(out *scenOut, bits int, hist []int, nexec int, fail, withCallback bool, end string, constView bool, fps int) {
	o := modeOpts{alt: bits&1 != 0, cell: bits&2 != 0, all: bits&4 != 0, nopaste: bits&8 != 0, focus: bits&16 != 0}
	var names []string
	for _, i := range hist {
		names = append(names, modeCmds[i].name)
	}
	desc := fmt.Sprintf("opts{%s} cmds=[%s] execs=%d fail=%t callback=%t end=%s constant-view=%t fps=%d", o, strings.Join(names, ","), nexec, fail, withCallback, end, constView, fps)
	for k, bc := range execBetweenCmds {
		var bn []string
		for _, i := range bc {
			bn = append(bn, modeCmds[i].name)
		}
		desc += fmt.Sprintf(" after-exec-%d=[%s]", k+1, strings.Join(bn, ","))
	}
	ctl := newRecCtl()
	buf := &safeBuffer{}
	pr, pw, err := os.Pipe()
	if err != nil {
		return
	}
	defer pr.Close()
	defer pw.Close()
	spec := o.initial()
	for _, i := range hist {
		modeCmds[i].apply(&spec)
	}
	var problems []string
	var problemsMu sync.Mutex
	strayMouse := ""
	problem := func(p string) { problemsMu.Lock(); problems = append(problems, p); problemsMu.Unlock() }
	inExec := newGate(false)
	var execRuns int32
	var killDuring int32
	var prog *tea.Program
	runFn := func(f *fakeExec) error {
		atomic.AddInt32(&execRuns, 1)
		// the terminal is in its restored state
		t := newVterm(80, 24)
		t.write([]byte(buf.String()))
		if got := vtModes(t); got != (modeSpec{}).String() {
			problem("terminal not in its restored state while the command runs: " + got)
		}
		// Bubble Tea writes nothing while the command runs
		before := buf.Len()
		time.Sleep(time.Duration(2500/fps+10) * time.Millisecond) // more than two frame intervals
		if buf.Len() != before {
			problem(fmt.Sprintf("%d bytes written to the output while the command ran", buf.Len()-before))
		}
		// input that arrives now is left for the command
		pw.Write([]byte("Z"))
		got := make(chan byte, 1)
		go func() {
			b := make([]byte, 1)
			if rd, ok := f.stdin.(io.Reader); ok && rd != nil {
				if n, _ := rd.Read(b); n == 1 {
					got <- b[0]
				}
			}
		}()
		select {
		case c := <-got:
			if c != 'Z' {
				problem("the command read something else from the input")
			}
		case <-time.After(500 * time.Millisecond):
			problem("input that arrived during the exec did not reach the command (the program consumed it)")
		}
		if atomic.LoadInt32(&killDuring) == 1 {
			atomic.StoreInt32(&killDuring, 2)
			if end == "kill-during" {
				killNow(prog)
			} else {
				// a command goroutine panics: recovered by the library, which shuts down
				done := make(chan struct{})
				go func() {
					defer close(done)
					prog.Send(userMsg{8, 1})
				}()
				time.Sleep(20 * time.Millisecond)
			}
		}
		inExec.pass()
		if fail {
			return errExecFailed
		}
		return nil
	}
	execIdx := 0
	ctl.onUpdate = func(m tea.Msg, v int) tea.Cmd {
		switch msgName(m) {
		case "u5.0":
			execIdx++
			tag := fmt.Sprintf("%d", execIdx)
			var cb tea.ExecCallback
			if withCallback {
				cb = func(err error) tea.Msg {
					// the callback carries the COMMAND'S error (the same value: callers compare it with
					// errors.Is / errors.As), or nil
					switch {
					case fail && err == nil:
						problem("the command failed but the callback received a nil error")
					case fail && !errors.Is(err, errExecFailed):
						problem(fmt.Sprintf("the callback did not receive the command's error (errors.Is fails): got %T %q", err, err.Error()))
					case !fail && err != nil:
						problem("the command succeeded but the callback received an error: " + err.Error())
					}
					return execDoneMsg{Tag: tag, Err: err}
				}
			}
			return tea.Exec(&fakeExec{run: runFn}, cb)
		case "u8.1":
			return func() tea.Msg { panic("harness: injected panic in a command") }
		}
		return nil
	}
	ctl.viewOf = func(version, updates int) string {
		if constView {
			return "VIEW\nsecond line\n" // the update that launches the command leaves the view unchanged
		}
		return fmt.Sprintf("VIEW-%d\nsecond line\n", updates)
	}
	opts := append(o.options(), tea.WithoutSignalHandler(), tea.WithFPS(fps), tea.WithInput(pr))
	opts = append(opts, execExtraOpts...)
	if len(execExtraOpts) > 0 {
		desc += " " + execExtraDesc
	}
	run := startProgram(ctl, buf, opts...)
	prog = run.p
	if !waitFor(3*time.Second, func() bool { return ctl.log.has("view-exit", "") }) {
		return
	}
	for _, i := range hist {
		run.p.Send(modeCmds[i].msg())
	}
	ended := false
	for e := 1; e <= nexec && !ended; e++ {
		if e == nexec && end != "quit" {
			atomic.StoreInt32(&killDuring, 1)
		}
		before := buf.Len()
		cbBefore := ctl.log.count("update-enter", "execdone:")
		run.p.Send(userMsg{5, 0})
		if e == nexec && end != "quit" {
			ended = true
			break
		}
		// wait for the exec to be over: the callback message, or the next view
		if withCallback {
			if !waitFor(3*time.Second, func() bool { return ctl.log.count("update-exit", "execdone:") > cbBefore }) {
				problem("the callback's message was never delivered")
			}
		} else {
			waitFor(3*time.Second, func() bool { return int(atomic.LoadInt32(&execRuns)) >= e })
			time.Sleep(40 * time.Millisecond)
		}
		time.Sleep(time.Duration(2500/fps+10) * time.Millisecond)
		// modes re-established: alt, paste, focus as before; cursor hidden
		t := newVterm(80, 24)
		t.write([]byte(buf.String()))
		want := modeSpec{alt: spec.alt, paste: spec.paste, focus: spec.focus, hidden: true}
		if t.onAlt != want.alt || t.modes[2004] != want.paste || t.modes[1004] != want.focus {
			problem(fmt.Sprintf("after the exec: terminal{%s}, expected alt=%t paste=%t focus=%t", vtModes(t), want.alt, want.paste, want.focus))
		}
		// one-sided for the mouse modes (the library does not re-establish them after an Exec, and no
		// property says it must): a mouse mode that options and commands say is OFF must not be on
		if (t.modes[1002] && !spec.m1002) || (t.modes[1003] && !spec.m1003) || (t.modes[1006] && !spec.m1006) {
			problemsMu.Lock()
			strayMouse = fmt.Sprintf("after the exec: terminal{%s}, but options and commands ask for m1002=%t m1003=%t m1006=%t", vtModes(t), spec.m1002, spec.m1003, spec.m1006)
			problemsMu.Unlock()
		}
		// the next view is fully repainted
		waitFor(3*time.Second, func() bool { return strings.Contains(buf.String()[before:], "second line") }) // (a frame tick may be late on a busy machine)
		after := buf.String()[before:]
		if !strings.Contains(after, "second line") {
			problem("the view was not fully repainted after the exec")
		}
		// input is read again
		kBefore := ctl.log.count("update-enter", "key ")
		pw.Write([]byte("k"))
		if !waitFor(2*time.Second, func() bool { return ctl.log.count("update-enter", "key ") > kBefore }) {
			problem("input is not read again after the exec")
		}
		// mode commands between this exec and the next: what counts at the next exec is the state then,
		// not what an earlier exec remembered
		if e-1 < len(execBetweenCmds) {
			for _, i := range execBetweenCmds[e-1] {
				run.p.Send(modeCmds[i].msg())
				modeCmds[i].apply(&spec)
			}
			run.p.Send(userMsg{6, e})
			waitFor(2*time.Second, func() bool { return ctl.log.has("update-exit", fmt.Sprintf("u6.%d", e)) })
		}
	}
	if !ended {
		run.p.Quit()
	}
	if !run.wait(6 * time.Second) {
		out.fail(finding{Property: "C17", Class: "new", What: "Run does not return after an exec", Input: desc, Observed: goroutineDump()})
		return
	}
	time.Sleep(15 * time.Millisecond)
	out.record(desc, desc)
	// callback exactly once per exec, with the command's error
	cbs := ctl.log.count("update-enter", "execdone:")
	wantCbs := 0
	if withCallback {
		wantCbs = int(atomic.LoadInt32(&execRuns))
		if ended {
			wantCbs = -1 // the program was killed during the last exec: its callback may or may not arrive
		}
	}
	if wantCbs >= 0 && cbs != wantCbs {
		problem(fmt.Sprintf("callback message delivered %d times for %d execs (callback=%t)", cbs, atomic.LoadInt32(&execRuns), withCallback))
	}
	for _, p := range problems {
		out.fail(finding{Property: "C17", Class: "new", What: p, Input: desc})
	}
	if strayMouse != "" {
		for _, prop := range []string{"C12", "C17"} {
			out.fail(finding{Property: prop, Class: "new", What: "a mouse mode that neither the options nor the commands processed so far ask for is on after an Exec", Input: desc, Observed: strayMouse})
		}
	}
	// C05: whatever ended the program, the terminal is restored
	t := newVterm(80, 24)
	t.write([]byte(buf.String()))
	if got := vtModes(t); got != (modeSpec{}).String() {
		out.fail(finding{Property: "C05", Class: "new", What: "terminal not restored when Run returns (program ended during or after an Exec)", Input: desc,
			Expected: (modeSpec{}).String(), Observed: got})
	}
}

// execReleaseFails: an Exec whose ReleaseTerminal step fails (the ioctl restoring the saved
// line settings reports an error: the terminal went away). The command is not run, the
// callback receives the error exactly once, and the program keeps obeying what ends it.
func execReleaseFails(out *scenOut, exit string) {
	ctl := newRecCtl()
	pr, pw, err := os.Pipe()
	if err != nil {
		return
	}
	defer pw.Close()
	defer pr.Close()
	gone, err := os.Open(os.DevNull)
	if err != nil {
		return
	}
	gone.Close() // its descriptor is invalid from now on: every ioctl on it fails
	var ran int32
	var run *progRun
	ready := make(chan struct{})
	fe := &fakeExec{run: func(f *fakeExec) error { atomic.AddInt32(&ran, 1); return nil }}
	ctl.onUpdate = func(m tea.Msg, v int) tea.Cmd {
		if u, ok := m.(userMsg); ok && u.Sender == 9 {
			<-ready
			tea.VerifSetTTYInput(run.p, gone, &term.State{})
			return tea.Exec(fe, func(err error) tea.Msg { return execDoneMsg{Tag: "x", Err: err} })
		}
		return nil
	}
	run = startProgram(ctl, nil, tea.WithInput(pr), tea.WithoutSignalHandler())
	close(ready)
	desc := "Exec with a callback whose ReleaseTerminal fails (restoring the line settings reports an error), then " + exit
	waitFor(2*time.Second, func() bool { return ctl.log.has("view-exit", "") })
	run.p.Send(userMsg{9, 0})
	out.record("exec-release-fails/"+exit, desc)
	if !waitFor(3*time.Second, func() bool { return ctl.log.has("update-exit", "execdone:x") }) {
		// (not the end of the scenario: whatever ends the program must still end it)
		out.fail(finding{Property: "C17", Class: "new", What: "the callback message of an Exec whose terminal release failed was not delivered", Input: desc})
	} else {
		time.Sleep(10 * time.Millisecond)
		if n := ctl.log.count("update-exit", "execdone:x"); n != 1 {
			out.fail(finding{Property: "C17", Class: "new", What: "the callback message was not delivered exactly once", Input: desc, Expected: "1", Observed: fmt.Sprint(n)})
		}
	}
	if atomic.LoadInt32(&ran) != 0 {
		out.fail(finding{Property: "C17", Class: "new", What: "the command ran although the terminal could not be released", Input: desc})
	}
	want := "nil"
	switch exit {
	case "quit-msg":
		go run.p.Send(tea.Quit())
	case "quit-call":
		go run.p.Quit()
	case "interrupt-msg":
		want = "interrupted"
		go run.p.Send(tea.InterruptMsg{})
	case "user-then-quit":
		go func() { run.p.Send(userMsg{1, 1}); run.p.Send(tea.Quit()) }()
	}
	if !run.wait(3 * time.Second) {
		out.fail(finding{Property: "C04", Class: "new", What: "Run did not return after " + exit + " that followed an Exec whose terminal release failed (the event loop is stuck)", Input: desc,
			Expected: "Run returns " + want, Observed: "still running after 3s"})
		killNow(run.p)
		run.wait(3 * time.Second)
		return
	}
	if got := errClass(run.err); got != want {
		out.fail(finding{Property: "C04", Class: "new", What: "wrong Run result", Input: desc, Expected: want, Observed: got})
	}
}

// execAfterEOF: the input (a named pipe) reached end of input before the Exec because its writer
// went away - end of input alone does not end the program, and on a pipe it is transient: a new
// writer can attach. "Input is read again" after the command: a key typed by the new writer
// reaches Update.
func execAfterEOF(out *scenOut) {
	dir, err := os.MkdirTemp("", "verif-fifo")
	if err != nil {
		return
	}
	defer os.RemoveAll(dir)
	path := dir + "/in"
	if err := syscall.Mkfifo(path, 0o600); err != nil {
		return
	}
	w1c := make(chan *os.File, 1)
	go func() { f, _ := os.OpenFile(path, os.O_WRONLY, 0); w1c <- f }()
	rd, err := os.OpenFile(path, os.O_RDONLY, 0)
	if err != nil {
		return
	}
	defer rd.Close()
	w1 := <-w1c
	if w1 == nil {
		return
	}
	ctl := newRecCtl()
	var w2 atomic.Value
	fe := &fakeExec{run: func(f *fakeExec) error {
		if f2, err := os.OpenFile(path, os.O_WRONLY, 0); err == nil {
			w2.Store(f2)
		}
		return nil
	}}
	ctl.onUpdate = func(m tea.Msg, v int) tea.Cmd {
		if u, ok := m.(userMsg); ok && u.Sender == 9 {
			return tea.Exec(fe, func(err error) tea.Msg { return execDoneMsg{Tag: "x", Err: err} })
		}
		return nil
	}
	run := startProgram(ctl, nil, tea.WithInput(rd), tea.WithoutSignalHandler())
	desc := "input is a named pipe whose writer left before the Exec (the reader saw end of input); the command attaches a new writer; a key is typed after the command finished"
	keyA, keyB := "key type=-1 alt=false paste=false runes=[97]", "key type=-1 alt=false paste=false runes=[98]"
	w1.Write([]byte("a"))
	okA := waitFor(3*time.Second, func() bool { return ctl.log.has("update-exit", keyA) })
	w1.Close()
	time.Sleep(120 * time.Millisecond) // the read loop has seen end of input
	out.record("exec-after-eof", desc)
	if !okA {
		killNow(run.p)
		run.wait(3 * time.Second)
		return // (the set-up did not work here: nothing to judge)
	}
	select {
	case <-run.done:
		out.fail(finding{Property: "C04", Class: "new", What: "end of input alone ended the program", Input: desc})
		return
	default:
	}
	run.p.Send(userMsg{9, 0})
	if !waitFor(3*time.Second, func() bool { return ctl.log.has("update-exit", "execdone:x") }) {
		out.fail(finding{Property: "C17", Class: "new", What: "the callback message of an Exec was not delivered", Input: desc})
		killNow(run.p)
		run.wait(3 * time.Second)
		return
	}
	if f2, ok := w2.Load().(*os.File); ok {
		defer f2.Close()
		f2.Write([]byte("b"))
		if !waitFor(3*time.Second, func() bool { return ctl.log.has("update-exit", keyB) }) {
			out.fail(finding{Property: "C17", Class: "new", What: "input is not read again after an Exec (the reader had reached end of input before the Exec)", Input: desc,
				Expected: "the key typed after the command reaches Update", Observed: "no key message within 3s"})
		}
	}
	run.p.Quit()
	if !run.wait(3 * time.Second) {
		killNow(run.p)
		run.wait(3 * time.Second)
	}
}

// signalAfterReleases: ReleaseTerminal n times (a retried release, or two places that both
// release), one RestoreTerminal: the terminal is back with the program, so signals are obeyed
// again; between the release and the restore they are not.
func signalAfterReleases(out *scenOut, n int, sig syscall.Signal) {
	guard := make(chan os.Signal, 8)
	signal.Notify(guard, syscall.SIGINT, syscall.SIGTERM)
	defer signal.Stop(guard)
	ctl := newRecCtl()
	var run *progRun
	ready := make(chan struct{})
	released := make(chan struct{})
	goOn := make(chan struct{})
	ctl.onUpdate = func(m tea.Msg, v int) tea.Cmd {
		if u, ok := m.(userMsg); ok && u.Sender == 9 {
			<-ready
			for i := 0; i < n; i++ {
				run.p.ReleaseTerminal()
			}
			close(released)
			<-goOn
			run.p.RestoreTerminal()
		}
		return nil
	}
	run = startProgram(ctl, nil, tea.WithInput(nil))
	close(ready)
	desc := fmt.Sprintf("ReleaseTerminal x%d inside Update, %v while released, RestoreTerminal, then %v", n, sig, sig)
	waitFor(2*time.Second, func() bool { return ctl.log.has("view-exit", "") })
	time.Sleep(30 * time.Millisecond) // the signal handler goroutine has registered
	go run.p.Send(userMsg{9, 0})
	select {
	case <-released:
	case <-time.After(3 * time.Second):
		killNow(run.p)
		run.wait(3 * time.Second)
		return
	}
	syscall.Kill(syscall.Getpid(), sig)
	time.Sleep(60 * time.Millisecond)
	out.record(fmt.Sprintf("signal-after-releases/%d/%v", n, sig), desc)
	select {
	case <-run.done:
		out.fail(finding{Property: "C18", Class: "new", What: "a signal ended the program while the terminal was released", Input: desc})
		close(goOn)
		return
	default:
	}
	close(goOn)
	waitFor(2*time.Second, func() bool { return ctl.log.has("update-exit", "u9.0") })
	if run.wait(150 * time.Millisecond) {
		out.fail(finding{Property: "C18", Class: "new", What: "the signal sent while the terminal was released ended the program afterwards", Input: desc, Observed: errClass(run.err)})
		return
	}
	syscall.Kill(syscall.Getpid(), sig)
	if !run.wait(2 * time.Second) {
		for _, prop := range []string{"C18", "C04"} { // (C04: after SIGINT / SIGTERM Run returns)
			out.fail(finding{Property: prop, Class: "new", What: "a signal did not end the program although the terminal had been restored (signals stayed ignored)", Input: desc,
				Expected: "Run returns", Observed: "still running after 2s"})
		}
		killNow(run.p)
		run.wait(3 * time.Second)
		return
	}
	want := "nil"
	if sig == syscall.SIGINT {
		want = "interrupted"
	}
	if got := errClass(run.err); got != want {
		for _, prop := range []string{"C18", "C04"} {
			out.fail(finding{Property: prop, Class: "new", What: "wrong Run result after a signal", Input: desc, Expected: want, Observed: got})
		}
	}
}

// stepReader answers each Read from a queue the scenario fills: data, io.EOF or an error.
type stepReader struct {
	ch chan stepRead
}
type stepRead struct {
	data []byte
	err  error
}

func (s *stepReader) Read(p []byte) (int, error) {
	r, ok := <-s.ch
	if !ok {
		return 0, io.EOF
	}
	return copy(p, r.data), r.err
}

// readErrAfterExec: an input read error ends Run with the reader's error - also when it comes
// from the SECOND (third …) read loop of the program's life, the one started after an Exec gave
// the terminal back. The first read loop ended by end of input before the Exec.
func readErrAfterExec(out *scenOut, nexec int) {
	ctl := newRecCtl()
	in := &stepReader{ch: make(chan stepRead, 8)}
	fe := &fakeExec{run: func(f *fakeExec) error { return nil }}
	ctl.onUpdate = func(m tea.Msg, v int) tea.Cmd {
		if u, ok := m.(userMsg); ok && u.Sender == 9 {
			return tea.Exec(fe, func(err error) tea.Msg { return execDoneMsg{Tag: fmt.Sprint(u.Seq), Err: err} })
		}
		return nil
	}
	run := startProgram(ctl, nil, tea.WithInput(in), tea.WithoutSignalHandler())
	desc := fmt.Sprintf("key, end of input, %d Exec(s), key, then a read error (from the read loop started after the last Exec)", nexec)
	keyA, keyB := "key type=-1 alt=false paste=false runes=[97]", "key type=-1 alt=false paste=false runes=[98]"
	in.ch <- stepRead{data: []byte("a")}
	in.ch <- stepRead{err: io.EOF}
	if !waitFor(3*time.Second, func() bool { return ctl.log.has("update-exit", keyA) }) {
		run.p.Kill()
		run.wait(3 * time.Second)
		return
	}
	time.Sleep(30 * time.Millisecond) // the read loop has seen end of input and returned
	for k := 0; k < nexec; k++ {
		run.p.Send(userMsg{9, k})
		if !waitFor(3*time.Second, func() bool { return ctl.log.has("update-exit", fmt.Sprintf("execdone:%d", k)) }) {
			out.fail(finding{Property: "C17", Class: "new", What: "the callback message of an Exec was not delivered", Input: desc})
			killNow(run.p)
			run.wait(3 * time.Second)
			return
		}
		if k+1 < nexec {
			in.ch <- stepRead{err: io.EOF} // this read loop ends as well
			time.Sleep(30 * time.Millisecond)
		}
	}
	out.record(fmt.Sprintf("read-error-after-exec/%d", nexec), desc)
	in.ch <- stepRead{data: []byte("b")}
	if !waitFor(3*time.Second, func() bool { return ctl.log.has("update-exit", keyB) }) {
		out.fail(finding{Property: "C17", Class: "new", What: "input is not read again after an Exec", Input: desc, Expected: "the key typed after the command reaches Update", Observed: "no key message within 3s"})
	}
	in.ch <- stepRead{err: errInjectedRead}
	if !run.wait(4 * time.Second) {
		out.fail(finding{Property: "C04", Class: "new", What: "Run did not return after an input read error (the error came from a read loop started after an Exec)", Input: desc,
			Expected: "Run returns the reader's error", Observed: "still running after 4s"})
		killNow(run.p)
		run.wait(3 * time.Second)
		return
	}
	if !errors.Is(run.err, errInjectedRead) {
		out.fail(finding{Property: "C04", Class: "new", What: "wrong Run result after an input read error", Input: desc, Expected: "the reader's error", Observed: fmt.Sprint(run.err)})
	}
}

// signalsOptionAcrossExec: a program built with WithoutSignals ignores SIGINT / SIGTERM - before
// an Exec, while its command runs, and AFTER it: taking the terminal back must not switch the
// signals on that the option switched off.
func signalsOptionAcrossExec(out *scenOut, sig syscall.Signal) {
	guard := make(chan os.Signal, 8)
	signal.Notify(guard, syscall.SIGINT, syscall.SIGTERM)
	defer signal.Stop(guard)
	ctl := newRecCtl()
	fe := &fakeExec{run: func(f *fakeExec) error { return nil }}
	ctl.onUpdate = func(m tea.Msg, v int) tea.Cmd {
		if u, ok := m.(userMsg); ok && u.Sender == 9 {
			return tea.Exec(fe, func(err error) tea.Msg { return execDoneMsg{Tag: "x", Err: err} })
		}
		return nil
	}
	run := startProgram(ctl, nil, tea.WithInput(nil), tea.WithoutSignals())
	desc := fmt.Sprintf("WithoutSignals; %v before an Exec, an Exec, %v after it", sig, sig)
	waitFor(2*time.Second, func() bool { return ctl.log.has("view-exit", "") })
	time.Sleep(30 * time.Millisecond) // the signal handler goroutine has registered
	out.record("without-signals-across-exec/"+sig.String(), desc)
	stillRunning := func(when string) bool {
		syscall.Kill(syscall.Getpid(), sig)
		if run.wait(200 * time.Millisecond) {
			out.fail(finding{Property: "C18", Class: "new", What: "a signal ended a program built with WithoutSignals (" + when + ")", Input: desc,
				Expected: "the program keeps running", Observed: "Run returned " + errClass(run.err)})
			return false
		}
		return true
	}
	if !stillRunning("before any Exec") {
		return
	}
	run.p.Send(userMsg{9, 0})
	if !waitFor(3*time.Second, func() bool { return ctl.log.has("update-exit", "execdone:x") }) {
		run.p.Kill()
		run.wait(3 * time.Second)
		return
	}
	if !stillRunning("after an Exec") {
		return
	}
	run.p.Quit()
	if !run.wait(3 * time.Second) {
		killNow(run.p)
		run.wait(3 * time.Second)
	}
}

// execProcessReal: ExecProcess with real commands (os/exec), the program's output not a file (so
// os/exec copies the command's output through a pipe of its own): the callback's message carries
// the command's own outcome - nil for a command that succeeds, also when a background child keeps
// the output open for a while after it; an *exec.ExitError with the exit code for one that fails.
func execProcessReal(out *scenOut) {
	type tc struct {
		name string
		argv []string
		want string // "nil" or "exit:<code>"
	}
	for _, c := range []tc{
		{"true", []string{"true"}, "nil"},
		{"false", []string{"false"}, "exit:1"},
		{"exit 3", []string{"sh", "-c", "exit 3"}, "exit:3"},
		{"background child holds the output for 0.6 s", []string{"sh", "-c", "sleep 0.6 &"}, "nil"},
		{"ended by a signal (SIGKILL to itself)", []string{"sh", "-c", "kill -9 $$"}, "exit:-1"},
		{"ended by SIGTERM", []string{"sh", "-c", "kill -15 $$"}, "exit:-1"},
		{"cannot be started", []string{"/nonexistent/verif-no-such-command"}, "start-error"},
	} {
		if _, err := exec.LookPath(c.argv[0]); err != nil && c.want != "start-error" {
			continue
		}
		ctl := newRecCtl()
		var got atomic.Value
		ctl.onUpdate = func(m tea.Msg, v int) tea.Cmd {
			if u, ok := m.(userMsg); ok && u.Sender == 9 {
				return tea.ExecProcess(exec.Command(c.argv[0], c.argv[1:]...), func(err error) tea.Msg {
					switch e := err.(type) {
					case nil:
						got.Store("nil")
					case *exec.ExitError:
						got.Store(fmt.Sprintf("exit:%d", e.ExitCode()))
					default:
						var ee *exec.ExitError
						if c.want == "start-error" {
							got.Store("start-error")
						} else if errors.As(err, &ee) {
							got.Store(fmt.Sprintf("wrapped exit:%d (%T)", ee.ExitCode(), err))
						} else {
							got.Store(fmt.Sprintf("%T: %v", err, err))
						}
					}
					return execDoneMsg{Tag: "p", Err: err}
				})
			}
			return nil
		}
		run := startProgram(ctl, nil, tea.WithInput(nil), tea.WithoutSignalHandler())
		desc := "ExecProcess(" + strings.Join(c.argv, " ") + "), program output not a file, no input: " + c.name
		waitFor(2*time.Second, func() bool { return ctl.log.has("view-exit", "") })
		run.p.Send(userMsg{9, 0})
		ok := waitFor(5*time.Second, func() bool { return ctl.log.has("update-exit", "execdone:p") })
		out.record("exec-process/"+c.name, desc)
		if !ok {
			out.fail(finding{Property: "C17", Class: "new", What: "the callback message of an ExecProcess was not delivered", Input: desc})
		} else if g, _ := got.Load().(string); g != c.want {
			out.fail(finding{Property: "C17", Class: "new", What: "the callback's message does not carry the command's own outcome (its error, or nil)", Input: desc, Expected: c.want, Observed: g})
		}
		run.p.Quit()
		if !run.wait(3 * time.Second) {
			killNow(run.p)
			run.wait(3 * time.Second)
		}
	}
}

// execCallbackWhileLoopBusy: the event loop is busy for 0.7 s right after an Exec's command has
// returned (the Update that follows takes that long): the callback's message waits for the loop and
// is delivered exactly once, for a succeeding and for a failing command (C17).
func execCallbackWhileLoopBusy(out *scenOut, fail bool) {
	ctl := newRecCtl()
	fe := &fakeExec{run: func(f *fakeExec) error {
		if fail {
			return errExecFailed
		}
		return nil
	}}
	var sawErr atomic.Value
	ctl.onUpdate = func(m tea.Msg, v int) tea.Cmd {
		name := msgName(m)
		switch {
		case name == "u9.0":
			return tea.Exec(fe, func(err error) tea.Msg { sawErr.Store(fmt.Sprint(err)); return execDoneMsg{Tag: "busy", Err: err} })
		case name == "exec":
			time.Sleep(700 * time.Millisecond) // the loop is busy while the callback's message is on its way
		}
		return nil
	}
	run := startProgram(ctl, nil, tea.WithInput(nil), tea.WithoutSignalHandler())
	desc := fmt.Sprintf("Exec (command fails: %t); the Update that follows the Exec takes 0.7 s", fail)
	waitFor(2*time.Second, func() bool { return ctl.log.has("view-exit", "") })
	run.p.Send(userMsg{9, 0})
	ok := waitFor(4*time.Second, func() bool { return ctl.log.has("update-exit", "execdone:busy") })
	time.Sleep(50 * time.Millisecond)
	run.p.Quit()
	run.wait(4 * time.Second)
	out.record(fmt.Sprintf("exec-callback-while-loop-busy/%t", fail), desc)
	if n := ctl.log.count("update-enter", "execdone:busy"); !ok || n != 1 {
		out.fail(finding{Property: "C17", Class: "new", What: "the callback's message was not delivered exactly once (the event loop was busy when the command returned)", Input: desc, Expected: "1", Observed: fmt.Sprint(n)})
	}
}

// restoreFailsOnceFile: a terminal whose descriptor cannot be had exactly once - the next time the
// library asks for it in order to put the saved line settings back (restoreInput), as happens when
// the terminal is briefly unavailable. Every other request is served.
type restoreFailsOnceFile struct {
	*os.File
	armed int32
}

func (f *restoreFailsOnceFile) Fd() uintptr {
	if atomic.LoadInt32(&f.armed) == 1 {
		pcs := make([]uintptr, 16)
		n := runtime.Callers(2, pcs)
		frames := runtime.CallersFrames(pcs[:n])
		for {
			fr, more := frames.Next()
			if strings.HasSuffix(fr.Function, ".restoreInput") {
				if atomic.CompareAndSwapInt32(&f.armed, 1, 0) {
					return ^uintptr(0)
				}
			}
			if !more {
				break
			}
		}
	}
	return f.File.Fd()
}

// execReleaseFailsOnceOnTTY: input is a real terminal (a pty). Putting the line settings back fails
// ONCE, at the moment an Exec releases the terminal: the Exec is abandoned (the callback gets the
// error, the command does not run) and the program goes on in raw mode as before. When it ends, the
// line settings are those from before Run - whatever happened in between, the state saved at start-up
// is the one that is put back (C05).
func execReleaseFailsOnceOnTTY(out *scenOut, cause string) {
	pp, err := openPty()
	if err != nil {
		return
	}
	defer pp.master.Close()
	defer pp.slave.Close()
	go func() {
		b := make([]byte, 4096)
		for {
			if _, err := pp.master.Read(b); err != nil {
				return
			}
		}
	}()
	in := &restoreFailsOnceFile{File: pp.slave}
	ctl := newRecCtl()
	var ran int32
	fe := &fakeExec{run: func(f *fakeExec) error { atomic.AddInt32(&ran, 1); return nil }}
	ctl.onUpdate = func(m tea.Msg, v int) tea.Cmd {
		if u, ok := m.(userMsg); ok && u.Sender == 9 {
			atomic.StoreInt32(&in.armed, 1)
			return tea.Exec(fe, func(err error) tea.Msg { return execDoneMsg{Tag: "tty", Err: err} })
		}
		return nil
	}
	fd := int(pp.slave.Fd())
	before, e1 := unix.IoctlGetTermios(fd, unix.TCGETS)
	if e1 != nil {
		return
	}
	run := startProgram(ctl, nil, tea.WithInput(in), tea.WithoutSignalHandler())
	desc := "input a pty; an Exec whose ReleaseTerminal fails once (the descriptor is unavailable when the line settings are put back); then " + cause
	if !waitFor(3*time.Second, func() bool { return ctl.log.has("view-exit", "") }) {
		killNow(run.p)
		return
	}
	run.p.Send(userMsg{9, 0})
	waitFor(3*time.Second, func() bool { return ctl.log.has("update-exit", "execdone:tty") })
	time.Sleep(30 * time.Millisecond)
	out.record("exec-release-fails-once-on-tty/"+cause, desc)
	if atomic.LoadInt32(&in.armed) == 1 {
		// the library did not ask for the descriptor inside restoreInput: the failure was not injected
		out.record("exec-release-fails-once-on-tty/not-injected", desc)
	}
	switch cause {
	case "quit":
		go run.p.Quit()
	case "kill":
		go run.p.Kill()
	}
	if !run.wait(4 * time.Second) {
		out.fail(finding{Property: "C04", Class: "new", What: "Run does not return after an Exec whose terminal release failed once", Input: desc, Observed: goroutineDump()})
		return
	}
	after, _ := unix.IoctlGetTermios(fd, unix.TCGETS)
	if after != nil && *after != *before {
		out.fail(finding{Property: "C05", Class: "new", What: "termios of the input terminal differ from those before Run (an Exec whose terminal release failed once happened in between)", Input: desc,
			Expected: fmt.Sprintf("lflag=%#x", before.Lflag), Observed: fmt.Sprintf("lflag=%#x", after.Lflag)})
	}
}

// restartKeepsTicking: the renderer is halted and restarted (ReleaseTerminal / RestoreTerminal, which is
// what Exec and Suspend do) while the listener that is being stopped is slow between taking the stop
// signal and what it does next (held at the trace point "listen: stop received"). After the restart
// the program must render again: "the next view is fully repainted" (C17) needs a renderer that ticks.
func restartKeepsTicking(out *scenOut, via string) {
	ctl := newRecCtl()
	buf := &safeBuffer{}
	var armed, held, final int32
	ctl.viewOf = func(version, ups int) string {
		if atomic.LoadInt32(&final) == 1 {
			return "restart FINAL view\nsecond line"
		}
		return fmt.Sprintf("restart count %d\nsecond line", ups)
	}
	reached := make(chan struct{})
	goOn := make(chan struct{})
	tea.VerifPauseHook = func(where string) {
		if where == "listen: stop received" && atomic.LoadInt32(&armed) == 1 && atomic.CompareAndSwapInt32(&held, 0, 1) {
			close(reached)
			<-goOn
		}
	}
	defer func() { tea.VerifPauseHook = nil }()
	desc := "renderer halted and restarted (" + via + ") while the old listener is slow after taking the stop signal; then the view changes"
	execDone := make(chan struct{})
	ctl.onUpdate = func(m tea.Msg, v int) tea.Cmd {
		if u, ok := m.(userMsg); ok && u.Sender == 7 && via == "exec" {
			return tea.Exec(&fakeExec{run: func(*fakeExec) error { return nil }}, func(error) tea.Msg { close(execDone); return nil })
		}
		if u, ok := m.(userMsg); ok && u.Sender == 0 && u.Seq == 1 {
			atomic.StoreInt32(&final, 1)
		}
		return nil
	}
	run := startProgram(ctl, buf, tea.WithInput(nil), tea.WithoutSignalHandler(), tea.WithFPS(60))
	defer func() {
		select {
		case <-goOn:
		default:
			close(goOn)
		}
		killNow(run.p)
		run.wait(3 * time.Second)
	}()
	run.p.Send(tea.WindowSizeMsg{Width: 80, Height: 24})
	run.p.Send(userMsg{0, 0})
	if !waitFor(3*time.Second, func() bool { return strings.Contains(buf.String(), "restart count 2") }) { // the size message and the first one
		return
	}
	atomic.StoreInt32(&armed, 1)
	if via == "exec" {
		run.p.Send(userMsg{7, 0})
		select {
		case <-execDone:
		case <-time.After(5 * time.Second):
			out.fail(finding{Property: "C17", Class: "new", What: "Exec did not complete while the stopped listener was slow", Input: desc})
			return
		}
	} else {
		if err := run.p.ReleaseTerminal(); err != nil {
			return
		}
		if err := run.p.RestoreTerminal(); err != nil {
			return
		}
	}
	select {
	case <-reached:
	case <-time.After(2 * time.Second):
		return // the trace point was not passed (no such point in this tree): nothing to test
	}
	close(goOn) // the old listener goes on
	time.Sleep(30 * time.Millisecond)
	before := strings.Count(buf.String(), "restart count")
	run.p.Send(userMsg{0, 1})
	out.record("restart-keeps-ticking "+via, desc)
	want := "restart FINAL view"
	if !waitFor(3*time.Second, func() bool { return strings.Contains(buf.String(), want) }) {
		out.fail(finding{Property: "C17", Class: "new", What: "after the terminal was taken back the renderer never paints again (its ticker was stopped by the listener of the previous run)",
			Input: desc, Expected: "the view " + want + " on the terminal within 3 s (60 fps)", Observed: fmt.Sprintf("views painted before the change: %d, after: %d", before, strings.Count(buf.String(), "restart count"))})
	}
}
