package main

// C17 (and the exec-related exits of C05): Exec on a real Program with input
// on a pipe (a file-descriptor input, like a terminal).

import (
	"errors"
	"fmt"
	"io"
	"os"
	"strings"
	"sync/atomic"
	"time"

	tea "github.com/charmbracelet/bubbletea"
)

func init() {
	scenarios["exec"] = scenExec
}

type fakeExec struct {
	stdin  io.Reader
	stdout io.Writer
	run    func(f *fakeExec) error
}

func (f *fakeExec) Run() error            { return f.run(f) }
func (f *fakeExec) SetStdin(r io.Reader)  { f.stdin = r }
func (f *fakeExec) SetStdout(w io.Writer) { f.stdout = w }
func (f *fakeExec) SetStderr(w io.Writer) {}

var errExecFailed = errors.New("harness: exec'd command failed")

func scenExec(out *scenOut, r *rng, thorough bool) {
	out.Rule = "mode state at the moment of the exec (options + mode commands) x outcome (success, error) x callback present or not x 1..3 consecutive execs x what ends the program (quit afterwards, Kill or context cancellation DURING the exec), input on an os.Pipe; distinct = tuples"
	quietStdio()
	n := 16
	if thorough {
		n = 200
	}
	// the shapes the property singles out run first: consecutive execs from the
	// alt screen and inline, with a view the launching update leaves unchanged
	for _, bits := range []int{1, 0, 1 | 16, 8} {
		execOnce(out, bits, nil, 3, bits == 0, true, "quit", true, 60)
		execOnce(out, bits, nil, 2, false, false, "quit", false, 20)
	}
	for i := 0; i < n; i++ {
		bits := r.intn(32)
		nexec := r.rangeIn(1, 3)
		var hist []int
		for k := r.intn(5); k > 0; k-- {
			hist = append(hist, r.intn(len(modeCmds)))
		}
		end := []string{"quit", "quit", "kill-during", "panic-cmd-during"}[r.intn(4)]
		execOnce(out, bits, hist, nexec, r.chance(1, 3), r.chance(3, 4), end, r.chance(1, 2), []int{20, 60, 120}[r.intn(3)])
	}
}

func execOnce(out *scenOut, bits int, hist []int, nexec int, fail, withCallback bool, end string, constView bool, fps int) {
	o := modeOpts{alt: bits&1 != 0, cell: bits&2 != 0, all: bits&4 != 0, nopaste: bits&8 != 0, focus: bits&16 != 0}
	var names []string
	for _, i := range hist {
		names = append(names, modeCmds[i].name)
	}
	desc := fmt.Sprintf("opts{%s} cmds=[%s] execs=%d fail=%t callback=%t end=%s constant-view=%t fps=%d", o, strings.Join(names, ","), nexec, fail, withCallback, end, constView, fps)
	ctl := newRecCtl()
	buf := &safeBuffer{}
	pr, pw, err := os.Pipe()
	if err != nil {
		return
	}
	defer pr.Close()
	defer pw.Close()
	spec := o.initial()
	for _, i := range hist {
		modeCmds[i].apply(&spec)
	}
	var problems []string
	problem := func(p string) { problems = append(problems, p) }
	inExec := newGate(false)
	var execRuns int32
	var killDuring int32
	var prog *tea.Program
	runFn := func(f *fakeExec) error {
		atomic.AddInt32(&execRuns, 1)
		// the terminal is in its restored state
		t := newVterm(80, 24)
		t.write([]byte(buf.String()))
		if got := vtModes(t); got != (modeSpec{}).String() {
			problem("terminal not in its restored state while the command runs: " + got)
		}
		// Bubble Tea writes nothing while the command runs
		before := buf.Len()
		time.Sleep(time.Duration(2500/fps+10) * time.Millisecond) // more than two frame intervals
		if buf.Len() != before {
			problem(fmt.Sprintf("%d bytes written to the output while the command ran", buf.Len()-before))
		}
		// input that arrives now is left for the command
		pw.Write([]byte("Z"))
		got := make(chan byte, 1)
		go func() {
			b := make([]byte, 1)
			if rd, ok := f.stdin.(io.Reader); ok && rd != nil {
				if n, _ := rd.Read(b); n == 1 {
					got <- b[0]
				}
			}
		}()
		select {
		case c := <-got:
			if c != 'Z' {
				problem("the command read something else from the input")
			}
		case <-time.After(500 * time.Millisecond):
			problem("input that arrived during the exec did not reach the command (the program consumed it)")
		}
		if atomic.LoadInt32(&killDuring) == 1 {
			atomic.StoreInt32(&killDuring, 2)
			if end == "kill-during" {
				prog.Kill()
			} else {
				// a command goroutine panics: recovered by the library, which shuts down
				done := make(chan struct{})
				go func() {
					defer close(done)
					prog.Send(userMsg{8, 1})
				}()
				time.Sleep(20 * time.Millisecond)
			}
		}
		inExec.pass()
		if fail {
			return errExecFailed
		}
		return nil
	}
	execIdx := 0
	ctl.onUpdate = func(m tea.Msg, v int) tea.Cmd {
		switch msgName(m) {
		case "u5.0":
			execIdx++
			tag := fmt.Sprintf("%d", execIdx)
			var cb tea.ExecCallback
			if withCallback {
				cb = func(err error) tea.Msg { return execDoneMsg{Tag: tag, Err: err} }
			}
			return tea.Exec(&fakeExec{run: runFn}, cb)
		case "u8.1":
			return func() tea.Msg { panic("harness: injected panic in a command") }
		}
		return nil
	}
	ctl.viewOf = func(version, updates int) string {
		if constView {
			return "VIEW\nsecond line\n" // the update that launches the command leaves the view unchanged
		}
		return fmt.Sprintf("VIEW-%d\nsecond line\n", updates)
	}
	opts := append(o.options(), tea.WithoutSignalHandler(), tea.WithFPS(fps), tea.WithInput(pr))
	run := startProgram(ctl, buf, opts...)
	prog = run.p
	if !waitFor(3*time.Second, func() bool { return ctl.log.has("view-exit", "") }) {
		return
	}
	for _, i := range hist {
		run.p.Send(modeCmds[i].msg())
	}
	ended := false
	for e := 1; e <= nexec && !ended; e++ {
		if e == nexec && end != "quit" {
			atomic.StoreInt32(&killDuring, 1)
		}
		before := buf.Len()
		cbBefore := ctl.log.count("update-enter", "execdone:")
		run.p.Send(userMsg{5, 0})
		if e == nexec && end != "quit" {
			ended = true
			break
		}
		// wait for the exec to be over: the callback message, or the next view
		if withCallback {
			if !waitFor(3*time.Second, func() bool { return ctl.log.count("update-exit", "execdone:") > cbBefore }) {
				problem("the callback's message was never delivered")
			}
		} else {
			waitFor(3*time.Second, func() bool { return int(atomic.LoadInt32(&execRuns)) >= e })
			time.Sleep(40 * time.Millisecond)
		}
		time.Sleep(time.Duration(2500/fps+10) * time.Millisecond)
		// modes re-established: alt, paste, focus as before; cursor hidden
		t := newVterm(80, 24)
		t.write([]byte(buf.String()))
		want := modeSpec{alt: spec.alt, paste: spec.paste, focus: spec.focus, hidden: true}
		if t.onAlt != want.alt || t.modes[2004] != want.paste || t.modes[1004] != want.focus {
			problem(fmt.Sprintf("after the exec: terminal{%s}, expected alt=%t paste=%t focus=%t", vtModes(t), want.alt, want.paste, want.focus))
		}
		// the next view is fully repainted
		after := buf.String()[before:]
		if !strings.Contains(after, "second line") {
			problem("the view was not fully repainted after the exec")
		}
		// input is read again
		kBefore := ctl.log.count("update-enter", "key ")
		pw.Write([]byte("k"))
		if !waitFor(2*time.Second, func() bool { return ctl.log.count("update-enter", "key ") > kBefore }) {
			problem("input is not read again after the exec")
		}
	}
	if !ended {
		run.p.Quit()
	}
	if !run.wait(6 * time.Second) {
		out.fail(finding{Property: "C17", Class: "new", What: "Run does not return after an exec", Input: desc, Observed: goroutineDump()})
		return
	}
	time.Sleep(15 * time.Millisecond)
	out.record(desc, desc)
	// callback exactly once per exec, with the command's error
	cbs := ctl.log.count("update-enter", "execdone:")
	wantCbs := 0
	if withCallback {
		wantCbs = int(atomic.LoadInt32(&execRuns))
		if ended {
			wantCbs = -1 // the program was killed during the last exec: its callback may or may not arrive
		}
	}
	if wantCbs >= 0 && cbs != wantCbs {
		problem(fmt.Sprintf("callback message delivered %d times for %d execs (callback=%t)", cbs, atomic.LoadInt32(&execRuns), withCallback))
	}
	for _, p := range problems {
		out.fail(finding{Property: "C17", Class: "new", What: p, Input: desc})
	}
	// C05: whatever ended the program, the terminal is restored
	t := newVterm(80, 24)
	t.write([]byte(buf.String()))
	if got := vtModes(t); got != (modeSpec{}).String() {
		out.fail(finding{Property: "C05", Class: "new", What: "terminal not restored when Run returns (program ended during or after an Exec)", Input: desc,
			Expected: (modeSpec{}).String(), Observed: got})
	}
}
