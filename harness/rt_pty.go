package main

// C18 (and the termios part of C05): a child process runs a real program with
// stdin/stdout on a pty; the parent sends signals, resizes the pty, and checks
// exit status, Run's error, the terminal modes on the master side and termios.

import (
	"bufio"
	"fmt"
	"os"
	"os/exec"
	"strings"
	"sync"
	"sync/atomic"
	"syscall"
	"time"

	tea "github.com/charmbracelet/bubbletea"
	"golang.org/x/sys/unix"
)

func init() {
	scenarios["pty"] = scenPty
	prev := childMain
	childMain = func(args []string) int {
		if len(args) > 0 && args[0] == "tty" {
			return childTTY(args[1:])
		}
		return prev(args)
	}
}

// ---- the child ---------------------------------------------------------------

// ttyProg is the child's program (for the renderer's bookkeeping).
var ttyProg *tea.Program

type ttyModel struct {
	log       *os.File
	gate      string // path: Update of key 'b' blocks until this file exists
	mu        *sync.Mutex
	panicInit bool
	panicView *int32 // View panics once this is set (key 'v')
}

// ttySeqDone: the marker that follows a size query in a sequence / batch
type ttySeqDone struct{}

func (m ttyModel) logf(f string, a ...interface{}) {
	m.mu.Lock()
	fmt.Fprintf(m.log, f+"\n", a...)
	m.log.Sync()
	m.mu.Unlock()
}

func (m ttyModel) Init() tea.Cmd {
	if m.panicInit {
		panic("verif: panic in Init")
	}
	return nil
}

func (m ttyModel) Update(msg tea.Msg) (tea.Model, tea.Cmd) {
	switch v := msg.(type) {
	case tea.WindowSizeMsg:
		m.logf("size %d %d", v.Width, v.Height)
		// the renderer has handled the message before Update sees it: the size it clips to
		if ttyProg != nil {
			if rd := tea.VerifProgramRenderer(ttyProg); rd != nil {
				st := rd.State()
				m.logf("rsize %d %d", st.Width, st.Height)
			}
		}
	case tea.ResumeMsg:
		m.logf("resume")
	case ttySeqDone:
		m.logf("seqdone")
	case tea.KeyMsg:
		m.logf("key %s", v.String())
		switch v.String() {
		case "q":
			return m, tea.Quit
		case "p":
			panic("verif: panic in Update")
		case "v":
			atomic.StoreInt32(m.panicView, 1)
		case "w":
			return m, tea.WindowSize()
		case "s":
			m.logf("suspending")
			return m, tea.Suspend
		case "S":
			// the size query as an element of a sequence, followed by a marker
			return m, tea.Sequence(tea.WindowSize(), func() tea.Msg { return ttySeqDone{} })
		case "B":
			return m, tea.Batch(tea.WindowSize(), func() tea.Msg { return ttySeqDone{} })
		case "b":
			m.logf("blocking")
			for {
				if _, err := os.Stat(m.gate); err == nil {
					break
				}
				time.Sleep(2 * time.Millisecond)
			}
			m.logf("unblocked")
		case "e":
			return m, tea.Exec(&fakeExec{run: func(f *fakeExec) error {
				m.logf("exec-running")
				for {
					if _, err := os.Stat(m.gate); err == nil {
						break
					}
					time.Sleep(2 * time.Millisecond)
				}
				m.logf("exec-done")
				return nil
			}}, nil)
		}
	}
	return m, nil
}

func (m ttyModel) View() string {
	if m.panicView != nil && atomic.LoadInt32(m.panicView) == 1 {
		panic("verif: panic in View")
	}
	return strings.Repeat("0123456789", 30) + "\nshort\n"
}

func childTTY(args []string) int {
	// args: <mode> <logfile> <gatefile>
	mode, logPath, gate := args[0], args[1], args[2]
	lf, err := os.OpenFile(logPath, os.O_CREATE|os.O_WRONLY|os.O_APPEND, 0o644)
	if err != nil {
		return 3
	}
	m := ttyModel{log: lf, gate: gate, mu: &sync.Mutex{}, panicView: new(int32), panicInit: strings.Contains(mode, "panicinit")}
	var opts []tea.ProgramOption
	if strings.Contains(mode, "inputtty") {
		opts = append(opts, tea.WithInputTTY())
	}
	if strings.Contains(mode, "withstdin") {
		opts = append(opts, tea.WithInput(os.Stdin)) // the caller's own input (a pipe here): not a terminal
	}
	switch mode {
	case "nohandler":
		opts = append(opts, tea.WithoutSignalHandler())
	case "nosignals":
		opts = append(opts, tea.WithoutSignals())
	}
	if strings.Contains(mode, "alt") {
		opts = append(opts, tea.WithAltScreen(), tea.WithMouseCellMotion(), tea.WithReportFocus())
	}
	if strings.Contains(mode, "filterws") {
		// a filter that suppresses EVERY window-size report (and says so)
		opts = append(opts, tea.WithFilter(func(_ tea.Model, msg tea.Msg) tea.Msg {
			if ws, ok := msg.(tea.WindowSizeMsg); ok {
				m.logf("filter-ws %d %d", ws.Width, ws.Height)
				return nil
			}
			return msg
		}))
	}
	if strings.Contains(mode, "stalecmd") {
		// hold the SECOND size query (a WindowSize command's; the first is the listener's initial
		// one) after it has read the size, until the gate file exists
		var calls int32
		tea.VerifPauseHook = func(where string) {
			if strings.HasPrefix(where, "checkResize") && atomic.AddInt32(&calls, 1) == 2 {
				m.logf("paused")
				for {
					if _, err := os.Stat(gate); err == nil {
						break
					}
					time.Sleep(2 * time.Millisecond)
				}
				m.logf("resumed")
			}
		}
	}
	if strings.Contains(mode, "stalesize") {
		// hold the FIRST size query (the start-up one) after it has read the size, until the
		// gate file exists; later queries pass
		var calls int32
		tea.VerifPauseHook = func(where string) {
			if strings.HasPrefix(where, "checkResize") && atomic.AddInt32(&calls, 1) == 1 {
				m.logf("paused")
				for {
					if _, err := os.Stat(gate); err == nil {
						break
					}
					time.Sleep(2 * time.Millisecond)
				}
				m.logf("resumed")
			}
		}
	}
	if strings.Contains(mode, "latesubscribe") {
		// hold the resize listener just before it subscribes to SIGWINCH, until the gate file exists
		tea.VerifPauseHook = func(where string) {
			if where == "resize: subscribe" {
				m.logf("sub-paused")
				for {
					if _, err := os.Stat(gate); err == nil {
						break
					}
					time.Sleep(2 * time.Millisecond)
				}
				m.logf("sub-resumed")
			}
		}
	}
	p := tea.NewProgram(m, opts...)
	ttyProg = p
	m.logf("starting")
	_, err = p.Run()
	m.logf("run-returned %s", errClass(err))
	return 0
}

// ---- the parent ----------------------------------------------------------------

type ptyPair struct {
	master *os.File
	slave  *os.File
}

func openPty() (*ptyPair, error) {
	m, err := os.OpenFile("/dev/ptmx", os.O_RDWR|syscall.O_NOCTTY, 0)
	if err != nil {
		return nil, err
	}
	if err := unix.IoctlSetPointerInt(int(m.Fd()), unix.TIOCSPTLCK, 0); err != nil {
		m.Close()
		return nil, err
	}
	n, err := unix.IoctlGetInt(int(m.Fd()), unix.TIOCGPTN)
	if err != nil {
		m.Close()
		return nil, err
	}
	s, err := os.OpenFile(fmt.Sprintf("/dev/pts/%d", n), os.O_RDWR|syscall.O_NOCTTY, 0)
	if err != nil {
		m.Close()
		return nil, err
	}
	return &ptyPair{m, s}, nil
}

func setWinsize(f *os.File, w, h int) error {
	return unix.IoctlSetWinsize(int(f.Fd()), unix.TIOCSWINSZ, &unix.Winsize{Col: uint16(w), Row: uint16(h)})
}

type ptyRun struct {
	pair    *ptyPair
	cmd     *exec.Cmd
	logPath string
	gate    string
	out     *safeBuffer
	exited  chan error
	before  *unix.Termios
	keep    []*os.File // extra descriptors that must stay open while the child runs
}

func startPtyChild(mode string, w, h int) (*ptyRun, error) {
	pair, err := openPty()
	if err != nil {
		return nil, err
	}
	setWinsize(pair.master, w, h)
	dir, err := os.MkdirTemp("", "verif-pty")
	if err != nil {
		return nil, err
	}
	r := &ptyRun{pair: pair, logPath: dir + "/log", gate: dir + "/gate", out: &safeBuffer{}, exited: make(chan error, 1)}
	r.before, _ = unix.IoctlGetTermios(int(pair.slave.Fd()), unix.TCGETS)
	self, _ := os.Executable()
	cmd := exec.Command(self, "child", "tty", mode, r.logPath, r.gate)
	cmd.Stdin, cmd.Stdout, cmd.Stderr = pair.slave, pair.slave, pair.slave
	cmd.Env = append(os.Environ(), "TERM=dumb")
	cmd.SysProcAttr = &syscall.SysProcAttr{Setsid: true, Setctty: true, Ctty: 0}
	if strings.Contains(mode, "pipein") {
		// stdin is not a terminal: Run opens the controlling terminal (/dev/tty) itself
		pr, pw, err := os.Pipe()
		if err != nil {
			return nil, err
		}
		r.keep = append(r.keep, pr, pw)
		cmd.Stdin = pr
		cmd.SysProcAttr.Ctty = 1
	}
	if err := cmd.Start(); err != nil {
		return nil, err
	}
	r.cmd = cmd
	go func() {
		buf := make([]byte, 4096)
		for {
			n, err := pair.master.Read(buf)
			if n > 0 {
				r.out.Write(buf[:n])
			}
			if err != nil {
				return
			}
		}
	}()
	go func() { r.exited <- cmd.Wait() }()
	return r, nil
}

func (r *ptyRun) logLines() []string {
	f, err := os.Open(r.logPath)
	if err != nil {
		return nil
	}
	defer f.Close()
	var out []string
	sc := bufio.NewScanner(f)
	for sc.Scan() {
		out = append(out, sc.Text())
	}
	return out
}

func (r *ptyRun) waitLog(prefix string, d time.Duration) bool {
	return waitFor(d, func() bool {
		for _, l := range r.logLines() {
			if strings.HasPrefix(l, prefix) {
				return true
			}
		}
		return false
	})
}

func (r *ptyRun) cleanup() {
	if r.cmd != nil && r.cmd.Process != nil {
		r.cmd.Process.Kill()
	}
	r.pair.master.Close()
	r.pair.slave.Close()
	for _, f := range r.keep {
		f.Close()
	}
	os.RemoveAll(strings.TrimSuffix(r.logPath, "/log"))
}

func (r *ptyRun) sizes() []string {
	var out []string
	for _, l := range r.logLines() {
		if strings.HasPrefix(l, "size ") {
			out = append(out, l[5:])
		}
	}
	return out
}

// ptyExit: termios and modes after every kind of exit, for every way the input terminal is
// obtained (stdin is the terminal; stdin is a pipe and Run opens /dev/tty itself; WithInputTTY).
func ptyExit(out *scenOut, input, cause string) {
	desc := fmt.Sprintf("input=%s exit=%s", input, cause)
	mode := "default-" + input
	if cause == "panic-init" {
		mode += "-panicinit"
	}
	r, err := startPtyChild(mode, 80, 24)
	if err != nil {
		out.fail(finding{Property: "C05", Class: "harness", What: "cannot start the pty child: " + err.Error(), Input: desc})
		return
	}
	defer r.cleanup()
	if cause != "panic-init" {
		if !r.waitLog("size ", 5*time.Second) {
			out.fail(finding{Property: "C05", Class: "harness", What: "child did not start", Input: desc, Observed: strings.Join(r.logLines(), ";")})
			return
		}
		time.Sleep(20 * time.Millisecond)
		during, _ := unix.IoctlGetTermios(int(r.pair.slave.Fd()), unix.TCGETS)
		if during != nil && r.before != nil && *during == *r.before {
			out.record(desc+" (terminal never left cooked mode)", desc)
		}
		key := map[string]string{"quit": "q", "panic-update": "p", "panic-view": "v"}[cause]
		r.pair.master.Write([]byte(key))
		if cause == "panic-view" {
			time.Sleep(10 * time.Millisecond)
			r.pair.master.Write([]byte("x")) // any message: the next View panics
		}
	}
	select {
	case <-r.exited:
	case <-time.After(5 * time.Second):
		out.fail(finding{Property: "C04", Class: "new", What: "Run does not return", Input: desc, Observed: strings.Join(r.logLines(), ";")})
		return
	}
	out.record(desc, desc)
	want := "killed"
	if cause == "quit" {
		want = "nil"
	}
	got := ""
	for _, l := range r.logLines() {
		if strings.HasPrefix(l, "run-returned ") {
			got = l[len("run-returned "):]
		}
	}
	if got != want {
		out.fail(finding{Property: "C04", Class: "new", What: "wrong Run result", Input: desc, Expected: want, Observed: got})
	}
	time.Sleep(20 * time.Millisecond)
	t := newVterm(80, 24)
	t.write([]byte(r.out.String()))
	if gotm := vtModes(t); gotm != (modeSpec{}).String() {
		out.fail(finding{Property: "C05", Class: "new", What: "terminal modes not restored when Run returned", Input: desc, Expected: (modeSpec{}).String(), Observed: gotm})
	}
	after, _ := unix.IoctlGetTermios(int(r.pair.slave.Fd()), unix.TCGETS)
	if r.before != nil && after != nil && *r.before != *after {
		out.fail(finding{Property: "C05", Class: "new", What: "termios of the input terminal differ from those before Run", Input: desc,
			Expected: fmt.Sprintf("%+v", *r.before), Observed: fmt.Sprintf("%+v", *after)})
	}
}

// ptyStaleSize: the start-up size query has read the size when the terminal is resized; the
// resize listener reports the new size; then the start-up report is delivered. When everything
// is quiet again the size Update saw LAST must be the terminal's true size.
func ptyStaleSize(out *scenOut) {
	desc := "start-up size query held after reading 80x24; resize to 100x30 reported by the listener; then the start-up report is delivered"
	r, err := startPtyChild("default-stalesize", 80, 24)
	if err != nil {
		return
	}
	defer r.cleanup()
	if !r.waitLog("paused", 5*time.Second) {
		out.record("stale-size/not-reached", desc)
		return
	}
	time.Sleep(40 * time.Millisecond) // the resize listener has registered for SIGWINCH
	setWinsize(r.pair.master, 100, 30)
	okNew := waitFor(3*time.Second, func() bool { s := r.sizes(); return len(s) > 0 && s[len(s)-1] == "100 30" })
	os.WriteFile(r.gate, []byte("x"), 0o644)
	r.waitLog("resumed", 2*time.Second)
	time.Sleep(60 * time.Millisecond) // quiet: nothing pending, nothing in flight
	got := r.sizes()
	out.record("stale-size", desc+" -> "+strings.Join(got, ", "))
	r.pair.master.Write([]byte("q"))
	select {
	case <-r.exited:
	case <-time.After(3 * time.Second):
	}
	if !okNew {
		// the listener's report waits for the held start-up report: sizes arrive in query order
		if len(got) == 0 || got[len(got)-1] != "100 30" {
			out.fail(finding{Property: "C18", Class: "new", What: "after a resize during start-up the true size was never reported", Input: desc, Expected: "last size 100 30", Observed: strings.Join(got, ", ")})
		}
		return
	}
	if len(got) == 0 || got[len(got)-1] != "100 30" {
		out.fail(finding{Property: "C18", Class: "new", What: "a stale window size was delivered after a newer one: the size Update saw last is not the terminal's true size (concurrent size queries are not ordered)", Input: desc,
			Expected: "last size 100 30", Observed: strings.Join(got, ", ")})
	}
}

func scenPty(out *scenOut, rr *rng, thorough bool) {
	out.Rule = "a child process with a real program on a pty: SIGINT/SIGTERM x {default, WithoutSignalHandler, WithoutSignals} x phase {idle, inside Update, terminal released for an Exec}; random pty resize sequences (TIOCSWINSZ raises SIGWINCH) and WindowSize commands; exit status, Run's error, terminal modes on the master side, termios before/after. distinct = scenario tuples"
	if _, err := openPtyProbe(); err != nil {
		out.record("pty-unavailable", "no pty in this sandbox: "+err.Error())
		return
	}
	type sc struct {
		mode, sig, phase string
	}
	var list []sc
	for _, mode := range []string{"default", "nohandler", "nosignals", "default-alt"} {
		for _, sig := range []string{"int", "term"} {
			for _, phase := range []string{"idle", "in-update", "released", "released-then-again"} {
				list = append(list, sc{mode, sig, phase})
			}
		}
	}
	var wg sync.WaitGroup
	sem := make(chan struct{}, 6)
	for _, s := range list {
		wg.Add(1)
		sem <- struct{}{}
		go func(s sc) {
			defer wg.Done()
			defer func() { <-sem }()
			ptySignal(out, s.mode, s.sig, s.phase)
		}(s)
	}
	for _, input := range []string{"stdin", "pipein", "inputtty"} {
		for _, cause := range []string{"quit", "panic-update", "panic-init", "panic-view"} {
			wg.Add(1)
			sem <- struct{}{}
			go func(input, cause string) {
				defer wg.Done()
				defer func() { <-sem }()
				ptyExit(out, input, cause)
			}(input, cause)
		}
	}
	wg.Add(1)
	sem <- struct{}{}
	go func() {
		defer wg.Done()
		defer func() { <-sem }()
		ptyStaleSize(out)
		ptyStaleCommandQuery(out)
		ptyResizeAfterExec(out)
		ptySizeWithPipeInput(out)
		for _, mode := range []string{"default", "default-alt"} {
			ptySuspend(out, mode)
		}
		ptySizeQueryShapes(out)
		ptyResizeNoSignals(out)
		ptyResizeWhileUpdateBusy(out)
		ptyResizeBeforeSubscription(out)
		ptyFilterSeesSizes(out)
		secondRunTermios(out)
	}()
	reps := 3
	if thorough {
		reps = 12
	}
	for i := 0; i < reps; i++ {
		wg.Add(1)
		sem <- struct{}{}
		seed := rr.fork()
		go func() {
			defer wg.Done()
			defer func() { <-sem }()
			ptyResize(out, seed)
		}()
	}
	wg.Wait()
}

func openPtyProbe() (bool, error) {
	p, err := openPty()
	if err != nil {
		return false, err
	}
	p.master.Close()
	p.slave.Close()
	return true, nil
}

func ptySignal(out *scenOut, mode, sig, phase string) {
	desc := fmt.Sprintf("signal=%s options=%s phase=%s", sig, mode, phase)
	r, err := startPtyChild(mode, 80, 24)
	if err != nil {
		out.fail(finding{Property: "C18", Class: "harness", What: "cannot start the pty child: " + err.Error(), Input: desc})
		return
	}
	defer r.cleanup()
	if !r.waitLog("size ", 5*time.Second) {
		out.fail(finding{Property: "C18", Class: "new", What: "no WindowSizeMsg at start-up although the output is a terminal", Input: desc, Observed: strings.Join(r.logLines(), ";")})
		return
	}
	time.Sleep(30 * time.Millisecond) // the signal handler goroutine has called signal.Notify
	sizesBefore := 0
	switch phase {
	case "in-update":
		r.pair.master.Write([]byte("b"))
		if !r.waitLog("blocking", 3*time.Second) {
			out.fail(finding{Property: "C18", Class: "harness", What: "child did not reach the blocking Update", Input: desc})
			return
		}
	case "released", "released-then-again":
		sizesBefore = len(r.sizes())
		r.pair.master.Write([]byte("e"))
		if !r.waitLog("exec-running", 3*time.Second) {
			out.fail(finding{Property: "C18", Class: "harness", What: "child did not reach the exec", Input: desc})
			return
		}
	}
	s := syscall.SIGINT
	if sig == "term" {
		s = syscall.SIGTERM
	}
	r.cmd.Process.Signal(s)
	time.Sleep(60 * time.Millisecond)
	// the in-progress callback returns
	os.WriteFile(r.gate, []byte("x"), 0o644)
	out.record(desc, desc)
	ignoring := mode == "nosignals" || phase == "released" || phase == "released-then-again"
	if mode == "nohandler" {
		// no handler installed: the default action applies and the process dies of the signal
		select {
		case err := <-r.exited:
			if err == nil || !strings.Contains(err.Error(), "signal") {
				out.fail(finding{Property: "C18", Class: "new", What: "with WithoutSignalHandler the signal was not left to its default action", Input: desc, Observed: fmt.Sprint(err)})
			}
		case <-time.After(3 * time.Second):
			out.fail(finding{Property: "C18", Class: "new", What: "with WithoutSignalHandler the process survived the signal (a handler is installed)", Input: desc})
		}
		return
	}
	if ignoring {
		// signals are ignored: the program must still be running; then quit it with a key
		select {
		case err := <-r.exited:
			out.fail(finding{Property: "C18", Class: "new", What: "a signal ended the program while signals were being ignored", Input: desc, Observed: fmt.Sprint(err) + " log=" + strings.Join(r.logLines(), ";")})
			return
		case <-time.After(250 * time.Millisecond):
		}
		if phase == "released" || phase == "released-then-again" {
			r.waitLog("exec-done", 2*time.Second)
			// `exec-done` is written by the command itself, BEFORE the library takes the terminal back; the
			// size report that RestoreTerminal asks for as its last step says that it has (on a loaded
			// machine that can take longer than any fixed pause)
			waitFor(4*time.Second, func() bool { return len(r.sizes()) > sizesBefore })
			time.Sleep(30 * time.Millisecond)
		}
		if phase == "released-then-again" && mode != "nosignals" {
			// the terminal is restored: signals count again
			r.cmd.Process.Signal(s)
			ignoring = false
		} else {
			r.pair.master.Write([]byte("q"))
		}
	}
	select {
	case err := <-r.exited:
		if err != nil {
			out.fail(finding{Property: "C18", Class: "new", What: "child did not exit cleanly", Input: desc, Observed: err.Error()})
			out.fail(finding{Property: "C04", Class: "new", What: "SIGINT/SIGTERM did not make Run return (the process died of the signal: no handler was listening any more)", Input: desc, Observed: err.Error()})
			return
		}
	case <-time.After(5 * time.Second):
		out.fail(finding{Property: "C18", Class: "new", What: "the program did not end after the signal", Input: desc, Observed: strings.Join(r.logLines(), ";")})
		out.fail(finding{Property: "C04", Class: "new", What: "Run does not return after SIGINT/SIGTERM", Input: desc, Observed: strings.Join(r.logLines(), ";")})
		return
	}
	want := "interrupted"
	if sig == "term" || ignoring {
		want = "nil"
	}
	got := ""
	for _, l := range r.logLines() {
		if strings.HasPrefix(l, "run-returned ") {
			got = l[len("run-returned "):]
		}
	}
	if got != want {
		out.fail(finding{Property: "C18", Class: "new", What: "wrong Run result after " + sig, Input: desc, Expected: want, Observed: got})
	}
	time.Sleep(20 * time.Millisecond)
	t := newVterm(80, 24)
	t.write([]byte(r.out.String()))
	if gotm := vtModes(t); gotm != (modeSpec{}).String() {
		out.fail(finding{Property: "C18", Class: "new", What: "terminal modes not restored after the signal ended the program", Input: desc, Expected: (modeSpec{}).String(), Observed: gotm})
	}
	after, _ := unix.IoctlGetTermios(int(r.pair.slave.Fd()), unix.TCGETS)
	if r.before != nil && after != nil && *r.before != *after {
		out.fail(finding{Property: "C05", Class: "new", What: "termios of the input terminal differ from those before Run", Input: desc,
			Expected: fmt.Sprintf("%+v", *r.before), Observed: fmt.Sprintf("%+v", *after)})
	}
}

func ptyResize(out *scenOut, rr *rng) {
	w, h := rr.rangeIn(20, 120), rr.rangeIn(5, 50)
	desc := fmt.Sprintf("resize sequence from %dx%d", w, h)
	r, err := startPtyChild("default", w, h)
	if err != nil {
		return
	}
	defer r.cleanup()
	if !r.waitLog("size ", 5*time.Second) {
		out.fail(finding{Property: "C18", Class: "new", What: "no WindowSizeMsg at start-up", Input: desc})
		return
	}
	want := []string{fmt.Sprintf("%d %d", w, h)}
	// (a resize in the first instants, before the listener goroutine has
	// registered for SIGWINCH, is lost: start-up window, recorded as a limit)
	time.Sleep(40 * time.Millisecond)
	steps := rr.rangeIn(4, 8)
	for i := 0; i < steps; i++ {
		if rr.chance(1, 4) {
			r.pair.master.Write([]byte("w")) // the WindowSize command
		} else {
			nw, nh := rr.rangeIn(10, 160), rr.rangeIn(3, 60)
			switch i {
			case 0:
				nw = w // a resize that changes the rows only
				if nh == h {
					nh++
				}
			case 1:
				nh = h // ... the columns only
				if nw == w {
					nw++
				}
			}
			if nw == w && nh == h {
				nw++
			}
			w, h = nw, nh
			setWinsize(r.pair.master, w, h)
		}
		want = append(want, fmt.Sprintf("%d %d", w, h))
		n := len(want)
		if !waitFor(2*time.Second, func() bool { return len(r.sizes()) >= n }) {
			break
		}
		time.Sleep(15 * time.Millisecond)
	}
	// the WindowSize command is answered every time, also when the size has not changed
	// since the last report (twice in a row)
	for k := 0; k < 2; k++ {
		r.pair.master.Write([]byte("w"))
		want = append(want, fmt.Sprintf("%d %d", w, h))
		n := len(want)
		if !waitFor(2*time.Second, func() bool { return len(r.sizes()) >= n }) {
			break
		}
		time.Sleep(10 * time.Millisecond)
	}
	if got := r.sizes(); strings.Join(got, ", ") != strings.Join(want, ", ") {
		out.fail(finding{Property: "C18", Class: "new", What: "Update did not receive exactly the true window sizes (start-up, every resize, every WindowSize command)", Input: desc + " -> " + strings.Join(want, ", "),
			Expected: strings.Join(want, ", "), Observed: strings.Join(got, ", ")})
	}
	// two resizes back to back while Update is busy: the size reported last must be the true one
	{
		r.pair.master.Write([]byte("b"))
		if r.waitLog("blocking", 2*time.Second) {
			w1, h1 := w+7, h+3
			setWinsize(r.pair.master, w1, h1)
			time.Sleep(20 * time.Millisecond)
			w, h = w1+5, h1+2
			setWinsize(r.pair.master, w, h)
			time.Sleep(20 * time.Millisecond)
			os.WriteFile(r.gate, []byte("x"), 0o644)
			final := fmt.Sprintf("%d %d", w, h)
			if !waitFor(2*time.Second, func() bool { s := r.sizes(); return len(s) > 0 && s[len(s)-1] == final }) {
				s := r.sizes()
				last := ""
				if len(s) > 0 {
					last = s[len(s)-1]
				}
				out.fail(finding{Property: "C18", Class: "new", What: "after two resizes in quick succession while Update was busy, the size reported last is not the true size", Input: desc + " then busy-resize to " + final,
					Expected: final, Observed: last})
			}
			want = r.sizes() // (the intermediate size may or may not have been reported)
		}
	}
	desc += " -> " + strings.Join(want, ", ")
	out.record(desc, desc)
	got := r.sizes()
	if strings.Join(got, ", ") != strings.Join(want, ", ") {
		out.fail(finding{Property: "C18", Class: "new", What: "Update did not receive exactly the true window sizes (start-up, every resize, every WindowSize command)", Input: desc,
			Expected: strings.Join(want, ", "), Observed: strings.Join(got, ", ")})
	}
	// the renderer has adopted every size it was told, by the time Update sees the message
	{
		var last string
		for _, l := range r.logLines() {
			if strings.HasPrefix(l, "size ") {
				last = l[5:]
			} else if strings.HasPrefix(l, "rsize ") && l[6:] != last {
				out.fail(finding{Property: "C18", Class: "new", What: "the renderer does not clip to the most recently reported size", Input: desc,
					Expected: "renderer size " + last, Observed: "renderer size " + l[6:]})
				break
			}
		}
	}
	// the renderer clips to the most recently reported size: the 300-cell line
	// occupies one row cut at the width
	time.Sleep(60 * time.Millisecond)
	cut := r.out.Len()
	_ = cut
	r.pair.master.Write([]byte("q"))
	select {
	case <-r.exited:
	case <-time.After(3 * time.Second):
	}
	outS := r.out.String()
	// look at the last full paint of the long line: it must be cut at w cells
	long := strings.Repeat("0123456789", 30)
	idx := -1
	for i := len(outS) - 10; i >= 0; i-- {
		if outS[i:i+10] == long[:10] && (i == 0 || outS[i-1] < '0' || outS[i-1] > '9') {
			idx = i // the start of the last paint of the long line
			break
		}
	}
	if rs := r.sizes(); len(rs) > 0 {
		fmt.Sscanf(rs[len(rs)-1], "%d", &w) // the most recently REPORTED width
	}
	if idx >= 0 {
		end := idx
		for end < len(outS) && outS[end] >= '0' && outS[end] <= '9' {
			end++
		}
		if end-idx != w && end-idx != 300 {
			// (300 only if the size was not known yet, which cannot be the last paint)
			out.fail(finding{Property: "C18", Class: "new", What: "rendered line not clipped to the most recently reported width", Input: desc,
				Expected: fmt.Sprint(w), Observed: fmt.Sprint(end - idx)})
		} else if end-idx == 300 {
			out.fail(finding{Property: "C18", Class: "new", What: "rendered line not clipped at all after the size was reported", Input: desc})
		}
	}
}

// ptyResizeAfterExec: the resize listener is one goroutine for the whole life of the program; an
// Exec releases and restores the terminal around it. A resize DURING the command is reported when
// the terminal is taken back, and resizes AFTER the command are reported as before it.
func ptyResizeAfterExec(out *scenOut) {
	w, h := 80, 24
	desc := "resize, Exec (a resize while the command runs), resize, Exec, resize"
	r, err := startPtyChild("default", w, h)
	if err != nil {
		return
	}
	defer r.cleanup()
	if !r.waitLog("size ", 5*time.Second) {
		out.fail(finding{Property: "C18", Class: "new", What: "no WindowSizeMsg at start-up", Input: desc})
		return
	}
	time.Sleep(40 * time.Millisecond)
	lastIs := func(w, h int) bool {
		s := r.sizes()
		return len(s) > 0 && s[len(s)-1] == fmt.Sprintf("%d %d", w, h)
	}
	resize := func(nw, nh int, when string) bool {
		w, h = nw, nh
		setWinsize(r.pair.master, w, h)
		if !waitFor(3*time.Second, func() bool { return lastIs(w, h) }) {
			out.fail(finding{Property: "C18", Class: "new", What: "a resize " + when + " was not reported to Update", Input: desc,
				Expected: fmt.Sprintf("last size %d %d", w, h), Observed: strings.Join(r.sizes(), ", ")})
			return false
		}
		return true
	}
	out.record("resize-after-exec", desc)
	if !resize(100, 30, "before any Exec") {
		return
	}
	for k := 1; k <= 2; k++ {
		os.Remove(r.gate)
		nRunning := len(r.linesWith("exec-running"))
		r.pair.master.Write([]byte("e"))
		if !waitFor(3*time.Second, func() bool { return len(r.linesWith("exec-running")) > nRunning }) {
			return
		}
		// a resize while the command owns the terminal
		w, h = w+3, h+1
		setWinsize(r.pair.master, w, h)
		time.Sleep(30 * time.Millisecond)
		nDone := len(r.linesWith("exec-done"))
		os.WriteFile(r.gate, []byte("x"), 0o644)
		if !waitFor(3*time.Second, func() bool { return len(r.linesWith("exec-done")) > nDone }) {
			return
		}
		if !waitFor(3*time.Second, func() bool { return lastIs(w, h) }) {
			out.fail(finding{Property: "C18", Class: "new", What: "the size the terminal got while an Exec'd command ran was not reported when the terminal was taken back", Input: desc,
				Expected: fmt.Sprintf("last size %d %d", w, h), Observed: strings.Join(r.sizes(), ", ")})
			return
		}
		time.Sleep(30 * time.Millisecond)
		if !resize(60+10*k, 20+k, fmt.Sprintf("after Exec number %d", k)) {
			return
		}
		if !resize(120+k, 40, fmt.Sprintf("after Exec number %d (second resize)", k)) {
			return
		}
	}
	r.pair.master.Write([]byte("q"))
	select {
	case <-r.exited:
	case <-time.After(3 * time.Second):
	}
}

func (r *ptyRun) linesWith(sub string) []string {
	var out []string
	for _, l := range r.logLines() {
		if strings.Contains(l, sub) {
			out = append(out, l)
		}
	}
	return out
}

// ptySizeWithPipeInput: the OUTPUT is a terminal, the input the program was given
// (WithInput(os.Stdin), stdin a pipe: `producer | app`) is not. The window size is a matter of the
// output: reported at start-up, after every resize, on every WindowSize command.
func ptySizeWithPipeInput(out *scenOut) {
	desc := "output is a terminal (100x30), input is a pipe given with WithInput: start-up size, a resize, a WindowSize command"
	r, err := startPtyChild("pipein-withstdin", 100, 30)
	if err != nil {
		return
	}
	defer r.cleanup()
	out.record("size-with-pipe-input", desc)
	if !r.waitLog("size ", 5*time.Second) {
		out.fail(finding{Property: "C18", Class: "new", What: "no WindowSizeMsg at start-up although the output is a terminal (the input is a pipe)", Input: desc})
		return
	}
	lastIs := func(w, h int) bool {
		s := r.sizes()
		return len(s) > 0 && s[len(s)-1] == fmt.Sprintf("%d %d", w, h)
	}
	if !lastIs(100, 30) {
		out.fail(finding{Property: "C18", Class: "new", What: "the start-up WindowSizeMsg does not carry the true size", Input: desc, Expected: "100 30", Observed: strings.Join(r.sizes(), ", ")})
	}
	time.Sleep(40 * time.Millisecond)
	setWinsize(r.pair.master, 80, 24)
	if !waitFor(3*time.Second, func() bool { return lastIs(80, 24) }) {
		out.fail(finding{Property: "C18", Class: "new", What: "a resize was not reported to Update (terminal output, pipe input)", Input: desc, Expected: "last size 80 24", Observed: strings.Join(r.sizes(), ", ")})
		return
	}
	n := len(r.sizes())
	if len(r.keep) >= 2 {
		r.keep[1].Write([]byte("w"))
		if !waitFor(3*time.Second, func() bool { return len(r.sizes()) > n && lastIs(80, 24) }) {
			out.fail(finding{Property: "C18", Class: "new", What: "a WindowSize command was not answered (terminal output, pipe input)", Input: desc, Observed: strings.Join(r.sizes(), ", ")})
		}
		r.keep[1].Write([]byte("q"))
	}
	select {
	case <-r.exited:
	case <-time.After(3 * time.Second):
	}
}

// ptySuspend: the Suspend command (ctrl+z handling of a program): the terminal is released (modes
// off, line discipline back), the process signals itself and waits to be continued; on SIGCONT the
// terminal is taken back (alt screen, bracketed paste and focus reporting as before, raw mode), a
// ResumeMsg reaches Update exactly once, keys are read again, and at quit everything is restored.
// (The child leads a session of its own, so its process group is orphaned and the kernel discards
// the stop signal: the program waits for SIGCONT without being stopped, which is all it can see of
// a suspension anyway.) SIGINT while suspended is ignored (C18: terminal released).
func ptySuspend(out *scenOut, mode string) {
	desc := "mode=" + mode + ": key, Suspend, SIGINT while suspended, SIGCONT, key, quit"
	r, err := startPtyChild(mode, 80, 24)
	if err != nil {
		return
	}
	defer r.cleanup()
	if !r.waitLog("size ", 5*time.Second) {
		return
	}
	time.Sleep(40 * time.Millisecond)
	modesNow := func() string {
		t := newVterm(80, 24)
		t.write([]byte(r.out.String()))
		return vtModes(t)
	}
	running := modesNow()
	raw, _ := unix.IoctlGetTermios(int(r.pair.slave.Fd()), unix.TCGETS)
	initial := (modeSpec{}).String()
	if running == initial {
		out.fail(finding{Property: "C17", Class: "harness", What: "program modes never left the initial ones", Input: desc})
		return
	}
	r.pair.master.Write([]byte("s"))
	if !r.waitLog("suspending", 3*time.Second) {
		return
	}
	out.record("suspend/"+mode, desc)
	if !waitFor(3*time.Second, func() bool { return modesNow() == initial }) {
		out.fail(finding{Property: "C17", Class: "new", What: "terminal not in its restored state while the program is suspended", Input: desc, Expected: initial, Observed: modesNow()})
		return
	}
	time.Sleep(30 * time.Millisecond)
	during, _ := unix.IoctlGetTermios(int(r.pair.slave.Fd()), unix.TCGETS)
	if r.before != nil && during != nil && *during != *r.before {
		out.fail(finding{Property: "C17", Class: "new", What: "line discipline not put back while the program is suspended", Input: desc,
			Expected: fmt.Sprintf("%+v", *r.before), Observed: fmt.Sprintf("%+v", *during)})
	}
	n0 := r.out.Len()
	// released: signals are ignored
	r.cmd.Process.Signal(syscall.SIGINT)
	time.Sleep(60 * time.Millisecond)
	select {
	case <-r.exited:
		out.fail(finding{Property: "C18", Class: "new", What: "SIGINT ended the program while its terminal was released (suspended)", Input: desc})
		return
	default:
	}
	if r.out.Len() != n0 {
		out.fail(finding{Property: "C17", Class: "new", What: "the program wrote to the terminal while suspended", Input: desc, Observed: fmt.Sprintf("%d bytes", r.out.Len()-n0)})
	}
	r.cmd.Process.Signal(syscall.SIGCONT)
	if !r.waitLog("resume", 3*time.Second) {
		out.fail(finding{Property: "C17", Class: "new", What: "no ResumeMsg after the suspended program was continued", Input: desc, Observed: strings.Join(r.logLines(), ";")})
		return
	}
	time.Sleep(40 * time.Millisecond)
	// what comes back: alt screen, bracketed paste, focus reporting, hidden cursor (mouse modes are not re-established, as after Exec)
	want := running
	got := modesNow()
	strip := func(s string) string { // compare without the mouse modes
		var keep []string
		for _, f := range strings.Fields(s) {
			if !strings.HasPrefix(f, "m1002") && !strings.HasPrefix(f, "m1003") && !strings.HasPrefix(f, "m1006") {
				keep = append(keep, f)
			}
		}
		return strings.Join(keep, " ")
	}
	if strip(got) != strip(want) {
		out.fail(finding{Property: "C17", Class: "new", What: "alt screen / bracketed paste / focus reporting / cursor not as before after the suspended program was continued", Input: desc, Expected: strip(want), Observed: strip(got)})
	}
	back, _ := unix.IoctlGetTermios(int(r.pair.slave.Fd()), unix.TCGETS)
	if raw != nil && back != nil && *raw != *back {
		out.fail(finding{Property: "C17", Class: "new", What: "input terminal not in raw mode again after the suspended program was continued", Input: desc,
			Expected: fmt.Sprintf("%+v", *raw), Observed: fmt.Sprintf("%+v", *back)})
	}
	if n := len(r.linesWith("resume")); n != 1 {
		out.fail(finding{Property: "C17", Class: "new", What: "ResumeMsg not delivered exactly once", Input: desc, Expected: "1", Observed: fmt.Sprint(n)})
	}
	// input is read again
	r.pair.master.Write([]byte("x"))
	if !r.waitLog("key x", 3*time.Second) {
		out.fail(finding{Property: "C17", Class: "new", What: "input is not read again after the suspended program was continued", Input: desc, Observed: strings.Join(r.logLines(), ";")})
	}
	r.pair.master.Write([]byte("q"))
	select {
	case <-r.exited:
	case <-time.After(4 * time.Second):
		out.fail(finding{Property: "C04", Class: "new", What: "Run does not return (quit after a suspension)", Input: desc, Observed: strings.Join(r.logLines(), ";")})
		return
	}
	time.Sleep(20 * time.Millisecond)
	if gotm := modesNow(); gotm != initial {
		out.fail(finding{Property: "C05", Class: "new", What: "terminal modes not restored when Run returned (after a suspension)", Input: desc, Expected: initial, Observed: gotm})
	}
	after, _ := unix.IoctlGetTermios(int(r.pair.slave.Fd()), unix.TCGETS)
	if r.before != nil && after != nil && *r.before != *after {
		out.fail(finding{Property: "C05", Class: "new", What: "termios of the input terminal differ from those before Run (after a suspension)", Input: desc,
			Expected: fmt.Sprintf("%+v", *r.before), Observed: fmt.Sprintf("%+v", *after)})
	}
}

// ptySizeQueryShapes: the WindowSize command as an element of a Sequence and inside a Batch (and
// not only returned on its own): Update receives the true size each time, and the sequence goes on.
func ptySizeQueryShapes(out *scenOut) {
	desc := "WindowSize() as the first element of a Sequence (followed by a marker), then inside a Batch, after a resize each"
	r, err := startPtyChild("default", 80, 24)
	if err != nil {
		return
	}
	defer r.cleanup()
	if !r.waitLog("size ", 5*time.Second) {
		return
	}
	time.Sleep(40 * time.Millisecond)
	out.record("size-query-shapes", desc)
	for i, key := range []string{"S", "B"} {
		n0 := len(r.sizes())
		d0 := len(r.linesWith("seqdone"))
		r.pair.master.Write([]byte(key))
		shape := map[string]string{"S": "a Sequence", "B": "a Batch"}[key]
		if !waitFor(3*time.Second, func() bool { return len(r.sizes()) > n0 }) {
			out.fail(finding{Property: "C18", Class: "new", What: "a WindowSize command inside " + shape + " did not produce a WindowSizeMsg", Input: desc,
				Expected: "one more size report", Observed: strings.Join(r.sizes(), ", ")})
			return
		}
		if s := r.sizes(); s[len(s)-1] != "80 24" {
			out.fail(finding{Property: "C18", Class: "new", What: "a WindowSize command inside " + shape + " reported a wrong size", Input: desc, Expected: "80 24", Observed: s[len(s)-1]})
		}
		if !waitFor(3*time.Second, func() bool { return len(r.linesWith("seqdone")) > d0 }) {
			out.fail(finding{Property: "C03", Class: "new", What: "the element after a WindowSize command in " + shape + " never ran", Input: desc})
			return
		}
		_ = i
	}
	r.pair.master.Write([]byte("q"))
	select {
	case <-r.exited:
	case <-time.After(3 * time.Second):
	}
}

// ptyFilterSeesSizes: a filter that suppresses every WindowSizeMsg. Whatever produces the report -
// the start-up query, a resize signal, the WindowSize command - the filter is consulted and Update
// never sees a size (C16: returning nil suppresses the message entirely).
func ptyFilterSeesSizes(out *scenOut) {
	desc := "WithFilter dropping every WindowSizeMsg; start-up report, two resizes, two WindowSize commands"
	r, err := startPtyChild("default-filterws", 80, 24)
	if err != nil {
		return
	}
	defer r.cleanup()
	if !r.waitLog("filter-ws ", 5*time.Second) {
		out.fail(finding{Property: "C16", Class: "new", What: "the filter was not consulted for the start-up WindowSizeMsg", Input: desc, Observed: strings.Join(r.logLines(), ";")})
		return
	}
	time.Sleep(40 * time.Millisecond)
	out.record("filter-sees-sizes", desc)
	consulted := func() int { return len(r.linesWith("filter-ws ")) }
	step := func(what string, f func()) bool {
		c0 := consulted()
		f()
		if !waitFor(3*time.Second, func() bool { return consulted() > c0 }) {
			out.fail(finding{Property: "C16", Class: "new", What: "the filter was not consulted for the WindowSizeMsg of " + what, Input: desc, Observed: strings.Join(r.logLines(), ";")})
			return false
		}
		return true
	}
	ok := step("a resize", func() { setWinsize(r.pair.master, 100, 30) }) &&
		step("a WindowSize command", func() { r.pair.master.Write([]byte("w")) }) &&
		step("a second resize", func() { setWinsize(r.pair.master, 90, 20) }) &&
		step("a WindowSize command inside a Sequence", func() { r.pair.master.Write([]byte("S")) })
	time.Sleep(60 * time.Millisecond)
	if s := r.sizes(); len(s) > 0 {
		out.fail(finding{Property: "C16", Class: "new", What: "Update received a WindowSizeMsg although the filter suppresses every one of them", Input: desc, Expected: "none", Observed: strings.Join(s, ", ")})
	}
	_ = ok
	r.pair.master.Write([]byte("q"))
	select {
	case <-r.exited:
	case <-time.After(3 * time.Second):
	}
}

// secondRunTermios: the same Program is run twice on a terminal; between the runs the application
// changes the line discipline itself (echo off, as before asking for a password). EACH Run leaves
// the settings exactly as they were before THAT Run (C05: "identical to those before Run").
func secondRunTermios(out *scenOut) {
	pp, err := openPty()
	if err != nil {
		return
	}
	defer pp.master.Close()
	defer pp.slave.Close()
	go func() { // drain what the program writes
		b := make([]byte, 4096)
		for {
			if _, err := pp.master.Read(b); err != nil {
				return
			}
		}
	}()
	desc := "one Program (input and output a pty), Run to completion (Quit from Init), echo switched off by the application, Run again"
	ctl := newRecCtl()
	ctl.initCmd = tea.Quit
	p := tea.NewProgram(recModel{c: ctl}, tea.WithInput(pp.slave), tea.WithOutput(pp.slave), tea.WithoutSignalHandler())
	runOnce := func() bool {
		done := make(chan struct{})
		go func() { p.Run(); close(done) }()
		select {
		case <-done:
			return true
		case <-time.After(5 * time.Second):
			go p.Kill()
			return false
		}
	}
	fd := int(pp.slave.Fd())
	before1, e1 := unix.IoctlGetTermios(fd, unix.TCGETS)
	if e1 != nil || !runOnce() {
		return
	}
	out.record("second-run-termios", desc)
	after1, _ := unix.IoctlGetTermios(fd, unix.TCGETS)
	if after1 == nil || *after1 != *before1 {
		out.fail(finding{Property: "C05", Class: "new", What: "termios of the input terminal differ from those before Run (first run)", Input: desc})
		return
	}
	changed := *after1
	changed.Lflag &^= unix.ECHO
	changed.Cc[unix.VMIN] = 1
	if err := unix.IoctlSetTermios(fd, unix.TCSETS, &changed); err != nil {
		return
	}
	before2, _ := unix.IoctlGetTermios(fd, unix.TCGETS)
	if !runOnce() {
		out.fail(finding{Property: "C04", Class: "new", What: "a second Run of the same Program does not return", Input: desc})
		return
	}
	after2, _ := unix.IoctlGetTermios(fd, unix.TCGETS)
	if before2 != nil && after2 != nil && *before2 != *after2 {
		out.fail(finding{Property: "C05", Class: "new", What: "termios of the input terminal after the SECOND Run of a Program differ from those before that Run (the settings of the first run were put back)", Input: desc,
			Expected: fmt.Sprintf("lflag=%#x", before2.Lflag), Observed: fmt.Sprintf("lflag=%#x", after2.Lflag)})
	}
}

// ptyResizeBeforeSubscription: the terminal is resized in the first instants of the program: the
// start-up size query has read 80x24, the resize listener has been started but is descheduled just
// before it subscribes to SIGWINCH (pause point `resize: subscribe`). When everything is quiet
// again Update must know the true size (C18: "the true size at start-up, again after every resize
// signal"): nothing may fall between the start-up query and the subscription.
func ptyResizeBeforeSubscription(out *scenOut) {
	desc := "resize listener held just before it subscribes to SIGWINCH; start-up query reports 80x24; resize to 100x30; listener released"
	r, err := startPtyChild("default-latesubscribe", 80, 24)
	if err != nil {
		return
	}
	defer r.cleanup()
	if !r.waitLog("sub-paused", 5*time.Second) {
		out.record("resize-before-subscription (pause point not reached)", desc)
		return
	}
	got8024 := r.waitLog("size 80 24", 2*time.Second)
	out.record("resize-before-subscription", desc)
	time.Sleep(30 * time.Millisecond)
	setWinsize(r.pair.master, 100, 30)
	time.Sleep(50 * time.Millisecond)
	os.WriteFile(r.gate, []byte("x"), 0o644)
	r.waitLog("sub-resumed", 2*time.Second)
	ok := waitFor(1500*time.Millisecond, func() bool {
		s := r.sizes()
		return len(s) > 0 && s[len(s)-1] == "100 30"
	})
	if !ok {
		out.fail(finding{Property: "C18", Class: "new", What: "a resize between the start-up size query and the listener's subscription to SIGWINCH was never reported: the program keeps a stale size", Input: desc,
			Expected: "last size 100 30", Observed: fmt.Sprintf("sizes seen: %s (start-up report seen before the resize: %t)", strings.Join(r.sizes(), ", "), got8024)})
	}
	r.pair.master.Write([]byte("q"))
	select {
	case <-r.exited:
	case <-time.After(3 * time.Second):
	}
}

// ptyResizeWhileUpdateBusy: the terminal is resized (twice) while Update is busy for 0.7 s; when
// Update returns, the true size is reported - a size report waits for the loop however long that
// takes (C18: "again after every resize signal").
func ptyResizeWhileUpdateBusy(out *scenOut) {
	desc := "Update blocks; resize to 132x43 and then to 101x31 while it is busy for 0.7 s; Update returns"
	r, err := startPtyChild("default", 80, 24)
	if err != nil {
		return
	}
	defer r.cleanup()
	if !r.waitLog("size ", 5*time.Second) {
		return
	}
	time.Sleep(40 * time.Millisecond)
	r.pair.master.Write([]byte("b"))
	if !r.waitLog("blocking", 3*time.Second) {
		return
	}
	out.record("resize-while-update-busy", desc)
	setWinsize(r.pair.master, 132, 43)
	time.Sleep(350 * time.Millisecond)
	setWinsize(r.pair.master, 101, 31)
	time.Sleep(350 * time.Millisecond)
	os.WriteFile(r.gate, []byte("x"), 0o644)
	ok := waitFor(3*time.Second, func() bool {
		s := r.sizes()
		return len(s) > 0 && s[len(s)-1] == "101 31"
	})
	if !ok {
		out.fail(finding{Property: "C18", Class: "new", What: "a resize that arrived while Update was busy was never reported", Input: desc,
			Expected: "last size 101 31", Observed: strings.Join(r.sizes(), ", ")})
	}
	r.pair.master.Write([]byte("q"))
	select {
	case <-r.exited:
	case <-time.After(3 * time.Second):
	}
}

// ptyStaleCommandQuery: a WindowSize command's query has read 80x24 and is held on its way to the
// event loop; the terminal is resized to 100x30 (the listener's query overlaps the held one); the
// held report is delivered. When everything is quiet the size Update saw LAST is the true one:
// overlapping queries are ordered, none is dropped (C18; the model's `C18L_quiescent_last_is_true`).
func ptyStaleCommandQuery(out *scenOut) {
	desc := "a WindowSize command's query held after reading 80x24; resize to 100x30 while it is held; then it is delivered"
	r, err := startPtyChild("default-stalecmd", 80, 24)
	if err != nil {
		return
	}
	defer r.cleanup()
	if !r.waitLog("size ", 5*time.Second) {
		return
	}
	time.Sleep(40 * time.Millisecond)
	r.pair.master.Write([]byte("w"))
	if !r.waitLog("paused", 3*time.Second) {
		out.record("stale-command-query/not-reached", desc)
		return
	}
	setWinsize(r.pair.master, 100, 30)
	time.Sleep(80 * time.Millisecond) // the listener has taken the signal and asked for the size
	os.WriteFile(r.gate, []byte("x"), 0o644)
	r.waitLog("resumed", 2*time.Second)
	ok := waitFor(2*time.Second, func() bool { s := r.sizes(); return len(s) > 0 && s[len(s)-1] == "100 30" })
	time.Sleep(60 * time.Millisecond)
	got := r.sizes()
	out.record("stale-command-query", desc+" -> "+strings.Join(got, ", "))
	r.pair.master.Write([]byte("q"))
	select {
	case <-r.exited:
	case <-time.After(3 * time.Second):
	}
	if !ok || len(got) == 0 || got[len(got)-1] != "100 30" {
		out.fail(finding{Property: "C18", Class: "new", What: "a resize that overlapped another size query was never reported (or a stale size was delivered after it): the size Update saw last is not the terminal's true size", Input: desc,
			Expected: "last size 100 30", Observed: strings.Join(got, ", ")})
	}
}

// ptyResizeNoSignals: a program built with WithoutSignals (it wants SIGINT / SIGTERM left alone)
// still learns every new window size: the option is about the signals that END a program.
func ptyResizeNoSignals(out *scenOut) {
	desc := "WithoutSignals; resize to 100x30, then to 90x25"
	r, err := startPtyChild("nosignals", 80, 24)
	if err != nil {
		return
	}
	defer r.cleanup()
	if !r.waitLog("size ", 5*time.Second) {
		out.fail(finding{Property: "C18", Class: "new", What: "no WindowSizeMsg at start-up although the output is a terminal (WithoutSignals)", Input: desc})
		return
	}
	time.Sleep(40 * time.Millisecond)
	out.record("resize-no-signals", desc)
	for _, sz := range [][2]int{{100, 30}, {90, 25}} {
		setWinsize(r.pair.master, sz[0], sz[1])
		want := fmt.Sprintf("%d %d", sz[0], sz[1])
		if !waitFor(3*time.Second, func() bool { s := r.sizes(); return len(s) > 0 && s[len(s)-1] == want }) {
			out.fail(finding{Property: "C18", Class: "new", What: "a resize was not reported to a program built with WithoutSignals", Input: desc, Expected: "last size " + want, Observed: strings.Join(r.sizes(), ", ")})
			break
		}
	}
	r.pair.master.Write([]byte("q"))
	select {
	case <-r.exited:
	case <-time.After(3 * time.Second):
	}
}
