package main

import (
	"fmt"
	"sync"
	"sync/atomic"
	"time"

	tea "github.com/charmbracelet/bubbletea"
)

// `every` stream: the delay Every computes (its statements interpreted on the AST of the
// current source with Go's own time package, see timeexpr.go) against the Lean model.
// op: "<unix-ns> <d-ns>"  ->  "<delay-ns>"
func streamEvery(c *corrOut, r *rng, n int, thorough bool) map[string]interface{} {
	fs, ferr := loadFacts(repoDir())
	emit := func(unixNs int64, d int64) {
		nn := time.Unix(0, unixNs)
		dur := time.Duration(d)
		// the delay Every computes: its own statements (the AST of /repo's current source)
		// interpreted with Go's time package, `nn` standing for time.Now()
		if ferr != nil {
			c.emit(fmt.Sprintf("%d %d", unixNs, d), "cannot read the source: "+ferr.Error(), "error")
			return
		}
		delay, why := timerDelay(fs, "Every", nn, dur)
		if why != "" {
			c.emit(fmt.Sprintf("%d %d", unixNs, d), why, "error")
			return
		}
		// Tick arms its timer with exactly the duration it was given
		if td, twhy := timerDelay(fs, "Tick", nn, dur); twhy != "" || td != dur {
			c.addFinding(finding{Property: "C20", Class: "new", What: "Tick does not arm a timer of the given duration when the command is created",
				Input: fmt.Sprintf("%d %d", unixNs, d), Expected: fmt.Sprint(d), Observed: fmt.Sprintf("%d %s", int64(td), twhy)})
		}
		bucket := "positive"
		if d <= 0 {
			bucket = "nonpositive"
		} else if unixNs%d == 0 {
			bucket = "on-boundary"
		}
		c.emit(fmt.Sprintf("%d %d", unixNs, d), fmt.Sprintf("%d", int64(delay)), bucket)
		if d > 0 {
			// property C20 directly on Go's arithmetic: next boundary, not a later one
			if delay <= 0 || delay > dur || nn.Add(delay).Truncate(dur) != nn.Add(delay) {
				c.addFinding(finding{Property: "C20", Class: "new", What: "Every's delay does not end on the next period boundary",
					Input: fmt.Sprintf("%d %d", unixNs, d), Observed: fmt.Sprintf("%d", int64(delay))})
			}
		}
	}
	durs := []int64{1, 2, 3, 7, 1000, 1e6, 1e9, 60e9, 3600e9, 86400e9, 7 * 86400e9, 1<<31 - 1, 1 << 40, 1 << 62, 0, -1, -1e9}
	bases := []int64{0, 1, -1, 1e9, 1758900000e9, 1758900000e9 + 999999999, 253402300799e9 / 100, -62135596800e9 / 10, 4102444800e9, 1 << 62, -(1 << 62)}
	for _, d := range durs {
		for _, b := range bases {
			for _, off := range []int64{-1, 0, 1} {
				emit(b+off, d)
				if d > 0 {
					k := b / d * d
					emit(k+off, d) // around a boundary
				}
			}
		}
	}
	now := time.Now()
	for c.count < n {
		var d int64
		switch r.intn(4) {
		case 0:
			d = int64(r.rangeIn(1, 1000))
		case 1:
			d = int64(r.rangeIn(1, 1000)) * 1e6
		case 2:
			d = int64(r.next() >> uint(r.rangeIn(1, 40)))
			if d == 0 {
				d = 1
			}
		default:
			d = durs[r.intn(len(durs))]
		}
		base := now.UnixNano() + int64(r.next()>>20) - (1 << 43)
		if r.chance(1, 3) && d > 0 {
			base = base / d * d
			base += int64(r.rangeIn(-2, 2))
		}
		emit(base, d)
	}
	return nil
}

func init() {
	streams["every"] = streamEvery
	scenarios["timing"] = scenTiming
}

type scenOut struct {
	Scenario   string    `json:"scenario"`
	Evals      int       `json:"evaluations"`
	Distinct   int       `json:"distinct_nontrivial"`
	Samples    []string  `json:"samples"`
	Findings   []finding `json:"findings"`
	TracesOK   int       `json:"traces_validated"`
	Rule       string    `json:"rule"`
	mu         sync.Mutex
	distinctOf map[string]struct{}
}

func (s *scenOut) record(key, sample string) {
	s.mu.Lock()
	defer s.mu.Unlock()
	s.Evals++
	if s.distinctOf == nil {
		s.distinctOf = map[string]struct{}{}
	}
	s.distinctOf[key] = struct{}{}
	s.Distinct = len(s.distinctOf)
	if len(s.Samples) < 6 {
		s.Samples = append(s.Samples, sample)
	}
}

func (s *scenOut) fail(f finding) {
	s.mu.Lock()
	defer s.mu.Unlock()
	f.Stream = s.Scenario
	if len(s.Findings) < 100 {
		s.Findings = append(s.Findings, f)
	}
}

var scenarios = map[string]func(out *scenOut, r *rng, thorough bool){}

// scenTiming calls the real Tick and Every and checks what the property says
// about real time (a measurement of Go's timers, not a proof).
func scenTiming(out *scenOut, r *rng, thorough bool) {
	out.Rule = "real tea.Tick/tea.Every commands with periods 5..400ms created at random phases and invoked after random delays; distinct = (kind, period, invoke delay)"
	n := 40
	if thorough {
		n = 200
	}
	var wg sync.WaitGroup
	const slack = 300 * time.Millisecond
	// three long periods first (seconds: whatever the library does differently for long waits), invoked at once
	long := []time.Duration{2500 * time.Millisecond, 3 * time.Second, 2200 * time.Millisecond, 3 * time.Second, 2500 * time.Millisecond, 2200 * time.Millisecond}
	for i := 0; i < n+len(long); i++ {
		every := i%2 == 0
		periods := []time.Duration{5 * time.Millisecond, 13 * time.Millisecond, 40 * time.Millisecond, 150 * time.Millisecond, 400 * time.Millisecond}
		d := periods[r.intn(len(periods))]
		phase := time.Duration(r.intn(int(d)))
		wait := time.Duration(r.intn(int(2 * d)))
		if i < len(long) {
			d, wait = long[i], 0
			phase = time.Duration(i*300+r.intn(200)) * time.Millisecond // spread over the period: some are created early in it, some late
		}
		wg.Add(1)
		go func(i int) {
			defer wg.Done()
			time.Sleep(phase)
			var calls int32
			var got time.Time
			fn := func(t time.Time) tea.Msg {
				atomic.AddInt32(&calls, 1)
				got = t
				return t
			}
			before := time.Now()
			var cmd tea.Cmd
			if every {
				cmd = tea.Every(d, fn)
			} else {
				cmd = tea.Tick(d, fn)
			}
			after := time.Now()
			time.Sleep(wait)
			msg := cmd()
			kind := "tick"
			if every {
				kind = "every"
			}
			in := fmt.Sprintf("%s d=%s phase=%s invoke-after=%s", kind, d, phase, wait)
			out.record(fmt.Sprintf("%s/%s/%s", kind, d, wait/time.Millisecond), in)
			if atomic.LoadInt32(&calls) != 1 {
				out.fail(finding{Property: "C20", Class: "new", What: "callback not called exactly once", Input: in, Observed: fmt.Sprint(calls)})
			}
			if mt, ok := msg.(time.Time); !ok || !mt.Equal(got) {
				out.fail(finding{Property: "C20", Class: "new", What: "message is not the callback's result", Input: in})
			}
			if every {
				lo := before.Truncate(d).Add(d) // first boundary after `before` (<= the one after Every's own reading)
				hi := after.Truncate(d).Add(d)
				if got.Before(lo) {
					out.fail(finding{Property: "C20", Class: "new", What: "Every fired before the next period boundary", Input: in,
						Expected: ">= " + lo.Format(time.RFC3339Nano), Observed: got.Format(time.RFC3339Nano)})
				}
				if got.After(hi.Add(slack)) && got.Sub(hi) >= d {
					out.fail(finding{Property: "C20", Class: "new", What: "Every fired a whole period (or more) after the next boundary", Input: in,
						Expected: "< " + hi.Add(d).Format(time.RFC3339Nano), Observed: got.Format(time.RFC3339Nano)})
				}
			} else {
				if got.Before(before.Add(d)) {
					out.fail(finding{Property: "C20", Class: "new", What: "Tick fired before its duration elapsed since creation", Input: in,
						Expected: ">= " + before.Add(d).Format(time.RFC3339Nano), Observed: got.Format(time.RFC3339Nano)})
				}
				if got.After(after.Add(d).Add(slack)) && wait < d {
					out.fail(finding{Property: "C20", Class: "new", What: "Tick fired much later than its duration", Input: in, Observed: got.Sub(after).String()})
				}
			}
		}(i)
	}
	wg.Wait()
	// a command is for one firing: running the same command value again must not
	// deliver a second message; and the time reported is the time the timer
	// fired (armed at creation), however late the command is run
	for _, every := range []bool{false, true} {
		d := 40 * time.Millisecond
		var calls int32
		fn := func(t time.Time) tea.Msg { atomic.AddInt32(&calls, 1); return t }
		before := time.Now()
		var cmd tea.Cmd
		kind := "tick"
		if every {
			cmd, kind = tea.Every(d, fn), "every"
		} else {
			cmd = tea.Tick(d, fn)
		}
		time.Sleep(400 * time.Millisecond) // run it long after it fired
		msg := cmd()
		in := fmt.Sprintf("%s d=40ms, run 400ms after creation, then run a second time", kind)
		out.record(kind+"/late+twice", in)
		if ts, ok := msg.(time.Time); ok {
			if ts.Sub(before) > d+d+150*time.Millisecond {
				out.fail(finding{Property: "C20", Class: "new", What: "the time reported is not the time the timer fired (armed at creation)", Input: in,
					Expected: "about creation + " + d.String(), Observed: "creation + " + ts.Sub(before).String()})
			}
		}
		second := make(chan struct{})
		go func() { cmd(); close(second) }()
		select {
		case <-second:
			out.fail(finding{Property: "C20", Class: "new", What: "running the same command a second time delivered a second message", Input: in,
				Expected: "exactly one message per command", Observed: fmt.Sprintf("callback ran %d times", atomic.LoadInt32(&calls))})
		case <-time.After(200 * time.Millisecond):
		}
	}
}

// `fps` stream: the frame interval newRenderer computes for a requested fps.
func streamFPS(c *corrOut, r *rng, n int, thorough bool) map[string]interface{} {
	emit := func(f int) {
		d := tea.VerifFramerate(f)
		bucket := "in-range"
		if f < 1 {
			bucket = "default"
		} else if f > 120 {
			bucket = "clamped"
		}
		c.emit(fmt.Sprintf("%d", f), fmt.Sprintf("%d", int64(d)), bucket)
		// property C19 directly: the effective rate is within 1..120 and 60 by default
		if d < time.Second/120 || d > time.Second || (f < 1 && d != time.Second/60) || (f >= 1 && f <= 120 && d != time.Second/time.Duration(f)) {
			c.addFinding(finding{Property: "C19", Class: "new", What: "frame interval outside the documented clamp", Input: fmt.Sprint(f), Observed: d.String()})
		}
	}
	for _, f := range []int{-9223372036854775808, -1000000, -1, 0, 1, 2, 59, 60, 61, 119, 120, 121, 1000, 1 << 40, 9223372036854775807} {
		emit(f)
	}
	for f := -5; f <= 130; f++ {
		emit(f)
	}
	for c.count < n {
		emit(int(int64(r.next()) >> uint(r.intn(60))))
	}
	dflt, mx := tea.VerifConsts()
	if dflt != 60 || mx != 120 {
		c.addFinding(finding{Property: "C19", Class: "new", What: "defaultFPS/maxFPS differ from the documented 60/120", Observed: fmt.Sprint(dflt, mx)})
	}
	return nil
}

func init() { streams["fps"] = streamFPS }
