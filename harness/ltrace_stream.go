package main

import (
	"fmt"
	"runtime"
	"strconv"
	"strings"
	"sync"
	"time"

	tea "github.com/charmbracelet/bubbletea"
)

// The `ltrace` stream: real programs run one at a time with the package's trace points
// (verifPause, build tag verif) recording the stages of Run's start-up, the phases of every
// shutdown call, the exits of the handler goroutines and of the read loop, the end of the event
// loop, Run's tail and return - together with the harness's own actions (Send calls, context
// cancellation). The recorded history, one total order, goes to the Lean driver, which decides
// whether the Lifecycle LTS has a run with exactly that observable history (LifeAccept.lean).

type traceEvent struct {
	gid   int64
	where string
}

type traceRec struct {
	mu  sync.Mutex
	evs []traceEvent
}

func curGid() int64 {
	var buf [64]byte
	n := runtime.Stack(buf[:], false)
	f := strings.Fields(string(buf[:n]))
	if len(f) >= 2 {
		if id, err := strconv.ParseInt(f[1], 10, 64); err == nil {
			return id
		}
	}
	return -1
}

func (r *traceRec) add(where string) {
	g := curGid()
	r.mu.Lock()
	r.evs = append(r.evs, traceEvent{g, where})
	r.mu.Unlock()
}

func sendKindOf(m tea.Msg) string {
	switch m.(type) {
	case tea.QuitMsg:
		return "quit"
	case tea.InterruptMsg:
		return "interrupt"
	}
	return "user"
}

// traceTokens turns the raw events into the observation tokens of the driver and the list of
// sender kinds (in the order of the Send calls).
func traceTokens(evs []traceEvent) (tokens []string, senders []string) {
	runGid := int64(-2)
	killers := map[int64]int{}
	starting := true
	spawnedInit := false
	for _, e := range evs {
		w := e.where
		switch {
		case strings.HasPrefix(w, "ext: send "):
			senders = append(senders, strings.TrimPrefix(w, "ext: send "))
			tokens = append(tokens, fmt.Sprintf("send:%d", len(senders)-1))
		case w == "ext: cancel":
			tokens = append(tokens, "cancel")
		case w == "su: sigHandler":
			runGid = e.gid
			tokens = append(tokens, "su:sig")
		case w == "su: newRenderer":
			tokens = append(tokens, "su:rend")
		case w == "su: termFails":
			tokens = append(tokens, "su:termfail")
		case w == "su: modesWritten":
			tokens = append(tokens, "su:modes")
		case w == "su: startRenderer":
			tokens = append(tokens, "su:start")
		case w == "su: spawnInit":
			// (recorded BEFORE the go statement: the hand-over goroutine may have finished - and
			// recorded `init: exit` - before Run reaches the next trace point, so the observation
			// "Init has returned, its command is about to be handed over" belongs here)
			spawnedInit = true
			tokens = append(tokens, "su:init")
		case w == "su: initDone":
			if !spawnedInit {
				tokens = append(tokens, "su:init")
			}
		case w == "su: firstViewDone":
			tokens = append(tokens, "su:view")
		case w == "reader: spawn":
			if starting && e.gid == runGid {
				tokens = append(tokens, "su:reader")
			} else {
				tokens = append(tokens, "reader:respawn")
			}
		case w == "su: readerFails":
			tokens = append(tokens, "su:readerfail")
		case w == "su: spawnHandlers":
			starting = false
			tokens = append(tokens, "su:handlers")
		case w == "run: tail", w == "run: return", w == "sig: exit", w == "cmds: exit", w == "resize: exit", w == "init: exit", w == "reader: exit", w == "el: exit":
			tokens = append(tokens, strings.ReplaceAll(w, ": ", ":"))
		case strings.HasPrefix(w, "sh: "):
			who := "R"
			if e.gid != runGid {
				k, ok := killers[e.gid]
				if !ok {
					k = len(killers)
					killers[e.gid] = k
				}
				who = strconv.Itoa(k)
			}
			tokens = append(tokens, "sh:"+strings.TrimPrefix(w, "sh: ")+":"+who)
		default:
			// a pause point that is not a lifecycle trace point (checkResize …)
		}
	}
	return
}

func streamLTrace(c *corrOut, r *rng, n int, thorough bool) map[string]interface{} {
	quietStdio()
	rec := &traceRec{}
	tea.VerifPauseHook = rec.add
	traceExt = func(kind string, m tea.Msg) {
		if kind == "send" {
			rec.add("ext: send " + sendKindOf(m))
		} else {
			rec.add("ext: " + kind)
		}
	}
	defer func() { tea.VerifPauseHook = nil; traceExt = nil }()
	causes := []string{"quitmsg", "quitapi", "interrupt", "kill", "ctx", "readerr", "panic-update", "panic-view", "panic-init"}
	strikes := []string{"idle", "in-update", "in-view", "in-writer", "in-init", "first-view", "startup-write", "pre-cancel", "in-exec"}
	pendings := []string{"none", "senders1", "second-quit", "second-kill", "initcmd"}
	inputs := []string{"nil", "blocking", "pipe"}
	var all []termScenario
	for _, ca := range causes {
		for _, st := range strikes {
			for _, p := range pendings {
				for _, in := range inputs {
					s := termScenario{ca, st, p, in}
					if !s.valid() || (st == "pre-cancel" && ca != "ctx") {
						continue
					}
					all = append(all, s)
				}
			}
		}
	}
	for i := len(all) - 1; i > 0; i-- {
		j := r.intn(i + 1)
		all[i], all[j] = all[j], all[i]
	}
	if !thorough && len(all) > n {
		all = all[:n]
	}
	for _, s := range all {
		rec.mu.Lock()
		rec.evs = nil
		rec.mu.Unlock()
		tr := runTermScenario(s, nil)
		time.Sleep(30 * time.Millisecond) // a Kill goroutine still inside its own shutdown; the cleanup's stragglers
		rec.mu.Lock()
		evs := append([]traceEvent(nil), rec.evs...)
		rec.mu.Unlock()
		if !tr.returned {
			// (a C04 matter, reported by the term scenario; the trace of a hung run is still a prefix)
		}
		tokens, senders := traceTokens(evs)
		spare := 0
		if s.Pending == "initcmd" {
			spare = 1 // the Init command's own message, sent by a command goroutine the harness does not see
		}
		spareExec := 0
		if s.Strike == "in-exec" {
			spareExec = 1 // the exec message: produced by the command Update returned, sent by its goroutine
		}
		cfg := fmt.Sprintf("spareexec=%d cancelable=%t initcmd=%t input=%t senders=%s spare=%d", spareExec, s.Input == "pipe", s.Pending == "initcmd" || s.Pending == "neverinit", s.Input != "nil" || s.Cause == "readerr",
			strings.Join(append([]string{"-"}, senders...), ","), spare)
		c.emit(cfg+" | "+strings.Join(tokens, " "), "accepted", s.Cause+"/"+s.Strike)
	}
	return nil
}

func init() { streams["ltrace"] = streamLTrace }
