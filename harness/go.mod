module verif/harness

go 1.23.0

toolchain go1.23.7

require (
	github.com/charmbracelet/bubbletea v0.0.0
	github.com/charmbracelet/x/term v0.2.1
	golang.org/x/sys v0.32.0
)

require (
	github.com/aymanbagabas/go-osc52/v2 v2.0.1 // indirect
	github.com/charmbracelet/colorprofile v0.2.3-0.20250311203215-f60798e515dc // indirect
	github.com/charmbracelet/lipgloss v1.1.0 // indirect
	github.com/charmbracelet/x/ansi v0.8.0 // indirect
	github.com/charmbracelet/x/cellbuf v0.0.13-0.20250311204145-2c3ea96c31dd // indirect
	github.com/lucasb-eyer/go-colorful v1.2.0 // indirect
	github.com/mattn/go-isatty v0.0.20 // indirect
	github.com/mattn/go-runewidth v0.0.16 // indirect
	github.com/muesli/ansi v0.0.0-20230316100256-276c6243b2f6 // indirect
	github.com/muesli/cancelreader v0.2.2 // indirect
	github.com/muesli/termenv v0.16.0 // indirect
	github.com/rivo/uniseg v0.4.7 // indirect
	github.com/xo/terminfo v0.0.0-20220910002029-abceb7e1c41e // indirect
	golang.org/x/sync v0.13.0 // indirect
)

replace github.com/charmbracelet/bubbletea => /repo
