package main

import (
	"bytes"
	"context"
	"errors"
	"fmt"
	"io"
	"os"
	"runtime"
	"strings"
	"sync"
	"time"

	tea "github.com/charmbracelet/bubbletea"
)

// ---- running the real code -------------------------------------------------

func panicKind(v interface{}) string {
	s := fmt.Sprint(v)
	switch {
	case strings.Contains(s, "index out of range"), strings.Contains(s, "slice bounds out of range"):
		return "panic index-out-of-range"
	case strings.Contains(s, "invalid mouse event"):
		return "panic invalid-mouse-event"
	case strings.Contains(s, "nil pointer"), strings.Contains(s, "invalid memory address"):
		return "panic nil-func-call"
	}
	return "panic other:" + strings.ReplaceAll(s, "\n", " ")
}

func implDetect(b []byte, more bool) (out string) {
	defer func() {
		if v := recover(); v != nil {
			out = panicKind(v)
		}
	}()
	w, m := tea.VerifDetectOneMsg(b, more)
	return fmt.Sprintf("%d %s", w, tea.VerifDescribeMsg(m))
}

// scriptedReader returns the given chunks, one per Read, then the final error.
type scriptedReader struct {
	chunks [][]byte
	final  error
	reads  int
	idle   chan struct{} // non-nil: signal that every chunk has been processed, then block
	resume chan struct{}
	// failData: the failing Read returns these bytes TOGETHER with errFailingRead
	failData   []byte
	failed     bool
	afterError bool // Read was called again after the failing Read: the error was ignored
	// delay: every Read after the first waits this long before it returns (a slow link: the bytes
	// of one event arrive with pauses between them)
	delay time.Duration
}

var errFailingRead = fmt.Errorf("harness: read failed")

var errIdleInput = fmt.Errorf("harness: input went away")

func (s *scriptedReader) Read(p []byte) (int, error) {
	if len(s.chunks) == 0 && s.failData != nil {
		if s.failed {
			s.afterError = true
			return 0, io.EOF
		}
		s.failed = true
		return copy(p, s.failData), errFailingRead
	}
	if len(s.chunks) == 0 {
		if s.idle != nil {
			// an idle terminal: the reader asks for more, nothing comes
			close(s.idle)
			<-s.resume
			return 0, errIdleInput
		}
		return 0, s.final
	}
	c := s.chunks[0]
	s.chunks = s.chunks[1:]
	if s.delay > 0 && s.reads > 0 {
		time.Sleep(s.delay)
	}
	s.reads++
	if len(c) > len(p) {
		panic("harness: chunk larger than the read buffer")
	}
	return copy(p, c), nil
}

// implReader runs the real readAnsiInputs on the chunk list followed by EOF
// (eof) or by an input that stays open and silent until the reader fails
// with an unrelated error.
func implReader(chunks [][]byte, eof bool) (msgs []string, status string) {
	return implReaderX(chunks, eof, nil)
}

// implReaderX: with failData non-nil the last Read returns failData together with a
// non-EOF error (the io.Reader contract allows n > 0 with an error).
func implReaderX(chunks [][]byte, eof bool, failData []byte) (msgs []string, status string) {
	msgs, status, _ = implReaderC(chunks, eof, failData, -1)
	return
}

// implReaderC: with budget >= 0 the program context is cancelled as soon as `budget` messages
// have been received, and nothing is received afterwards (the reader's next send finds the
// context done). cancelled reports whether the reader returned the context's error. The
// reads it issued after the cancellation are counted (readsAfterCancel must stay 0 or 1: the
// Read in progress, never a further one after a message was refused).
// aliasFindings: messages that changed after delivery, noticed by implReaderC (drained into the
// stream's findings by streamReader)
var aliasFindings []finding

// pasteStringFindings: paste messages whose String() is not the bracketed text (same route)
var pasteStringFindings []finding

// readDelay: when non-zero, the scripted reader of the next implReader… call pauses this long before
// every Read but the first (set and reset by the slow-link cases only; the streams are sequential)
var readDelay time.Duration

func implReaderC(chunks [][]byte, eof bool, failData []byte, budget int) (msgs []string, status string, cancelled bool) {
	cp := make([][]byte, len(chunks))
	copy(cp, chunks)
	rd := &scriptedReader{chunks: cp, final: io.EOF, failData: failData, delay: readDelay}
	if !eof && failData == nil {
		rd.idle = make(chan struct{})
		rd.resume = make(chan struct{})
	}
	ch := make(chan tea.Msg)
	done := make(chan string, 1)
	ctx, cancel := context.WithCancel(context.Background())
	defer cancel()
	go func() {
		defer func() {
			if v := recover(); v != nil {
				done <- panicKind(v)
			}
		}()
		err := tea.VerifReadAnsiInputs(ctx, ch, rd)
		switch {
		case err == nil:
			done <- "nil-error"
		case errors.Is(err, context.Canceled):
			done <- "ok-cancelled"
		default:
			done <- "ok"
		}
	}()
	var held []tea.Msg
	recv := ch // the receiving side: nil once the cancellation has happened
	if budget == 0 {
		cancel()
		recv = nil
	}
	timeout := time.After(10 * time.Second)
	idle := rd.idle
	for {
		select {
		case <-idle:
			idle = nil
			close(rd.resume) // everything delivered so far is all there will be
		case m := <-recv:
			d := tea.VerifDescribeMsg(m)
			msgs = append(msgs, d)
			held = append(held, m)
			if budget >= 0 && len(msgs) >= budget {
				cancel()
				recv = nil // nothing is received any more
			}
		case st := <-done:
			// a receiver may keep a message for as long as it likes: what it says must not change when
			// the reader goes on (a message that shares memory with a buffer the reader reuses would)
			for _, m := range held {
				// a paste never looks like a key press to code that compares key strings (the library
				// brackets it for that purpose): "[text]", whatever its length
				if k, ok := m.(tea.KeyMsg); ok && k.Paste && len(pasteStringFindings) < 3 {
					if want := "[" + string(k.Runes) + "]"; k.String() != want {
						pasteStringFindings = append(pasteStringFindings, finding{Class: "new", What: "the string form of a paste message is not the bracketed text: key bindings that compare strings would take pasted text for a key press",
							Input: readerLine(chunks, eof), Expected: want, Observed: k.String()})
					}
				}
			}
			for i, m := range held {
				if now := tea.VerifDescribeMsg(m); now != msgs[i] && len(aliasFindings) < 3 {
					aliasFindings = append(aliasFindings, finding{Class: "new", What: "a delivered message changed after it had been delivered (it shares memory with something the reader went on using)",
						Input: readerLine(chunks, eof), Expected: msgs[i], Observed: now})
				}
			}
			if rd.afterError {
				return msgs, "read-after-error", false
			}
			if st == "ok-cancelled" {
				return msgs, "ok", true
			}
			return msgs, st, false
		case <-timeout:
			return msgs, "stall", false
		}
	}
}

func readerLine(chunks [][]byte, eof bool) string {
	parts := make([]string, len(chunks)+1)
	parts[0] = "I" // the input stays open (idle terminal)
	if eof {
		parts[0] = "E" // end of input follows
	}
	for i, c := range chunks {
		parts[i+1] = hexOf(c)
	}
	return strings.Join(parts, " ")
}

func implReaderLine(chunks [][]byte, eof bool) (string, []string, string) {
	msgs, st := implReader(chunks, eof)
	if st != "ok" {
		return st, msgs, st
	}
	return strings.Join(msgs, " | "), msgs, st
}

// ---- chunking ---------------------------------------------------------------

// fullReads cuts s the way a reader that fills the 256-byte buffer whenever it
// can delivers it: full reads, then one short (possibly empty) read.
func fullReads(s []byte) [][]byte {
	var out [][]byte
	for len(s) >= 256 {
		out = append(out, s[:256])
		s = s[256:]
	}
	if len(s) > 0 || len(out) == 0 {
		out = append(out, s) // (after an exact multiple the next Read reports EOF)
	}
	return out
}

func randomCuts(r *rng, s []byte) [][]byte {
	var out [][]byte
	for len(s) > 0 {
		n := r.rangeIn(1, 256)
		if r.chance(1, 2) {
			n = r.rangeIn(1, 8)
		}
		if n > len(s) {
			n = len(s)
		}
		out = append(out, s[:n])
		s = s[n:]
	}
	return out
}

// ---- the `detect` stream ----------------------------------------------------

var branchBytes = []byte{0x1b, '[', '<', ';', '0', '1', '9', 'M', 'm', '~', 'O', 'I', 'A', 'a', ' ', 0, 0x7f, 0xc3, 0xa9, 0xe2, 0x82, 0xf0, 0x9f, 0x80, 0xff, '2', '$'}

func mutate(r *rng, b []byte) []byte {
	b = append([]byte(nil), b...)
	switch r.intn(5) {
	case 0: // truncate
		if len(b) > 0 {
			b = b[:r.intn(len(b))]
		}
	case 1: // insert
		i := r.intn(len(b) + 1)
		b = append(b[:i], append([]byte{r.pickByte(branchBytes)}, b[i:]...)...)
	case 2: // delete
		if len(b) > 0 {
			i := r.intn(len(b))
			b = append(b[:i], b[i+1:]...)
		}
	case 3: // flip
		if len(b) > 0 {
			b[r.intn(len(b))] = r.pickByte(branchBytes)
		}
	case 4: // random byte anywhere
		if len(b) > 0 {
			b[r.intn(len(b))] = byte(r.intn(256))
		}
	}
	return b
}

func malformed(r *rng, n int) []byte {
	b := make([]byte, n)
	for i := range b {
		if r.chance(4, 5) {
			b[i] = r.pickByte(branchBytes)
		} else {
			b[i] = byte(r.intn(256))
		}
	}
	return b
}

func detectBucket(impl string) string {
	f := strings.Fields(impl)
	if len(f) < 2 {
		return "other"
	}
	if f[0] == "panic" {
		return "panic"
	}
	if f[0] == "0" {
		return "needmore"
	}
	return f[1]
}

func streamDetect(c *corrOut, g *inputGen, r *rng, n int, thorough bool) {
	emit := func(b []byte, more bool) string {
		flag := "0"
		if more {
			flag = "1"
		}
		out := implDetect(b, more)
		if more && c.scope != "" && !strings.Contains(c.scope, "C15") {
			// what is held back when more data can follow is C15's subject
			old := c.scope
			c.scope = old + " C15"
			defer func() { c.scope = old }()
		}
		c.emit(flag+" "+hexOf(b), out, detectBucket(out))
		// property C09, directly on the implementation: no panic on non-empty
		// input, width within bounds, zero width only to ask for more data.
		if len(b) > 0 {
			f := strings.Fields(out)
			if f[0] == "panic" {
				c.addFinding(finding{Property: "C09", Class: "new", What: "detectOneMsg panics", Input: flag + " " + hexOf(b), Observed: out})
			} else {
				var w int
				fmt.Sscanf(f[0], "%d", &w)
				if w < 0 || w > len(b) {
					c.addFinding(finding{Property: "C09", Class: "new", What: "width out of range", Input: flag + " " + hexOf(b), Observed: out})
				}
				if w == 0 && !more && !strings.HasPrefix(string(b), "\x1b[200~") {
					c.addFinding(finding{Property: "C09", Class: "new", What: "zero width without pending data", Input: flag + " " + hexOf(b), Observed: out})
				}
				if w > 0 && f[1] == "nil" {
					c.addFinding(finding{Property: "C09", Class: "new", What: "nil message with non-zero width", Input: flag + " " + hexOf(b), Observed: out})
				}
				// each message accounts for the run it consumed: decoding exactly those
				// bytes alone gives the same message (for the message kinds whose meaning
				// does not depend on what follows: mouse, table keys, rune runs, pastes)
				if !more && w > 0 && w < len(b) && (f[1] == "mouse" || f[1] == "key") && !(b[0] == 0x1b && w == 1) {
					alone := implDetect(b[:w], false)
					if alone != out {
						c.addFinding(finding{Property: "C09", Class: "new", What: "a message does not account for the run of input it consumed (built from bytes beyond its width, which are then decoded again)",
							Input: flag + " " + hexOf(b), Expected: "the consumed bytes alone decode to the same message: " + alone, Observed: out})
					}
				}
			}
		}
		return out
	}
	// plainScope: a buffer without ESC and without bytes >= 0x80 is a concatenation of printable
	// characters and control characters (each a key of its own): in the domain of C08 as well
	plainScope := func(b []byte) string {
		if len(b) == 0 {
			return "C09"
		}
		for _, x := range b {
			if x == 0x1b || x >= 0x80 {
				return "C09"
			}
		}
		return "C08 C09"
	}
	both := func(b []byte) {
		auto := c.scope == ""
		if auto {
			c.scope = plainScope(b)
		}
		emit(b, false)
		if auto {
			c.scope = "C09 C15" // (with canHaveMoreData the answer may be "need more": totality, and what is held back at the end of a full read)
		}
		emit(b, true)
		if auto {
			c.scope = ""
		}
	}
	// (d) exhaustive short buffers
	c.scope = "C09"
	both(nil)
	for a := 0; a < 256; a++ {
		if a < 0x80 {
			c.scope = "C08 C09" // a control byte or a printable character on its own
		} else {
			c.scope = "C09"
		}
		both([]byte{byte(a)})
	}
	c.scope = "" // short buffers: the scope is decided per buffer (plainScope)
	firsts := []byte{0x1b, 0, ' ', 'a', 0x7f, 0xc3, 0xe0, 0xed, 0xf0, 0xf4, 0x80, 0xff, '['}
	if thorough {
		firsts = make([]byte, 256)
		for i := range firsts {
			firsts[i] = byte(i)
		}
	}
	for _, a := range firsts {
		for b := 0; b < 256; b++ {
			both([]byte{a, byte(b)})
		}
	}
	// all buffers over the branch alphabet up to length 3 (quick) / 4 (thorough)
	maxLen := 3
	if thorough {
		maxLen = 4
	}
	var rec func(prefix []byte)
	rec = func(prefix []byte) {
		if len(prefix) > 0 {
			both(prefix)
		}
		if len(prefix) == maxLen {
			return
		}
		for _, s := range branchBytes[:18] {
			rec(append(append([]byte(nil), prefix...), s))
		}
	}
	rec(nil)
	// every documented key alone, alt-prefixed, and followed by something
	for i := range g.doc.Sequences {
		for _, alt := range []bool{false, true} {
			e := g.evDocKey(i, alt)
			c.scope = "C08 C09"
			if alt && g.doc.Sequences[i].Alt {
				c.scope = "C09"
			}
			out := emit(e.bytes, false)
			want := fmt.Sprintf("%d %s", len(e.bytes), e.want)
			if alt && g.doc.Sequences[i].Alt {
				continue // ESC + an entry that is already alt is not documented
			}
			if out != want {
				c.addFinding(finding{Property: "C08", Class: "new", What: "documented key sequence decodes wrongly when alone",
					Input: "0 " + hexOf(e.bytes), Expected: want, Observed: out})
			}
			c.scope = "C09" // followed by junk: totality only
			both(append(append([]byte(nil), e.bytes...), malformed(r, r.rangeIn(1, 4))...))
		}
	}
	// a printable character, then every one-byte documented key (control characters, space,
	// DEL), then a printable character: the run of characters stops at the key, the key
	// decodes to itself, the next run starts after it (expectations from the frozen table)
	var oneByte []event
	for cb := 1; cb <= 0x1f; cb++ {
		if cb != 0x1b {
			oneByte = append(oneByte, evCtrl(byte(cb), false))
		}
	}
	oneByte = append(oneByte, evCtrl(0x7f, false), g.evSpace(false), evNUL(false))
	for _, e := range oneByte {
		pre, post := g.evRunes([]rune{'a'}), g.evRunes([]rune{'b'})
		buf := append(append(append([]byte(nil), pre.bytes...), e.bytes...), post.bytes...)
		c.scope = "C08 C09"
		for off, ev := range []event{pre, e, post} {
			out := emit(buf[off:], false)
			want := fmt.Sprintf("%d %s", len(ev.bytes), ev.want)
			if out != want {
				c.addFinding(finding{Property: "C08", Class: "new", What: "a one-byte key between printable characters: the run of characters does not stop at it, or it does not decode to its key",
					Input: "0 " + hexOf(buf[off:]), Expected: want, Observed: out})
			}
		}
	}
	// mouse: every button code, both finals, boundary coordinates
	coords := []int{1, 2, 33, 95, 222, 223, 224, 1000, 9999}
	for code := 0; code < 256; code++ {
		for _, rel := range []bool{false, true} {
			x, y := coords[r.intn(len(coords))], coords[r.intn(len(coords))]
			e := evSGR(code, x, y, rel)
			tail := g.mouseTail(c, r)
			out := emit(append(append([]byte(nil), e.bytes...), tail...), r.chance(1, 2))
			want := fmt.Sprintf("%d %s", len(e.bytes), e.want)
			if out != want {
				c.addFinding(finding{Property: "C11", Class: "new", What: "SGR mouse report decodes wrongly",
					Input: hexOf(e.bytes), Expected: want, Observed: out})
			}
		}
		if code >= 32 {
			e := evX10(byte(code), byte(r.rangeIn(33, 255)), byte(r.rangeIn(33, 255)))
			tail := g.mouseTail(c, r)
			out := emit(append(append([]byte(nil), e.bytes...), tail...), r.chance(1, 2))
			want := fmt.Sprintf("%d %s", len(e.bytes), e.want)
			if out != want {
				c.addFinding(finding{Property: "C11", Class: "new", What: "X10 mouse report decodes wrongly",
					Input: hexOf(e.bytes), Expected: want, Observed: out})
			}
		}
	}
	// huge numeric parameters
	c.scope = "C09"
	for _, s := range []string{"\x1b[<99999999999999999999;1;1M", "\x1b[<0;18446744073709551616;9223372036854775808m",
		"\x1b[<0;9223372036854775807;9223372036854775806M", "\x1b[<00000;0;0M", "\x1b[<1;2;3", "\x1b[<1;2;3X", "\x1b[<;;M", "\x1b[<x1;2;3Mzz",
		"\x1b[<0;33\x1b[<0;33;17M", "\x1b[<;1;2;3m!", "\x1b[<abc 10;20;30Mtail", "\x1b[<1;2\r3;4;5M"} {
		both([]byte(s))
	}
	// SGR introducer, junk, then something that looks like a report later in the buffer
	for i := 0; i < 60; i++ {
		b := append([]byte("\x1b[<"), malformed(r, r.rangeIn(1, 6))...)
		b = append(b, evSGR(r.intn(256), r.rangeIn(1, 300), r.rangeIn(1, 300), r.chance(1, 2)).bytes[3:]...)
		b = append(b, malformed(r, r.intn(4))...)
		both(b)
	}
	// random: structured, mutated, malformed
	for c.count < n {
		c.scope = "C09"
		switch r.intn(4) {
		case 0:
			evs := g.randSegment(r, r.rangeIn(1, 3))
			more := r.chance(1, 2)
			if !more {
				c.scope = "C08 C09 C10 C11" // well-formed events read together
			}
			emit(concatEvents(evs), more)
		case 1:
			evs := g.randSegment(r, r.rangeIn(1, 2))
			emit(mutate(r, concatEvents(evs)), r.chance(1, 2))
		case 2:
			b := malformed(r, r.rangeIn(1, 12))
			emit(b, r.chance(1, 2))
		case 3:
			b := mutate(r, mutate(r, g.randEvent(r).bytes))
			if len(b) > 0 {
				emit(b, r.chance(1, 2))
			}
		}
	}
}

// mouseTail: what follows a mouse report in the detect stream: nothing, a well-formed
// event (in scope of C11: "embedded among other events") or junk (totality only).
func (g *inputGen) mouseTail(c *corrOut, r *rng) []byte {
	switch r.intn(3) {
	case 0:
		c.scope = "C09 C11"
		return nil
	case 1:
		c.scope = "C09 C11"
		return g.randEvent(r).bytes
	}
	c.scope = "C09"
	return malformed(r, r.rangeIn(1, 3))
}

// ---- the `reader` stream ----------------------------------------------------

// checkExpect runs the real reader on chunks and compares with the expected
// message list; a mismatch is a property failure observed on the implementation.
func (g *inputGen) checkExpect(c *corrOut, prop, what string, chunks [][]byte, want []string) {
	exp := strings.Join(want, " | ")
	for _, eof := range []bool{true, false} {
		if !eof && len(chunks) > 0 && len(chunks[len(chunks)-1]) == 256 {
			continue // a full last read legitimately holds an open event back while the input stays open
		}
		line, _, _ := implReaderLine(chunks, eof)
		c.scope = prop + " C09"
		switch {
		case strings.Contains(what, "event sgr") || strings.Contains(what, "event x10"):
			c.scope += " C11"
		case strings.Contains(what, "completely filled read"):
			c.scope += " C15"
		case strings.Contains(what, "event paste"), strings.Contains(what, "several pastes"):
			c.scope += " C10"
		case strings.Contains(what, "event "):
			c.scope += " C08"
		case strings.Contains(what, "well-formed events"):
			c.scope += " C08 C10 C11 C15"
		}
		c.emit(readerLine(chunks, eof), line, "structured:"+what)
		if line != exp {
			c.addFinding(finding{Property: prop, Class: "new", What: what, Input: readerLine(chunks, eof), Expected: exp, Observed: line})
			if runePayload(line) != runePayload(exp) {
				c.addFinding(finding{Property: "C09", Class: "new", What: "input bytes lost, repeated or never delivered (" + what + ")", Input: readerLine(chunks, eof), Expected: exp, Observed: line})
			}
		}
	}
}

// checkExpectQuiet: like checkExpect but without emitting correspondence lines
// (the same chunks were already emitted by the caller).
func (g *inputGen) checkExpectQuiet(c *corrOut, prop, what string, chunks [][]byte, want []string) {
	exp := strings.Join(want, " | ")
	line, _, _ := implReaderLine(chunks, true)
	if line != exp {
		c.addFinding(finding{Property: prop, Class: "new", What: what, Input: readerLine(chunks, true), Expected: exp, Observed: line})
	}
}

// runePayload concatenates the rune lists of all key messages of a line: a
// coarse fingerprint of "which input characters were delivered, in order".
func runePayload(line string) string {
	var sb strings.Builder
	for _, m := range strings.Split(line, " | ") {
		if i := strings.Index(m, "runes=["); i >= 0 {
			sb.WriteString(m[i+7 : len(m)-1])
			sb.WriteByte(',')
		} else {
			sb.WriteString(m)
			sb.WriteByte(',')
		}
	}
	return sb.String()
}

func streamReader(c *corrOut, g *inputGen, r *rng, n int, thorough bool) {
	kr := g.doc.KeyRunes
	csiContentStable(c)
	// C08: every documented key between two other events, in one read
	for i := range g.doc.Sequences {
		for _, alt := range []bool{false, true} {
			if alt && g.doc.Sequences[i].Alt {
				continue
			}
			e := g.evDocKey(i, alt)
			for tries := 0; tries < 20; tries++ {
				pre, post := g.randEvent(r), g.randEvent(r)
				evs := []event{pre, e, post}
				if g.ambiguousBoundary(pre, append(append([]byte(nil), e.bytes...), post.bytes...)) || g.ambiguousBoundary(e, post.bytes) {
					continue
				}
				g.checkExpect(c, "C08", "documented key inside a stream of events", [][]byte{concatEvents(evs)}, expectedOf(evs, kr))
				break
			}
		}
	}
	// C08: unknown CSI sequences of every length are consumed whole (never leaking as text): short ones,
	// long parameter lists (an in-band resize report, a device-attributes answer, a colour query answer)
	for _, u := range []event{
		evUnknownCSI([]byte("12;3"), []byte("$"), 'y'), evUnknownCSI(nil, nil, 'z'),
		evUnknownCSI([]byte("48;50;200;1000;2000"), nil, 't'), evUnknownCSI([]byte("?64;1;2;6;9;15;16;17;18;21;22;28"), nil, 'c'),
		evUnknownCSI([]byte("38;2;255;128;0;48;2;1;2;3;4;5;6;7;8;9;10;11;12;13;14;15;16;17;18;19;20"), []byte(" "), 'q'),
		evUnknownCSI([]byte(strings.Repeat("1;", 120)+"1"), nil, 'p'),
	} {
		for tries := 0; tries < 20; tries++ {
			pre, post := g.randEvent(r), g.randEvent(r)
			evs := []event{pre, u, post}
			if g.ambiguousBoundary(pre, append(append([]byte(nil), u.bytes...), post.bytes...)) || g.ambiguousBoundary(u, post.bytes) {
				continue
			}
			if len(concatEvents(evs)) >= 256 {
				continue
			}
			g.checkExpect(c, "C08", "unknown CSI sequence inside a stream of events is consumed whole", [][]byte{concatEvents(evs)}, expectedOf(evs, kr))
			break
		}
		g.checkExpect(c, "C08", "unknown CSI sequence alone is consumed whole", [][]byte{u.bytes}, expectedOf([]event{u}, kr))
	}
	// focus reports alone
	g.checkExpect(c, "C08", "focus report alone", [][]byte{[]byte("\x1b[I")}, []string{"focus"})
	g.checkExpect(c, "C08", "blur report alone", [][]byte{[]byte("\x1b[O")}, []string{"blur"})
	// C15: every kind of event at every alignment against the 256-byte boundary
	kinds := []event{
		g.evRunes([]rune{0xe9}), g.evRunes([]rune{0x20ac}), g.evRunes([]rune{0x1F600}),
		g.evDocKey(0, false), g.evDocKey(len(g.doc.Sequences)-1, false), g.evDocKey(20, true),
		evSGR(35, 10, 2, false), evSGR(0, 1000, 999, true), evX10(32, 33, 33), evX10(96, 255, 40),
		g.evPaste([]byte("hello\x1b[Aworld")), evCtrl('\r', false), evCtrl(9, true), g.evSpace(true), evNUL(true),
		evUnknownCSI([]byte("12;3"), []byte("$"), 'y'), g.evAltRune('x'), g.evAltEsc(),
		// the alt modifier in front of a multi-byte character (the ESC and a part of the character before the boundary)
		g.evAltRune(0xe9), g.evAltRune(0x4e16), g.evAltRune(0x1F600), evCtrl(0x7f, true),
		// LONG reports and sequences (15 and more bytes pending at the boundary): four- and ten-digit
		// parameters, leading zeros, long parameter lists
		evSGR(35, 1000, 1000, false), evSGR(64, 9999, 9999, true), evSGR(255, 12345, 54321, false),
		evSGRRaw("000", "0010", "0020", 'M', 0, 10, 20), evSGRRaw("2147483647", "1", "1", 'M', 2147483647, 1, 1),
		evUnknownCSI([]byte("38;2;255;128;0;48;2;1;2;3;4;5"), nil, 'p'), evUnknownCSI([]byte("1;2;3;4;5;6;7;8;9;10;11;12;13;14;15;16"), []byte("$"), 'r'),
	}
	for ki, e := range kinds {
		for o := 256 - len(e.bytes) - 1; o <= 256; o++ {
			if o < 0 {
				continue
			}
			pad := make([]rune, o)
			for i := range pad {
				pad[i] = rune('a' + (i+ki)%26)
			}
			tailRunes := []rune{'t', 'a', 'i', 'l'}
			evs := []event{e, g.evRunes(tailRunes)}
			if o > 0 {
				evs = []event{g.evRunes(pad), e, g.evRunes(tailRunes)}
			}
			// ESC-prefixed things after a rune run are unambiguous; a CR etc. too.
			prop := "C15"
			g.checkExpect(c, prop, "event "+e.kind+" against the read-buffer boundary", fullReads(concatEvents(evs)), expectedOf(evs, kr))
			if e.kind == "sgr" || e.kind == "x10" {
				// also C11: a report embedded among other events decodes to its mouse message and consumes exactly its own bytes
				g.checkExpectQuiet(c, "C11", "mouse report ("+e.kind+") embedded in a long stream is not decoded as one mouse message", fullReads(concatEvents(evs)), expectedOf(evs, kr))
			}
		}
	}
	// C08/C15: EVERY documented key, plain and behind the alt modifier, cut at every position by the end of a
	// completely filled read (a run of characters before it, an arrow key and a character after it)
	for i := range g.doc.Sequences {
		for _, alt := range []bool{false, true} {
			if alt && g.doc.Sequences[i].Alt {
				continue
			}
			e := g.evDocKey(i, alt)
			for cut := 1; cut < len(e.bytes); cut++ {
				pad := make([]rune, 256-cut)
				for j := range pad {
					pad[j] = rune('a' + (j+i)%26)
				}
				evs := []event{g.evRunes(pad), e, g.evRunes([]rune{'q'})}
				g.checkExpect(c, "C08", "documented key cut by the end of a completely filled read", fullReads(concatEvents(evs)), expectedOf(evs, kr))
				g.checkExpectQuiet(c, "C15", "a documented key that straddles the read-buffer boundary does not decode like the same bytes in one piece", fullReads(concatEvents(evs)), expectedOf(evs, kr))
			}
		}
	}
	// C15/C09: a stream that is an exact multiple of the buffer, then EOF
	for _, total := range []int{256, 512} {
		pad := make([]rune, total)
		for i := range pad {
			pad[i] = 'a'
		}
		evs := []event{g.evRunes(pad)}
		g.checkExpect(c, "C15", "rune stream of exactly a multiple of the buffer size, then end of input", fullReads(concatEvents(evs)), expectedOf(evs, kr))
	}
	// C08/C15: a documented key as the very last bytes of a stream that fills the read buffer exactly, then
	// end of input: keys that are also prefixes of longer sequences (esc, alt+esc, alt+[, alt+O …) are held
	// back after a full read and must still be decoded when nothing more arrives
	lastKeys := []event{g.evAltEsc(), {kind: "esc", bytes: []byte{0x1b}, want: descKey(g.doc.KeyEscape, false, false, nil)},
		g.evAltRune('['), g.evAltRune('O'), g.evAltRune('P'), g.evAltRune(']')}
	for i := range g.doc.Sequences {
		lastKeys = append(lastKeys, g.evDocKey(i, false))
	}
	for _, e := range lastKeys {
		for _, total := range []int{256, 512} {
			pad := make([]rune, total-len(e.bytes))
			for i := range pad {
				pad[i] = rune('a' + i%26)
			}
			evs := []event{g.evRunes(pad), e}
			g.checkExpect(c, "C08", "key "+e.kind+" as the last bytes of a completely filled read, then end of input", fullReads(concatEvents(evs)), expectedOf(evs, kr))
			g.checkExpectQuiet(c, "C15", "a stream that ends exactly at a read-buffer boundary does not decode like the same bytes in one piece (last event: "+e.kind+")", fullReads(concatEvents(evs)), expectedOf(evs, kr))
		}
	}
	// C10: pastes, chunked after the start marker
	payloadSizes := []int{0, 1, 5, 255, 256, 257, 511, 512, 513}
	if thorough {
		payloadSizes = append(payloadSizes, 1024, 4096)
	}
	for _, sz := range payloadSizes {
		for rep := 0; rep < 3; rep++ {
			pre, post := g.randEvent(r), g.randEvent(r)
			p := g.evPaste(g.randPayload(r, sz))
			if g.ambiguousBoundary(pre, append(append([]byte(nil), p.bytes...), post.bytes...)) {
				continue
			}
			evs := []event{pre, p, post}
			all := concatEvents(evs)
			// first read: everything up to and including the start marker
			head := len(pre.bytes) + 6
			chunks := [][]byte{all[:head]}
			rest := all[head:]
			// the paste body + end marker in random short reads; the tail after it in one read
			body := rest[:len(rest)-len(post.bytes)]
			for len(body) > 0 {
				k := r.rangeIn(1, 255)
				if k > len(body) {
					k = len(body)
				}
				// a cut must leave the final read shorter than the buffer
				chunks = append(chunks, body[:k])
				body = body[k:]
			}
			// glue the following event to the last chunk when it fits (same read)
			last := chunks[len(chunks)-1]
			if len(last)+len(post.bytes) < 256 && len(chunks) > 1 {
				chunks[len(chunks)-1] = append(append([]byte(nil), last...), post.bytes...)
			} else {
				chunks = append(chunks, post.bytes)
			}
			g.checkExpect(c, "C10", "paste delivered in pieces after the start marker", chunks, expectedOf(evs, kr))
		}
	}
	// C10: SEVERAL pastes in one run, each delivered in pieces of its own (the reader holds an event back
	// more than once in its life: what it kept from the first time must not leak into the second)
	reps := 12
	if thorough {
		reps = 120
	}
	for rep := 0; rep < reps; rep++ {
		k := r.rangeIn(2, 4)
		var evs []event
		var chunks [][]byte
		for j := 0; j < k; j++ {
			p := g.evPaste(g.randPayload(r, []int{1, 7, 40, 200, 300}[r.intn(5)]))
			evs = append(evs, p)
			// the start marker alone or with some payload; then the rest in 1..3 reads of its own
			cut := 6 + r.intn(len(p.bytes)-6)
			if r.chance(1, 3) {
				cut = 6
			}
			if cut > 250 {
				cut = 250
			}
			chunks = append(chunks, p.bytes[:cut])
			rest := p.bytes[cut:]
			for len(rest) > 0 {
				n := r.rangeIn(1, 255)
				if n > len(rest) {
					n = len(rest)
				}
				chunks = append(chunks, rest[:n])
				rest = rest[n:]
			}
			if r.chance(1, 2) {
				e := g.evRunes([]rune{rune('a' + j)})
				evs = append(evs, e)
				chunks = append(chunks, e.bytes)
			}
		}
		g.checkExpect(c, "C10", "several pastes in one run, each delivered in pieces after its start marker", chunks, expectedOf(evs, kr))
	}
	// C10 (round 16, C10-p): a DOUBLY WRAPPED paste - start marker, start marker, text, end marker, end marker
	// (a multiplexer wrapping what the terminal already wrapped). The paste is what lies between the first
	// start marker and the first end marker; the second end marker closes nothing and is an unknown CSI
	// sequence like any other; whatever follows it is decoded as usual.
	for _, tail := range []string{"x", "xyz"} {
		p := g.evPaste([]byte("\x1b[200~text"))
		evs := []event{g.evRunes([]rune{'a'}), p, evUnknownCSI([]byte("201"), nil, '~'), g.evRunes([]rune(tail))}
		all := concatEvents(evs)
		g.checkExpect(c, "C10", "doubly wrapped paste: a stray end marker directly after the paste, then text", [][]byte{all}, expectedOf(evs, kr))
		g.checkExpect(c, "C10", "doubly wrapped paste: a stray end marker directly after the paste, then text", [][]byte{all[:1+6], all[1+6:]}, expectedOf(evs, kr))
		g.checkExpect(c, "C10", "doubly wrapped paste: a stray end marker directly after the paste, then text", [][]byte{all[:1+6+6+4+6], all[1+6+6+4+6:]}, expectedOf(evs, kr))
	}
	// C10 / C09: a SLOW LINK - the pieces of one paste (and of one mouse report, one key sequence) arrive
	// with 260 ms between reads: however long the rest of an event takes to arrive, what was held
	// back is kept, and the result is the same as with no pause at all
	{
		p := g.evPaste([]byte("slow \x1b[A paste"))
		evs := []event{g.evRunes([]rune{'a'}), p, g.evRunes([]rune{'z'})}
		all := concatEvents(evs)
		readDelay = 260 * time.Millisecond
		g.checkExpect(c, "C10", "paste arriving over a slow link (260 ms between reads)", [][]byte{all[:1+6+3], all[1+6+3 : len(all)-4], all[len(all)-4:]}, expectedOf(evs, kr))
		m := evSGR(35, 10, 2, false)
		pad := make([]rune, 250)
		for i := range pad {
			pad[i] = rune('a' + i%26)
		}
		evs2 := []event{g.evRunes(pad), m, g.evRunes([]rune{'t'})}
		g.checkExpect(c, "C15", "a mouse report straddling the read buffer over a slow link (260 ms between reads)", fullReads(concatEvents(evs2)), expectedOf(evs2, kr))
		readDelay = 0
	}
	// C10 / C15: pastes of 5, 9 and 33 KB whose END MARKER straddles a read boundary at every offset,
	// followed by more than a buffer of further input (everything still pending behind the marker)
	for _, base := range []int{5000, 9000, 33000} {
		for cut := 1; cut <= 5; cut++ {
			// payload length such that the end marker starts `cut` bytes before a 256-byte boundary
			sz := base
			for (6+sz+cut)%256 != 0 {
				sz++
			}
			payload := make([]byte, sz)
			for i := range payload {
				payload[i] = byte('a' + i%26)
			}
			tailRunes := make([]rune, 300)
			for i := range tailRunes {
				tailRunes[i] = rune('A' + i%26)
			}
			evs := []event{g.evPaste(payload), evCtrl('\r', false), g.evRunes(tailRunes)}
			want := strings.Join(expectedOf(evs, kr), " | ")
			line, _, _ := implReaderLine(fullReads(concatEvents(evs)), true)
			if line != want {
				short := func(s string) string {
					if len(s) > 160 {
						return s[:90] + " … " + s[len(s)-60:]
					}
					return s
				}
				for _, prop := range []string{"C10", "C15", "C09"} {
					c.addFinding(finding{Property: prop, Class: "new", What: "a long paste whose end marker straddles a read boundary, with more input pending behind it, is not delivered as one paste followed by the rest",
						Input:    fmt.Sprintf("paste of %d bytes (end marker %d bytes before a 256-byte boundary), CR, 300 letters; full reads", sz, cut),
						Expected: short(want), Observed: short(line)})
				}
			}
		}
	}
	// C10: a very large paste (implementation-only oracle; the model side of it is the unbounded theorem
	// C10_chunked_paste): still exactly one paste message, whatever the payload length
	bigSizes := []int{1<<16 + 77, 1<<20 + 4096}
	if thorough {
		bigSizes = append(bigSizes, 1<<20+1<<19+5)
	}
	for _, sz := range bigSizes {
		payload := make([]byte, sz)
		for i := range payload {
			payload[i] = byte('a' + i%26)
			if i%97 == 0 {
				payload[i] = ' '
			}
		}
		copy(payload[sz/2:], "\x1b[A\x1b[<0;1;1M\r")
		evs := []event{g.evPaste(payload), g.evRunes([]rune{'z'})}
		want := strings.Join(expectedOf(evs, kr), " | ")
		t0 := time.Now()
		line, _, _ := implReaderLine(fullReads(concatEvents(evs)), true)
		if line != want {
			short := func(s string) string {
				if len(s) > 200 {
					return s[:120] + " … " + s[len(s)-60:]
				}
				return s
			}
			for _, prop := range []string{"C09", "C15"} { // nothing skipped / as if it had arrived in one piece
				c.addFinding(finding{Property: prop, Class: "new", What: "a large paste is not delivered as exactly one paste message (bytes lost or decoded as something else)",
					Input: fmt.Sprintf("paste of %d bytes followed by 'z', read in full 256-byte reads", sz), Expected: short(want), Observed: short(line)})
			}
			c.addFinding(finding{Property: "C10", Class: "new", What: "a large paste is not delivered as exactly one paste message",
				Input:    fmt.Sprintf("paste of %d bytes (letters, spaces, ESC[A, a mouse report and CR in the middle) followed by 'z', read in full 256-byte reads", sz),
				Expected: short(want), Observed: short(line) + fmt.Sprintf(" (%d messages, %v)", strings.Count(line, " | ")+1, time.Since(t0).Round(time.Millisecond))})
		}
	}
	// C10: short payloads, every division of payload + end marker into up to three reads
	for _, sz := range []int{0, 3, 13} {
		pre, post := g.evRunes([]rune{'a'}), g.evRunes([]rune{'x'})
		p := g.evPaste(g.randPayload(r, sz))
		evs := []event{pre, p, post}
		all := concatEvents(evs)
		head := len(pre.bytes) + 6
		body := all[head : len(all)-len(post.bytes)]
		for i := 0; i <= len(body); i++ {
			for j := i; j <= len(body); j++ {
				var chunks [][]byte
				chunks = append(chunks, all[:head])
				for _, part := range [][]byte{body[:i], body[i:j]} {
					if len(part) > 0 {
						chunks = append(chunks, part)
					}
				}
				chunks = append(chunks, append(append([]byte(nil), body[j:]...), post.bytes...))
				g.checkExpect(c, "C10", "paste delivered in pieces after the start marker", chunks, expectedOf(evs, kr))
			}
		}
	}
	// C10: every one-byte payload and every two-byte payload over the branch alphabet (the
	// characters that are keys of their own when typed: space, NUL, DEL, ESC, ...), in one read
	// and with the payload in a read of its own
	{
		pre, post := g.evRunes([]rune{'a'}), g.evRunes([]rune{'x'})
		var payloads [][]byte
		for b := 0; b < 256; b++ {
			payloads = append(payloads, []byte{byte(b)})
		}
		for _, a := range branchBytes[:18] {
			for _, b := range branchBytes[:18] {
				payloads = append(payloads, []byte{a, b})
			}
		}
		for _, pl := range payloads {
			p := g.evPaste(pl)
			evs := []event{pre, p, post}
			all := concatEvents(evs)
			g.checkExpect(c, "C10", "paste of a one- or two-byte payload", [][]byte{all}, expectedOf(evs, kr))
			head := len(pre.bytes) + 6
			g.checkExpect(c, "C10", "paste of a one- or two-byte payload", [][]byte{all[:head], pl, all[head+len(pl):]}, expectedOf(evs, kr))
		}
	}
	// random well-formed segments, read whole (short read) or as full reads
	for c.count < n*6/10 {
		evs := g.randSegment(r, r.rangeIn(1, 12))
		all := concatEvents(evs)
		if len(all) < 256 {
			g.checkExpect(c, "C08", "well-formed events read together", [][]byte{all}, expectedOf(evs, kr))
		} else if len(all)%256 != 0 {
			g.checkExpect(c, "C15", "well-formed events longer than the read buffer", fullReads(all), expectedOf(evs, kr))
		}
	}
	// long streams
	for i := 0; i < 40; i++ {
		evs := g.randSegment(r, r.rangeIn(40, 160))
		all := concatEvents(evs)
		if len(all)%256 == 0 {
			continue
		}
		g.checkExpect(c, "C15", "well-formed events longer than the read buffer", fullReads(all), expectedOf(evs, kr))
	}
	// correspondence only: arbitrary chunkings, mutated and malformed streams
	for c.count < n {
		var all []byte
		switch r.intn(3) {
		case 0:
			all = concatEvents(g.randSegment(r, r.rangeIn(1, 10)))
		case 1:
			all = mutate(r, mutate(r, concatEvents(g.randSegment(r, r.rangeIn(1, 6)))))
		case 2:
			all = malformed(r, r.rangeIn(1, 40))
		}
		var chunks [][]byte
		switch r.intn(3) {
		case 0:
			chunks = randomCuts(r, all)
		case 1:
			chunks = fullReads(all)
		case 2:
			for _, b := range all {
				chunks = append(chunks, []byte{b})
			}
		}
		if r.chance(1, 10) {
			chunks = append(chunks, nil) // a Read that returns 0, nil
		}
		eof := r.chance(1, 2)
		if len(chunks) > 0 && r.chance(1, 8) {
			// the last Read returns its bytes together with a (non-EOF) error; half of the
			// time a full buffer (whose end may look like the beginning of an event)
			last := chunks[len(chunks)-1]
			if r.chance(1, 2) {
				last = append(append([]byte(nil), last...), make([]byte, 256)...)[:256]
				for i := range last {
					if last[i] == 0 {
						last[i] = 'a' + byte(i%26)
					}
				}
				if r.chance(1, 2) {
					copy(last[254:], "\x1b[")
				}
			}
			msgs, st := implReaderX(chunks[:len(chunks)-1], false, last)
			line := strings.Join(msgs, " | ")
			if st != "ok" {
				line = st
			}
			op := "X" + strings.TrimPrefix(readerLine(append(append([][]byte(nil), chunks[:len(chunks)-1]...), last), false), "I")
			c.scope = "C09 C04"
			c.emit(op, line, "fails-with-data")
			if st == "ok" && len(last) < 256 {
				// nothing skipped: bytes that come together with the error are input like any other
				// (io.Reader: "process the n > 0 bytes returned before considering the error")
				ref, rst := implReader(append(append([][]byte(nil), chunks[:len(chunks)-1]...), last), false)
				if rst == "ok" && strings.Join(ref, " | ") != line {
					c.addFinding(finding{Property: "C09", Class: "new", What: "bytes that a Read returned together with its error were not decoded (input skipped)", Input: op,
						Expected: strings.Join(ref, " | "), Observed: line})
				}
			}
			if st != "ok" {
				c.addFinding(finding{Property: "C09", Class: "new", What: "the reader does not stop with the underlying reader's error (a Read returned data together with the error): " + st, Input: op, Observed: line})
				c.addFinding(finding{Property: "C04", Class: "new", What: "an input read error is not reported (a Read returned data together with the error): " + st, Input: op, Observed: line})
			}
			continue
		}
		if r.chance(1, 8) {
			// cancellation: the context is cancelled after `budget` messages were taken; the
			// reader must have sent exactly the first `budget` messages and stop at once
			full, st0 := implReader(chunks, eof)
			if st0 == "ok" {
				budget := r.intn(len(full) + 2)
				msgs, st, cancelled := implReaderC(chunks, eof, nil, budget)
				line := strings.Join(msgs, " | ") + fmt.Sprintf(" # cancelled=%t", cancelled)
				if st != "ok" {
					line = st
				}
				op := fmt.Sprintf("C%d", budget) + readerLine(chunks, eof)
				c.scope = "C09 C04"
				c.emit(op, line, "cancelled")
				want := full
				if budget < len(full) {
					want = full[:budget]
				}
				if st != "ok" || strings.Join(msgs, " | ") != strings.Join(want, " | ") || cancelled != (budget < len(full)) {
					c.addFinding(finding{Property: "C09", Class: "new", What: "cancellation does not simply cut the message stream (messages after the cancellation, reordered or missing ones, or the reader did not stop with the context's error)",
						Input: op, Expected: strings.Join(want, " | ") + fmt.Sprintf(" # cancelled=%t", budget < len(full)), Observed: line})
				}
				continue
			}
		}
		line, _, st := implReaderLine(chunks, eof)
		c.scope = "C09" // arbitrary bytes under arbitrary chunkings: totality only
		c.emit(readerLine(chunks, eof), line, "random")
		if st != "ok" {
			c.addFinding(finding{Property: "C09", Class: "new", What: "reader " + st, Input: readerLine(chunks, eof), Observed: line})
		}
	}
	greedyReaderStreams(c, g, r)
	twoReadersAtOnce(c, g, r, 6)
	drainAliasFindings(c)
}

// greedyReaderStreams: long streams (5 to 10 KB of well-formed events) served by a reader that fills
// WHATEVER buffer it is handed (a file or pipe with everything already pending) - not by a script of
// 256-byte chunks. Whatever size of buffer the library reads into, the messages are the stream's
// events (C15: the same as if the whole input had been decoded at once; C09: nothing lost).
func greedyReaderStreams(c *corrOut, g *inputGen, r *rng) {
	kr := g.doc.KeyRunes
	for rep := 0; rep < 6; rep++ {
		var evs []event
		total := 0
		for tries := 0; total < 5000+rep*1000 && tries < 400; tries++ {
			// (no care about ambiguous boundaries: the reference below is the same BYTES in 256-byte reads)
			seg := g.randSegment(r, r.rangeIn(20, 60))
			evs = append(evs, seg...)
			total += len(concatEvents(seg))
		}
		// merge adjacent rune runs the way expectedOf does for a single segment: rebuild from the bytes
		all := concatEvents(evs)
		ch := make(chan tea.Msg)
		done := make(chan struct{})
		ctx, cancel := context.WithCancel(context.Background())
		go func() {
			defer close(done)
			defer func() { recover() }()
			tea.VerifReadAnsiInputs(ctx, ch, bytes.NewReader(all))
		}()
		var got []string
		timeout := time.After(10 * time.Second)
	recv:
		for {
			select {
			case m := <-ch:
				got = append(got, tea.VerifDescribeMsg(m))
			case <-done:
				break recv
			case <-timeout:
				got = append(got, "stall")
				break recv
			}
		}
		cancel()
		// the reference: the same bytes through the scripted reader in full 256-byte reads (what the
		// library's own buffer size makes of them), which the model and the expectation oracle cover
		ref, _ := implReader(fullReads(all), true)
		_ = kr
		if strings.Join(got, " | ") != strings.Join(ref, " | ") {
			i := 0
			for i < len(got) && i < len(ref) && got[i] == ref[i] {
				i++
			}
			exp, obs := "(end)", "(end)"
			if i < len(ref) {
				exp = ref[i]
			}
			if i < len(got) {
				obs = got[i]
			}
			for _, prop := range []string{"C15", "C09"} {
				c.addFinding(finding{Property: prop, Class: "new", What: "a long stream read through a reader that fills any buffer it is given does not decode like the same stream in 256-byte reads (an event was split, dropped or turned into spurious keys)",
					Input: fmt.Sprintf("%d bytes of well-formed events, everything pending at once", len(all)), Expected: fmt.Sprintf("message %d: %s", i, exp), Observed: obs})
			}
		}
	}
}

func drainAliasFindings(c *corrOut) {
	for _, f := range aliasFindings {
		for _, prop := range []string{"C08", "C09", "C10", "C11", "C15"} {
			g := f
			g.Property = prop
			c.addFinding(g)
		}
	}
	aliasFindings = nil
	for _, f := range pasteStringFindings {
		f.Property = "C10"
		c.addFinding(f)
	}
	pasteStringFindings = nil
}

func cmdCorr(args []string) int {
	// last resort, as for the scenario sets: a stream that does not finish says where it is stuck
	go func() {
		limit := 10 * time.Minute
		if len(args) > 4 && args[4] == "thorough" {
			limit = 2 * time.Hour
		}
		time.Sleep(limit)
		fmt.Fprintln(os.Stderr, "harness: correspondence stream did not finish within", limit)
		fmt.Fprintln(os.Stderr, goroutineDump())
		os.Exit(3)
	}()
	if len(args) < 4 {
		fmt.Println("usage: harness corr <stream> <seed> <n> <dir> [thorough]")
		return 2
	}
	stream := args[0]
	var seed uint64
	var n int
	fmt.Sscanf(args[1], "%d", &seed)
	fmt.Sscanf(args[2], "%d", &n)
	dir := args[3]
	thorough := len(args) > 4 && args[4] == "thorough"
	c, err := newCorrOut(dir, stream)
	if err != nil {
		fmt.Println(err)
		return 1
	}
	r := newRng(seed)
	fn, ok := streams[stream]
	if !ok {
		fmt.Println("unknown stream", stream)
		return 2
	}
	extra := fn(c, r, n, thorough)
	if err := c.close(extra); err != nil {
		fmt.Println(err)
		return 1
	}
	return 0
}

var streams = map[string]func(c *corrOut, r *rng, n int, thorough bool) map[string]interface{}{}

func init() {
	withGen := func(f func(c *corrOut, g *inputGen, r *rng, n int, thorough bool)) func(c *corrOut, r *rng, n int, thorough bool) map[string]interface{} {
		return func(c *corrOut, r *rng, n int, thorough bool) map[string]interface{} {
			doc, err := loadDoc()
			if err != nil {
				panic(err)
			}
			f(c, newInputGen(doc), r, n, thorough)
			return nil
		}
	}
	streams["detect"] = withGen(streamDetect)
	streams["reader"] = withGen(streamReader)
}

// csiContentStable: a message, once delivered, says what it said when it was delivered. The
// unknown-CSI message carries the bytes of the sequence: they must still be those bytes after the
// reader has gone on reading (Update looks at the message while the reader already works on the
// next input).
func csiContentStable(c *corrOut) {
	seq := []byte("\x1b[12;3$y")
	next := []byte("ZZZZZZZZZZZZ")
	rd := &scriptedReader{chunks: [][]byte{seq, next}, final: io.EOF}
	ch := make(chan tea.Msg)
	ctx, cancel := context.WithCancel(context.Background())
	defer cancel()
	go func() { tea.VerifReadAnsiInputs(ctx, ch, rd) }()
	var first tea.Msg
	select {
	case first = <-ch:
	case <-time.After(3 * time.Second):
		return
	}
	at := tea.VerifDescribeMsg(first)
	// the reader reads on: the next message arrives (the buffer has been refilled)
	select {
	case <-ch:
	case <-time.After(3 * time.Second):
	}
	later := tea.VerifDescribeMsg(first)
	want := evUnknownCSI([]byte("12;3"), []byte("$"), 'y').want
	if at != want || later != want {
		c.addFinding(finding{Property: "C09", Class: "new", What: "the content of a delivered message changed after delivery (it does not account for the bytes it consumed any more)",
			Input: "reads: " + hexOf(seq) + " then " + hexOf(next), Expected: want, Observed: "at delivery: " + at + "; after the next read: " + later})
	}
}

// twoReadersAtOnce: two input readers in one process (two programs), each fed its own long stream
// in full 256-byte reads (events straddling the boundaries, pastes, mouse reports); reader A's
// receiver is slow, B's is fast, and the scheduler gets every chance to switch between them. Each
// reader's messages are exactly its own stream's events: nothing of what one reader holds back or
// decodes is shared with the other (C09, C11, C15).
func twoReadersAtOnce(c *corrOut, g *inputGen, r *rng, reps int) {
	kr := g.doc.KeyRunes
	runOne := func(chunks [][]byte, slow bool) []string {
		cp := make([][]byte, len(chunks))
		copy(cp, chunks)
		rd := &scriptedReader{chunks: cp, final: io.EOF}
		ch := make(chan tea.Msg)
		done := make(chan struct{})
		ctx, cancel := context.WithCancel(context.Background())
		defer cancel()
		go func() {
			defer close(done)
			defer func() { recover() }()
			tea.VerifReadAnsiInputs(ctx, ch, rd)
		}()
		var msgs []string
		timeout := time.After(10 * time.Second)
		for {
			select {
			case m := <-ch:
				msgs = append(msgs, tea.VerifDescribeMsg(m))
				if slow {
					runtime.Gosched()
					time.Sleep(50 * time.Microsecond)
				}
			case <-done:
				return msgs
			case <-timeout:
				return append(msgs, "stall")
			}
		}
	}
	for rep := 0; rep < reps; rep++ {
		procs := 0
		if rep%2 == 0 {
			procs = runtime.GOMAXPROCS(1) // one thread: the two readers switch exactly where they block
		}
		mk := func(letter rune, rounds int) ([]event, [][]byte) {
			// padding, then an event across the boundary, several times; then a paste across a boundary
			var evs []event
			for k := 0; k < rounds; k++ {
				pad := make([]rune, 250+r.intn(5))
				for i := range pad {
					pad[i] = letter
				}
				evs = append(evs, g.evRunes(pad))
				switch (k + int(letter)) % 3 {
				case 0:
					evs = append(evs, evSGR(35, 100+int(letter), 50+k, false), g.evDocKey(0, false))
				case 1:
					evs = append(evs, g.evDocKey(len(g.doc.Sequences)-1, false), evSGR(0, 49+k, 59, true))
				default:
					evs = append(evs, evUnknownCSI([]byte("12;3"), []byte("$"), 'y'), evX10(32, 40, 50))
				}
			}
			payload := make([]byte, 300)
			for i := range payload {
				payload[i] = byte(letter)
			}
			evs = append(evs, g.evPaste(payload), evCtrl('\r', false))
			return evs, fullReads(concatEvents(evs))
		}
		// B's stream is long: it keeps meeting boundaries for as long as the slow reader A lives
		evsA, chA := mk('a', 3)
		evsB, chB := mk('Z', 60)
		var gotA, gotB []string
		var wg sync.WaitGroup
		wg.Add(2)
		go func() { defer wg.Done(); gotA = runOne(chA, true) }()
		go func() { defer wg.Done(); gotB = runOne(chB, false) }()
		wg.Wait()
		if procs != 0 {
			runtime.GOMAXPROCS(procs)
		}
		for _, x := range []struct {
			name string
			got  []string
			evs  []event
		}{{"A (slow receiver)", gotA, evsA}, {"B", gotB, evsB}} {
			want := strings.Join(expectedOf(x.evs, kr), " | ")
			if got := strings.Join(x.got, " | "); got != want {
				short := func(s string) string {
					if len(s) > 200 {
						return s[:120] + " … " + s[len(s)-60:]
					}
					return s
				}
				for _, prop := range []string{"C09", "C11", "C15"} {
					c.addFinding(finding{Property: prop, Class: "new", What: "with two input readers in one process a reader's messages are not its own stream's events (something is shared between readers)",
						Input: "reader " + x.name + ": three runs of 250 letters each followed by two events across the 256-byte boundary, then a 300-byte paste; the other reader gets the same shape with other letters", Expected: short(want), Observed: short(got)})
				}
			}
		}
	}
}
