package main

import (
	"bytes"
	"fmt"
	"strings"
	"unicode/utf8"
)

// An event is one well-formed input event together with the message it MUST
// decode to, computed here from the frozen documented table and the xterm
// rules at construction time -- never by running any decoder.
type event struct {
	kind  string
	bytes []byte
	want  string // canonical description (same format as tea.VerifDescribeMsg)
	runes []rune // for plain rune runs (mergeable)
}

func descKey(typ int, alt, paste bool, runes []rune) string {
	rs := make([]string, len(runes))
	for i, r := range runes {
		rs[i] = fmt.Sprintf("%d", r)
	}
	return fmt.Sprintf("key type=%d alt=%t paste=%t runes=[%s]", typ, alt, paste, strings.Join(rs, ","))
}

// ---- independent statement of the xterm mouse encoding -------------------

type mouseWant struct {
	x, y                   int
	shift, alt, ctrl       bool
	action, button, legacy int
}

// xtermDecode follows xterm ctlseqs "Extended coordinates"/"Normal tracking":
// low two bits = button 0..2 (3 = release in X10), +4 shift, +8 meta, +16 ctrl,
// +32 motion, +64 wheel buttons 4..7, +128 buttons 8..11.
func xtermDecode(code int, sgr bool, sgrRelease bool) (action, button int) {
	low := code & 3
	switch {
	case code&128 != 0:
		button = 8 + low
	case code&64 != 0:
		button = 4 + low
	default:
		if low == 3 {
			button = 0
			action = 1 // release
		} else {
			button = 1 + low
		}
	}
	wheel := button >= 4 && button <= 7
	if code&32 != 0 && !wheel {
		action = 2 // motion
	}
	if sgr && sgrRelease && action != 2 && !wheel {
		action = 1
	}
	return
}

// legacyType is the documented mapping of the deprecated Type field.
func legacyType(button, action int, sgrReleaseApplied bool) int {
	if sgrReleaseApplied {
		return 4 // MouseRelease
	}
	press := action == 0
	switch {
	case button == 1 && press:
		return 1
	case button == 2 && press:
		return 3
	case button == 3 && press:
		return 2
	case button == 0 && action == 1:
		return 4
	case button == 4 && press:
		return 5
	case button == 5 && press:
		return 6
	case button == 6 && press:
		return 7
	case button == 7 && press:
		return 8
	case button == 8 && press:
		return 9
	case button == 9 && press:
		return 10
	case action == 2:
		switch button {
		case 1:
			return 1
		case 2:
			return 3
		case 3:
			return 2
		case 8:
			return 9
		case 9:
			return 10
		}
		return 11
	}
	return 0
}

func descMouse(code, x, y int, sgr, sgrRelease bool) string {
	action, button := xtermDecode(code, sgr, false)
	wheel := button >= 4 && button <= 7
	applied := sgr && sgrRelease && action != 2 && !wheel
	if applied {
		action = 1
	}
	lt := legacyType(button, action, applied)
	return fmt.Sprintf("mouse x=%d y=%d shift=%t alt=%t ctrl=%t action=%d button=%d type=%d",
		x, y, code&4 != 0, code&8 != 0, code&16 != 0, action, button, lt)
}

func evSGR(code, x, y int, release bool) event {
	fin := byte('M')
	if release {
		fin = 'm'
	}
	b := []byte(fmt.Sprintf("\x1b[<%d;%d;%d%c", code, x, y, fin))
	return event{kind: "sgr", bytes: b, want: descMouse(code, x-1, y-1, true, release)}
}

// evSGRRaw: an SGR report with its parameters spelled as given (leading zeros, huge numbers)
func evSGRRaw(code, x, y string, fin byte, c, xv, yv int) event {
	b := []byte("\x1b[<" + code + ";" + x + ";" + y + string(fin))
	return event{kind: "sgr", bytes: b, want: descMouse(c, xv-1, yv-1, true, fin == 'm')}
}

func evX10(cb, cx, cy byte) event {
	b := []byte{0x1b, '[', 'M', cb, cx, cy}
	return event{kind: "x10", bytes: b, want: descMouse(int(cb)-32, int(cx)-33, int(cy)-33, false, false)}
}

// ---- keys ------------------------------------------------------------------

type inputGen struct {
	doc *docTable
	// ext is the documented closure of the table: used only to decide whether
	// a boundary between two events is ambiguous (a longer documented sequence
	// would start there), never to compute an expectation.
	ext map[string]bool
}

func newInputGen(doc *docTable) *inputGen {
	g := &inputGen{doc: doc, ext: map[string]bool{}}
	for _, e := range doc.Sequences {
		s := string(e.bytes())
		g.ext[s] = true
		if !e.Alt {
			g.ext["\x1b"+s] = true
		}
	}
	for i := 1; i <= 127; i++ {
		if i == 27 || (i > 31 && i < 127) {
			continue
		}
		g.ext[string([]byte{byte(i)})] = true
		g.ext[string([]byte{0x1b, byte(i)})] = true
	}
	g.ext[" "] = true
	g.ext["\x1b "] = true
	g.ext["\x1b\x1b"] = true
	return g
}

func (g *inputGen) evDocKey(i int, alt bool) event {
	e := g.doc.Sequences[i]
	b := e.bytes()
	isAlt := e.Alt
	if alt && !e.Alt {
		b = append([]byte{0x1b}, b...)
		isAlt = true
	}
	rs := make([]rune, len(e.Runes))
	for j, r := range e.Runes {
		rs[j] = rune(r)
	}
	return event{kind: "key", bytes: b, want: descKey(e.Type, isAlt, false, rs)}
}

func evCtrl(c byte, alt bool) event {
	b := []byte{c}
	if alt {
		b = []byte{0x1b, c}
	}
	return event{kind: "ctrl", bytes: b, want: descKey(int(c), alt, false, nil)}
}

func (g *inputGen) evSpace(alt bool) event {
	b := []byte{' '}
	if alt {
		b = []byte{0x1b, ' '}
	}
	return event{kind: "space", bytes: b, want: descKey(g.doc.KeySpace, alt, false, []rune{' '})}
}

func evNUL(alt bool) event {
	b := []byte{0}
	if alt {
		b = []byte{0x1b, 0}
	}
	return event{kind: "nul", bytes: b, want: descKey(0, alt, false, nil)}
}

func (g *inputGen) evAltEsc() event {
	return event{kind: "altesc", bytes: []byte{0x1b, 0x1b}, want: descKey(g.doc.KeyEscape, true, false, nil)}
}

func (g *inputGen) evRunes(rs []rune) event {
	return event{kind: "runes", bytes: []byte(string(rs)), want: descKey(g.doc.KeyRunes, false, false, rs), runes: rs}
}

func (g *inputGen) evAltRune(r rune) event {
	return event{kind: "altrune", bytes: append([]byte{0x1b}, []byte(string(r))...), want: descKey(g.doc.KeyRunes, true, false, []rune{r})}
}

func (g *inputGen) evPaste(payload []byte) event {
	var rs []rune
	for p := payload; len(p) > 0; {
		r, w := utf8.DecodeRune(p)
		if r != utf8.RuneError {
			rs = append(rs, r)
		}
		p = p[w:]
	}
	b := append([]byte("\x1b[200~"), payload...)
	b = append(b, []byte("\x1b[201~")...)
	return event{kind: "paste", bytes: b, want: descKey(g.doc.KeyRunes, false, true, rs)}
}

func evUnknownCSI(params, inter []byte, final byte) event {
	b := append([]byte{0x1b, '['}, params...)
	b = append(b, inter...)
	b = append(b, final)
	bs := make([]string, len(b))
	for i, c := range b {
		bs[i] = fmt.Sprintf("%d", c)
	}
	return event{kind: "csi", bytes: b, want: "unknowncsi [" + strings.Join(bs, ",") + "]"}
}

// ---- random structured events ---------------------------------------------

var sampleRunes = []rune{'a', 'z', 'A', 'Z', '0', '9', '~', '!', '[', 'O', 'M', '<', ';', 'm', 'I',
	0x80, 0xA0, 0xE9, 0x7FF, 0x800, 0x3042, 0x4E16, 0xD7FF, 0xE000, 0xFFFC, 0xFFFE, 0x10000, 0x1F600, 0x10FFFF}

func (g *inputGen) randRune(r *rng) rune {
	if r.chance(1, 2) {
		return sampleRunes[r.intn(len(sampleRunes))]
	}
	for {
		var c rune
		switch r.intn(4) {
		case 0:
			c = rune(r.rangeIn(0x21, 0x7e))
		case 1:
			c = rune(r.rangeIn(0x80, 0x7ff))
		case 2:
			c = rune(r.rangeIn(0x800, 0xffff))
		default:
			c = rune(r.rangeIn(0x10000, 0x10ffff))
		}
		if c >= 0xD800 && c <= 0xDFFF || c == 0xFFFD {
			continue
		}
		return c
	}
}

func (g *inputGen) randCSI(r *rng) (event, bool) {
	np := r.intn(5)
	params := make([]byte, np)
	for i := range params {
		params[i] = byte(r.rangeIn(0x30, 0x3f))
	}
	ni := r.intn(3)
	inter := make([]byte, ni)
	for i := range inter {
		inter[i] = byte(r.rangeIn(0x20, 0x2f))
	}
	final := byte(r.rangeIn(0x40, 0x7e))
	ev := evUnknownCSI(params, inter, final)
	// must not be (or start with) a documented sequence or a mouse/paste/focus introducer
	s := string(ev.bytes)
	for k := range g.ext {
		if strings.HasPrefix(s, k) {
			return ev, false
		}
	}
	if strings.HasPrefix(s, "\x1b[M") || strings.HasPrefix(s, "\x1b[<") ||
		s == "\x1b[200~" || s == "\x1b[201~" || s == "\x1b[I" || s == "\x1b[O" {
		return ev, false
	}
	return ev, true
}

func (g *inputGen) randPayload(r *rng, n int) []byte {
	var b []byte
	for len(b) < n {
		switch r.intn(10) {
		case 0:
			b = append(b, 0x1b, '[', 'A')
		case 1:
			b = append(b, []byte("\x1b[<0;1;1M")...)
		case 2:
			b = append(b, byte(r.intn(256)))
		case 3:
			b = append(b, 0, '\r', '\n', '\t', 0x7f)
		case 4:
			b = append(b, []byte("\x1b[200~")...)
		case 5:
			b = append(b, []byte("\x1b[201")...) // almost an end marker
		default:
			b = append(b, []byte(string(g.randRune(r)))...)
		}
	}
	b = b[:n]
	// a payload must not contain the end marker
	for {
		i := bytes.Index(b, []byte("\x1b[201~"))
		if i < 0 {
			break
		}
		b[i+5] = '!'
	}
	return b
}

func (g *inputGen) randEvent(r *rng) event {
	for {
		switch r.intn(14) {
		case 0, 1, 2:
			return g.evDocKey(r.intn(len(g.doc.Sequences)), r.chance(1, 3))
		case 3:
			c := byte(r.rangeIn(1, 31))
			if c == 27 {
				c = 127
			}
			return evCtrl(c, r.chance(1, 3))
		case 4:
			return g.evSpace(r.chance(1, 3))
		case 5:
			return evNUL(r.chance(1, 3))
		case 6:
			n := r.rangeIn(1, 6)
			rs := make([]rune, n)
			for i := range rs {
				rs[i] = g.randRune(r)
			}
			return g.evRunes(rs)
		case 7:
			return g.evAltRune(g.randRune(r))
		case 8:
			coords := []int{1, 2, 33, 95, 222, 223, 224, 1000, 9999}
			return evSGR(r.intn(256), coords[r.intn(len(coords))], coords[r.intn(len(coords))], r.chance(1, 2))
		case 9:
			return evX10(byte(r.rangeIn(32, 255)), byte(r.rangeIn(33, 255)), byte(r.rangeIn(33, 255)))
		case 10:
			sizes := []int{0, 1, 2, 5, 17, 40}
			return g.evPaste(g.randPayload(r, sizes[r.intn(len(sizes))]))
		case 11:
			if ev, ok := g.randCSI(r); ok {
				return ev
			}
		case 12:
			return g.evAltEsc()
		case 13:
			return g.evRunes([]rune{g.randRune(r)})
		}
	}
}

// ambiguousBoundary reports whether putting `next` right after event `e`
// (inside one read) could legitimately decode differently from e alone:
// a longer documented sequence, a mouse/paste introducer, or a rune merge.
func (g *inputGen) ambiguousBoundary(e event, rest []byte) bool {
	if len(rest) == 0 {
		return false
	}
	whole := string(e.bytes) + string(rest)
	switch e.kind {
	case "key", "ctrl", "space", "altesc", "nul", "altrune":
		// "the longest known sequence always wins": only ambiguous if a longer
		// documented sequence starts here.
		for k := range g.ext {
			if len(k) > len(e.bytes) && strings.HasPrefix(whole, k) {
				return true
			}
		}
		if e.kind == "altrune" || e.kind == "altesc" {
			// ESC [ ... may turn into a CSI / mouse / paste introducer, ESC ESC [ too
			if strings.HasPrefix(whole, "\x1b[") || strings.HasPrefix(whole, "\x1b\x1b") && e.kind == "altrune" {
				return true
			}
		}
	}
	return false
}

// expectedOf merges adjacent plain rune runs (they arrive as one message).
func expectedOf(evs []event, docKeyRunes int) []string {
	var out []string
	var run []rune
	flush := func() {
		if run != nil {
			out = append(out, descKey(docKeyRunes, false, false, run))
			run = nil
		}
	}
	for _, e := range evs {
		if e.kind == "runes" {
			run = append(run, e.runes...)
			continue
		}
		flush()
		out = append(out, e.want)
	}
	flush()
	return out
}

// randSegment builds a list of events that can be read together unambiguously.
func (g *inputGen) randSegment(r *rng, n int) []event {
	var evs []event
	stuck := 0
	for len(evs) < n && stuck < 50 {
		e := g.randEvent(r)
		if len(evs) > 0 {
			prev := evs[len(evs)-1]
			if g.ambiguousBoundary(prev, e.bytes) {
				stuck++ // e.g. alt+[ can be followed by nothing: the segment ends here
				continue
			}
			// an alt+rune followed by runes is fine (alt takes one rune); but a
			// rune run followed by alt... also fine. Nothing else to check.
		}
		evs = append(evs, e)
	}
	return evs
}

func concatEvents(evs []event) []byte {
	var b []byte
	for _, e := range evs {
		b = append(b, e.bytes...)
	}
	return b
}
