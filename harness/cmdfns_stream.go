package main

// `cmdfns` stream: the pure command constructors of commands.go on identifiable
// commands. "B <tok>..." = Batch(cmds...), "S <tok>..." = Sequence(cmds...);
// tok = n (a nil command) or a command id. Answers: what kind of command came
// back and which of the given commands it holds, in order.

import (
	"fmt"
	"strings"

	tea "github.com/charmbracelet/bubbletea"
)

func cmdfnsLine(kind string, toks []string) (out string) {
	defer func() {
		if v := recover(); v != nil {
			out = panicKind(v)
		}
	}()
	cmds := make([]tea.Cmd, len(toks))
	for i, t := range toks {
		if t != "n" {
			id := t
			cmds[i] = func() tea.Msg { return cmdMsg{id} }
		}
	}
	idOf := func(c tea.Cmd) string {
		if c == nil {
			return "n"
		}
		if m, ok := c().(cmdMsg); ok {
			return m.ID
		}
		return "?"
	}
	var res tea.Cmd
	if kind == "B" {
		res = tea.Batch(cmds...)
	} else {
		res = tea.Sequence(cmds...)
	}
	if res == nil {
		return "nil"
	}
	switch m := res().(type) {
	case cmdMsg:
		return "cmd " + m.ID
	case tea.BatchMsg:
		ids := make([]string, len(m))
		for i, c := range m {
			ids[i] = idOf(c)
		}
		return strings.TrimSpace("batch " + strings.Join(ids, " "))
	default:
		if cs, ok := tea.VerifSequenceCmds(m); ok {
			ids := make([]string, len(cs))
			for i, c := range cs {
				ids[i] = idOf(c)
			}
			return strings.TrimSpace("seq " + strings.Join(ids, " "))
		}
		return "other " + tea.VerifDescribeMsg(m)
	}
}

func streamCmdFns(c *corrOut, r *rng, n int, thorough bool) map[string]interface{} {
	emit := func(kind string, toks []string) {
		out := cmdfnsLine(kind, toks)
		c.emit(strings.TrimSpace(kind+" "+strings.Join(toks, " ")), out, kind+fmt.Sprint(len(toks)))
		if kind == "B" {
			// C02, directly: nil commands are dropped, none -> nil, one -> the command itself
			var want []string
			for _, t := range toks {
				if t != "n" {
					want = append(want, t)
				}
			}
			exp := "nil"
			switch {
			case len(want) == 1:
				exp = "cmd " + want[0]
			case len(want) > 1:
				exp = "batch " + strings.Join(want, " ")
			}
			if out != exp {
				c.addFinding(finding{Property: "C02", Class: "new", What: "Batch does not return nil / the single command / the non-nil commands in order", Input: "Batch " + strings.Join(toks, " "), Expected: exp, Observed: out})
			}
		} else if exp := strings.TrimSpace("seq " + strings.Join(toks, " ")); out != exp {
			c.addFinding(finding{Property: "C03", Class: "new", What: "Sequence does not carry exactly the given commands (nil entries in place) in order", Input: "Sequence " + strings.Join(toks, " "), Expected: exp, Observed: out})
		}
	}
	// exhaustive: every nil pattern up to length 5
	for l := 0; l <= 5; l++ {
		for mask := 0; mask < 1<<l; mask++ {
			toks := make([]string, l)
			for i := range toks {
				if mask>>i&1 == 1 {
					toks[i] = "n"
				} else {
					toks[i] = fmt.Sprint(i + 1)
				}
			}
			emit("B", toks)
			emit("S", toks)
		}
	}
	for c.count < n {
		l := r.intn(40)
		toks := make([]string, l)
		for i := range toks {
			if r.chance(1, 3) {
				toks[i] = "n"
			} else {
				toks[i] = fmt.Sprint(r.intn(1000))
			}
		}
		emit([]string{"B", "S"}[r.intn(2)], toks)
	}
	return nil
}

func init() { streams["cmdfns"] = streamCmdFns }
