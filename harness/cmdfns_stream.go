package main

// `cmdfns` stream: the pure command constructors of commands.go on identifiable
// commands. "B <tok>..." = Batch(cmds...), "S <tok>..." = Sequence(cmds...);
// tok = n (a nil command) or a command id. Answers: what kind of command came
// back and which of the given commands it holds, in order.

import (
	"fmt"
	"strings"

	tea "github.com/charmbracelet/bubbletea"
)

func cmdfnsLine(kind string, toks []string) (out string) {
	defer func() {
		if v := recover(); v != nil {
			out = panicKind(v)
		}
	}()
	cmds := make([]tea.Cmd, len(toks))
	for i, t := range toks {
		if t != "n" {
			id := t
			cmds[i] = func() tea.Msg { return cmdMsg{id} }
		}
	}
	idOf := func(c tea.Cmd) string {
		if c == nil {
			return "n"
		}
		if m, ok := c().(cmdMsg); ok {
			return m.ID
		}
		return "?"
	}
	var res tea.Cmd
	if kind == "B" {
		res = tea.Batch(cmds...)
	} else {
		res = tea.Sequence(cmds...)
	}
	if res == nil {
		return "nil"
	}
	switch m := res().(type) {
	case cmdMsg:
		return "cmd " + m.ID
	case tea.BatchMsg:
		ids := make([]string, len(m))
		for i, c := range m {
			ids[i] = idOf(c)
		}
		return strings.TrimSpace("batch " + strings.Join(ids, " "))
	default:
		if cs, ok := tea.VerifSequenceCmds(m); ok {
			ids := make([]string, len(cs))
			for i, c := range cs {
				ids[i] = idOf(c)
			}
			return strings.TrimSpace("seq " + strings.Join(ids, " "))
		}
		return "other " + tea.VerifDescribeMsg(m)
	}
}

// seqlyLine: "Q tok...", tok = n (nil command) | z<k> (command k, result nil) | <k> (command k, result message k):
// what the command `Sequentially(cmds...)` returns and which of the given commands it called, in order.
func seqlyLine(toks []string) (out string) {
	defer func() {
		if v := recover(); v != nil {
			out = panicKind(v)
		}
	}()
	var ran []string
	cmds := make([]tea.Cmd, len(toks))
	for i, t := range toks {
		if t == "n" {
			continue
		}
		id, nilres := t, false
		if strings.HasPrefix(t, "z") {
			id, nilres = t[1:], true
		}
		cmds[i] = func() tea.Msg {
			ran = append(ran, id)
			if nilres {
				return nil
			}
			return cmdMsg{id}
		}
	}
	res := tea.Sequentially(cmds...) //nolint:staticcheck // deprecated, still public
	if res == nil {
		return "nilcmd"
	}
	if len(ran) != 0 {
		return "called-at-construction " + strings.Join(ran, " ")
	}
	r := "nil"
	switch m := res().(type) {
	case nil:
	case cmdMsg:
		r = m.ID
	default:
		r = "other:" + tea.VerifDescribeMsg(m)
	}
	return strings.TrimSpace("res " + r + " ran " + strings.Join(ran, " "))
}

func streamCmdFns(c *corrOut, r *rng, n int, thorough bool) map[string]interface{} {
	emit := func(kind string, toks []string) {
		out := cmdfnsLine(kind, toks)
		c.emit(strings.TrimSpace(kind+" "+strings.Join(toks, " ")), out, kind+fmt.Sprint(len(toks)))
		if kind == "B" {
			// C02, directly: nil commands are dropped, none -> nil, one -> the command itself
			var want []string
			for _, t := range toks {
				if t != "n" {
					want = append(want, t)
				}
			}
			exp := "nil"
			switch {
			case len(want) == 1:
				exp = "cmd " + want[0]
			case len(want) > 1:
				exp = "batch " + strings.Join(want, " ")
			}
			if out != exp {
				c.addFinding(finding{Property: "C02", Class: "new", What: "Batch does not return nil / the single command / the non-nil commands in order", Input: "Batch " + strings.Join(toks, " "), Expected: exp, Observed: out})
			}
		} else if exp := strings.TrimSpace("seq " + strings.Join(toks, " ")); out != exp {
			c.addFinding(finding{Property: "C03", Class: "new", What: "Sequence does not carry exactly the given commands (nil entries in place) in order", Input: "Sequence " + strings.Join(toks, " "), Expected: exp, Observed: out})
		}
	}
	// exhaustive: every nil pattern up to length 5
	for l := 0; l <= 5; l++ {
		for mask := 0; mask < 1<<l; mask++ {
			toks := make([]string, l)
			for i := range toks {
				if mask>>i&1 == 1 {
					toks[i] = "n"
				} else {
					toks[i] = fmt.Sprint(i + 1)
				}
			}
			emit("B", toks)
			emit("S", toks)
		}
	}
	emitQ := func(toks []string) {
		out := seqlyLine(toks)
		c.emit(strings.TrimSpace("Q "+strings.Join(toks, " ")), out, "Q"+fmt.Sprint(len(toks)))
		// C02, directly: nil commands skipped, nil results skipped, the first non-nil result is the answer,
		// nothing after it is called
		exp, ran := "nil", []string{}
		for _, t := range toks {
			if t == "n" {
				continue
			}
			if strings.HasPrefix(t, "z") {
				ran = append(ran, t[1:])
				continue
			}
			ran = append(ran, t)
			exp = t
			break
		}
		want := strings.TrimSpace("res " + exp + " ran " + strings.Join(ran, " "))
		if out != want {
			c.addFinding(finding{Property: "C02", Class: "new", What: "Sequentially does not skip nil commands / nil results, or calls a command after the first result", Input: "Sequentially " + strings.Join(toks, " "), Expected: want, Observed: out})
		}
	}
	for l := 0; l <= 4; l++ {
		total := 1
		for i := 0; i < l; i++ {
			total *= 3
		}
		for code := 0; code < total; code++ {
			toks := make([]string, l)
			x := code
			for i := range toks {
				toks[i] = []string{"n", "z" + fmt.Sprint(i+1), fmt.Sprint(i + 1)}[x%3]
				x /= 3
			}
			emitQ(toks)
		}
	}
	for c.count < n {
		if r.chance(1, 4) {
			l := r.intn(30)
			toks := make([]string, l)
			for i := range toks {
				switch r.intn(4) {
				case 0:
					toks[i] = "n"
				case 1:
					toks[i] = fmt.Sprint(r.intn(1000))
				default:
					toks[i] = "z" + fmt.Sprint(r.intn(1000))
				}
			}
			emitQ(toks)
			continue
		}
		l := r.intn(40)
		toks := make([]string, l)
		for i := range toks {
			if r.chance(1, 3) {
				toks[i] = "n"
			} else {
				toks[i] = fmt.Sprint(r.intn(1000))
			}
		}
		emit([]string{"B", "S"}[r.intn(2)], toks)
	}
	return nil
}

func init() { streams["cmdfns"] = streamCmdFns }
