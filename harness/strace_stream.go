package main

// The `strace` stream: HISTORIES of real sequences checked against the Sequence LTS.
//
// A real program runs tea.Sequence(...) over a random list of elements (nil commands, plain
// commands, nil results, batches built with tea.Batch, hand-built BatchMsg values with nil entries)
// under unrelated traffic. The recording model logs, in one total order, the start of every command
// of the sequence and every filter call / callback of the event loop. The log from the moment the loop
// handles the sequence message is turned into observations (see Tea/Driver/STrace.lean):
//
//	sp<j>      cmd-start of the plain command that is element j
//	fr<j>.<p>  cmd-start of entry p of the BatchMsg that element j returned
//	ls<j>.<p>  the loop's filter-enter of that message (the first thing it does with a message it took)
//	ln         filter-enter of a nil message (a nil result of the sequence)
//	lo         filter-enter of anything else (the unrelated traffic)
//	id         the last log entry of an episode of the loop (it goes back to its select afterwards)
//
// The Lean driver decides whether the product of the Sequence LTS with the loop's books has a run with
// exactly that observable history (soundness of the checker: C03_trace_checker_sound). The
// implementation side of the stream says `accepted` for every line: whatever the real code did IS a
// behaviour of the code, so a rejection means the code left the model.
//
// What the elements are for the model: tea.Batch drops nil commands and returns nil for none and the
// command itself for one - so a `batch` element of 0 non-nil parts is a nil command, of 1 a plain
// command, of more a batch of exactly the non-nil parts; a hand-built BatchMsg keeps its nil entries.

import (
	"fmt"
	"strings"
	"time"

	tea "github.com/charmbracelet/bubbletea"
)

func init() { streams["strace"] = streamSTrace }

func streamSTrace(c *corrOut, r *rng, n int, thorough bool) map[string]interface{} {
	quietStdio()
	// the checker checks itself first: two fixed histories, one the model has, one it has not
	// (element 3 started while the second message of the batch had not been taken)
	c.emit("E p b11 n p | N | O id sp0 lo id ls0.0 fr1.0 fr1.1 id ls1.1 id ls1.0 sp3 id ls3.0 id", "accepted", "selftest")
	c.emit("E p b11 n p | N | O id sp0 lo id ls0.0 fr1.0 fr1.1 id ls1.1 sp3 id ls1.0 id ls3.0 id", "rejected at 9 sp3", "selftest")
	c.emit("E p p | N 0.0 | O id sp0 sp1 lo id ln id ls1.0 id", "rejected at 3 lo", "selftest")
	failed := 0
	for c.count < n && failed < 3 { // a run without a complete history costs up to ten seconds: the `seq` scenario reports stalls
		op, bucket := straceOnce(r.fork())
		if op == "" {
			failed++
			continue
		}
		c.emit(op, "accepted", bucket)
	}
	return map[string]interface{}{"runs_without_history": failed}
}

type straceRef struct {
	elem, part int
	plain      bool
}

func straceOnce(r *rng) (string, string) {
	ctl := newRecCtl()
	n := r.rangeIn(1, 7)
	var elemToks, nils []string
	refs := map[string]straceRef{}
	var cmds []tea.Cmd
	dur := func() time.Duration { return time.Duration(r.intn(300)) * time.Microsecond }
	mk := func(id string, d time.Duration, nilres bool) tea.Cmd {
		return func() tea.Msg {
			ctl.log.add("cmd-start", id)
			time.Sleep(d)
			if nilres {
				return nil
			}
			return cmdMsg{id}
		}
	}
	shape := ""
	for j := 0; j < n; j++ {
		id := fmt.Sprintf("s%d", j)
		switch r.intn(9) {
		case 0:
			cmds = append(cmds, nil)
			elemToks = append(elemToks, "n")
			shape += "n"
		case 1:
			cmds = append(cmds, mk(id, dur(), true))
			elemToks = append(elemToks, "p")
			nils = append(nils, fmt.Sprintf("%d.0", j))
			refs[id] = straceRef{j, 0, true}
			shape += "z"
		case 2, 3, 4, 5:
			raw := r.chance(1, 2)
			k := r.rangeIn(0, 4)
			type part struct {
				id     string
				nilres bool
			}
			var parts []*part // nil = nil entry
			for p := 0; p < k; p++ {
				switch {
				case r.chance(1, 5):
					parts = append(parts, nil)
				case r.chance(1, 5):
					parts = append(parts, &part{fmt.Sprintf("%s.%d", id, p), true})
				default:
					parts = append(parts, &part{fmt.Sprintf("%s.%d", id, p), false})
				}
			}
			var pc []tea.Cmd
			for _, p := range parts {
				if p == nil {
					pc = append(pc, nil)
				} else {
					pc = append(pc, mk(p.id, dur(), p.nilres))
				}
			}
			if raw {
				bm := tea.BatchMsg(pc)
				cmds = append(cmds, func() tea.Msg { return bm })
				bits := ""
				for pos, p := range parts {
					if p == nil {
						bits += "0"
						continue
					}
					bits += "1"
					refs[p.id] = straceRef{j, pos, false}
					if p.nilres {
						nils = append(nils, fmt.Sprintf("%d.%d", j, pos))
					}
				}
				elemToks = append(elemToks, "b"+bits)
				shape += "r" + fmt.Sprint(len(parts))
				break
			}
			cmds = append(cmds, tea.Batch(pc...))
			var live []*part
			for _, p := range parts {
				if p != nil {
					live = append(live, p)
				}
			}
			switch len(live) {
			case 0:
				elemToks = append(elemToks, "n")
			case 1:
				elemToks = append(elemToks, "p")
				refs[live[0].id] = straceRef{j, 0, true}
				if live[0].nilres {
					nils = append(nils, fmt.Sprintf("%d.0", j))
				}
			default:
				elemToks = append(elemToks, "b"+strings.Repeat("1", len(live)))
				for pos, p := range live {
					refs[p.id] = straceRef{j, pos, false}
					if p.nilres {
						nils = append(nils, fmt.Sprintf("%d.%d", j, pos))
					}
				}
			}
			shape += "b" + fmt.Sprint(len(live))
		default:
			cmds = append(cmds, mk(id, dur(), false))
			elemToks = append(elemToks, "p")
			refs[id] = straceRef{j, 0, true}
			shape += "p"
		}
	}
	const last = "end"
	cmds = append(cmds, mk(last, 0, false))
	elemToks = append(elemToks, "p")
	refs[last] = straceRef{n, 0, true}
	busy := r.chance(1, 2)
	ctl.onUpdate = func(m tea.Msg, v int) tea.Cmd {
		if u, ok := m.(userMsg); ok && u.Sender == 0 && u.Seq == 0 {
			return tea.Sequence(cmds...)
		}
		if u, ok := m.(userMsg); ok && u.Sender == 1 && busy {
			time.Sleep(150 * time.Microsecond) // a busy event loop widens every window
		}
		return nil
	}
	run := startProgram(ctl, nil, tea.WithInput(nil), tea.WithoutSignalHandler(), loggingFilter(ctl, nil))
	stop := make(chan struct{})
	go func() { // unrelated traffic
		for k := 0; ; k++ {
			select {
			case <-stop:
				return
			default:
			}
			run.p.Send(userMsg{1, k})
			time.Sleep(time.Duration(30+r.intn(3)*40) * time.Microsecond)
		}
	}()
	run.p.Send(userMsg{0, 0})
	ok := waitFor(10*time.Second, func() bool { return ctl.log.has("update-exit", "c:"+last) })
	// let the episode of the last message end (its view) before the quit arrives
	time.Sleep(2 * time.Millisecond)
	close(stop)
	run.p.Quit()
	if !run.wait(5 * time.Second) {
		run.p.Kill()
		return "", ""
	}
	if !ok {
		return "", "" // the `seq` scenario reports stalls; without the whole history there is nothing to check here
	}
	evs := ctl.log.snapshot()
	isEL := func(k string) bool {
		return strings.HasPrefix(k, "filter-") || strings.HasPrefix(k, "update-") || strings.HasPrefix(k, "view-")
	}
	// the loop's handling of the sequence message
	start := -1
	for i, e := range evs {
		if e.Kind == "filter-enter" && strings.HasPrefix(e.Arg, "sequence ") {
			start = i
			break
		}
	}
	if start < 0 {
		return "", ""
	}
	// the last entry of every episode of the loop: the loop's entry before its next filter-enter
	lastOfEpisode := map[int]bool{}
	prevEL := -1
	for i := start; i < len(evs); i++ {
		if !isEL(evs[i].Kind) {
			continue
		}
		if evs[i].Kind == "filter-enter" && prevEL >= 0 {
			lastOfEpisode[prevEL] = true
		}
		prevEL = i
	}
	var obs []string
	done := false
	for i := start; i < len(evs) && !done; i++ {
		e := evs[i]
		switch {
		case e.Kind == "cmd-start":
			ref, known := refs[e.Arg]
			if !known {
				return "", ""
			}
			if ref.plain {
				obs = append(obs, fmt.Sprintf("sp%d", ref.elem))
			} else {
				obs = append(obs, fmt.Sprintf("fr%d.%d", ref.elem, ref.part))
			}
		case e.Kind == "filter-enter" && i > start:
			name := strings.Fields(e.Arg)[0]
			switch {
			case strings.HasPrefix(name, "c:"):
				ref, known := refs[name[2:]]
				if !known {
					return "", ""
				}
				obs = append(obs, fmt.Sprintf("ls%d.%d", ref.elem, ref.part))
			case name == "nil":
				obs = append(obs, "ln")
			default:
				obs = append(obs, "lo")
			}
		}
		if lastOfEpisode[i] {
			obs = append(obs, "id")
			if e.Kind == "view-exit" || e.Kind == "update-exit" || e.Kind == "filter-exit" {
				// the history ends with the episode that handled the last message of the sequence
				for k := i; k >= start; k-- {
					if evs[k].Kind == "filter-enter" {
						if strings.HasPrefix(evs[k].Arg, "c:"+last+" ") || evs[k].Arg == "c:"+last {
							done = true
						}
						break
					}
				}
			}
		}
	}
	if !done {
		return "", "" // the quit came before the last episode had ended: no complete history
	}
	return "E " + strings.Join(elemToks, " ") + " | N " + strings.Join(nils, " ") + " | O " + strings.Join(obs, " "), shape
}
