package main

import (
	"fmt"
	"os"
)

// childMain runs helper child processes (pty programs etc.); extended elsewhere.
var childMain = func(args []string) int { return 2 }

func main() {
	if len(os.Args) < 2 {
		fmt.Fprintln(os.Stderr, "usage: harness <gen|corr|...> ...")
		os.Exit(2)
	}
	switch os.Args[1] {
	case "ping":
		fmt.Println("pong")
	case "freeze-doc":
		os.Exit(cmdFreezeDoc())
	case "corr":
		os.Exit(cmdCorr(os.Args[2:]))
	case "scen":
		os.Exit(cmdScen(os.Args[2:]))
	case "child":
		if len(os.Args) > 2 && os.Args[2] == "seqrawnil" {
			os.Exit(childSeqRawNil())
		}
		os.Exit(childMain(os.Args[2:]))
	case "freeze-facts":
		os.Exit(cmdFreezeFacts())
	case "facts":
		os.Exit(cmdFacts())
	case "gen":
		os.Exit(cmdGen(os.Args[2:]))
	default:
		fmt.Fprintln(os.Stderr, "unknown subcommand", os.Args[1])
		os.Exit(2)
	}
}
