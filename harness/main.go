package main

import (
	"fmt"
	"os"
)

func main() {
	if len(os.Args) < 2 {
		fmt.Fprintln(os.Stderr, "usage: harness <gen|corr|...> ...")
		os.Exit(2)
	}
	switch os.Args[1] {
	case "ping":
		fmt.Println("pong")
	case "freeze-doc":
		os.Exit(cmdFreezeDoc())
	case "corr":
		os.Exit(cmdCorr(os.Args[2:]))
	case "gen":
		os.Exit(cmdGen(os.Args[2:]))
	default:
		fmt.Fprintln(os.Stderr, "unknown subcommand", os.Args[1])
		os.Exit(2)
	}
}
