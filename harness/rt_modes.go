package main

// C05 / C12 scenarios: startup options x mode-command histories x exit kinds
// on a real Program; a VT mode tracker on the output is the oracle.

import (
	"context"
	"fmt"
	"os"
	"strings"
	"sync"
	"sync/atomic"
	"syscall"
	"time"

	tea "github.com/charmbracelet/bubbletea"
)

func init() {
	scenarios["modes"] = scenModes
}

// modeSpec is the documented meaning of options and mode commands: a small
// register machine, written independently of the renderer.
type modeSpec struct {
	alt, hidden, m1002, m1003, m1006, paste, focus bool
}

func (m modeSpec) String() string {
	return fmt.Sprintf("alt=%t vis=%t m1002=%t m1003=%t m1006=%t m1004=%t m2004=%t", m.alt, !m.hidden, m.m1002, m.m1003, m.m1006, m.focus, m.paste)
}

func vtModes(t *vterm) string {
	return fmt.Sprintf("alt=%t vis=%t m1002=%t m1003=%t m1006=%t m1004=%t m2004=%t", t.onAlt, t.cursorVis,
		t.modes[1002], t.modes[1003], t.modes[1006], t.modes[1004], t.modes[2004])
}

type modeCmd struct {
	name  string
	msg   func() tea.Msg
	apply func(m *modeSpec)
}

var modeCmds = []modeCmd{
	{"enteralt", func() tea.Msg { return tea.EnterAltScreen() }, func(m *modeSpec) { m.alt = true }},
	{"exitalt", func() tea.Msg { return tea.ExitAltScreen() }, func(m *modeSpec) { m.alt = false }},
	{"mousecell", func() tea.Msg { return tea.EnableMouseCellMotion() }, func(m *modeSpec) { m.m1002, m.m1006 = true, true }},
	{"mouseall", func() tea.Msg { return tea.EnableMouseAllMotion() }, func(m *modeSpec) { m.m1003, m.m1006 = true, true }},
	{"disablemouse", func() tea.Msg { return tea.DisableMouse() }, func(m *modeSpec) { m.m1002, m.m1003, m.m1006 = false, false, false }},
	{"paste", func() tea.Msg { return tea.EnableBracketedPaste() }, func(m *modeSpec) { m.paste = true }},
	{"nopaste", func() tea.Msg { return tea.DisableBracketedPaste() }, func(m *modeSpec) { m.paste = false }},
	{"focus", func() tea.Msg { return tea.EnableReportFocus() }, func(m *modeSpec) { m.focus = true }},
	{"nofocus", func() tea.Msg { return tea.DisableReportFocus() }, func(m *modeSpec) { m.focus = false }},
	{"show", func() tea.Msg { return tea.ShowCursor() }, func(m *modeSpec) { m.hidden = false }},
	{"hide", func() tea.Msg { return tea.HideCursor() }, func(m *modeSpec) { m.hidden = true }},
	{"clear", func() tea.Msg { return tea.ClearScreen() }, func(m *modeSpec) {}},
}

type modeOpts struct {
	alt, cell, all, nopaste, focus bool
}

func (o modeOpts) String() string {
	return fmt.Sprintf("alt=%t cell=%t all=%t nopaste=%t focus=%t", o.alt, o.cell, o.all, o.nopaste, o.focus)
}

func (o modeOpts) options() []tea.ProgramOption {
	var out []tea.ProgramOption
	if o.alt {
		out = append(out, tea.WithAltScreen())
	}
	if o.cell {
		out = append(out, tea.WithMouseCellMotion())
	}
	if o.all {
		out = append(out, tea.WithMouseAllMotion())
	}
	if o.nopaste {
		out = append(out, tea.WithoutBracketedPaste())
	}
	if o.focus {
		out = append(out, tea.WithReportFocus())
	}
	return out
}

func (o modeOpts) initial() modeSpec {
	m := modeSpec{hidden: true, alt: o.alt, paste: !o.nopaste, focus: o.focus}
	// the options are applied in the order given (cell, then all): the later
	// mouse option replaces the earlier one
	if o.all {
		m.m1003, m.m1006 = true, true
	} else if o.cell {
		m.m1002, m.m1006 = true, true
	}
	return m
}

var exitKinds = []string{"quit", "kill", "ctx", "interrupt", "readerr", "panic-update", "panic-cmd", "panic-view", "startup-fail", "startup-rawfail", "tty-hangup-quit", "tty-hangup-kill"}

// flakyFdFile is a terminal whose descriptor goes away between the "is it a terminal?" test and
// the switch to raw mode (a background job, a revoked descriptor): term.MakeRaw fails at start-up.
type flakyFdFile struct {
	*os.File
	calls int32
}

func (f *flakyFdFile) Fd() uintptr {
	if atomic.AddInt32(&f.calls, 1) == 1 {
		return f.File.Fd()
	}
	return ^uintptr(0)
}

// failOnceWriter refuses exactly one Write (the first one that contains `mark`) with an error
// and works again afterwards (a terminal that was briefly unwritable).
type failOnceWriter struct {
	b      *safeBuffer
	mark   string
	failed chan struct{}
	mu     sync.Mutex
	done   bool
}

func (w *failOnceWriter) Write(p []byte) (int, error) {
	w.mu.Lock()
	hit := !w.done && strings.Contains(string(p), w.mark)
	if hit {
		w.done = true
	}
	w.mu.Unlock()
	if hit {
		close(w.failed)
		return 0, syscall.EAGAIN
	}
	return w.b.Write(p)
}

// modesWriteError: one transient output error in the middle of a run (a frame is refused);
// whatever then ends the program, the restoring sequences are written and the terminal is
// restored when Run returns.
func modesWriteError(out *scenOut, exit string) {
	ctl := newRecCtl()
	buf := &safeBuffer{}
	ctl.viewOf = func(version, ups int) string { return fmt.Sprintf("frame %d\nsecond line\n", ups) }
	w := &failOnceWriter{b: buf, mark: "frame 2", failed: make(chan struct{})}
	parent, cancel := context.WithCancel(context.Background())
	defer cancel()
	ctl.onUpdate = func(m tea.Msg, v int) tea.Cmd {
		if u, ok := m.(userMsg); ok && u.Sender == 8 {
			return func() tea.Msg { panic("verif: panic in a command") }
		}
		return nil
	}
	run := startProgram(ctl, nil, tea.WithOutput(w), tea.WithInput(nil), tea.WithoutSignalHandler(), tea.WithFPS(120), tea.WithContext(parent),
		tea.WithAltScreen(), tea.WithMouseCellMotion(), tea.WithReportFocus())
	desc := "alt screen + mouse cell motion + focus reporting; the output writer refuses one frame (EAGAIN) and works again; exit=" + exit
	run.p.Send(tea.WindowSizeMsg{Width: 80, Height: 24})
	run.p.Send(userMsg{0, 0})
	select {
	case <-w.failed:
	case <-time.After(3 * time.Second):
		out.record("write-error/not-reached/"+exit, desc)
		killNow(run.p)
		run.wait(3 * time.Second)
		return
	}
	run.p.Send(userMsg{0, 1})
	// C12: mode commands after the transient error still reach the terminal
	spec := modeSpec{hidden: true, alt: true, paste: true, focus: true, m1002: true, m1006: true}
	for _, name := range []string{"exitalt", "disablemouse", "mouseall", "nofocus", "show"} {
		for _, mc := range modeCmds {
			if mc.name == name {
				run.p.Send(mc.msg())
				mc.apply(&spec)
			}
		}
	}
	run.p.Send(userMsg{0, 2}) // (a probe: when Update has seen it the commands before it have been processed)
	if waitFor(3*time.Second, func() bool { return ctl.log.has("update-exit", "u0.2") }) {
		t := newVterm(80, 24)
		t.write([]byte(buf.String()))
		if got := vtModes(t); got != spec.String() {
			out.fail(finding{Property: "C12", Class: "new", What: "terminal modes differ from what options and commands asked for (mode commands after a transient output error)", Input: desc + " then exitalt, disablemouse, mouseall, nofocus, show",
				Expected: spec.String(), Observed: got})
		}
	}
	time.Sleep(20 * time.Millisecond)
	switch exit {
	case "quit":
		run.p.Quit()
	case "kill":
		killNow(run.p)
	case "ctx":
		cancel()
	case "panic-update":
		ctl.panicOn.set("update:u9.9")
		go run.p.Send(userMsg{9, 9})
	case "panic-cmd":
		go run.p.Send(userMsg{8, 1})
	}
	if !run.wait(5 * time.Second) {
		out.fail(finding{Property: "C05", Class: "new", What: "Run does not return", Input: desc, Observed: goroutineDump()})
		return
	}
	time.Sleep(15 * time.Millisecond)
	out.record("write-error/"+exit, desc)
	t := newVterm(80, 24)
	t.write([]byte(buf.String()))
	if got, initial := vtModes(t), (modeSpec{}).String(); got != initial {
		out.fail(finding{Property: "C05", Class: "new", What: "terminal not restored when Run returns after a transient output error", Input: desc, Expected: initial, Observed: got})
	}
}

func scenModes(out *scenOut, r *rng, thorough bool) {
	out.Rule = "all 32 subsets of startup options (alt screen, mouse cell/all motion, no bracketed paste, focus) x seeded histories of 0..12 mode commands x 9 exit kinds (incl. start-up failure after terminal initialisation), modes sampled from the output inside Update after every command and after Run returns; distinct = (options, history, exit kind)"
	quietStdio()
	var wg sync.WaitGroup
	sem := make(chan struct{}, 8)
	reps := 1
	if thorough {
		reps = 8
	}
	for _, ex := range []string{"quit", "kill", "ctx", "panic-update", "panic-cmd"} {
		modesWriteError(out, ex)
	}
	for _, cause := range []string{"kill", "ctx"} {
		termDuringStartup(out, cause, true) // (child process; reports under C04 and C05)
	}
	modesMethodsDuringStartup(out)
	for _, cause := range []string{"quit", "kill", "ctx"} {
		slowOutputAtExit(out, cause)
	}
	modesWhileFrameStalls(out, r)
	for _, cause := range []string{"quitmsg", "kill", "ctx", "interrupt"} {
		noRendererRuns(out, cause) // (the C05 part: a program without a renderer writes nothing)
	}
	for _, exit := range []string{"quit", "kill", "quit", "kill"} {
		modesMethodsWhileRunning(out, r, exit)
	}
	for rep := 0; rep < reps; rep++ {
		for bits := 0; bits < 32; bits++ {
			o := modeOpts{alt: bits&1 != 0, cell: bits&2 != 0, all: bits&4 != 0, nopaste: bits&8 != 0, focus: bits&16 != 0}
			for _, ek := range exitKinds {
				if !thorough && r.chance(1, 2) && !strings.HasPrefix(ek, "startup-") && !strings.HasPrefix(ek, "tty-hangup") {
					continue
				}
				n := r.intn(13)
				hist := make([]int, n)
				for i := range hist {
					hist[i] = r.intn(len(modeCmds))
				}
				wg.Add(1)
				sem <- struct{}{}
				released := r.chance(1, 4) && !strings.HasPrefix(ek, "startup-") && !strings.HasPrefix(ek, "tty-hangup") && ek != "readerr"
				go func(o modeOpts, ek string, hist []int, released bool) {
					defer wg.Done()
					defer func() { <-sem }()
					modesOnce(out, o, ek, hist, released)
				}(o, ek, hist, released)
			}
		}
	}
	wg.Wait()
}

func modesOnce(out *scenOut, o modeOpts, ek string, hist []int, released bool) {
	ctl := newRecCtl()
	buf := &safeBuffer{}
	spec := o.initial()
	var names []string
	for _, i := range hist {
		names = append(names, modeCmds[i].name)
	}
	desc := fmt.Sprintf("opts{%s} cmds=[%s] exit=%s", o, strings.Join(names, ","), ek)
	if released {
		// Program.ReleaseTerminal() from outside once the program is up; the mode commands follow while
		// the terminal is released, and the program ends without a RestoreTerminal
		desc += " released-before-cmds"
	}
	var mu sync.Mutex
	step := 0
	var mismatch []string
	ctl.onUpdate = func(m tea.Msg, v int) tea.Cmd {
		name := msgName(m)
		if name == "u8.1" {
			return func() tea.Msg { panic("harness: injected panic in a command") }
		}
		mu.Lock()
		defer mu.Unlock()
		if step < len(hist) && !strings.HasPrefix(name, "u") && !strings.HasPrefix(name, "windowsize") {
			// the event loop has executed the mode command before Update sees it
			modeCmds[hist[step]].apply(&spec)
			step++
			t := newVterm(80, 24)
			t.write([]byte(buf.String()))
			if got := vtModes(t); got != spec.String() {
				mismatch = append(mismatch, fmt.Sprintf("after %s: terminal{%s} expected{%s}", name, got, spec.String()))
			}
		}
		return nil
	}
	opts := o.options()
	opts = append(opts, tea.WithoutSignalHandler(), tea.WithFPS(120))
	readGate := newGate(true)
	defer readGate.open()
	parent, cancel := context.WithCancel(context.Background())
	defer cancel()
	opts = append(opts, tea.WithContext(parent))
	var hang *ptyPair
	switch ek {
	case "tty-hangup-quit", "tty-hangup-kill":
		// input is a real terminal (raw mode is entered); it is hung up while the
		// program runs, so putting its line discipline back fails at exit
		pp, err := openPty()
		if err != nil {
			return
		}
		hang = pp
		defer pp.slave.Close()
		opts = append(opts, tea.WithInput(pp.slave))
	case "readerr":
		opts = append(opts, tea.WithInput(errReader{g: readGate, err: errInjectedRead}))
	case "startup-rawfail":
		pp, err := openPty()
		if err != nil {
			return
		}
		defer pp.slave.Close()
		defer pp.master.Close()
		opts = append(opts, tea.WithInput(&flakyFdFile{File: pp.slave}))
	case "startup-fail":
		// the way a user meets it: input redirected from a regular file, which
		// the cancelable reader (epoll) rejects
		f, err := os.CreateTemp("", "verif-input")
		if err != nil {
			return
		}
		defer os.Remove(f.Name())
		defer f.Close()
		opts = append(opts, tea.WithInput(f))
	default:
		opts = append(opts, tea.WithInput(nil))
	}
	run := startProgram(ctl, buf, opts...)
	if strings.HasPrefix(ek, "startup-") {
		if !run.wait(5 * time.Second) {
			out.fail(finding{Property: "C05", Class: "new", What: "Run does not return after a start-up failure", Input: desc})
			return
		}
		if run.err == nil {
			// the sandbox accepted the file: not a start-up failure after all
			out.record("startup-ok/"+o.String(), desc+" (input accepted)")
			return
		}
	} else {
		if !waitFor(3*time.Second, func() bool { return ctl.log.has("view-exit", "") }) {
			out.fail(finding{Property: "C05", Class: "harness", What: "program did not come up", Input: desc})
			return
		}
		if released {
			if err := run.p.ReleaseTerminal(); err != nil {
				out.fail(finding{Property: "C05", Class: "harness", What: "ReleaseTerminal failed: " + err.Error(), Input: desc})
			}
			mu.Lock()
			spec = modeSpec{} // the release puts the terminal back
			t := newVterm(80, 24)
			t.write([]byte(buf.String()))
			if got := vtModes(t); got != spec.String() {
				mismatch = append(mismatch, fmt.Sprintf("after ReleaseTerminal: terminal{%s} expected{%s}", got, spec.String()))
			}
			mu.Unlock()
		}
		for _, i := range hist {
			run.p.Send(modeCmds[i].msg())
		}
		run.p.Send(userMsg{0, 0}) // everything before it has been processed
		waitFor(2*time.Second, func() bool { return ctl.log.has("update-exit", "u0.0") })
		switch ek {
		case "tty-hangup-quit":
			hang.master.Close()
			time.Sleep(5 * time.Millisecond)
			run.p.Quit()
		case "tty-hangup-kill":
			hang.master.Close()
			time.Sleep(5 * time.Millisecond)
			killNow(run.p)
		case "quit":
			run.p.Quit()
		case "kill":
			killNow(run.p)
		case "ctx":
			cancel()
		case "interrupt":
			run.p.Send(tea.InterruptMsg{})
		case "readerr":
			readGate.open()
		case "panic-update":
			ctl.panicOn.set("update:u9.9")
			go run.p.Send(userMsg{9, 9})
		case "panic-view":
			ctl.panicOn.set("view")
			go run.p.Send(userMsg{9, 8})
		case "panic-cmd":
			go run.p.Send(userMsg{8, 1})
		}
		if !run.wait(5 * time.Second) {
			out.fail(finding{Property: "C05", Class: "new", What: "Run does not return", Input: desc, Observed: goroutineDump()})
			return
		}
	}
	time.Sleep(15 * time.Millisecond) // a concurrent shutdown (panic in a command) finishes its restore
	out.record(desc, desc)
	mu.Lock()
	defer mu.Unlock()
	for _, mm := range mismatch {
		out.fail(finding{Property: "C12", Class: "new", What: "terminal modes differ from what options and commands asked for", Input: desc, Observed: mm})
		break
	}
	t := newVterm(80, 24)
	t.write([]byte(buf.String()))
	initial := modeSpec{}.String()
	if got := vtModes(t); got != initial {
		what := "terminal not restored when Run returns"
		if strings.HasPrefix(ek, "startup-") {
			what = "terminal not restored when Run returns after a start-up failure"
		}
		out.fail(finding{Property: "C05", Class: "new", What: what, Input: desc, Expected: initial, Observed: got})
	}
	if len(t.unknown) > 0 {
		out.fail(finding{Property: "C05", Class: "harness", What: "output outside the VT alphabet", Input: desc, Observed: strings.Join(t.unknown, ",")})
	}
}

// modesMethodsDuringStartup: the (deprecated but public) Program methods EnterAltScreen /
// EnableMouseAllMotion are called from another goroutine after Run has been entered and before it
// has created its renderer: they record the request in the start-up options, and Run must honour
// it like an option given to NewProgram.
func modesMethodsDuringStartup(out *scenOut) {
	ctl := newRecCtl()
	buf := &safeBuffer{}
	reached := make(chan struct{})
	goOn := make(chan struct{})
	var once int32
	tea.VerifPauseHook = func(where string) {
		if where == "su: sigHandler" && atomic.CompareAndSwapInt32(&once, 0, 1) {
			close(reached)
			<-goOn
		}
	}
	defer func() { tea.VerifPauseHook = nil }()
	run := startProgram(ctl, buf, tea.WithInput(nil), tea.WithoutSignalHandler(), tea.WithFPS(120))
	desc := "Program.EnterAltScreen() and Program.EnableMouseAllMotion() called while Run is at its first start-up stage (no renderer yet)"
	select {
	case <-reached:
	case <-time.After(3 * time.Second):
		killNow(run.p)
		run.wait(3 * time.Second)
		return
	}
	run.p.EnterAltScreen()
	run.p.EnableMouseAllMotion()
	close(goOn)
	run.p.Send(userMsg{0, 0})
	waitFor(2*time.Second, func() bool { return ctl.log.has("update-exit", "u0.0") })
	time.Sleep(30 * time.Millisecond)
	out.record("methods-during-startup", desc)
	t := newVterm(80, 24)
	t.write([]byte(buf.String()))
	want := modeSpec{hidden: true, alt: true, paste: true, m1003: true, m1006: true}
	if got := vtModes(t); got != want.String() {
		out.fail(finding{Property: "C12", Class: "new", What: "terminal modes differ from what options and commands asked for (mode methods called during start-up)", Input: desc,
			Expected: want.String(), Observed: got})
	}
	run.p.Quit()
	if !run.wait(4 * time.Second) {
		killNow(run.p)
		run.wait(3 * time.Second)
	}
}

// modesMethodsWhileRunning: the deprecated Program methods (EnterAltScreen, EnableMouseCellMotion,
// EnableMouseAllMotion, SetWindowTitle and their opposites) called from another goroutine on a
// RUNNING program, in a seeded order, then the program ends: whatever they switched on is off again
// when Run returns (C05: "every terminal setting Bubble Tea may have changed"). A title given with
// SetWindowTitle BEFORE Run is written at start-up.
func modesMethodsWhileRunning(out *scenOut, r *rng, exit string) {
	ctl := newRecCtl()
	buf := &safeBuffer{}
	p := tea.NewProgram(recModel{c: ctl}, tea.WithOutput(buf), tea.WithInput(nil), tea.WithoutSignalHandler(), tea.WithFPS(120))
	p.SetWindowTitle("before-run")
	done := make(chan error, 1)
	go func() { _, err := p.Run(); done <- err }()
	if !waitFor(3*time.Second, func() bool { return ctl.log.has("view-exit", "") }) {
		go p.Kill()
		select {
		case <-done:
		case <-time.After(3 * time.Second):
		}
		return
	}
	methods := []struct {
		name string
		f    func()
	}{
		{"EnterAltScreen", p.EnterAltScreen}, {"ExitAltScreen", p.ExitAltScreen},
		{"EnableMouseCellMotion", p.EnableMouseCellMotion}, {"DisableMouseCellMotion", p.DisableMouseCellMotion},
		{"EnableMouseAllMotion", p.EnableMouseAllMotion}, {"DisableMouseAllMotion", p.DisableMouseAllMotion},
		{"SetWindowTitle", func() { p.SetWindowTitle("while-running") }},
	}
	var names []string
	alt := false
	n := r.rangeIn(3, 12)
	desc := ""
	for i := 0; i < n; i++ {
		m := methods[r.intn(len(methods))]
		names = append(names, m.name)
		desc = fmt.Sprintf("SetWindowTitle before Run; on the running program: %s; exit=%s", strings.Join(names, ", "), exit)
		m.f()
		switch m.name {
		case "EnterAltScreen":
			alt = true
		case "ExitAltScreen":
			alt = false
		}
		t := newVterm(80, 24)
		t.write([]byte(buf.String()))
		if t.onAlt != alt {
			out.fail(finding{Property: "C12", Class: "new", What: "Program." + m.name + "() on a running program: the alt screen is not what the calls so far asked for", Input: desc,
				Expected: fmt.Sprint(alt), Observed: fmt.Sprint(t.onAlt)})
			break
		}
	}
	out.record("methods-while-running/"+exit, desc)
	if !strings.Contains(buf.String(), "\x1b]2;before-run\a") && !strings.Contains(buf.String(), "\x1b]2;before-run\x1b\\") {
		out.fail(finding{Property: "C12", Class: "new", What: "a window title given with Program.SetWindowTitle before Run was not written at start-up", Input: desc, Observed: fmt.Sprintf("%q", firstN(buf.String(), 120))})
	}
	switch exit {
	case "quit":
		p.Quit()
	case "kill":
		go p.Kill()
	}
	select {
	case <-done:
	case <-time.After(4 * time.Second):
		out.fail(finding{Property: "C04", Class: "new", What: "Run does not return", Input: desc})
		return
	}
	time.Sleep(10 * time.Millisecond)
	t := newVterm(80, 24)
	t.write([]byte(buf.String()))
	if got, initial := vtModes(t), (modeSpec{}).String(); got != initial {
		out.fail(finding{Property: "C05", Class: "new", What: "terminal not restored when Run returns (modes switched with the Program methods)", Input: desc, Expected: initial, Observed: got})
	}
}

func firstN(s string, n int) string {
	if len(s) > n {
		return s[:n]
	}
	return s
}

// slowOutputAtExit: the output stalls for 1.4 s in the middle of a frame while the program is asked
// to end (a slow link, a pager that has not read yet): Run returns later - and when it does, the
// terminal is restored, however long the last write took (C05).
func slowOutputAtExit(out *scenOut, cause string) {
	ctl := newRecCtl()
	g := newGate(false)
	buf := &safeBuffer{gate: g}
	var ups int32
	ctl.viewOf = func(version, n int) string {
		atomic.StoreInt32(&ups, int32(n))
		return fmt.Sprintf("view %d\nline\n", n)
	}
	parent, cancel := context.WithCancel(context.Background())
	defer cancel()
	run := startProgram(ctl, buf, tea.WithInput(nil), tea.WithoutSignalHandler(), tea.WithFPS(60), tea.WithContext(parent),
		tea.WithAltScreen(), tea.WithMouseCellMotion(), tea.WithReportFocus())
	desc := "alt screen + mouse + focus; the output stalls for 1.4 s inside the next frame; meanwhile " + cause
	defer g.open()
	if !waitFor(3*time.Second, func() bool { return ctl.log.has("view-exit", "") }) {
		return
	}
	time.Sleep(50 * time.Millisecond)
	atomicArm(g)
	run.p.Send(userMsg{0, 0}) // a new view: the next tick writes and stalls
	if !g.waitArrived(2 * time.Second) {
		out.record("slow-output-at-exit (writer not reached)", desc)
		return
	}
	switch cause {
	case "quit":
		go run.p.Quit()
	case "kill":
		go run.p.Kill()
	case "ctx":
		cancel()
	}
	time.Sleep(1400 * time.Millisecond)
	g.open()
	out.record("slow-output-at-exit/"+cause, desc)
	if !run.wait(5 * time.Second) {
		out.fail(finding{Property: "C04", Class: "new", What: "Run does not return after the stalled output went on", Input: desc, Observed: goroutineDump()})
		return
	}
	time.Sleep(20 * time.Millisecond)
	t := newVterm(80, 24)
	t.write([]byte(buf.String()))
	if got, initial := vtModes(t), (modeSpec{}).String(); got != initial {
		out.fail(finding{Property: "C05", Class: "new", What: "terminal not restored when Run returns (the output had stalled for more than a second during the last frame)", Input: desc, Expected: initial, Observed: got})
	}
}

// modesWhileFrameStalls: the output stalls for 1.2 s inside a frame (the ticker goroutine holds the
// renderer meanwhile); the program processes a history of mode commands in that time. When the
// output goes on and the program is idle, the terminal's modes equal options + commands (C12) - a
// mode command waits for the renderer, it is never skipped or postponed to some later frame.
func modesWhileFrameStalls(out *scenOut, r *rng) {
	ctl := newRecCtl()
	g := newGate(false)
	buf := &safeBuffer{gate: g}
	spec := modeOpts{}.initial()
	var second int32
	ctl.viewOf = func(version, ups int) string { // two views only: after the stalled frame nothing changes any more
		if atomic.LoadInt32(&second) == 1 {
			return "second view\nline\n"
		}
		return "first view\nline\n"
	}
	run := startProgram(ctl, buf, tea.WithInput(nil), tea.WithoutSignalHandler(), tea.WithFPS(60))
	defer g.open()
	if !waitFor(3*time.Second, func() bool { return ctl.log.has("view-exit", "") }) {
		return
	}
	time.Sleep(40 * time.Millisecond)
	atomicArm(g)
	atomic.StoreInt32(&second, 1)
	run.p.Send(userMsg{0, 0}) // the new view: the next tick writes and stalls
	if !g.waitArrived(2 * time.Second) {
		out.record("modes-while-frame-stalls (writer not reached)", "")
		g.open()
		go run.p.Kill()
		run.wait(3 * time.Second)
		return
	}
	var names []string
	sent := make(chan struct{})
	hist := make([]int, 8)
	hist = []int{9, 2, 7, 6} // show, mousecell, focus, nopaste: each changes the state the program started with
	for i := range hist {
		// (cursor, mouse, paste and focus commands only: an alt-screen switch or a ClearScreen makes the
		// next frame repaint, and with it whatever a renderer might have postponed)
		names = append(names, modeCmds[hist[i]].name)
		modeCmds[hist[i]].apply(&spec)
	}
	desc := fmt.Sprintf("the output stalls 1.2 s inside a frame while cmds=[%s] are processed; then idle", strings.Join(names, ","))
	go func() {
		for _, i := range hist {
			run.p.Send(modeCmds[i].msg())
		}
		run.p.Send(userMsg{0, 1})
		close(sent)
	}()
	time.Sleep(1200 * time.Millisecond)
	g.open()
	<-sent
	waitFor(3*time.Second, func() bool { return ctl.log.has("update-exit", "u0.1") })
	time.Sleep(60 * time.Millisecond) // idle: a few frame intervals
	out.record("modes-while-frame-stalls", desc)
	t := newVterm(80, 24)
	t.write([]byte(buf.String()))
	if got := vtModes(t); got != spec.String() {
		out.fail(finding{Property: "C12", Class: "new", What: "terminal modes differ from what options and commands asked for (mode commands processed while a frame write was stalled)", Input: desc,
			Expected: spec.String(), Observed: got})
	}
	run.p.Quit()
	if !run.wait(4 * time.Second) {
		go run.p.Kill()
		run.wait(3 * time.Second)
	}
}
