package main

// A small interpreter for the time arithmetic of commands.go, run on the AST of
// /repo's CURRENT source with Go's real `time` package: `Every` reads the clock
// itself (time.Now()), so its delay expression cannot be driven through a call;
// instead the statements of Every's body up to the call of time.NewTimer are
// interpreted with a chosen instant standing for time.Now() and a chosen
// duration for the parameter. The `every` stream compares the result with the
// Lean model (Tea/Time/Model.lean) and checks the property on it.
//
// Supported: identifiers (locals, parameters, package-level constants),
// integer literals, time.<unit> constants, time.Duration(x) conversions,
// + - * / % on durations/integers, unary minus, parentheses, and the methods
// Truncate / Round / Add / Sub on time.Time and Truncate / Round / Abs on
// time.Duration. Anything else is reported as uninterpretable (a broken tie).

import (
	"fmt"
	"go/ast"
	"go/token"
	"strconv"
	"time"
)

type tval struct {
	kind string // "time" "dur" "int"
	t    time.Time
	d    time.Duration
	i    int64
}

func (v tval) asDur() time.Duration {
	if v.kind == "int" {
		return time.Duration(v.i)
	}
	return v.d
}

type timeInterp struct {
	fs    *factSet
	env   map[string]tval
	now   time.Time
	depth int
}

// call interprets a package-level helper function (its statements: assignments, `if` with an
// early return, `return expr`) on evaluated arguments.
func (ti *timeInterp) call(fd *ast.FuncDecl, args []ast.Expr) tval {
	sub := &timeInterp{fs: ti.fs, env: map[string]tval{}, now: ti.now, depth: ti.depth + 1}
	i := 0
	if fd.Type.Params != nil {
		for _, f := range fd.Type.Params.List {
			for _, n := range f.Names {
				if i >= len(args) {
					ti.fail(fd, "arity")
				}
				sub.env[n.Name] = ti.eval(args[i])
				i++
			}
		}
	}
	if v, ok := sub.block(fd.Body.List); ok {
		return v
	}
	ti.fail(fd, "helper without a return value")
	return tval{}
}

// block interprets statements until a return; (value, true) if one was reached.
func (ti *timeInterp) block(list []ast.Stmt) (tval, bool) {
	for _, st := range list {
		switch v := st.(type) {
		case *ast.ReturnStmt:
			if len(v.Results) != 1 {
				ti.fail(st, "return shape")
			}
			return ti.eval(v.Results[0]), true
		case *ast.AssignStmt:
			if len(v.Lhs) != 1 || len(v.Rhs) != 1 {
				ti.fail(st, "assignment shape")
			}
			id, ok := v.Lhs[0].(*ast.Ident)
			if !ok {
				ti.fail(st, "assignment target")
			}
			ti.env[id.Name] = ti.eval(v.Rhs[0])
		case *ast.IfStmt:
			if v.Init != nil {
				ti.fail(st, "if with init")
			}
			c := ti.eval(v.Cond)
			if c.kind != "bool" {
				ti.fail(st, "condition")
			}
			if c.i == 1 {
				if r, ok := ti.block(v.Body.List); ok {
					return r, true
				}
			} else if v.Else != nil {
				switch e := v.Else.(type) {
				case *ast.BlockStmt:
					if r, ok := ti.block(e.List); ok {
						return r, true
					}
				default:
					if r, ok := ti.block([]ast.Stmt{e}); ok {
						return r, true
					}
				}
			}
		default:
			ti.fail(st, "statement")
		}
	}
	return tval{}, false
}

func (ti *timeInterp) fail(n ast.Node, why string) {
	panic(fmt.Sprintf("uninterpretable time expression (%s): %s", why, ti.fs.text(n)))
}

func (ti *timeInterp) pkgConst(name string) (ast.Expr, bool) {
	for _, f := range ti.fs.files {
		for _, d := range f.Decls {
			gd, ok := d.(*ast.GenDecl)
			if !ok || gd.Tok != token.CONST {
				continue
			}
			for _, sp := range gd.Specs {
				vs := sp.(*ast.ValueSpec)
				for i, id := range vs.Names {
					if id.Name == name && i < len(vs.Values) {
						return vs.Values[i], true
					}
				}
			}
		}
	}
	return nil, false
}

var timeUnits = map[string]time.Duration{"Nanosecond": time.Nanosecond, "Microsecond": time.Microsecond,
	"Millisecond": time.Millisecond, "Second": time.Second, "Minute": time.Minute, "Hour": time.Hour}

func (ti *timeInterp) eval(e ast.Expr) tval {
	switch v := e.(type) {
	case *ast.ParenExpr:
		return ti.eval(v.X)
	case *ast.BasicLit:
		if v.Kind == token.INT {
			n, err := strconv.ParseInt(v.Value, 0, 64)
			if err != nil {
				ti.fail(e, "literal")
			}
			return tval{kind: "int", i: n}
		}
		ti.fail(e, "literal kind")
	case *ast.Ident:
		if x, ok := ti.env[v.Name]; ok {
			return x
		}
		if ce, ok := ti.pkgConst(v.Name); ok {
			return ti.eval(ce)
		}
		ti.fail(e, "unknown identifier")
	case *ast.UnaryExpr:
		x := ti.eval(v.X)
		if v.Op == token.SUB && x.kind != "time" {
			if x.kind == "int" {
				return tval{kind: "int", i: -x.i}
			}
			return tval{kind: "dur", d: -x.d}
		}
		ti.fail(e, "unary operator")
	case *ast.SelectorExpr:
		if id, ok := v.X.(*ast.Ident); ok && id.Name == "time" {
			if u, ok := timeUnits[v.Sel.Name]; ok {
				return tval{kind: "dur", d: u}
			}
		}
		ti.fail(e, "selector")
	case *ast.BinaryExpr:
		a, b := ti.eval(v.X), ti.eval(v.Y)
		if a.kind == "time" || b.kind == "time" {
			ti.fail(e, "operator on time.Time")
		}
		kind := "dur"
		if a.kind == "int" && b.kind == "int" {
			kind = "int"
		}
		x, y := int64(a.asDur()), int64(b.asDur())
		var r int64
		switch v.Op {
		case token.LSS, token.LEQ, token.GTR, token.GEQ, token.EQL, token.NEQ:
			var t bool
			switch v.Op {
			case token.LSS:
				t = x < y
			case token.LEQ:
				t = x <= y
			case token.GTR:
				t = x > y
			case token.GEQ:
				t = x >= y
			case token.EQL:
				t = x == y
			default:
				t = x != y
			}
			if t {
				return tval{kind: "bool", i: 1}
			}
			return tval{kind: "bool", i: 0}
		case token.ADD:
			r = x + y
		case token.SUB:
			r = x - y
		case token.MUL:
			r = x * y
		case token.QUO:
			if y == 0 {
				panic("runtime error: integer divide by zero")
			}
			r = x / y
		case token.REM:
			if y == 0 {
				panic("runtime error: integer divide by zero")
			}
			r = x % y
		default:
			ti.fail(e, "binary operator")
		}
		if kind == "int" {
			return tval{kind: "int", i: r}
		}
		return tval{kind: "dur", d: time.Duration(r)}
	case *ast.CallExpr:
		if id, ok := v.Fun.(*ast.Ident); ok {
			switch id.Name {
			case "int64", "int":
				if len(v.Args) == 1 {
					return tval{kind: "int", i: int64(ti.eval(v.Args[0]).asDur())}
				}
			}
			if fd, ok := ti.fs.funcs[id.Name]; ok && ti.depth < 4 {
				return ti.call(fd, v.Args)
			}
			ti.fail(e, "call of an unknown function")
		}
		sel, ok := v.Fun.(*ast.SelectorExpr)
		if !ok {
			ti.fail(e, "call")
		}
		if id, ok := sel.X.(*ast.Ident); ok && id.Name == "time" {
			if _, shadow := ti.env["time"]; !shadow {
				switch sel.Sel.Name {
				case "Now":
					return tval{kind: "time", t: ti.now}
				case "Duration":
					if len(v.Args) == 1 {
						return tval{kind: "dur", d: ti.eval(v.Args[0]).asDur()}
					}
				}
				ti.fail(e, "function of package time")
			}
		}
		recv := ti.eval(sel.X)
		var args []tval
		for _, a := range v.Args {
			args = append(args, ti.eval(a))
		}
		one := func() tval {
			if len(args) != 1 {
				ti.fail(e, "arity")
			}
			return args[0]
		}
		switch recv.kind {
		case "time":
			switch sel.Sel.Name {
			case "Truncate":
				return tval{kind: "time", t: recv.t.Truncate(one().asDur())}
			case "Round":
				return tval{kind: "time", t: recv.t.Round(one().asDur())}
			case "Add":
				return tval{kind: "time", t: recv.t.Add(one().asDur())}
			case "Sub":
				a := one()
				if a.kind != "time" {
					ti.fail(e, "Sub of a non-time")
				}
				return tval{kind: "dur", d: recv.t.Sub(a.t)}
			case "UnixNano":
				return tval{kind: "int", i: recv.t.UnixNano()}
			case "UnixMicro":
				return tval{kind: "int", i: recv.t.UnixMicro()}
			case "UnixMilli":
				return tval{kind: "int", i: recv.t.UnixMilli()}
			case "Unix":
				return tval{kind: "int", i: recv.t.Unix()}
			case "Nanosecond":
				return tval{kind: "int", i: int64(recv.t.Nanosecond())}
			case "Before", "After", "Equal":
				a := one()
				if a.kind != "time" {
					ti.fail(e, "comparison with a non-time")
				}
				t := false
				switch sel.Sel.Name {
				case "Before":
					t = recv.t.Before(a.t)
				case "After":
					t = recv.t.After(a.t)
				default:
					t = recv.t.Equal(a.t)
				}
				if t {
					return tval{kind: "bool", i: 1}
				}
				return tval{kind: "bool", i: 0}
			}
		case "dur", "int":
			switch sel.Sel.Name {
			case "Truncate":
				return tval{kind: "dur", d: recv.asDur().Truncate(one().asDur())}
			case "Round":
				return tval{kind: "dur", d: recv.asDur().Round(one().asDur())}
			case "Abs":
				return tval{kind: "dur", d: recv.asDur().Abs()}
			}
		}
		ti.fail(e, "method")
	}
	ti.fail(e, "expression")
	return tval{}
}

// timerDelay interprets the top-level statements of function fn (Every or
// Tick) up to its call of time.NewTimer and returns the timer's duration.
// param is the name-independent duration argument (first parameter).
func timerDelay(fs *factSet, fn string, now time.Time, d time.Duration) (delay time.Duration, err string) {
	defer func() {
		if v := recover(); v != nil {
			err = fmt.Sprint(v)
		}
	}()
	fd, ok := fs.funcs[fn]
	if !ok {
		return 0, "missing function " + fn
	}
	ti := &timeInterp{fs: fs, env: map[string]tval{}, now: now}
	if fd.Type.Params == nil || len(fd.Type.Params.List) == 0 || len(fd.Type.Params.List[0].Names) == 0 {
		return 0, "no duration parameter"
	}
	ti.env[fd.Type.Params.List[0].Names[0].Name] = tval{kind: "dur", d: d}
	// the first call of time.NewTimer outside a function literal, in statement order
	findTimer := func(n ast.Node) ast.Expr {
		var arg ast.Expr
		ast.Inspect(n, func(x ast.Node) bool {
			if arg != nil {
				return false
			}
			switch v := x.(type) {
			case *ast.FuncLit:
				return false
			case *ast.CallExpr:
				if sel, ok := v.Fun.(*ast.SelectorExpr); ok {
					if id, ok := sel.X.(*ast.Ident); ok && id.Name == "time" && sel.Sel.Name == "NewTimer" && len(v.Args) == 1 {
						arg = v.Args[0]
						return false
					}
				}
			}
			return true
		})
		return arg
	}
	for _, st := range fd.Body.List {
		if arg := findTimer(st); arg != nil {
			return ti.eval(arg).asDur(), ""
		}
		switch v := st.(type) {
		case *ast.ReturnStmt:
			return 0, "the timer is not armed when the command is created (no time.NewTimer before the return)"
		case *ast.AssignStmt:
			if len(v.Lhs) != 1 || len(v.Rhs) != 1 {
				ti.fail(st, "assignment shape")
			}
			lhs, ok := v.Lhs[0].(*ast.Ident)
			if !ok {
				ti.fail(st, "assignment target")
			}
			ti.env[lhs.Name] = ti.eval(v.Rhs[0])
		case *ast.IfStmt:
			// a guard with an early return (e.g. a non-positive duration)
			c := ti.eval(v.Cond)
			if c.kind != "bool" {
				ti.fail(st, "condition")
			}
			hasReturn := func(b *ast.BlockStmt) bool {
				found := false
				ast.Inspect(b, func(x ast.Node) bool {
					switch x.(type) {
					case *ast.FuncLit:
						return false
					case *ast.ReturnStmt:
						found = true
					}
					return !found
				})
				return found
			}
			var taken *ast.BlockStmt
			if c.i == 1 {
				taken = v.Body
			} else if eb, ok := v.Else.(*ast.BlockStmt); ok {
				taken = eb
			}
			if taken != nil {
				if arg := findTimer(taken); arg != nil {
					return ti.eval(arg).asDur(), ""
				}
				if hasReturn(taken) {
					return 0, "the timer is not armed when the command is created (guarded early return)"
				}
				ti.block(taken.List) // plain statements (assignments): carry on after the if
			}
		default:
			ti.fail(st, "statement")
		}
	}
	return 0, "no time.NewTimer call"
}
