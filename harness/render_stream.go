package main

// The `render` stream: histories of renderer operations run on a real
// standardRenderer (no ticker; flush where the history says) and, line by
// line, on the Lean model. The Go VT interpreter is the property oracle for
// C06 / C07 / C14 / C19 on the bytes the real renderer wrote.

import (
	"bytes"
	"fmt"
	"strings"
	"sync/atomic"

	tea "github.com/charmbracelet/bubbletea"
)

type rop struct {
	op  string // size w f rp cs ea xa sc hc mc dmc ma dma ms dms bp dbp rf drf pl st ki title
	arg string
	w   int
	h   int
}

func (o rop) String() string {
	switch o.op {
	case "size":
		return fmt.Sprintf("size %d %d", o.w, o.h)
	case "w", "pl", "title":
		return o.op + " " + hexOf([]byte(o.arg))
	}
	return o.op
}

type rhistory struct {
	w, h, r0 int
	ops      []rop
}

func (h rhistory) line() string {
	parts := []string{fmt.Sprintf("%d %d %d", h.w, h.h, h.r0)}
	for _, o := range h.ops {
		parts = append(parts, o.String())
	}
	return strings.Join(parts, " | ")
}

// ---- generator ---------------------------------------------------------------

func genLine(r *rng, w int) string {
	var n int
	switch r.intn(8) {
	case 0:
		n = 0
	case 1:
		n = w - 1
	case 2:
		n = w
	case 3:
		n = w + 1
	case 4:
		n = r.intn(w + 4)
	default:
		n = r.intn(w/2 + 2)
	}
	if n < 0 {
		n = 0
	}
	var sb strings.Builder
	base := r.intn(26)
	styled := r.chance(1, 4) // styled text: SGR sequences take no cell
	sgr := []string{"\x1b[1m", "\x1b[0m", "\x1b[m", "\x1b[38;5;201m", "\x1b[4;31m", "\x1b[48;2;10;20;30m", "\x1b[7m"}
	for i := 0; i < n; i++ {
		if styled && r.chance(1, 4) {
			sb.WriteString(sgr[r.intn(len(sgr))])
		}
		if r.chance(1, 9) {
			sb.WriteByte(' ')
		} else {
			sb.WriteByte(byte('a' + (base+i)%26))
		}
	}
	if styled && r.chance(2, 3) {
		sb.WriteString(sgr[r.intn(3)])
	}
	return sb.String()
}

// visibleOf: what a terminal prints of a line: its bytes without the escape
// sequences (the oracle's own stripper, independent of x/ansi).
func visibleOf(l string) string {
	if !strings.Contains(l, "\x1b") {
		return l
	}
	var sb strings.Builder
	for i := 0; i < len(l); i++ {
		if l[i] == 0x1b {
			if i+1 < len(l) && l[i+1] == '[' {
				j := i + 2
				for j < len(l) && (l[j] < 0x40 || l[j] > 0x7e) {
					j++
				}
				i = j
			} else {
				i++
			}
			continue
		}
		sb.WriteByte(l[i])
	}
	return sb.String()
}

func genView(r *rng, w, h int, prev []string) []string {
	if prev != nil && r.chance(3, 4) {
		v := append([]string(nil), prev...)
		switch r.intn(8) {
		case 0: // change one line
			if len(v) > 0 {
				v[r.intn(len(v))] = genLine(r, w)
			}
		case 1: // drop the last line(s)
			k := r.rangeIn(1, 2)
			if k > len(v) {
				k = len(v)
			}
			v = v[:len(v)-k]
		case 2: // append
			for k := r.rangeIn(1, 3); k > 0; k-- {
				v = append(v, genLine(r, w))
			}
		case 3: // drop the first line
			if len(v) > 0 {
				v = v[1:]
			}
		case 4: // prepend
			v = append([]string{genLine(r, w)}, v...)
		case 5: // identical
		case 6: // change the last line
			if len(v) > 0 {
				v[len(v)-1] = genLine(r, w)
			}
		case 7: // change all but the last
			for i := 0; i+1 < len(v); i++ {
				v[i] = genLine(r, w)
			}
		}
		return v
	}
	n := r.intn(h + 3)
	if r.chance(1, 6) {
		n = r.intn(3)
	}
	v := make([]string, n)
	for i := range v {
		v[i] = genLine(r, w)
	}
	return v
}

// genBigHistory: the same shapes on terminals and views of a realistic size - 40 to 200 columns,
// 40 to 100 rows, views of dozens of lines (many unchanged lines between two changed ones, views
// taller than the window, frames of tens of kilobytes): whatever the renderer does differently for
// "large" has to show here.
func genBigHistory(r *rng, maxOps int) rhistory {
	return genHistorySized(r, maxOps, []int{40, 120, 200}, []int{40, 50, 64, 100})
}

func genHistory(r *rng, maxOps int) rhistory {
	return genHistorySized(r, maxOps, []int{1, 2, 3, 4, 5, 6, 7, 8, 10, 12, 80}, []int{1, 2, 3, 4, 5, 6, 8, 24})
}

func genHistorySized(r *rng, maxOps int, ws, hs []int) rhistory {
	h := rhistory{w: ws[r.intn(len(ws))], h: hs[r.intn(len(hs))]}
	h.r0 = r.intn(h.h)
	h.ops = append(h.ops, rop{op: "size", w: h.w, h: h.h})
	n := r.rangeIn(1, maxOps)
	var prev []string
	var past [][]string
	alt := false
	w, hh := h.w, h.h
	entryW, entryH := w, hh
	leaveAlt := func() {
		// resizes are only in scope while the alt screen is active: give the
		// main screen back at the size it was left with
		if w != entryW || hh != entryH {
			w, hh = entryW, entryH
			h.ops = append(h.ops, rop{op: "size", w: w, h: hh})
		}
	}
	for len(h.ops) < n {
		k := r.intn(100)
		switch {
		case k < 45:
			v := genView(r, w, hh, prev)
			if len(past) > 1 && r.chance(1, 6) {
				// an EARLIER view again (open, fold, open): what the renderer remembers of older frames must not matter
				v = append([]string(nil), past[r.intn(len(past))]...)
			}
			past = append(past, append([]string(nil), v...))
			prev = v
			s := strings.Join(v, "\n")
			if len(v) > 0 && r.chance(1, 3) {
				s += "\n"
			}
			h.ops = append(h.ops, rop{op: "w", arg: s})
			if r.chance(5, 6) {
				h.ops = append(h.ops, rop{op: "f"})
			}
		case k < 55:
			h.ops = append(h.ops, rop{op: "f"})
		case k < 67:
			var parts []string
			for j := r.rangeIn(1, 3); j > 0; j-- {
				switch r.intn(4) {
				case 0:
					parts = append(parts, genLine(r, w))
				case 1:
					parts = append(parts, genLine(r, 2*w+1))
				default:
					parts = append(parts, genLine(r, w+3))
				}
			}
			h.ops = append(h.ops, rop{op: "pl", arg: strings.Join(parts, "\n")})
		case k < 73:
			if alt {
				leaveAlt()
				h.ops = append(h.ops, rop{op: "xa"})
			} else {
				entryW, entryH = w, hh
				h.ops = append(h.ops, rop{op: "ea"})
			}
			alt = !alt
		case k < 76:
			nop := []string{"ea", "xa"}[r.intn(2)] // possibly redundant
			if nop == "xa" && alt {
				leaveAlt()
			}
			if nop == "ea" && !alt {
				entryW, entryH = w, hh
			}
			h.ops = append(h.ops, rop{op: nop})
			alt = nop == "ea"
		case k < 80:
			h.ops = append(h.ops, rop{op: "cs"})
		case k < 84:
			h.ops = append(h.ops, rop{op: "rp"})
		case k < 90:
			if alt {
				nw, nh := ws[r.intn(len(ws))], hs[r.intn(len(hs))]
				switch r.intn(4) { // half of the resizes change one dimension only
				case 0:
					nw = w
				case 1:
					nh = hh
				}
				w, hh = nw, nh
				h.ops = append(h.ops, rop{op: "size", w: w, h: hh})
			}
		default:
			modes := []string{"sc", "hc", "mc", "dmc", "ma", "dma", "ms", "dms", "bp", "dbp", "rf", "drf"}
			h.ops = append(h.ops, rop{op: modes[r.intn(len(modes))]})
		}
	}
	if r.chance(1, 3) {
		v := genView(r, w, hh, prev)
		if len(past) > 1 && r.chance(1, 3) {
			v = append([]string(nil), past[r.intn(len(past))]...) // the final view is one shown before
		}
		s := strings.Join(v, "\n")
		if r.chance(2, 3) {
			s += "\n"
		}
		h.ops = append(h.ops, rop{op: "w", arg: s})
		if r.chance(1, 5) {
			h.ops = append(h.ops, rop{op: "ki"})
		} else {
			h.ops = append(h.ops, rop{op: "st"})
		}
	}
	return h
}

// ---- running the implementation ------------------------------------------------

func applyOp(rd *tea.VerifRenderer, o rop) {
	switch o.op {
	case "size":
		rd.HandleMessages(tea.WindowSizeMsg{Width: o.w, Height: o.h})
	case "w":
		rd.Write(o.arg)
	case "f":
		rd.Flush()
	case "rp":
		rd.HandleMessages(tea.VerifRepaintMsg())
	case "cs":
		rd.ClearScreen()
	case "ea":
		rd.EnterAltScreen()
	case "xa":
		rd.ExitAltScreen()
	case "sc":
		rd.ShowCursor()
	case "hc":
		rd.HideCursor()
	case "mc":
		rd.EnableMouseCellMotion()
	case "dmc":
		rd.DisableMouseCellMotion()
	case "ma":
		rd.EnableMouseAllMotion()
	case "dma":
		rd.DisableMouseAllMotion()
	case "ms":
		rd.EnableMouseSGRMode()
	case "dms":
		rd.DisableMouseSGRMode()
	case "bp":
		rd.EnableBracketedPaste()
	case "dbp":
		rd.DisableBracketedPaste()
	case "rf":
		rd.EnableReportFocus()
	case "drf":
		rd.DisableReportFocus()
	case "pl":
		rd.HandleMessages(tea.VerifPrintLineMsg(o.arg))
	case "st":
		rd.Stop()
	case "ki":
		rd.Kill()
	case "title":
		rd.SetWindowTitle(o.arg)
	}
}

func clipView(s string, w, h int) []string {
	lines := strings.Split(s, "\n")
	if h > 0 && len(lines) > h {
		lines = lines[len(lines)-h:]
	}
	out := make([]string, len(lines))
	for i, l := range lines {
		l = visibleOf(l)
		if w > 0 && len(l) > w {
			l = l[:w]
		}
		out[i] = strings.TrimRight(l, " ")
	}
	return out
}

// clipRaw: the last h lines of a view, not truncated.
func clipRaw(s string, h int) []string {
	lines := strings.Split(s, "\n")
	if h > 0 && len(lines) > h {
		lines = lines[len(lines)-h:]
	}
	return lines
}

func wrapRows(l string, w int) []string {
	l = visibleOf(l)
	if len(l) == 0 {
		return []string{""}
	}
	var out []string
	for len(l) > w {
		out = append(out, strings.TrimRight(l[:w], " "))
		l = l[w:]
	}
	return append(out, strings.TrimRight(l, " "))
}

type renderOutcome struct {
	perOp    []string
	state    string
	failures []finding
	vtDump   string
	vtHashes []string // fingerprint of the terminal state after every operation
}

func fnv1a(s string) uint64 {
	h := uint64(14695981039346656037)
	for i := 0; i < len(s); i++ {
		h = (h ^ uint64(s[i])) * 1099511628211
	}
	return h
}

func stateLine(st tea.VerifRendererState) string {
	return fmt.Sprintf("lines=%d altlines=%d hidden=%t alt=%t bp=%t focus=%t w=%d h=%d queued=%d cache=%t",
		st.LinesRendered, st.AltLinesRendered, st.CursorHidden, st.AltScreenActive, st.BpActive, st.ReportingFocus,
		st.Width, st.Height, len(st.Queued), !st.LastLinesNil)
}

// runHistory runs a history on the real renderer; the VT oracle watches the bytes.
func runHistory(h rhistory) (res renderOutcome) {
	defer func() {
		if v := recover(); v != nil {
			res.perOp = append(res.perOp, panicKind(v))
		}
	}()
	var out bytes.Buffer
	rd := tea.VerifNewRenderer(&out, 60)
	t := newVterm(h.w, h.h)
	// what was on the terminal before the program started
	var above []string
	for i := 0; i < h.r0; i++ {
		l := fmt.Sprintf("init%d", i)
		if len(l) > h.w {
			l = l[:h.w]
		}
		t.write([]byte(l + "\r\n"))
		above = append(above, l)
	}
	var queued []string // printed, not yet shown
	histLine := h.line()
	fail := func(prop, what, exp, obs string) {
		if len(res.failures) < 4 {
			res.failures = append(res.failures, finding{Property: prop, Class: "new", What: what, Input: histLine, Expected: exp, Observed: obs})
			if prop == "C07" { // the final render is a render: C06 speaks about it too
				res.failures = append(res.failures, finding{Property: "C06", Class: "new", What: what, Input: histLine, Expected: exp, Observed: obs})
			}
		}
	}
	curW, curH := h.w, h.h
	viewStart := -1 // absolute row where the inline view starts (for "above" checks)
	// the oracle's own bookkeeping, independent of the renderer's state
	lastWritten := ""     // the most recent view handed to write ("" before any)
	pendingWrite := false // a write happened since the last flush
	var onScreen *string  // the view the oracle knows to be on screen (nil: unknown / disturbed)
	for _, o := range h.ops {
		before := rd.State()
		out.Reset()
		applyOp(rd, o)
		written := append([]byte(nil), out.Bytes()...)
		res.perOp = append(res.perOp, hexOf(written))
		if o.op == "size" {
			curW, curH = o.w, o.h
			t.resize(o.w, o.h)
		}
		t.write(written)
		res.vtHashes = append(res.vtHashes, fmt.Sprint(fnv1a(t.dump())))
		after := rd.State()
		switch o.op {
		case "w":
			lastWritten = o.arg
			if lastWritten == "" {
				lastWritten = " " // an empty view clears the previous one
			}
			pendingWrite = true
		case "ea":
			if !before.AltScreenActive {
				onScreen = nil
			}
		case "xa":
			if before.AltScreenActive {
				onScreen = nil
			}
		case "size", "rp", "st", "ki":
			onScreen = nil // an explicit repaint request, a new size, or the end
		}
		switch o.op {
		case "pl":
			if !before.AltScreenActive {
				queued = append(queued, strings.Split(o.arg, "\n")...)
				onScreen = nil
			}
		case "cs":
			onScreen = nil
			if !before.AltScreenActive {
				viewStart = -1 // the view restarts at the top of the window
				// clearing the screen legitimately erases what is inside the window
				if len(above) > t.main.top {
					above = above[:t.main.top]
				}
				for len(above) < t.main.top {
					above = append(above, "")
				}
			}
		}
		rendered := (o.op == "f" || o.op == "st") && len(written) > 0 && before.Buf != "" && before.Buf != before.LastRender
		// entering the alt screen with printed lines still queued first brings the main screen up to
		// date (a render of the pending view, with the lines above it), then switches
		eaRendered := o.op == "ea" && !before.AltScreenActive && len(queued) > 0 && before.Buf != "" && before.Buf != before.LastRender
		if eaRendered {
			rendered = true
		}
		if o.op == "f" || o.op == "st" {
			flushBytes := len(written)
			if o.op == "st" && flushBytes >= 5 {
				flushBytes -= 5 // stop's own erase-line + CR
			}
			if pendingWrite && onScreen != nil && lastWritten == *onScreen {
				// C19: rendering a view identical to the one on screen writes nothing
				if flushBytes != 0 {
					fail("C19", "rendering a view identical to the one on screen wrote bytes", "no output", fmt.Sprintf("%d bytes", flushBytes))
				}
			} else if pendingWrite && onScreen != nil && (len(queued) == 0 || before.AltScreenActive) {
				// (printed lines still queued do not concern the alt screen: they are shown, if at
				// all, on the main screen)
				// C19: unchanged lines are not retransmitted
				oldL, newL := clipRaw(*onScreen, curH), clipRaw(lastWritten, curH)
				budget := len(newL) + 16 + 2*len(fmt.Sprint(len(oldL)+curW))
				for i, l := range newL {
					if i >= len(oldL) || oldL[i] != l || (len(oldL) > len(newL) && i == len(newL)-1) {
						budget += len(l) + 9
					}
				}
				if flushBytes > budget {
					fail("C19", "unchanged lines were retransmitted (bytes written exceed the changed lines plus per-line overhead)", fmt.Sprintf("<= %d bytes", budget), fmt.Sprintf("%d bytes", flushBytes))
				}
			}
			if pendingWrite && !rendered && o.op == "f" && (onScreen == nil || lastWritten != *onScreen) && len(written) == 0 && before.Buf != "" {
				fail("C07", "a flush did not paint the latest view although it differs from what is on screen", fmt.Sprintf("%q", lastWritten), "no output")
			}
		}
		if o.op != "f" && o.op != "st" && o.op != "title" && !eaRendered && len(written) > 48 {
			// C19: the view is painted by the ticker's flush (and by stop, and by entering the alt screen
			// when printed lines are pending), never by another operation: those write their own short
			// control sequences only (the longest, entering the alt screen, has 21 bytes)
			fail("C19", "an operation other than a flush painted (a render outside the frame ticker): `"+o.op+"`", "at most its own control sequences (<= 48 bytes)", fmt.Sprintf("%d bytes: %s", len(written), hexOf(written)))
		}
		if (o.op == "f" || o.op == "st") && !before.AltScreenActive && len(queued) > 0 && before.Buf != "" && !rendered {
			// C14: a flush of a pending view prints the queued lines, also when the view itself
			// is byte-identical to the one on screen
			fail("C14", "a printed line was not shown by the next flush of a pending view (it stays queued; lost if the program ends now)",
				fmt.Sprintf("%d queued lines printed above the view", len(queued)), "the flush wrote nothing")
		}
		if !rendered {
			if o.op == "f" && len(written) != 0 && !(before.Buf != "" && before.Buf != before.LastRender) {
				fail("C19", "flush of an unchanged (or empty) frame wrote bytes", "no output", hexOf(written))
			}
			if o.op != "st" {
				if o.op == "f" {
					pendingWrite = false
				}
				continue
			}
		}
		if len(t.unknown) > 0 {
			fail("C06", "renderer emitted a sequence outside its alphabet", "", strings.Join(t.unknown, ","))
			t.unknown = nil
		}
		expectView := before.Buf
		if pendingWrite {
			if lastWritten != before.Buf {
				fail("C07", "the frame about to be painted is not the latest view written (a later view replaced by an earlier one)", fmt.Sprintf("%q", lastWritten), fmt.Sprintf("%q", before.Buf))
			}
			expectView = lastWritten // what must be shown is the LATEST view, whatever the renderer buffered
		}
		want := clipView(expectView, curW, curH)
		n := len(want)
		if rendered {
			v := expectView
			onScreen = &v
			pendingWrite = false
			if eaRendered {
				onScreen = nil // the alt screen starts blank
			}
		}
		viewProp := "C06"
		if o.op == "st" {
			viewProp = "C07" // the render that stop() performs: the final view
		}
		if rendered && after.AltScreenActive && !eaRendered {
			b := t.alt
			for r := 0; r < curH; r++ {
				exp := ""
				if r < n {
					exp = want[r]
				}
				if o.op == "st" && r == n-1 {
					exp = "" // stop erases the cursor line
				}
				if got := b.text(b.top + r); got != exp {
					fail(viewProp, "alt screen does not show exactly the latest view", fmt.Sprintf("row %d = %q", r, exp), fmt.Sprintf("%q", got))
					break
				}
			}
			if o.op == "f" && (b.cr-b.top != n-1 || b.cc != 0) {
				fail("C06", "alt screen cursor not at the first column of the view's last row", fmt.Sprintf("(%d,0)", n-1), fmt.Sprintf("(%d,%d)", b.cr-b.top, b.cc))
			}
		} else if rendered {
			b := t.main
			printedRows := 0
			if len(queued) > 0 {
				for _, q := range queued {
					rows := wrapRows(q, curW)
					printedRows += len(rows)
					above = append(above, rows...)
				}
				queued = nil
			}
			endRow := b.cr // the view's last row is the cursor row after a flush
			if o.op == "st" {
				endRow = b.cr
			}
			start := endRow - n + 1
			// C06: the view keeps its first row (it moves down only by the rows printed above it)
			if viewStart >= 0 && start != viewStart+printedRows {
				fail("C06", "the inline view does not start on the row it started on before (plus the rows printed above it)", fmt.Sprintf("row %d", viewStart+printedRows), fmt.Sprintf("row %d", start))
			}
			viewStart = start
			for i := 0; i < n; i++ {
				got := b.text(start + i)
				exp := want[i]
				if o.op == "st" && i == n-1 {
					exp = "" // stop erases the cursor line
				}
				if got != exp {
					fail(viewProp, "inline view rows do not show exactly the latest view", fmt.Sprintf("view line %d = %q", i, exp), fmt.Sprintf("%q", got))
					if printedRows > 0 {
						// C14 (round 16, C14-p): "directly above the live view" - what lies below the lines this frame printed must BE the view
						fail("C14", "the rows directly below the lines printed in this frame are not the live view", fmt.Sprintf("view line %d = %q below the printed lines", i, exp), fmt.Sprintf("%q", got))
					}
					break
				}
			}
			if b.cc != 0 || b.pw {
				fail("C06", "cursor does not rest at the first column after a render", "col 0", fmt.Sprintf("col %d pw=%t", b.cc, b.pw))
			}
			for r := endRow + 1; r < b.top+curH; r++ {
				if got := b.text(r); got != "" {
					fail("C06", "stale content remains below the view", fmt.Sprintf("row +%d blank", r-endRow), fmt.Sprintf("%q", got))
					break
				}
			}
			// rows above the view: what was there before plus the printed lines, once, in order
			if start >= 0 {
				for r := 0; r < start; r++ {
					exp := ""
					if r < len(above) {
						exp = above[r]
					}
					if got := b.text(r); got != exp {
						prop := "C14"
						fail(prop, "rows above the view are not the earlier output followed by the printed lines", fmt.Sprintf("row %d = %q", r, exp), fmt.Sprintf("%q", got))
						break
					}
				}
				if len(above) > start {
					fail("C14", "a printed line is missing above the view (overwritten by the view)", fmt.Sprintf("%d rows above", len(above)), fmt.Sprintf("view starts at row %d", start))
				}
			}
		}
	}
	res.state = stateLine(rd.State())
	res.vtDump = t.dump()
	return res
}

func streamRender(c *corrOut, r *rng, n int, thorough bool) map[string]interface{} {
	// fixed corpus first: the shapes the properties single out
	corpus := []rhistory{
		{w: 10, h: 5, r0: 0, ops: []rop{{op: "size", w: 10, h: 5}, {op: "w", arg: "aaa\nbbb\nccc"}, {op: "f"}, {op: "w", arg: "aaa\nbbb"}, {op: "f"}}},
		{w: 10, h: 5, r0: 0, ops: []rop{{op: "size", w: 10, h: 5}, {op: "w", arg: "aaa\n0123456789\nccc"}, {op: "f"}, {op: "w", arg: "aaa\n0123456789"}, {op: "f"}}},
		{w: 10, h: 6, r0: 0, ops: []rop{{op: "size", w: 10, h: 6}, {op: "w", arg: "aaa\nbbb\nccc\nddd"}, {op: "f"}, {op: "pl", arg: "0123456789ab"}, {op: "w", arg: "aaa\nbbb\nccc\nddd"}, {op: "f"}}},
		{w: 5, h: 3, r0: 2, ops: []rop{{op: "size", w: 5, h: 3}, {op: "w", arg: "a\nb\nc\nd\ne"}, {op: "f"}, {op: "w", arg: ""}, {op: "f"}}},
		// open, fold, open again, quit: the final view equals an older frame beyond the end of the previous one
		{w: 10, h: 6, r0: 0, ops: []rop{{op: "size", w: 10, h: 6}, {op: "w", arg: "aaa\nbbb\nccc\nddd\n"}, {op: "f"}, {op: "w", arg: "aaa\n"}, {op: "f"}, {op: "w", arg: "aaa\nbbb\nccc\nddd\n"}, {op: "st"}}},
		{w: 10, h: 6, r0: 1, ops: []rop{{op: "size", w: 10, h: 6}, {op: "w", arg: "aaa\nbbb\nccc\nddd"}, {op: "f"}, {op: "w", arg: "xxx\nbbb"}, {op: "f"}, {op: "w", arg: "yyy\nbbb\nccc\nddd"}, {op: "f"}, {op: "w", arg: "yyy\nbbb\nccc\nddd\n"}, {op: "st"}}},
		{w: 10, h: 6, r0: 0, ops: []rop{{op: "size", w: 10, h: 6}, {op: "ea"}, {op: "w", arg: "aaa\nbbb\nccc\nddd"}, {op: "f"}, {op: "w", arg: "aaa"}, {op: "f"}, {op: "w", arg: "aaa\nbbb\nccc\nddd"}, {op: "f"}, {op: "xa"}, {op: "w", arg: "q\n"}, {op: "st"}}},
		// a ClearScreen while a different frame (sharing lines with the one on screen) is pending, then the render / the quit
		{w: 10, h: 6, r0: 0, ops: []rop{{op: "size", w: 10, h: 6}, {op: "w", arg: "head\naaa\nfoot\n"}, {op: "f"}, {op: "w", arg: "head\nbbb\nfoot\n"}, {op: "cs"}, {op: "f"}}},
		{w: 10, h: 6, r0: 2, ops: []rop{{op: "size", w: 10, h: 6}, {op: "w", arg: "head\naaa\nfoot\n"}, {op: "f"}, {op: "w", arg: "head\nbbb\nfoot\n"}, {op: "cs"}, {op: "st"}}},
		{w: 10, h: 6, r0: 0, ops: []rop{{op: "size", w: 10, h: 6}, {op: "ea"}, {op: "w", arg: "head\naaa\nfoot"}, {op: "f"}, {op: "w", arg: "head\nbbb\nfoot"}, {op: "cs"}, {op: "f"}}},
		// an inline frame, a visit to the alt screen with a ClearScreen there, back, the next inline frame
		{w: 10, h: 6, r0: 1, ops: []rop{{op: "size", w: 10, h: 6}, {op: "w", arg: "one\ntwo\nthree"}, {op: "f"}, {op: "ea"}, {op: "cs"}, {op: "xa"}, {op: "w", arg: "uno\ndos\ntres"}, {op: "f"}}},
		{w: 4, h: 4, r0: 1, ops: []rop{{op: "size", w: 4, h: 4}, {op: "ea"}, {op: "w", arg: "abcdef\nxy"}, {op: "f"}, {op: "size", w: 3, h: 2}, {op: "w", arg: "abcdef\nxy\nz"}, {op: "f"}, {op: "xa"}, {op: "w", arg: "q"}, {op: "st"}}},
	}
	{
		// a frame of 40 KB (400 lines of 100 columns) painted, changed and painted again at once, then
		// a different big view as the final one: size must not matter to what is painted when
		var big1, big2 []string
		for i := 0; i < 400; i++ {
			big1 = append(big1, fmt.Sprintf("%03d ", i)+strings.Repeat(string(rune('a'+i%26)), 96))
			big2 = append(big2, fmt.Sprintf("%03d ", i)+strings.Repeat(string(rune('A'+i%26)), 96))
		}
		corpus = append(corpus,
			rhistory{w: 120, h: 500, r0: 0, ops: []rop{{op: "size", w: 120, h: 500}, {op: "w", arg: "small"}, {op: "f"}, {op: "w", arg: strings.Join(big1, "\n")}, {op: "f"}, {op: "w", arg: strings.Join(big2, "\n") + "\n"}, {op: "st"}}},
			rhistory{w: 120, h: 50, r0: 3, ops: []rop{{op: "size", w: 120, h: 50}, {op: "ea"}, {op: "w", arg: strings.Join(big1, "\n")}, {op: "f"}, {op: "w", arg: strings.Join(big2, "\n")}, {op: "f"}, {op: "w", arg: strings.Join(big1[:45], "\n") + "\n"}, {op: "st"}}})
	}
	// a line printed BEFORE the window size is known (Println from Init: the first WindowSizeMsg comes
	// later), flushed after: it is laid out for the width the terminal has when it is written
	corpus = append(corpus,
		rhistory{w: 10, h: 6, r0: 0, ops: []rop{{op: "pl", arg: "0123456789ab"}, {op: "size", w: 10, h: 6}, {op: "w", arg: "aaa\nbbb"}, {op: "f"}, {op: "w", arg: "aaa\nccc"}, {op: "f"}}},
		rhistory{w: 10, h: 6, r0: 1, ops: []rop{{op: "pl", arg: "0123456789"}, {op: "pl", arg: "xy"}, {op: "size", w: 10, h: 6}, {op: "w", arg: "v"}, {op: "f"}}},
		// a line printed at one width and written at another (the window shrinks from 20 to 10 columns between
		// the print and the frame; every line on the screen is at most 10 cells, so no terminal would reflow
		// anything): a line that exactly fills the NEW width is laid out for the new width
		rhistory{w: 20, h: 6, r0: 0, ops: []rop{{op: "size", w: 20, h: 6}, {op: "w", arg: "aaa\nbbb"}, {op: "f"}, {op: "pl", arg: "0123456789"}, {op: "size", w: 10, h: 6}, {op: "w", arg: "aaa\nccc"}, {op: "f"}}},
		rhistory{w: 20, h: 6, r0: 1, ops: []rop{{op: "size", w: 20, h: 6}, {op: "w", arg: "aaaaaaaa\nbbb"}, {op: "f"}, {op: "pl", arg: "0123456789"}, {op: "pl", arg: "xy"}, {op: "size", w: 10, h: 6}, {op: "w", arg: "aaa\nccc"}, {op: "f"}}})
	run := func(h rhistory, bucket string) {
		res := runHistory(h)
		c.emit(h.line(), strings.Join(res.perOp, " | ")+" # "+res.state, bucket)
		for _, f := range res.failures {
			c.addFinding(f)
		}
	}
	for _, h := range corpus {
		run(h, "corpus")
	}
	twoRenderersSlowTerminal(c)
	maxOps := 40
	for c.count < n {
		if c.count%12 == 5 {
			run(genBigHistory(r, 14), "big")
			continue
		}
		h := genHistory(r, maxOps)
		bucket := fmt.Sprintf("w%d", h.w)
		if h.w > 12 {
			bucket = "w80"
		}
		run(h, bucket)
	}
	return nil
}

// streamVT: the implementation's bytes through the Go VT interpreter vs the
// model's operations through the Lean terminal semantics (final terminal state).
func streamVT(c *corrOut, r *rng, n int, thorough bool) map[string]interface{} {
	for c.count < n {
		h := genHistory(r, 30)
		bucket := fmt.Sprintf("w%d", h.w)
		if c.count%300 == 5 {
			// (few: the Lean terminal semantics keeps its cells as a function and is slow on screens
			// of this size; the byte-level `render` stream carries the bulk of the big histories)
			h, bucket = genBigHistory(r, 10), "big"
		}
		res := runHistory(h)
		c.emit(h.line(), strings.Join(res.vtHashes, ",")+" # "+res.vtDump, bucket)
	}
	return nil
}

func init() {
	streams["render"] = streamRender
	streams["vt"] = streamVT
}

// ---- two renderers in one process ----------------------------------------------------------------

// heldWriter: Write blocks (with the bytes already handed over by the caller) until released.
type heldWriter struct {
	buf     bytes.Buffer
	arrived chan struct{}
	release chan struct{}
	hold    int32
}

func (w *heldWriter) Write(p []byte) (int, error) {
	if atomic.CompareAndSwapInt32(&w.hold, 1, 0) {
		close(w.arrived)
		<-w.release
	}
	return w.buf.Write(p)
}

// twoRenderersSlowTerminal: two renderers (two programs) in one process. A's terminal is slow: its
// Write is in progress while B renders several different frames; then A's terminal goes on. Each
// terminal shows exactly its own program's latest view (C06), and A's next one-line change costs
// no more than that line (C19) - nothing of a frame is shared between renderers.
func twoRenderersSlowTerminal(c *corrOut) {
	for rep := 0; rep < 3; rep++ {
		wa := &heldWriter{arrived: make(chan struct{}), release: make(chan struct{})}
		var wb bytes.Buffer
		ra, rb := tea.VerifNewRenderer(wa, 60), tea.VerifNewRenderer(&wb, 60)
		for _, r := range []*tea.VerifRenderer{ra, rb} {
			r.HandleMessages(tea.WindowSizeMsg{Width: 30, Height: 10})
		}
		viewA := "alpha\nbeta\ngamma\ndelta"
		ra.Write("a-first\nx")
		ra.Flush()
		atomic.StoreInt32(&wa.hold, 1)
		ra.Write(viewA)
		done := make(chan struct{})
		go func() { ra.Flush(); close(done) }()
		<-wa.arrived
		for k := 0; k < 4+rep; k++ {
			rb.Write(fmt.Sprintf("BBBBBBBBBB %d\nYYYYYYYYYYYY\nZZZZZZZZZZZZZ\nWWWWWWWWWWWWWW\nVVVVV", k))
			rb.Flush()
		}
		close(wa.release)
		<-done
		desc := "two renderers: A's Write of the frame alpha/beta/gamma/delta is in progress while B renders other frames; then A's terminal goes on"
		ta := newVterm(30, 10)
		ta.write(wa.buf.Bytes())
		want := strings.Split(viewA, "\n")
		for i, l := range want {
			if got := ta.main.text(ta.main.cr - len(want) + 1 + i); got != l {
				c.addFinding(finding{Property: "C06", Class: "new", What: "with two programs in one process a terminal does not show its own program's latest view (a frame is shared between renderers)", Input: desc,
					Expected: fmt.Sprintf("line %d = %q", i, l), Observed: fmt.Sprintf("%q", got)})
				break
			}
		}
		// one line of A changes: the other three are not retransmitted
		n0 := wa.buf.Len()
		ra.Write("alpha\nbeta\nGAMMA\ndelta")
		ra.Flush()
		if n := wa.buf.Len() - n0; n > 5+16+8 {
			c.addFinding(finding{Property: "C19", Class: "new", What: "with two programs in one process unchanged lines were retransmitted (what a renderer remembers of its last frame is shared with the other)", Input: desc,
				Expected: "<= 29 bytes for one changed line of 5 cells", Observed: fmt.Sprintf("%d bytes", n)})
		}
	}
}
