package main

// An independent VT interpreter for the byte alphabet the renderer emits.
// It is the property oracle for C05/C06/C07/C12/C14/C17 on the Go side and is
// cross-checked against the Lean terminal semantics by the `vt` stream.

import (
	"fmt"
	"strconv"
	"strings"
	"unicode/utf8"
)

type vbuf struct {
	rows   [][]rune // the tape: absolute rows; missing cells are blank
	top    int      // first row of the window
	cr, cc int      // cursor: absolute row, column
	pw     bool     // pending wrap ("last column flag")
	sr, sc int      // saved cursor (relative row)
	spw    bool
}

type vterm struct {
	w, h      int
	main, alt *vbuf
	onAlt     bool
	cursorVis bool
	modes     map[int]bool // 1002 1003 1006 1004 2004
	title     string
	unknown   []string // sequences outside the alphabet
	pending   []byte   // incomplete escape sequence
	utf8      bool     // decode UTF-8 and give wide characters two cells
}

func newVterm(w, h int) *vterm {
	return &vterm{w: w, h: h, main: &vbuf{}, alt: &vbuf{}, cursorVis: true, modes: map[int]bool{}}
}

func (t *vterm) buf() *vbuf {
	if t.onAlt {
		return t.alt
	}
	return t.main
}

func (b *vbuf) row(r int) []rune {
	for len(b.rows) <= r {
		b.rows = append(b.rows, nil)
	}
	return b.rows[r]
}

func (b *vbuf) set(r, c int, ch rune) {
	row := b.row(r)
	for len(row) <= c {
		row = append(row, ' ')
	}
	row[c] = ch
	b.rows[r] = row
}

func (b *vbuf) text(r int) string {
	if r < 0 || r >= len(b.rows) {
		return ""
	}
	row := b.rows[r]
	for _, ch := range row {
		if ch == 0 { // continuation cells of wide characters are not characters
			out := make([]rune, 0, len(row))
			for _, c := range row {
				if c != 0 {
					out = append(out, c)
				}
			}
			return strings.TrimRight(string(out), " ")
		}
	}
	return strings.TrimRight(string(row), " ")
}

func (t *vterm) lineFeed() {
	b := t.buf()
	if b.cr == b.top+t.h-1 {
		b.top++ // scroll: the top row moves into the scroll-back
	}
	b.cr++
	b.row(b.cr)
}

func (t *vterm) put(ch rune) {
	b := t.buf()
	if b.pw {
		b.cc = 0
		b.pw = false
		t.lineFeed()
	}
	b.set(b.cr, b.cc, ch)
	if b.cc >= t.w-1 {
		b.pw = true
	} else {
		b.cc++
	}
}

func (t *vterm) eraseLine(r, from, to int) {
	b := t.buf()
	row := b.row(r)
	for c := from; c < to && c < len(row); c++ {
		row[c] = ' '
	}
}

func (t *vterm) resize(w, h int) {
	// no reflow: rows are cut at the new width, rows below the new bottom are dropped,
	// the window keeps its top, the cursor is clamped
	t.w, t.h = w, h
	// only the active buffer is cut; the inactive one is kept as it is (the
	// histories restore the size before switching back)
	for _, b := range []*vbuf{t.buf()} {
		if b.cc > w-1 {
			b.cc = w - 1
		}
		if b.cr > b.top+h-1 {
			b.cr = b.top + h - 1
		}
		b.pw = false
		for i := range b.rows {
			if len(b.rows[i]) > w {
				b.rows[i] = b.rows[i][:w]
			}
			if i >= b.top+h {
				b.rows[i] = nil // rows below the new bottom are dropped
			}
		}
	}
}

func (t *vterm) write(p []byte) {
	data := append(t.pending, p...)
	t.pending = nil
	i := 0
	for i < len(data) {
		c := data[i]
		switch {
		case c == 0x1b:
			n, ok := t.escape(data[i:])
			if !ok {
				t.pending = append([]byte(nil), data[i:]...)
				return
			}
			i += n
		case c == '\r':
			b := t.buf()
			b.cc, b.pw = 0, false
			i++
		case c == '\n':
			t.buf().pw = false
			t.lineFeed()
			i++
		case c == 0x7f && t.utf8:
			i++ // DEL: a terminal ignores it (no cell, no movement)
		case c < 0x20 || c == 0x7f:
			t.unknown = append(t.unknown, fmt.Sprintf("ctl %#x", c))
			i++
		case c >= 0x80 && t.utf8:
			// (only the `wide` scenario switches this on: the streams that are compared with the
			// Lean terminal semantics keep one cell per byte)
			if !utf8.FullRune(data[i:]) {
				t.pending = append([]byte(nil), data[i:]...)
				return
			}
			r, n := utf8.DecodeRune(data[i:])
			t.putWide(r, runeCells(r))
			i += n
		default:
			t.put(rune(c))
			i++
		}
	}
}

// runeCells: the cells a character takes (the oracle's own table: CJK ideographs, Hangul,
// full-width forms and the common emoji block take two; everything else generated here one).
func runeCells(r rune) int {
	switch {
	case r >= 0x1100 && r <= 0x115f, r >= 0x2e80 && r <= 0xa4cf, r >= 0xac00 && r <= 0xd7a3,
		r >= 0xf900 && r <= 0xfaff, r >= 0xfe30 && r <= 0xfe6f, r >= 0xff00 && r <= 0xff60,
		r >= 0xffe0 && r <= 0xffe6, r >= 0x1f300 && r <= 0x1f64f:
		return 2
	}
	return 1
}

// putWide prints a character of 1 or 2 cells (xterm: a wide character that does not fit in
// the last column wraps first; its second cell holds the continuation marker 0).
func (t *vterm) putWide(ch rune, cells int) {
	if cells == 1 {
		t.put(ch)
		return
	}
	b := t.buf()
	if b.pw || b.cc+2 > t.w {
		b.cc = 0
		b.pw = false
		t.lineFeed()
	}
	b.set(b.cr, b.cc, ch)
	b.set(b.cr, b.cc+1, 0)
	if b.cc+2 >= t.w {
		b.cc = t.w - 1
		b.pw = true
	} else {
		b.cc += 2
	}
}

// escape interprets one escape sequence at the start of d.
func (t *vterm) escape(d []byte) (int, bool) {
	if len(d) < 2 {
		return 0, false
	}
	switch d[1] {
	case '[':
		j := 2
		for j < len(d) && d[j] >= 0x30 && d[j] <= 0x3f {
			j++
		}
		for j < len(d) && d[j] >= 0x20 && d[j] <= 0x2f {
			j++
		}
		if j >= len(d) {
			return 0, false
		}
		t.csi(string(d[2:j]), d[j])
		return j + 1, true
	case ']':
		for j := 2; j < len(d); j++ {
			if d[j] == 0x07 {
				t.osc(string(d[2:j]))
				return j + 1, true
			}
			if d[j] == 0x1b && j+1 < len(d) && d[j+1] == '\\' {
				t.osc(string(d[2:j]))
				return j + 2, true
			}
		}
		return 0, false
	}
	t.unknown = append(t.unknown, fmt.Sprintf("ESC %q", d[1]))
	return 2, true
}

func (t *vterm) osc(s string) {
	if strings.HasPrefix(s, "2;") || strings.HasPrefix(s, "0;") {
		t.title = s[2:]
		return
	}
	t.unknown = append(t.unknown, "OSC "+s)
}

func numArg(s string, def int) int {
	if s == "" {
		return def
	}
	n, err := strconv.Atoi(s)
	if err != nil {
		return def
	}
	return n
}

func (t *vterm) csi(params string, final byte) {
	b := t.buf()
	if strings.HasPrefix(params, "?") {
		n := numArg(params[1:], -1)
		set := final == 'h'
		if final != 'h' && final != 'l' {
			t.unknown = append(t.unknown, "CSI "+params+string(final))
			return
		}
		switch n {
		case 25:
			t.cursorVis = set
		case 1002, 1003, 1006, 1004, 2004:
			t.modes[n] = set
		case 1049:
			if set && !t.onAlt {
				t.main.sr, t.main.sc, t.main.spw = t.main.cr-t.main.top, t.main.cc, t.main.pw
				t.onAlt = true
				t.alt = &vbuf{}
			} else if !set && t.onAlt {
				t.onAlt = false
				t.main.cr, t.main.cc, t.main.pw = t.main.top+t.main.sr, t.main.sc, t.main.spw
			}
		default:
			t.unknown = append(t.unknown, "DECSET "+params+string(final))
		}
		return
	}
	switch final {
	case 'm':
		// SGR (styling inside content): takes no cell; cell attributes are not modelled
	case 'A':
		n := numArg(params, 1)
		if n == 0 {
			n = 1
		}
		b.cr -= n
		if b.cr < b.top {
			b.cr = b.top
		}
		b.pw = false
	case 'B':
		n := numArg(params, 1)
		if n == 0 {
			n = 1
		}
		b.cr += n
		if b.cr > b.top+t.h-1 {
			b.cr = b.top + t.h - 1
		}
		b.row(b.cr)
		b.pw = false
	case 'D':
		n := numArg(params, 1)
		if n == 0 {
			n = 1
		}
		b.cc -= n
		if b.cc < 0 {
			b.cc = 0
		}
		b.pw = false
	case 'C':
		n := numArg(params, 1)
		if n == 0 {
			n = 1
		}
		b.cc += n
		if b.cc > t.w-1 {
			b.cc = t.w - 1
		}
		b.pw = false
	case 'H':
		parts := strings.Split(params, ";")
		r, c := 1, 1
		if len(parts) > 0 {
			r = numArg(parts[0], 1)
		}
		if len(parts) > 1 {
			c = numArg(parts[1], 1)
		}
		if r < 1 {
			r = 1
		}
		if c < 1 {
			c = 1
		}
		if r > t.h {
			r = t.h
		}
		if c > t.w {
			c = t.w
		}
		b.cr, b.cc, b.pw = b.top+r-1, c-1, false
		b.row(b.cr)
	case 'K':
		switch numArg(params, 0) {
		case 0:
			t.eraseLine(b.cr, b.cc, t.w)
		case 1:
			t.eraseLine(b.cr, 0, b.cc+1)
		case 2:
			t.eraseLine(b.cr, 0, t.w)
		}
	case 'J':
		switch numArg(params, 0) {
		case 0:
			t.eraseLine(b.cr, b.cc, t.w)
			for r := b.cr + 1; r < b.top+t.h; r++ {
				t.eraseLine(r, 0, t.w)
			}
		case 2:
			for r := b.top; r < b.top+t.h; r++ {
				t.eraseLine(r, 0, t.w)
			}
		default:
			t.unknown = append(t.unknown, "ED "+params)
		}
	default:
		t.unknown = append(t.unknown, "CSI "+params+string(final))
	}
}

// dump prints the whole state canonically (used by the `vt` stream).
func (t *vterm) dump() string {
	var sb strings.Builder
	fmt.Fprintf(&sb, "alt=%t vis=%t m1002=%t m1003=%t m1006=%t m1004=%t m2004=%t", t.onAlt, t.cursorVis,
		t.modes[1002], t.modes[1003], t.modes[1006], t.modes[1004], t.modes[2004])
	for name, b := range map[string]*vbuf{"main": t.main} {
		fmt.Fprintf(&sb, " %s:top=%d cur=%d,%d pw=%t rows=", name, b.top, b.cr, b.cc, b.pw)
		last := len(b.rows) - 1
		for last >= 0 && b.text(last) == "" {
			last--
		}
		for r := 0; r <= last; r++ {
			sb.WriteString(hexOf([]byte(b.text(r))))
			sb.WriteByte(',')
		}
	}
	b := t.alt
	fmt.Fprintf(&sb, " alt:top=%d cur=%d,%d pw=%t rows=", b.top, b.cr, b.cc, b.pw)
	last := len(b.rows) - 1
	for last >= 0 && b.text(last) == "" {
		last--
	}
	for r := 0; r <= last; r++ {
		sb.WriteString(hexOf([]byte(b.text(r))))
		sb.WriteByte(',')
	}
	return sb.String()
}
