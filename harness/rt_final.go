package main

// C07: on quit the final model's view is on screen, whatever the timing.

import (
	"fmt"
	"strings"
	"time"

	tea "github.com/charmbracelet/bubbletea"
)

func init() { scenarios["final"] = scenFinal }

func scenFinal(out *scenOut, r *rng, thorough bool) {
	out.Rule = "real programs at fps in {1,60,120}, 0..120 updates sent as fast as possible, quit immediately after the last one (Quit() or a quit command returned by the last Update), fast or slow output writer; the Go VT interpreter is fed everything written until Run returns. distinct = (fps, updates, view shape, quit style)"
	quietStdio()
	n := 30
	if thorough {
		n = 300
	}
	for i := 0; i < n; i++ {
		fps := []int{1, 60, 120}[r.intn(3)]
		updates := []int{0, 1, 2, 5, 20, 120}[r.intn(6)]
		shape := r.intn(4)
		finalOnce(out, fps, updates, shape, r.chance(1, 2), r.chance(1, 4))
	}
}

func finalView(shape, updates int) string {
	switch shape {
	case 0:
		return fmt.Sprintf("count %d\nsecond\n", updates)
	case 1: // shrinks and grows with the count, no trailing newline
		lines := []string{fmt.Sprintf("count %d", updates)}
		for k := 0; k < (updates*7)%5; k++ {
			lines = append(lines, fmt.Sprintf("row %d", k))
		}
		return strings.Join(lines, "\n")
	case 2: // lines get shorter
		return strings.Repeat("x", 30-updates%25) + "\nend\n"
	default:
		return fmt.Sprintf("a\n\nb %d\n", updates%3)
	}
}

func finalOnce(out *scenOut, fps, updates, shape int, quitCmd, slowWriter bool) {
	ctl := newRecCtl()
	buf := &safeBuffer{}
	ctl.viewOf = func(version, ups int) string { return finalView(shape, ups-1) } // (-1: the size message)
	ctl.onUpdate = func(m tea.Msg, v int) tea.Cmd {
		if u, ok := m.(userMsg); ok && quitCmd && u.Sender == 0 && u.Seq == updates-1 {
			return tea.Quit
		}
		return nil
	}
	desc := fmt.Sprintf("fps=%d updates=%d shape=%d quit-by-command=%t slow-writer=%t", fps, updates, shape, quitCmd, slowWriter)
	var w *slowBuf
	opts := []tea.ProgramOption{tea.WithInput(nil), tea.WithoutSignalHandler(), tea.WithFPS(fps)}
	if slowWriter {
		w = &slowBuf{b: buf}
		opts = append(opts, tea.WithOutput(w))
	}
	var run *progRun
	if slowWriter {
		p := tea.NewProgram(recModel{c: ctl}, opts...)
		run = &progRun{p: p, ctl: ctl, out: buf, done: make(chan struct{})}
		go func() { defer close(run.done); run.model, run.err = p.Run() }()
	} else {
		run = startProgram(ctl, buf, opts...)
	}
	run.p.Send(tea.WindowSizeMsg{Width: 40, Height: 12})
	for k := 0; k < updates; k++ {
		run.p.Send(userMsg{0, k})
	}
	if !quitCmd || updates == 0 {
		run.p.Quit()
	}
	if !run.wait(8 * time.Second) {
		out.fail(finding{Property: "C07", Class: "new", What: "Run did not return after quit", Input: desc})
		return
	}
	out.record(desc, desc)
	t := newVterm(40, 12)
	t.write([]byte(buf.String()))
	v := finalView(shape, updates)
	lines := strings.Split(v, "\n")
	term := lines[:len(lines)-1] // newline-terminated lines
	b := t.main
	start := b.cr - len(term)
	if start < 0 {
		out.fail(finding{Property: "C07", Class: "new", What: "cursor not parked below the final view", Input: desc, Observed: fmt.Sprintf("cursor row %d, %d terminated lines", b.cr, len(term))})
		return
	}
	for i, l := range term {
		if got := b.text(start + i); got != strings.TrimRight(l, " ") {
			out.fail(finding{Property: "C07", Class: "new", What: "the final model's view is not what the terminal shows when Run returns", Input: desc,
				Expected: fmt.Sprintf("line %d = %q", i, l), Observed: fmt.Sprintf("%q", got)})
			return
		}
	}
	if b.cc != 0 || b.text(b.cr) != "" {
		out.fail(finding{Property: "C07", Class: "new", What: "cursor not at the first column of an empty line after the view", Input: desc,
			Observed: fmt.Sprintf("col %d, row text %q", b.cc, b.text(b.cr))})
	}
	for rrow := b.cr + 1; rrow < b.top+12; rrow++ {
		if b.text(rrow) != "" {
			out.fail(finding{Property: "C07", Class: "new", What: "stale content of an earlier view remains below the final view", Input: desc, Observed: b.text(rrow)})
			break
		}
	}
}

// slowBuf delays every write (a slow terminal).
type slowBuf struct{ b *safeBuffer }

func (s *slowBuf) Write(p []byte) (int, error) {
	time.Sleep(2 * time.Millisecond)
	return s.b.Write(p)
}
