package main

// C07: on quit the final model's view is on screen, whatever the timing.

import (
	"fmt"
	"strings"
	"sync"
	"sync/atomic"
	"time"

	tea "github.com/charmbracelet/bubbletea"
)

func init() { scenarios["final"] = scenFinal }

func scenFinal(out *scenOut, r *rng, thorough bool) {
	out.Rule = "real programs at fps in {1,60,120}, 0..120 updates sent as fast as possible, quit immediately after the last one (Quit() or a quit command returned by the last Update), fast or slow output writer; the Go VT interpreter is fed everything written until Run returns. distinct = (fps, updates, view shape, quit style)"
	quietStdio()
	n := 30
	if thorough {
		n = 300
	}
	for i := 0; i < n; i++ {
		fps := []int{1, 60, 120}[r.intn(3)]
		updates := []int{0, 1, 2, 5, 20, 120}[r.intn(6)]
		shape := r.intn(4)
		finalOnce(out, fps, updates, shape, r.chance(1, 2), r.chance(1, 4))
	}
	// the window inside a frame's output: the writer is held in the middle of painting
	// a frame while the last updates and the quit arrive
	g := 6
	if thorough {
		g = 40
	}
	for i := 0; i < g; i++ {
		fps := []int{60, 120}[r.intn(2)]
		updates := []int{1, 2, 5, 20}[r.intn(4)]
		finalGated(out, fps, updates, r.intn(2), r.chance(1, 2))
	}
	for _, u := range []int{2, 5} {
		finalReleased(out, u, r.intn(2))
	}
	for _, u := range []int{1, 3} {
		finalKilledDuringLastView(out, u, r.intn(2))
	}
	finalKillHoldsRenderer(out, r.intn(2))
}

// finalKilledDuringLastView: the quit message has been handled (Run's result is decided: a
// clean quit) and a Kill arrives while Run evaluates the final View. Run still reports the
// quit, so the final view must be what the terminal shows.
func finalKilledDuringLastView(out *scenOut, updates, shape int) {
	ctl := newRecCtl()
	buf := &safeBuffer{}
	var quitSeen, killed int32
	var run *progRun
	ready := make(chan struct{})
	ctl.viewOf = func(version, ups int) string {
		if atomic.LoadInt32(&quitSeen) == 1 && atomic.CompareAndSwapInt32(&killed, 0, 1) {
			<-ready
			killNow(run.p) // (returns when the teardown it started is complete)
		}
		return finalView(shape, ups-1) // (-1: the size message)
	}
	filter := func(_ tea.Model, m tea.Msg) tea.Msg {
		if _, ok := m.(tea.QuitMsg); ok {
			atomic.StoreInt32(&quitSeen, 1)
		}
		return m
	}
	desc := fmt.Sprintf("kill-during-final-view updates=%d shape=%d", updates, shape)
	run = startProgram(ctl, buf, tea.WithInput(nil), tea.WithoutSignalHandler(), tea.WithFPS(60), tea.WithFilter(filter))
	close(ready)
	run.p.Send(tea.WindowSizeMsg{Width: 80, Height: 24})
	for k := 0; k < updates; k++ {
		run.p.Send(userMsg{0, k})
	}
	run.p.Send(tea.Quit())
	if !run.wait(8 * time.Second) {
		out.fail(finding{Property: "C07", Class: "new", What: "Run did not return after quit (Kill during the final View)", Input: desc})
		return
	}
	out.record(desc, fmt.Sprintf("killed-in-final-view updates=%d shape=%d", updates, shape))
	if atomic.LoadInt32(&killed) != 1 {
		return
	}
	if got := errClass(run.err); got != "nil" {
		// the kill won after all: the final view is not promised
		return
	}
	checkFinalScreen(out, desc, buf.String(), finalView(shape, updates), 80, 24)
}

// finalReleased: the program quits while its terminal is released (ReleaseTerminal without a
// RestoreTerminal: the renderer has already been stopped once); the updates that arrived
// meanwhile must still be on screen when Run returns.
func finalReleased(out *scenOut, updates, shape int) {
	ctl := newRecCtl()
	buf := &safeBuffer{}
	ctl.viewOf = func(version, ups int) string { return finalView(shape, ups-1) } // (-1: the size message)
	desc := fmt.Sprintf("quit-while-released updates=%d shape=%d", updates, shape)
	run := startProgram(ctl, buf, tea.WithInput(nil), tea.WithoutSignalHandler(), tea.WithFPS(120))
	run.p.Send(tea.WindowSizeMsg{Width: 80, Height: 24})
	run.p.Send(userMsg{0, 0})
	waitFor(2*time.Second, func() bool { return strings.Contains(buf.String(), "count 1") })
	if err := run.p.ReleaseTerminal(); err != nil {
		out.record(desc+" (release failed: "+err.Error()+")", "released-none")
		killNow(run.p)
		run.wait(3 * time.Second)
		return
	}
	for k := 1; k < updates; k++ {
		run.p.Send(userMsg{0, k})
	}
	run.p.Quit()
	if !run.wait(8 * time.Second) {
		out.fail(finding{Property: "C07", Class: "new", What: "Run did not return after quit", Input: desc})
		return
	}
	out.record(desc, fmt.Sprintf("released updates=%d shape=%d", updates, shape))
	checkFinalScreen(out, desc, buf.String(), finalView(shape, updates), 80, 24)
}

// gateBuf holds the first write that contains `mark` until released.
type gateBuf struct {
	b       *safeBuffer
	mark    string
	entered chan struct{}
	release chan struct{}
	used    bool
	mu      sync.Mutex
}

func (g *gateBuf) Write(p []byte) (int, error) {
	g.mu.Lock()
	hold := !g.used && strings.Contains(string(p), g.mark)
	if hold {
		g.used = true
	}
	g.mu.Unlock()
	if hold {
		close(g.entered)
		<-g.release
	}
	return g.b.Write(p)
}

// finalGated: the output writer stalls inside the write of the first frame; meanwhile the
// updates and the quit are sent. The writer is released when the program's context is done
// (an implementation that lets the event loop run on while a frame is going out gets there)
// or after a grace period (the event loop is waiting for the renderer: the normal case).
func finalGated(out *scenOut, fps, updates, shape int, quitCmd bool) {
	ctl := newRecCtl()
	buf := &safeBuffer{}
	ctl.viewOf = func(version, ups int) string { return finalView(shape, ups-1) } // (-1: the size message)
	ctl.onUpdate = func(m tea.Msg, v int) tea.Cmd {
		if u, ok := m.(userMsg); ok && quitCmd && u.Sender == 0 && u.Seq == updates-1 {
			return tea.Quit
		}
		return nil
	}
	desc := fmt.Sprintf("gated-writer fps=%d updates=%d shape=%d quit-by-command=%t", fps, updates, shape, quitCmd)
	w := &gateBuf{b: buf, mark: "count -1", entered: make(chan struct{}), release: make(chan struct{})}
	p := tea.NewProgram(recModel{c: ctl}, tea.WithInput(nil), tea.WithoutSignalHandler(), tea.WithFPS(fps), tea.WithOutput(w))
	run := &progRun{p: p, ctl: ctl, out: buf, done: make(chan struct{})}
	go func() { defer close(run.done); run.model, run.err = p.Run() }()
	select {
	case <-w.entered:
	case <-time.After(5 * time.Second):
		close(w.release)
		killNow(run.p)
		run.wait(5 * time.Second)
		out.record(desc+" (first frame never written)", "gated-none")
		return
	}
	go func() {
		run.p.Send(tea.WindowSizeMsg{Width: 80, Height: 24}) // a terminal has a size
		for k := 0; k < updates; k++ {
			run.p.Send(userMsg{0, k})
		}
		if !quitCmd {
			run.p.Quit()
		}
	}()
	select {
	case <-tea.VerifCtx(p).Done():
	case <-run.done:
	case <-time.After(120 * time.Millisecond):
	}
	close(w.release)
	if !run.wait(8 * time.Second) {
		out.fail(finding{Property: "C07", Class: "new", What: "Run did not return after quit", Input: desc})
		return
	}
	out.record(desc, fmt.Sprintf("gated fps=%d updates=%d shape=%d", fps, updates, shape))
	checkFinalScreen(out, desc, buf.String(), finalView(shape, updates), 80, 24)
}

// checkFinalScreen: every newline-terminated line of the final view is in place, the
// cursor is parked at the first column of the (empty) line after them, nothing below.
func checkFinalScreen(out *scenOut, desc, written, v string, tw, th int) {
	t := newVterm(tw, th)
	t.write([]byte(written))
	lines := strings.Split(v, "\n")
	term := lines[:len(lines)-1]
	b := t.main
	start := b.cr - len(term)
	if start < 0 {
		out.fail(finding{Property: "C07", Class: "new", What: "cursor not parked below the final view", Input: desc, Observed: fmt.Sprintf("cursor row %d, %d terminated lines", b.cr, len(term))})
		return
	}
	for i, l := range term {
		if got := b.text(start + i); got != strings.TrimRight(l, " ") {
			out.fail(finding{Property: "C07", Class: "new", What: "the final model's view is not what the terminal shows when Run returns", Input: desc,
				Expected: fmt.Sprintf("line %d = %q", i, l), Observed: fmt.Sprintf("%q", got)})
			return
		}
	}
	if b.cc != 0 || b.text(b.cr) != "" {
		out.fail(finding{Property: "C07", Class: "new", What: "cursor not at the first column of an empty line after the view", Input: desc,
			Observed: fmt.Sprintf("col %d, row text %q", b.cc, b.text(b.cr))})
	}
	for rrow := b.cr + 1; rrow < b.top+th; rrow++ {
		if b.text(rrow) != "" {
			out.fail(finding{Property: "C07", Class: "new", What: "stale content of an earlier view remains below the final view", Input: desc, Observed: b.text(rrow)})
			break
		}
	}
}

func finalView(shape, updates int) string {
	switch shape {
	case 0:
		return fmt.Sprintf("count %d\nsecond\n", updates)
	case 1: // shrinks and grows with the count, no trailing newline
		lines := []string{fmt.Sprintf("count %d", updates)}
		for k := 0; k < (updates*7)%5; k++ {
			lines = append(lines, fmt.Sprintf("row %d", k))
		}
		return strings.Join(lines, "\n")
	case 2: // lines get shorter
		return strings.Repeat("x", 30-updates%25) + "\nend\n"
	default:
		return fmt.Sprintf("a\n\nb %d\n", updates%3)
	}
}

func finalOnce(out *scenOut, fps, updates, shape int, quitCmd, slowWriter bool) {
	ctl := newRecCtl()
	buf := &safeBuffer{}
	ctl.viewOf = func(version, ups int) string { return finalView(shape, ups-1) } // (-1: the size message)
	ctl.onUpdate = func(m tea.Msg, v int) tea.Cmd {
		if u, ok := m.(userMsg); ok && quitCmd && u.Sender == 0 && u.Seq == updates-1 {
			return tea.Quit
		}
		return nil
	}
	desc := fmt.Sprintf("fps=%d updates=%d shape=%d quit-by-command=%t slow-writer=%t", fps, updates, shape, quitCmd, slowWriter)
	var w *slowBuf
	opts := []tea.ProgramOption{tea.WithInput(nil), tea.WithoutSignalHandler(), tea.WithFPS(fps)}
	if slowWriter {
		w = &slowBuf{b: buf}
		opts = append(opts, tea.WithOutput(w))
	}
	var run *progRun
	if slowWriter {
		p := tea.NewProgram(recModel{c: ctl}, opts...)
		run = &progRun{p: p, ctl: ctl, out: buf, done: make(chan struct{})}
		go func() { defer close(run.done); run.model, run.err = p.Run() }()
	} else {
		run = startProgram(ctl, buf, opts...)
	}
	run.p.Send(tea.WindowSizeMsg{Width: 40, Height: 12})
	for k := 0; k < updates; k++ {
		run.p.Send(userMsg{0, k})
	}
	if !quitCmd || updates == 0 {
		run.p.Quit()
	}
	if !run.wait(8 * time.Second) {
		out.fail(finding{Property: "C07", Class: "new", What: "Run did not return after quit", Input: desc})
		return
	}
	out.record(desc, desc)
	t := newVterm(40, 12)
	t.write([]byte(buf.String()))
	v := finalView(shape, updates)
	lines := strings.Split(v, "\n")
	term := lines[:len(lines)-1] // newline-terminated lines
	b := t.main
	start := b.cr - len(term)
	if start < 0 {
		out.fail(finding{Property: "C07", Class: "new", What: "cursor not parked below the final view", Input: desc, Observed: fmt.Sprintf("cursor row %d, %d terminated lines", b.cr, len(term))})
		return
	}
	for i, l := range term {
		if got := b.text(start + i); got != strings.TrimRight(l, " ") {
			out.fail(finding{Property: "C07", Class: "new", What: "the final model's view is not what the terminal shows when Run returns", Input: desc,
				Expected: fmt.Sprintf("line %d = %q", i, l), Observed: fmt.Sprintf("%q", got)})
			return
		}
	}
	if b.cc != 0 || b.text(b.cr) != "" {
		out.fail(finding{Property: "C07", Class: "new", What: "cursor not at the first column of an empty line after the view", Input: desc,
			Observed: fmt.Sprintf("col %d, row text %q", b.cc, b.text(b.cr))})
	}
	for rrow := b.cr + 1; rrow < b.top+12; rrow++ {
		if b.text(rrow) != "" {
			out.fail(finding{Property: "C07", Class: "new", What: "stale content of an earlier view remains below the final view", Input: desc, Observed: b.text(rrow)})
			break
		}
	}
}

// slowBuf delays every write (a slow terminal).
type slowBuf struct{ b *safeBuffer }

func (s *slowBuf) Write(p []byte) (int, error) {
	time.Sleep(2 * time.Millisecond)
	return s.b.Write(p)
}

// armedGate is a writer that, once armed, holds the first write containing `mark`.
type armedGate struct {
	b       *safeBuffer
	mark    string
	armed   int32
	entered chan struct{}
	release chan struct{}
}

func (g *armedGate) Write(p []byte) (int, error) {
	if strings.Contains(string(p), g.mark) && atomic.CompareAndSwapInt32(&g.armed, 1, 2) {
		close(g.entered)
		<-g.release
	}
	return g.b.Write(p)
}

// finalKillHoldsRenderer: the program has quit (Run's result is decided: a clean quit), Run has
// written the final view and is about to shut down; a Kill on another goroutine gets to the
// renderer first and is slow inside it (it holds the renderer while its erase-line write is
// going out). Run's own stop must still paint the final view, however long it has to wait.
func finalKillHoldsRenderer(out *scenOut, shape int) {
	ctl := newRecCtl()
	buf := &safeBuffer{}
	w := &armedGate{b: buf, mark: "\x1b[2K", entered: make(chan struct{}), release: make(chan struct{})}
	ctl.viewOf = func(version, ups int) string { return finalView(shape, ups-1) }
	ctl.onUpdate = func(m tea.Msg, v int) tea.Cmd {
		if u, ok := m.(userMsg); ok && u.Sender == 0 && u.Seq == 1 {
			return tea.Quit
		}
		return nil
	}
	var runHeld int32
	reached := make(chan struct{})
	goOn := make(chan struct{})
	tea.VerifPauseHook = func(where string) {
		if where == "sh: cancel" && atomic.CompareAndSwapInt32(&runHeld, 0, 1) {
			close(reached) // Run's own shutdown (the first one to begin)
			<-goOn
		}
	}
	defer func() { tea.VerifPauseHook = nil }()
	desc := fmt.Sprintf("quit; Run holds at the start of its shutdown with the final view written; Kill on another goroutine is slow inside the renderer; shape=%d", shape)
	run := startProgram(ctl, nil, tea.WithOutput(w), tea.WithInput(nil), tea.WithoutSignalHandler(), tea.WithFPS(1))
	run.p.Send(tea.WindowSizeMsg{Width: 80, Height: 24})
	run.p.Send(userMsg{0, 0})
	if !waitFor(3*time.Second, func() bool { return strings.Contains(buf.String(), "count 1") }) {
		run.p.Kill()
		run.wait(3 * time.Second)
		return
	}
	run.p.Send(userMsg{0, 1}) // the last update: it quits
	select {
	case <-reached:
	case <-time.After(3 * time.Second):
		killNow(run.p)
		run.wait(3 * time.Second)
		return
	}
	painted := strings.Contains(buf.String(), "count 2") // (a tick got in between: nothing left to test)
	atomic.StoreInt32(&w.armed, 1)
	killDone := make(chan struct{})
	go func() { run.p.Kill(); close(killDone) }()
	select {
	case <-w.entered:
	case <-time.After(3 * time.Second):
	}
	close(goOn)
	time.Sleep(80 * time.Millisecond) // Run's stop is now waiting for (or has skipped past) the renderer
	close(w.release)
	<-killDone
	out.record("final-kill-holds-renderer", desc)
	if !run.wait(8 * time.Second) {
		out.fail(finding{Property: "C07", Class: "new", What: "Run did not return after quit (a Kill was slow inside the renderer)", Input: desc})
		return
	}
	if painted || errClass(run.err) != "nil" {
		return
	}
	checkFinalScreen(out, desc, buf.String(), finalView(shape, 2), 80, 24)
}
