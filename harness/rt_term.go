package main

// C04 / C13 scenarios: termination causes x strike points x pending work,
// each on a real tea.Program under a watchdog.

import (
	"context"
	"errors"
	"fmt"
	"os"
	"os/exec"
	"os/signal"
	"strings"
	"sync"
	"sync/atomic"
	"syscall"
	"time"

	tea "github.com/charmbracelet/bubbletea"
)

type termScenario struct {
	Cause   string // quitmsg quitapi interrupt kill ctx readerr panic-init panic-update panic-view panic-cmd sigint sigterm
	Strike  string // idle in-update in-view in-init in-filter in-writer batch
	Pending string // none senders1 senders50 nevercmd second-quit second-kill
	Input   string // nil blocking pipe endless
}

func (s termScenario) String() string {
	return fmt.Sprintf("cause=%s strike=%s pending=%s input=%s", s.Cause, s.Strike, s.Pending, s.Input)
}

var errInjectedRead = errors.New("harness: injected read error")

// traceExt, when set (the `ltrace` stream), is told about the harness's own actions on the
// program under test just before they happen: ("send", msg) and ("cancel", nil).
var traceExt func(kind string, m tea.Msg)

const runWatchdog = 4 * time.Second

type termResult struct {
	returned bool
	errClass string
	err      error
	panicVal interface{}
	note     string
	stuck    []string // API callers that never returned (C13)
	dump     string
}

// expectedErr gives the error classes the property allows for a scenario.
func (s termScenario) expectedErr() []string {
	var base string
	switch s.Cause {
	case "quitmsg", "quitapi", "sigterm":
		base = "nil"
	case "interrupt", "sigint":
		base = "interrupted"
	case "kill", "ctx", "panic-init", "panic-update", "panic-view", "panic-cmd":
		base = "killed"
	case "readerr":
		base = "readerr"
	}
	switch s.Pending {
	case "second-quit":
		// a quit racing the cause: either may win; a quit overtaken by a kill
		// is reported as killed.
		return []string{base, "nil", "killed"}
	case "second-kill":
		return []string{base, "killed"}
	}
	if base == "nil" {
		return []string{"nil"}
	}
	return []string{base}
}

// pipeMu serialises the scenarios whose input is a pipe: a program that is shut
// down twice (Kill() and then Run's own shutdown) calls cancelReader.Close()
// twice, and the second call closes raw descriptor numbers that another program
// of this process may have been given in the meantime (its epoll descriptor):
// that program's read loop then fails with EBADF. One program at a time is how
// the library is used; the interference is an artefact of running many
// programs in one process, so it is avoided rather than reported.
var pipeMu sync.Mutex

// burnt: descriptors opened only to occupy the numbers a finished pipe program has just freed,
// so that its belated second cancelReader.Close() cannot hit the next program's descriptors
// (kept open for a while, then closed oldest first).
var burnt []*os.File

func burnDescriptors() {
	for i := 0; i < 6; i++ {
		if f, err := os.Open("/dev/null"); err == nil {
			burnt = append(burnt, f)
		}
	}
	for len(burnt) > 240 {
		burnt[0].Close()
		burnt = burnt[1:]
	}
}

func runTermScenario(s termScenario, callers []string) termResult {
	if s.Input == "pipe" {
		pipeMu.Lock()
		defer pipeMu.Unlock()
		defer burnDescriptors() // (runs before the unlock, after the pipe itself was closed)
	}
	ctl := newRecCtl()
	out := &safeBuffer{}
	var opts []tea.ProgramOption
	var cleanup []func()
	defer func() {
		for _, f := range cleanup {
			f()
		}
	}()
	sigCause := s.Cause == "sigint" || s.Cause == "sigterm"
	if !sigCause {
		opts = append(opts, tea.WithoutSignalHandler())
	}
	// input
	readGate := newGate(true)
	cleanup = append(cleanup, readGate.open)
	switch {
	case s.Cause == "readerr":
		opts = append(opts, tea.WithInput(errReader{g: readGate, err: errInjectedRead}))
	case s.Input == "nil":
		opts = append(opts, tea.WithInput(nil))
	case s.Input == "blocking":
		br := blockingReader{ch: make(chan struct{})}
		cleanup = append(cleanup, func() { close(br.ch) })
		opts = append(opts, tea.WithInput(br))
	case s.Input == "pipe":
		pr, pw, err := os.Pipe()
		if err != nil {
			return termResult{note: "pipe: " + err.Error()}
		}
		cleanup = append(cleanup, func() { pr.Close(); pw.Close() })
		opts = append(opts, tea.WithInput(pr))
		pw.Write([]byte("unread input")) // some is consumed, the rest stays unread
	case s.Input == "endless":
		opts = append(opts, tea.WithInput(&endlessReader{}))
	}
	// cause: parent context
	parent, cancelParent := context.WithCancel(context.Background())
	cleanup = append(cleanup, cancelParent)
	opts = append(opts, tea.WithContext(parent))
	// strike point gates
	var strikeGate *gate
	switch s.Strike {
	case "in-update":
		strikeGate = newGate(true)
		ctl.gates["update:u0.0"] = strikeGate
	case "in-view":
		strikeGate = newGate(false) // armed once the program is up
		ctl.gates["view"] = strikeGate
	case "in-init":
		strikeGate = newGate(true)
		ctl.gates["init"] = strikeGate
	case "first-view":
		strikeGate = newGate(true) // the View call Run makes before the event loop starts
		ctl.gates["view"] = strikeGate
	case "in-filter":
		strikeGate = newGate(true)
		ctl.gates["filter:u0.0"] = strikeGate
	case "in-writer":
		strikeGate = newGate(false)
		out.gate = strikeGate
	case "in-exec":
		strikeGate = newGate(true) // inside the command of an Exec (the terminal is released)
	case "startup-write":
		strikeGate = newGate(true) // the first write: Run's start-up mode sequences, before the renderer is started
		out.gate = strikeGate
	}
	if strikeGate != nil {
		cleanup = append(cleanup, strikeGate.open)
	}
	// injected panics
	switch s.Cause {
	case "panic-init":
		ctl.panicOn.set("init")
	case "panic-update":
		ctl.panicOn.set("update:u9.9")
	case "panic-view":
		// armed later (the first View must succeed so the program is up)
	}
	neverGate := newGate(true)
	cleanup = append(cleanup, neverGate.open)
	if s.Pending == "initcmd" {
		ctl.initCmd = func() tea.Msg { return cmdMsg{"init"} }
	}
	if s.Pending == "neverinit" {
		// the command returned by Init never returns
		ctl.initCmd = func() tea.Msg { neverGate.pass(); return nil }
	}
	if s.Strike == "pre-cancel" {
		if traceExt != nil {
			traceExt("cancel", nil)
		}
		cancelParent() // the context is already cancelled when Run starts
	}
	bigBatch := make([]tea.Cmd, 0)
	if s.Strike == "batch" {
		for i := 0; i < 300000; i++ {
			bigBatch = append(bigBatch, nil)
		}
		bigBatch = append(bigBatch, func() tea.Msg { return nil })
	}
	ctl.onUpdate = func(m tea.Msg, v int) tea.Cmd {
		switch msgName(m) {
		case "u8.0": // start a command that never returns
			return func() tea.Msg { neverGate.pass(); return nil }
		case "u8.1": // a command that panics
			return func() tea.Msg { panic("harness: injected panic in a command") }
		case "u8.2":
			return func() tea.Msg { return tea.BatchMsg(bigBatch) }
		case "u0.3":
			if s.Strike == "in-exec" {
				return tea.Exec(&fakeExec{run: func(f *fakeExec) error { strikeGate.pass(); return nil }},
					func(err error) tea.Msg { return execDoneMsg{Tag: "strike", Err: err} })
			}
		}
		return nil
	}
	if s.Strike == "in-filter" {
		opts = append(opts, tea.WithFilter(func(_ tea.Model, m tea.Msg) tea.Msg {
			name := msgName(m)
			ctl.enter("filter", name)
			defer ctl.exit("filter", name)
			ctl.pause("filter:" + name)
			return m
		}))
	}
	opts = append(opts, tea.WithFPS(120))
	run := startProgram(ctl, out, opts...)
	ctxDone := tea.VerifCtx(run.p).Done()
	res := termResult{}

	send := func(m tea.Msg) chan struct{} {
		ch := make(chan struct{})
		if traceExt != nil {
			traceExt("send", m)
		}
		go func() { defer close(ch); run.p.Send(m) }()
		return ch
	}
	if s.Strike == "first-view" || s.Strike == "startup-write" {
		if !strikeGate.waitArrived(3 * time.Second) {
			res.note = "the strike point (" + s.Strike + ") was never reached"
			return res
		}
	} else if s.Strike == "pre-cancel" {
		// nothing to wait for
	} else if s.Strike != "in-init" && s.Cause != "panic-init" {
		// wait until the event loop is up: a probe message gets processed
		probe := send(userMsg{7, 0})
		if !waitFor(3*time.Second, func() bool { return ctl.log.has("update-exit", "u7.0") }) {
			res.note = "program did not come up"
			res.dump = goroutineDump()
			return res
		}
		<-probe
	} else if s.Strike == "in-init" {
		if !strikeGate.waitArrived(3 * time.Second) {
			res.note = "Init was never called"
			return res
		}
	}
	// pending work
	var pendingSends []chan struct{}
	if s.Pending == "nevercmd" && s.Strike != "in-init" {
		<-send(userMsg{8, 0})
		waitFor(time.Second, func() bool { return ctl.log.has("update-exit", "u8.0") })
	}
	// reach the strike point
	switch s.Strike {
	case "in-update", "in-filter":
		pendingSends = append(pendingSends, send(userMsg{0, 0}))
		if !strikeGate.waitArrived(3 * time.Second) {
			res.note = "strike point not reached"
			return res
		}
	case "in-view":
		atomicArm(strikeGate)
		pendingSends = append(pendingSends, send(userMsg{0, 1}))
		if !strikeGate.waitArrived(3 * time.Second) {
			res.note = "strike point not reached"
			return res
		}
	case "in-exec":
		pendingSends = append(pendingSends, send(userMsg{0, 3}))
		if !strikeGate.waitArrived(3 * time.Second) {
			res.note = "strike point not reached"
			return res
		}
	case "in-writer":
		atomicArm(strikeGate)
		pendingSends = append(pendingSends, send(userMsg{0, 2})) // new view -> next tick writes
		if !strikeGate.waitArrived(3 * time.Second) {
			res.note = "strike point not reached"
			return res
		}
	case "batch":
		pendingSends = append(pendingSends, send(userMsg{8, 2}))
		waitFor(time.Second, func() bool { return ctl.log.has("update-exit", "u8.2") })
		time.Sleep(time.Duration(200+len(s.Pending)*37) * time.Microsecond) // land inside the dispatch loop
	}
	switch s.Pending {
	case "senders1":
		pendingSends = append(pendingSends, send(userMsg{1, 0}))
	case "senders50":
		for i := 0; i < 50; i++ {
			pendingSends = append(pendingSends, send(userMsg{10 + i, 0}))
		}
	case "second-quit":
		pendingSends = append(pendingSends, send(tea.QuitMsg{}))
		time.Sleep(2 * time.Millisecond)
	}
	// C13: API callers that are already blocked when the program terminates
	type caller struct {
		name string
		done chan struct{}
	}
	var blockedCallers []caller
	startCaller := func(name string) caller {
		c := caller{name: name, done: make(chan struct{})}
		go func() {
			defer close(c.done)
			switch strings.SplitN(name, "#", 2)[0] {
			case "send":
				run.p.Send(userMsg{99, 0})
			case "quit":
				run.p.Quit()
			case "println":
				run.p.Println("late line")
			case "printf":
				run.p.Printf("late %d", 1)
			case "wait":
				run.p.Wait()
			}
		}()
		return c
	}
	for _, cn := range callers {
		if strings.HasSuffix(cn, "@before") {
			blockedCallers = append(blockedCallers, startCaller(cn))
		}
	}
	if len(blockedCallers) > 0 {
		time.Sleep(2 * time.Millisecond)
	}
	// strike
	var causeDone chan struct{}
	switch s.Cause {
	case "quitmsg":
		causeDone = send(tea.QuitMsg{})
	case "quitapi":
		causeDone = make(chan struct{})
		if traceExt != nil {
			traceExt("send", tea.QuitMsg{})
		}
		go func() { defer close(causeDone); run.p.Quit() }()
	case "interrupt":
		causeDone = send(tea.InterruptMsg{})
	case "kill":
		causeDone = make(chan struct{})
		go func() { defer close(causeDone); run.p.Kill() }()
		select {
		case <-ctxDone:
		case <-time.After(time.Second):
		}
	case "ctx":
		if traceExt != nil {
			traceExt("cancel", nil)
		}
		cancelParent()
		<-ctxDone
	case "readerr":
		readGate.open()
		time.Sleep(2 * time.Millisecond)
	case "panic-update":
		causeDone = send(userMsg{9, 9})
	case "panic-view":
		ctl.panicOn.set("view")
		causeDone = send(userMsg{9, 8})
	case "panic-cmd":
		causeDone = send(userMsg{8, 1})
	case "sigint":
		syscall.Kill(syscall.Getpid(), syscall.SIGINT)
		time.Sleep(5 * time.Millisecond)
	case "sigterm":
		syscall.Kill(syscall.Getpid(), syscall.SIGTERM)
		time.Sleep(5 * time.Millisecond)
	}
	if s.Pending == "second-kill" {
		go run.p.Kill()
	}
	if s.Strike != "idle" && s.Strike != "batch" && s.Strike != "pre-cancel" {
		time.Sleep(3 * time.Millisecond) // let the cause land while the callback is still in progress
	}
	// the in-progress user callback returns
	if strikeGate != nil {
		strikeGate.open()
	}
	released := time.Now()
	res.returned = run.wait(runWatchdog)
	if !res.returned {
		res.dump = goroutineDump()
		res.note = fmt.Sprintf("Run has not returned %s after the last callback returned", time.Since(released).Round(time.Millisecond))
		return res
	}
	res.err = run.err
	res.panicVal = run.panicVal
	res.errClass = errClass(run.err)
	if s.Cause == "readerr" && errors.Is(run.err, errInjectedRead) {
		res.errClass = "readerr"
	}
	// C13: callers blocked before the end must be released; callers entering afterwards return at once
	for _, cn := range callers {
		if strings.HasSuffix(cn, "@after") {
			blockedCallers = append(blockedCallers, startCaller(cn))
		}
	}
	deadline := time.After(1500 * time.Millisecond)
	for _, c := range blockedCallers {
		select {
		case <-c.done:
		case <-deadline:
			res.stuck = append(res.stuck, c.name)
			deadline = time.After(10 * time.Millisecond)
		}
	}
	if len(res.stuck) > 0 {
		res.dump = goroutineDump()
	}
	// senders blocked in Send at termination must be released as well
	dl := time.After(1500 * time.Millisecond)
	for i, ch := range pendingSends {
		select {
		case <-ch:
		case <-dl:
			res.stuck = append(res.stuck, fmt.Sprintf("pending-send#%d", i))
			dl = time.After(10 * time.Millisecond)
		}
	}
	if causeDone != nil {
		select {
		case <-causeDone:
		case <-time.After(1500 * time.Millisecond):
			res.stuck = append(res.stuck, "cause-call:"+s.Cause)
		}
	}
	return res
}

func atomicArm(g *gate) {
	atomic.StoreInt32(&g.armed, 1)
}

func termMatrix(thorough bool, r *rng) []termScenario {
	causes := []string{"quitmsg", "quitapi", "interrupt", "kill", "ctx", "readerr", "panic-update", "panic-view", "panic-cmd", "panic-init"}
	strikes := []string{"idle", "in-update", "in-view", "in-filter", "in-writer", "batch", "in-init", "in-exec"}
	pendings := []string{"none", "senders1", "senders50", "nevercmd", "neverinit", "second-quit", "second-kill"}
	inputs := []string{"nil", "blocking", "pipe", "endless"}
	var all []termScenario
	for _, c := range causes {
		for _, st := range strikes {
			for _, p := range pendings {
				for _, in := range inputs {
					s := termScenario{c, st, p, in}
					if !s.valid() {
						continue
					}
					all = append(all, s)
				}
			}
		}
	}
	// termination before the event loop runs, with and without an Init command waiting to be handed over
	for _, c := range []string{"kill", "ctx"} {
		for _, st := range []string{"in-init", "first-view", "pre-cancel", "startup-write"} {
			for _, p := range []string{"none", "initcmd"} {
				for _, in := range []string{"nil", "pipe"} {
					if st == "pre-cancel" && c != "ctx" {
						continue
					}
					all = append(all, termScenario{c, st, p, in})
				}
			}
		}
	}
	if thorough {
		return all
	}
	// quick: every (cause, strike) pair and every (cause, pending), (strike, pending), (x, input) pair at least once
	seen := map[string]bool{}
	var pick []termScenario
	perm := make([]int, len(all))
	for i := range perm {
		perm[i] = i
	}
	for i := len(perm) - 1; i > 0; i-- {
		j := r.intn(i + 1)
		perm[i], perm[j] = perm[j], perm[i]
	}
	for _, idx := range perm {
		s := all[idx]
		keys := []string{"cs:" + s.Cause + s.Strike, "cp:" + s.Cause + s.Pending, "sp:" + s.Strike + s.Pending, "ci:" + s.Cause + s.Input, "si:" + s.Strike + s.Input}
		fresh := false
		for _, k := range keys {
			if !seen[k] {
				fresh = true
			}
		}
		if fresh {
			for _, k := range keys {
				seen[k] = true
			}
			pick = append(pick, s)
		}
	}
	return pick
}

func (s termScenario) valid() bool {
	if s.Cause == "readerr" && s.Input != "blocking" {
		return false // the error reader is its own input
	}
	if s.Cause == "panic-init" && (s.Strike != "idle" || s.Pending != "none") {
		return false
	}
	if (s.Strike == "first-view" || s.Strike == "startup-write" || s.Strike == "pre-cancel" || s.Pending == "initcmd") && s.Cause != "kill" && s.Cause != "ctx" {
		return false
	}
	if s.Strike == "in-init" && (s.Cause == "quitmsg" || s.Cause == "quitapi" || s.Cause == "interrupt" ||
		strings.HasPrefix(s.Cause, "panic") || s.Pending == "nevercmd" || s.Pending == "neverinit" || s.Pending == "second-quit" || s.Cause == "readerr") {
		return false // messages cannot be delivered before the loop runs; Init has to return first
	}
	if s.Strike == "in-exec" && (s.Input == "blocking" || s.Input == "endless" || s.Cause == "readerr" || s.Cause == "panic-init" || s.Pending == "nevercmd" || s.Pending == "neverinit") {
		return false // (a reader that cannot be cancelled costs the 500 ms release timeout; the rest needs the loop)
	}
	if s.Cause == "panic-view" && s.Strike == "in-view" {
		return false
	}
	if s.Strike == "in-writer" && s.Cause == "panic-view" {
		return false
	}
	return true
}

func scenTerm(out *scenOut, r *rng, thorough bool) {
	out.Rule = "termination cause x strike point x pending work x input kind on a real Program under a 4s watchdog; quick = a pairwise cover of the matrix, thorough = the whole matrix; then the signal scenarios (sequential). distinct = distinct scenario tuples"
	quietStdio()
	// keep SIGINT/SIGTERM from killing the harness itself, whatever the program does
	guard := make(chan os.Signal, 16)
	signal.Notify(guard, syscall.SIGINT, syscall.SIGTERM)
	defer signal.Stop(guard)
	ms := termMatrix(thorough, r)
	var wg sync.WaitGroup
	sem := make(chan struct{}, 8)
	for _, s := range ms {
		wg.Add(1)
		sem <- struct{}{}
		go func(s termScenario) {
			defer wg.Done()
			defer func() { <-sem }()
			res := runTermScenario(s, nil)
			out.record(s.String(), s.String()+" -> "+resSummary(res))
			judgeTerm(out, s, res)
		}(s)
	}
	wg.Wait()
	for _, exit := range []string{"quit-msg", "quit-call", "interrupt-msg", "user-then-quit"} {
		execReleaseFails(out, exit)
	}
	for _, n := range []int{1, 2} {
		readErrAfterExec(out, n)
	}
	quitBeforeRun(out, false)
	quitBeforeRun(out, true)
	quitUnderContinuousSends(out, "quit-msg")
	quitUnderContinuousSends(out, "quit-api")
	for _, cause := range []string{"quitmsg", "interrupt", "quitapi"} {
		endWithManyBlockedCommands(out, cause, 400)
	}
	for _, cause := range []string{"quitmsg", "kill", "ctx"} {
		endWithBlockedSequence(out, cause)
	}
	for _, cause := range []string{"quitmsg", "quitapi", "interrupt", "kill", "ctx", "panic-update", "readerr"} {
		noRendererRuns(out, cause)
	}
	for _, cause := range []string{"ctx", "quit-call", "kill"} {
		termDuringStartup(out, cause, false)
		termDuringStartup(out, cause, true)
	}
	// signals: one program at a time
	sigs := []termScenario{
		{"sigint", "idle", "none", "blocking"}, {"sigterm", "idle", "none", "blocking"},
		{"sigint", "in-update", "none", "nil"}, {"sigterm", "in-update", "senders1", "pipe"},
		{"sigint", "in-update", "second-quit", "nil"}, {"sigterm", "in-update", "second-quit", "nil"},
		{"sigint", "in-view", "second-quit", "blocking"},
	}
	reps := 3
	if thorough {
		reps = 12
	}
	for _, s := range sigs {
		for i := 0; i < reps; i++ {
			res := runTermScenario(s, nil)
			out.record(s.String(), s.String()+" -> "+resSummary(res))
			judgeTerm(out, s, res)
			if !res.returned {
				break // the hung program still has its handler installed
			}
		}
	}
}

func resSummary(res termResult) string {
	if !res.returned {
		return "HANG " + res.note
	}
	return "returned err=" + res.errClass
}

func judgeTerm(out *scenOut, s termScenario, res termResult) {
	if res.note != "" && res.returned == false && !strings.HasPrefix(res.note, "Run has not returned") {
		out.fail(finding{Property: "C04", Class: "harness", What: "scenario could not be set up: " + res.note, Input: s.String(), Observed: res.dump})
		return
	}
	if !res.returned {
		out.fail(finding{Property: "C04", Class: "new", What: "Run does not return: " + hangClass(s, res.dump), Input: s.String(), Expected: "Run returns once the in-progress callback has returned", Observed: res.note + " :: " + res.dump})
		return
	}
	if res.panicVal != nil {
		out.fail(finding{Property: "C04", Class: "new", What: "Run panicked instead of returning", Input: s.String(), Observed: fmt.Sprint(res.panicVal)})
		return
	}
	ok := false
	for _, e := range s.expectedErr() {
		if e == res.errClass {
			ok = true
		}
	}
	if !ok {
		out.fail(finding{Property: "C04", Class: "new", What: "wrong error for cause " + s.Cause + ": got " + res.errClass, Input: s.String(), Expected: strings.Join(s.expectedErr(), " or "), Observed: res.errClass})
	}
	if len(res.stuck) > 0 {
		out.fail(finding{Property: "C13", Class: "new", What: "goroutine blocked in Send at termination is never released", Input: s.String(), Observed: strings.Join(res.stuck, ",") + " :: " + res.dump})
	}
}

// hangClass names the blocking site of a hang from the goroutine dump.
func hangClass(s termScenario, dump string) string {
	switch {
	case strings.Contains(dump, "handleSignals"):
		return "signal handler blocked sending its message"
	case strings.Contains(dump, "eventLoop") && strings.Contains(dump, "chan send"):
		return "event loop blocked handing a command to the stopped dispatcher"
	case strings.Contains(dump, "renderer") && strings.Contains(dump, "chan send"):
		return "renderer stop handshake blocked"
	}
	return "unclassified"
}

func init() {
	scenarios["term"] = scenTerm
	scenarios["api"] = scenAPI
}

// scenAPI: C13 — Send/Quit/Println/Printf/Wait around termination.
func scenAPI(out *scenOut, r *rng, thorough bool) {
	out.Rule = "API call kind x (blocked before | entered after) termination x cause x number of callers, on a real Program; distinct = distinct tuples"
	quietStdio()
	causes := []string{"quitmsg", "kill", "ctx", "interrupt", "readerr", "panic-update"}
	kinds := []string{"send", "quit", "println", "printf", "wait"}
	for _, cause := range []string{"quitmsg", "kill", "ctx", "readerr"} {
		noRendererRuns(out, cause) // (the C13 part: late calls on a program without a renderer)
	}
	for _, cause := range []string{"quit", "kill"} {
		noRendererStalledOutput(out, cause)
	}
	sendLongBeforeRun(out)
	var wg sync.WaitGroup
	sem := make(chan struct{}, 8)
	for _, c := range causes {
		for _, k := range kinds {
			for _, when := range []string{"before", "after"} {
				for _, n := range []int{1, 3} {
					if (k == "println" || k == "printf" || k == "send" || k == "quit") && when == "before" {
						// these return as soon as the event loop takes the message; to be
						// *blocked* at termination the loop must be busy: strike inside Update
					}
					var callers []string
					for i := 0; i < n; i++ {
						callers = append(callers, fmt.Sprintf("%s#%d@%s", k, i, when))
					}
					strike := "idle"
					if when == "before" && k != "wait" {
						strike = "in-update"
					}
					in := "blocking"
					s := termScenario{c, strike, "none", in}
					if !s.valid() {
						s.Input = "blocking"
					}
					wg.Add(1)
					sem <- struct{}{}
					go func(s termScenario, callers []string, k, when string, n int) {
						defer wg.Done()
						defer func() { <-sem }()
						res := runTermScenario(s, callers)
						key := fmt.Sprintf("%s x%d %s | %s", k, n, when, s.String())
						out.record(key, key+" -> "+resSummary(res)+" stuck="+strings.Join(res.stuck, ","))
						if !res.returned {
							// a C04 matter; reported there
							return
						}
						var stuck []string
						for _, st := range res.stuck {
							if strings.Contains(st, "@") {
								stuck = append(stuck, st)
							}
						}
						if len(stuck) > 0 {
							what := fmt.Sprintf("%s called %s termination never returns", k, when)
							if k == "wait" {
								what = fmt.Sprintf("Wait never returns for %d of %d callers after cause %s", len(stuck), n, causeGroup(s.Cause))
							}
							out.fail(finding{Property: "C13", Class: "new", What: what, Input: key, Expected: "every call returns once the program has ended", Observed: strings.Join(stuck, ",") + " :: " + res.dump})
						}
					}(s, callers, k, when, n)
				}
			}
		}
	}
	wg.Wait()
	// start-up failure: the terminal for input cannot be opened (no controlling
	// terminal, as in CI or under setsid). Callers parked before Run and callers
	// arriving after it must all return.
	ttyFail(out)
	uncaughtPanic(out, false)
	uncaughtPanic(out, true)
	for _, how := range []string{"ctx-before-run", "kill-before-run"} {
		endedBeforeItBegan(out, how)
	}
	runAgain(out)
	for _, cause := range []string{"quit", "kill", "kill-before-run", "ctx-before-run"} {
		waitBeforeRun(out, cause)
	}
	manyLateCalls(out, "kill")
	manyLateCalls(out, "quit")
	// "Before the program starts, Send blocks until it is running"
	ctl := newRecCtl()
	p := tea.NewProgram(recModel{c: ctl}, tea.WithInput(nil), tea.WithOutput(&safeBuffer{}), tea.WithoutSignalHandler())
	sent := make(chan struct{})
	go func() { p.Send(userMsg{5, 5}); close(sent) }()
	select {
	case <-sent:
		out.fail(finding{Property: "C13", Class: "new", What: "Send before the program started did not block", Input: "send-before-start"})
	case <-time.After(30 * time.Millisecond):
	}
	done := make(chan struct{})
	go func() { p.Run(); close(done) }()
	select {
	case <-sent:
	case <-time.After(2 * time.Second):
		out.fail(finding{Property: "C13", Class: "new", What: "Send issued before start is not delivered once the program runs", Input: "send-before-start"})
	}
	waitFor(time.Second, func() bool { return ctl.log.has("update-exit", "u5.5") })
	if !ctl.log.has("update-exit", "u5.5") {
		out.fail(finding{Property: "C13", Class: "new", What: "message sent before start never reached Update", Input: "send-before-start"})
	}
	out.record("send-before-start", "send-before-start")
	p.Quit()
	select {
	case <-done:
	case <-time.After(2 * time.Second):
	}
}

// uncaughtPanic: the program was built with WithoutCatchPanics and its Update panics; the
// goroutine that called Run recovers the panic. The program has ended ("for any reason"): the
// callers blocked in Send / Quit / Println / Printf / Wait and the ones arriving later return.
func uncaughtPanic(out *scenOut, secondRun bool) {
	ctl := newRecCtl()
	g := newGate(true)
	ctl.gates["update:u7.0"] = g
	ctl.panicOn.set("update:u7.0")
	p := tea.NewProgram(recModel{c: ctl}, tea.WithInput(nil), tea.WithOutput(&safeBuffer{}), tea.WithoutSignalHandler(), tea.WithoutCatchPanics())
	desc := "WithoutCatchPanics; Update panics while callers are blocked; the caller of Run recovers"
	if secondRun {
		// round 16 (C13-p): the same, as the SECOND run of a Program whose first run ended by a quit
		desc += "; second Run of the Program (the first one quit)"
		first := make(chan struct{})
		go func() { defer close(first); p.Run() }()
		waitFor(2*time.Second, func() bool { return ctl.log.has("view-exit", "") })
		p.Quit()
		select {
		case <-first:
		case <-time.After(3 * time.Second):
			killNow(p)
			return
		}
	}
	runDone := make(chan struct{})
	go func() {
		defer close(runDone)
		defer func() { recover() }()
		p.Run()
	}()
	if secondRun {
		waitFor(2*time.Second, func() bool { return ctl.log.count("view-exit", "") >= 2 })
	}
	waitFor(2*time.Second, func() bool { return ctl.log.has("view-exit", "") })
	type call struct {
		name string
		done chan struct{}
	}
	var calls []call
	start := func(name string, f func()) {
		c := call{name, make(chan struct{})}
		calls = append(calls, c)
		go func() { f(); close(c.done) }()
	}
	for i := 0; i < 2; i++ {
		start(fmt.Sprintf("wait#%d@before", i), p.Wait)
	}
	go p.Send(userMsg{7, 0}) // Update holds at the gate, then panics
	waitFor(2*time.Second, func() bool { return ctl.log.has("update-enter", "u7.0") })
	start("send@before", func() { p.Send(userMsg{7, 1}) })
	start("quit@before", p.Quit)
	start("println@before", func() { p.Println("x") })
	start("printf@before", func() { p.Printf("%d", 1) })
	time.Sleep(20 * time.Millisecond) // they are parked behind the busy event loop
	g.open()
	select {
	case <-runDone:
	case <-time.After(3 * time.Second):
		out.fail(finding{Property: "C13", Class: "harness", What: "Run did not end by the panic", Input: desc})
		killNow(p)
		return
	}
	start("send@after", func() { p.Send(userMsg{7, 2}) })
	start("quit@after", p.Quit)
	start("println@after", func() { p.Println("y") })
	start("printf@after", func() { p.Printf("%d", 2) })
	start("wait@after", p.Wait)
	deadline := time.After(3 * time.Second)
	var stuck []string
	for _, c := range calls {
		select {
		case <-c.done:
		case <-deadline:
			stuck = append(stuck, c.name)
			deadline = time.After(time.Millisecond)
		}
	}
	out.record(fmt.Sprintf("uncaught-panic second-run=%v", secondRun), desc)
	if len(stuck) > 0 {
		out.fail(finding{Property: "C13", Class: "new", What: "calls never return after Run ended by a panic that was not caught by the program (WithoutCatchPanics)", Input: desc,
			Expected: "every call returns once the program has ended", Observed: strings.Join(stuck, ",")})
		killNow(p)
	}
}

func causeGroup(c string) string {
	if c == "quitmsg" || c == "quitapi" {
		return "quit"
	}
	return c
}

func ttyFail(out *scenOut) {
	if f, err := os.Open("/dev/tty"); err == nil {
		f.Close()
		out.record("tty-open-failure/skipped", "process has a controlling terminal: /dev/tty opens, scenario skipped")
		return
	}
	ctl := newRecCtl()
	p := tea.NewProgram(recModel{c: ctl}, tea.WithInputTTY(), tea.WithOutput(&safeBuffer{}), tea.WithoutSignalHandler())
	type caller struct {
		name string
		done chan struct{}
	}
	var callers []caller
	start := func(name string, f func()) {
		c := caller{name, make(chan struct{})}
		callers = append(callers, c)
		go func() { defer close(c.done); f() }()
	}
	start("send@before", func() { p.Send(userMsg{1, 1}) })
	start("quit@before", func() { p.Quit() })
	start("println@before", func() { p.Println("x") })
	start("printf@before", func() { p.Printf("%d", 1) })
	time.Sleep(5 * time.Millisecond)
	runDone := make(chan error, 1)
	go func() { _, err := p.Run(); runDone <- err }()
	var err error
	select {
	case err = <-runDone:
	case <-time.After(3 * time.Second):
		out.fail(finding{Property: "C13", Class: "new", What: "Run does not return when the input terminal cannot be opened", Input: "WithInputTTY without a controlling terminal"})
		return
	}
	out.record("tty-open-failure", "WithInputTTY without a controlling terminal: Run returned "+fmt.Sprint(err))
	if err == nil {
		return
	}
	start("send@after", func() { p.Send(userMsg{1, 2}) })
	start("quit@after", func() { p.Quit() })
	start("println@after", func() { p.Println("y") })
	start("printf@after", func() { p.Printf("%d", 2) })
	start("wait@after", func() { p.Wait() })
	var stuck []string
	dl := time.After(1500 * time.Millisecond)
	for _, c := range callers {
		select {
		case <-c.done:
		case <-dl:
			stuck = append(stuck, c.name)
			dl = time.After(10 * time.Millisecond)
		}
	}
	if len(stuck) > 0 {
		out.fail(finding{Property: "C13", Class: "new", What: "calls never return after Run ended with a start-up failure (input terminal cannot be opened)",
			Input:    "NewProgram(m, WithInputTTY()) in a process without a controlling terminal; callers: " + strings.Join(stuck, ","),
			Expected: "every call returns once the program has ended", Observed: strings.Join(stuck, ",") + " still blocked"})
	}
}

// startupWriter runs `hit` on the first write it sees (the mode sequences Run writes before the
// renderer has been started) and keeps that write open for a moment.
type startupWriter struct {
	safeBuffer
	once sync.Once
	hit  func()
}

func (w *startupWriter) Write(p []byte) (int, error) {
	w.once.Do(func() {
		w.hit()
		time.Sleep(40 * time.Millisecond)
	})
	return w.safeBuffer.Write(p)
}

// termDuringStartup: the termination cause strikes inside the output writer while Run is still
// starting up (the terminal modes are being set; the renderer exists but has not been started).
// Runs in a child process: what can go wrong here includes a fatal runtime error.
func termDuringStartup(out *scenOut, cause string, alt bool) {
	desc := fmt.Sprintf("%s strikes inside the output writer while Run sets the terminal modes at start-up (renderer not started yet), alt=%v", cause, alt)
	self, _ := os.Executable()
	cmd := exec.Command(self, "child", "startupterm", cause, fmt.Sprint(alt))
	cmd.Env = os.Environ()
	var outb strings.Builder
	cmd.Stdout = &outb
	cmd.Stderr = &outb
	if err := cmd.Start(); err != nil {
		return
	}
	done := make(chan error, 1)
	go func() { done <- cmd.Wait() }()
	var err error
	select {
	case err = <-done:
	case <-time.After(20 * time.Second):
		cmd.Process.Kill()
		err = errors.New("child did not finish in 20s")
	}
	out.record("startup-write/"+cause+fmt.Sprint(alt), desc)
	got := outb.String()
	want := "killed"
	if cause == "quit-call" {
		want = "nil"
	}
	switch {
	case strings.Contains(got, "STARTUP-RESULT "+want+" restored=true"):
	case strings.Contains(got, "STARTUP-RESULT "):
		line := got[strings.Index(got, "STARTUP-RESULT "):]
		if j := strings.IndexByte(line, '\n'); j >= 0 {
			line = line[:j]
		}
		if !strings.Contains(line, "STARTUP-RESULT "+want+" ") {
			out.fail(finding{Property: "C04", Class: "new", What: "wrong Run result", Input: desc, Expected: want, Observed: line})
		}
		if !strings.Contains(line, "restored=true") {
			out.fail(finding{Property: "C05", Class: "new", What: "terminal modes not restored when Run returns after a termination cause that struck during start-up", Input: desc, Expected: "all modes off, cursor shown", Observed: line})
		}
	default:
		tail := got
		for _, mark := range []string{"fatal error:", "panic:", "STARTUP-HANG"} {
			if i := strings.Index(tail, mark); i >= 0 {
				tail = tail[i:]
				break
			}
		}
		if len(tail) > 700 {
			tail = tail[:700]
		}
		f := finding{Class: "new", What: "a termination cause that struck during start-up: Run did not return (the process died or hangs)", Input: desc,
			Expected: "Run returns " + want + " with the terminal restored", Observed: fmt.Sprint(err) + " :: " + strings.ReplaceAll(tail, "\n", " / ")}
		for _, p := range []string{"C04", "C05"} {
			f.Property = p
			out.fail(f)
		}
	}
}

func childStartupTerm(cause string, alt bool) int {
	if f, err := os.OpenFile(os.DevNull, os.O_WRONLY, 0); err == nil {
		os.Stdout = f
	}
	ctl := newRecCtl()
	ctx, cancel := context.WithCancel(context.Background())
	defer cancel()
	var p *tea.Program
	ready := make(chan struct{})
	w := &startupWriter{}
	w.hit = func() {
		<-ready
		switch cause {
		case "kill":
			go p.Kill()
		case "ctx":
			cancel()
		case "quit-call":
			go p.Quit()
		}
	}
	opts := []tea.ProgramOption{tea.WithOutput(w), tea.WithInput(nil), tea.WithoutSignalHandler(), tea.WithContext(ctx)}
	if alt {
		opts = append(opts, tea.WithAltScreen())
	}
	p = tea.NewProgram(recModel{c: ctl}, opts...)
	close(ready)
	done := make(chan error, 1)
	go func() { _, err := p.Run(); done <- err }()
	select {
	case err := <-done:
		time.Sleep(100 * time.Millisecond) // a Kill goroutine still inside its own shutdown
		t := newVterm(80, 24)
		t.write([]byte(w.safeBuffer.String()))
		got := vtModes(t)
		fmt.Fprintf(os.Stderr, "STARTUP-RESULT %s restored=%v (%s)\n", errClass(err), got == (modeSpec{}).String(), got)
		return 0
	case <-time.After(6 * time.Second):
		fmt.Fprintf(os.Stderr, "STARTUP-HANG Run still running after 6s\n%s\n", goroutineDump())
		return 1
	}
}

func init() {
	prev := childMain
	childMain = func(args []string) int {
		if len(args) == 3 && args[0] == "startupterm" {
			return childStartupTerm(args[1], args[2] == "true")
		}
		return prev(args)
	}
}

// endedBeforeItBegan: the program's context is cancelled (or Kill is called) BEFORE Run; Run
// returns at once with ErrProgramKilled, and then every API call returns, Wait included.
func endedBeforeItBegan(out *scenOut, how string) {
	ctl := newRecCtl()
	ctx, cancel := context.WithCancel(context.Background())
	defer cancel()
	p := tea.NewProgram(recModel{c: ctl}, tea.WithInput(nil), tea.WithOutput(&safeBuffer{}), tea.WithoutSignalHandler(), tea.WithContext(ctx))
	desc := how + ": the program is ended before Run is called; then Run, then Wait x3 / Send / Quit / Println / Printf"
	if how == "ctx-before-run" {
		cancel()
	} else {
		killed := make(chan struct{})
		go func() { p.Kill(); close(killed) }()
		select {
		case <-killed:
		case <-time.After(3 * time.Second):
			out.fail(finding{Property: "C13", Class: "new", What: "Kill before Run never returns", Input: desc})
			return
		}
	}
	runDone := make(chan error, 1)
	go func() { _, err := p.Run(); runDone <- err }()
	out.record("ended-before-run/"+how, desc)
	select {
	case err := <-runDone:
		if got := errClass(err); got != "killed" {
			out.fail(finding{Property: "C04", Class: "new", What: "wrong Run result", Input: desc, Expected: "killed", Observed: got})
		}
	case <-time.After(4 * time.Second):
		out.fail(finding{Property: "C04", Class: "new", What: "Run does not return although the program was ended before it started", Input: desc, Observed: goroutineDump()})
		return
	}
	type call struct {
		name string
		done chan struct{}
	}
	var calls []call
	start := func(name string, f func()) {
		c := call{name, make(chan struct{})}
		calls = append(calls, c)
		go func() { f(); close(c.done) }()
	}
	for i := 0; i < 3; i++ {
		start(fmt.Sprintf("wait#%d", i), p.Wait)
	}
	start("send", func() { p.Send(userMsg{7, 2}) })
	start("quit", p.Quit)
	start("println", func() { p.Println("x") })
	start("printf", func() { p.Printf("%d", 1) })
	deadline := time.After(3 * time.Second)
	var stuck []string
	for _, c := range calls {
		select {
		case <-c.done:
		case <-deadline:
			stuck = append(stuck, c.name)
			deadline = time.After(time.Millisecond)
		}
	}
	if len(stuck) > 0 {
		out.fail(finding{Property: "C13", Class: "new", What: "API calls never return although Run has returned (program ended before it began)", Input: desc,
			Expected: "every call returns once the program has ended", Observed: strings.Join(stuck, ",")})
	}
}

// runAgain: Run is called a second time on a Program that has already run to completion. The
// second Run ends at once (the context is already cancelled); the program has ended - again -
// and every API call returns, Wait included (callers that entered Wait after the second Run
// began, and callers arriving after it returned).
func runAgain(out *scenOut) {
	ctl := newRecCtl()
	p := tea.NewProgram(recModel{c: ctl}, tea.WithInput(nil), tea.WithOutput(&safeBuffer{}), tea.WithoutSignalHandler())
	desc := "Run to completion (Quit), three Waits; Run again on the same Program; Wait x3 / Send / Quit / Println / Printf afterwards"
	first := make(chan error, 1)
	go func() { _, err := p.Run(); first <- err }()
	waitFor(2*time.Second, func() bool { return ctl.log.has("view-exit", "") })
	p.Quit()
	select {
	case <-first:
	case <-time.After(4 * time.Second):
		out.fail(finding{Property: "C04", Class: "new", What: "Run does not return after Quit", Input: desc})
		killNow(p)
		return
	}
	type call struct {
		name string
		done chan struct{}
	}
	var calls []call
	start := func(name string, f func()) {
		c := call{name, make(chan struct{})}
		calls = append(calls, c)
		go func() { f(); close(c.done) }()
	}
	for i := 0; i < 3; i++ {
		start(fmt.Sprintf("wait#%d@after-first-run", i), p.Wait)
	}
	second := make(chan error, 1)
	go func() { _, err := p.Run(); second <- err }()
	out.record("run-again", desc)
	select {
	case err := <-second:
		if got := errClass(err); got != "killed" {
			out.fail(finding{Property: "C04", Class: "new", What: "wrong result of a second Run on a finished Program", Input: desc, Expected: "killed", Observed: got})
		}
	case <-time.After(4 * time.Second):
		out.fail(finding{Property: "C04", Class: "new", What: "a second Run on a finished Program does not return", Input: desc, Observed: goroutineDump()})
		return
	}
	for i := 0; i < 3; i++ {
		start(fmt.Sprintf("wait#%d@after-second-run", i), p.Wait)
	}
	start("send", func() { p.Send(userMsg{7, 2}) })
	start("quit", p.Quit)
	start("println", func() { p.Println("x") })
	start("printf", func() { p.Printf("%d", 1) })
	deadline := time.After(3 * time.Second)
	var stuck []string
	for _, c := range calls {
		select {
		case <-c.done:
		case <-deadline:
			stuck = append(stuck, c.name)
			deadline = time.After(time.Millisecond)
		}
	}
	if len(stuck) > 0 {
		out.fail(finding{Property: "C13", Class: "new", What: "API calls never return although Run has returned (Run called again on a finished Program)", Input: desc,
			Expected: "every call returns once the program has ended", Observed: strings.Join(stuck, ",")})
	}
}

// quitBeforeRun: Quit() (and Send) called before Run block until the program runs and then take
// effect: Run returns nil.
func quitBeforeRun(out *scenOut, pendingWork bool) {
	ctl := newRecCtl()
	never := make(chan struct{})
	defer close(never)
	opts := []tea.ProgramOption{tea.WithOutput(&safeBuffer{}), tea.WithoutSignalHandler()}
	if pendingWork {
		ctl.initCmd = func() tea.Msg { <-never; return nil }
		opts = append(opts, tea.WithInput(&endlessReader{}))
	} else {
		opts = append(opts, tea.WithInput(nil))
	}
	p := tea.NewProgram(recModel{c: ctl}, opts...)
	desc := fmt.Sprintf("Quit() called before Run (pending work: %t), then Run", pendingWork)
	quitDone := make(chan struct{})
	go func() { p.Quit(); close(quitDone) }()
	time.Sleep(40 * time.Millisecond)
	runDone := make(chan error, 1)
	go func() { _, err := p.Run(); runDone <- err }()
	out.record(fmt.Sprintf("quit-before-run/%t", pendingWork), desc)
	select {
	case err := <-runDone:
		if got := errClass(err); got != "nil" {
			out.fail(finding{Property: "C04", Class: "new", What: "wrong Run result", Input: desc, Expected: "nil", Observed: got})
		}
	case <-time.After(4 * time.Second):
		out.fail(finding{Property: "C04", Class: "new", What: "Run does not return although Quit() was called (before Run)", Input: desc, Expected: "Run returns nil", Observed: "still running after 4s"})
		killNow(p)
		select {
		case <-runDone:
		case <-time.After(3 * time.Second):
		}
	}
	select {
	case <-quitDone:
	case <-time.After(2 * time.Second):
		out.fail(finding{Property: "C13", Class: "new", What: "Quit() called before Run never returns although the program has ended", Input: desc})
	}
}

// manyLateCalls: far more API calls than any queue inside the library could hold - 300 of each
// kind after the program has ended, and 300 goroutines parked in Printf / Println / Send when it is
// killed - all return.
func manyLateCalls(out *scenOut, cause string) {
	ctl := newRecCtl()
	hold := make(chan struct{})
	ctl.onUpdate = func(m tea.Msg, v int) tea.Cmd {
		if u, ok := m.(userMsg); ok && u.Sender == 2 {
			<-hold
		}
		return nil
	}
	run := startProgram(ctl, nil, tea.WithInput(nil), tea.WithoutSignalHandler())
	desc := "300 goroutines parked in Printf / Println / Send while Update holds the loop, then " + cause + "; then 300 more calls of each kind, one after the other"
	waitFor(2*time.Second, func() bool { return ctl.log.has("view-exit", "") })
	go run.p.Send(userMsg{2, 0})
	waitFor(2*time.Second, func() bool { return ctl.log.has("update-enter", "u2.0") })
	var parked sync.WaitGroup
	for i := 0; i < 300; i++ {
		parked.Add(1)
		go func(i int) {
			defer parked.Done()
			switch i % 3 {
			case 0:
				run.p.Printf("line %d", i)
			case 1:
				run.p.Println("line", i)
			default:
				run.p.Send(userMsg{3, i})
			}
		}(i)
	}
	time.Sleep(50 * time.Millisecond)
	switch cause {
	case "kill":
		killNow(run.p)
	default:
		go run.p.Quit()
	}
	close(hold)
	out.record("many-late-calls/"+cause, desc)
	if !run.wait(5 * time.Second) {
		out.fail(finding{Property: "C04", Class: "new", What: "Run does not return", Input: desc})
		return
	}
	released := make(chan struct{})
	go func() { parked.Wait(); close(released) }()
	select {
	case <-released:
	case <-time.After(4 * time.Second):
		out.fail(finding{Property: "C13", Class: "new", What: "callers parked in Printf / Println / Send when the program ended were not all released", Input: desc})
		return
	}
	late := make(chan int, 1)
	go func() {
		n := 0
		for i := 0; i < 300; i++ {
			run.p.Printf("late %d", i)
			n++
			run.p.Println("late", i)
			n++
			run.p.Send(userMsg{3, i})
			n++
			run.p.Quit()
			n++
			late <- n
			<-late
		}
		late <- -1
	}()
	deadline := time.After(5 * time.Second)
	last := 0
	for {
		select {
		case n := <-late:
			if n == -1 {
				return
			}
			last = n
			late <- 0
		case <-deadline:
			out.fail(finding{Property: "C13", Class: "new", What: "an API call made after the program had ended never returned (many calls in a row)", Input: desc,
				Expected: "1200 calls return", Observed: fmt.Sprintf("stuck after %d calls", last)})
			return
		}
	}
}

// waitBeforeRun: Wait called BEFORE Run (a supervisor goroutine started first) returns once Run has
// completed, like every other Wait caller.
func waitBeforeRun(out *scenOut, cause string) {
	ctl := newRecCtl()
	ctx, cancelCtx := context.WithCancel(context.Background())
	defer cancelCtx()
	p := tea.NewProgram(recModel{c: ctl}, tea.WithInput(nil), tea.WithOutput(&safeBuffer{}), tea.WithoutSignalHandler(), tea.WithContext(ctx))
	desc := "three goroutines call Wait before Run is called; Run; " + cause
	var waiters sync.WaitGroup
	for i := 0; i < 3; i++ {
		waiters.Add(1)
		go func() { defer waiters.Done(); p.Wait() }()
	}
	time.Sleep(30 * time.Millisecond)
	switch cause { // the program is ended before it begins
	case "kill-before-run":
		killNow(p)
	case "ctx-before-run":
		cancelCtx()
	}
	runDone := make(chan error, 1)
	go func() { _, err := p.Run(); runDone <- err }()
	switch cause {
	case "kill":
		waitFor(2*time.Second, func() bool { return ctl.log.has("view-exit", "") })
		p.Kill()
	case "quit":
		waitFor(2*time.Second, func() bool { return ctl.log.has("view-exit", "") })
		p.Quit()
	}
	out.record("wait-before-run/"+cause, desc)
	select {
	case <-runDone:
	case <-time.After(4 * time.Second):
		out.fail(finding{Property: "C04", Class: "new", What: "Run does not return", Input: desc})
		return
	}
	released := make(chan struct{})
	go func() { waiters.Wait(); close(released) }()
	select {
	case <-released:
	case <-time.After(2 * time.Second):
		out.fail(finding{Property: "C13", Class: "new", What: "Wait called before Run never returns although Run has completed", Input: desc,
			Expected: "Wait returns for every caller once Run has completed", Observed: "still blocked 2 s after Run returned"})
	}
}

// noRendererRuns: programs built with WithoutRenderer (the nil renderer: a program used as a
// daemon / with its output not a terminal). Everything the other properties say about the message
// pipeline and the end of the program holds for them too: messages sent by one goroutine reach
// Update in order and exactly once (C01), mode commands, prints and window titles are accepted and
// write NOTHING (C05: nothing to restore because nothing was changed), Run returns with the right
// error for every cause (C04), and Wait / Send / Println after the end return (C13).
func noRendererRuns(out *scenOut, cause string) {
	ctl := newRecCtl()
	buf := &safeBuffer{}
	hold := make(chan struct{})
	var holdOnce sync.Once
	release := func() { holdOnce.Do(func() { close(hold) }) }
	defer release()
	ctl.onUpdate = func(m tea.Msg, v int) tea.Cmd {
		if u, ok := m.(userMsg); ok {
			if u.Sender == 9 && u.Seq == 9 && cause == "panic-update" {
				panic("harness: injected panic in Update")
			}
			if u.Sender == 1 && u.Seq%10 == 0 {
				// commands and mode commands keep coming while the program runs
				return tea.Batch(tea.EnterAltScreen, tea.HideCursor, tea.EnableMouseAllMotion, tea.SetWindowTitle("t"),
					tea.Println("printed"), func() tea.Msg { return cmdMsg{fmt.Sprintf("c%d", u.Seq)} })
			}
		}
		return nil
	}
	parent, cancel := context.WithCancel(context.Background())
	defer cancel()
	opts := []tea.ProgramOption{tea.WithoutRenderer(), tea.WithoutSignalHandler(), tea.WithContext(parent),
		tea.WithAltScreen(), tea.WithMouseCellMotion(), tea.WithReportFocus()}
	readGate := newGate(true)
	defer readGate.open()
	if cause == "readerr" {
		opts = append(opts, tea.WithInput(errReader{g: readGate, err: errInjectedRead}))
	} else {
		opts = append(opts, tea.WithInput(nil))
	}
	run := startProgram(ctl, buf, opts...)
	desc := "WithoutRenderer + start-up mode options; 60 messages from one sender, every tenth answered with mode commands, a title, a print and a command; then " + cause
	if !waitFor(3*time.Second, func() bool { return ctl.log.has("view-exit", "") }) {
		out.fail(finding{Property: "C04", Class: "harness", What: "program did not come up", Input: desc})
		return
	}
	const n = 60
	for i := 0; i < n; i++ {
		run.p.Send(userMsg{1, i})
	}
	run.p.Println("from outside")
	run.p.Send(userMsg{0, 0})
	waitFor(3*time.Second, func() bool { return ctl.log.has("update-exit", "u0.0") })
	waitFor(2*time.Second, func() bool { return ctl.log.count("update-exit", "c:c") >= n/10 })
	want := "killed"
	switch cause {
	case "quitmsg":
		run.p.Send(tea.QuitMsg{})
		want = "nil"
	case "quitapi":
		run.p.Quit()
		want = "nil"
	case "interrupt":
		run.p.Send(tea.Interrupt())
		want = "interrupted"
	case "kill":
		go run.p.Kill()
	case "ctx":
		cancel()
	case "panic-update":
		go run.p.Send(userMsg{9, 9})
	case "readerr":
		readGate.open()
		want = "other:" + errInjectedRead.Error()
	}
	out.record("no-renderer/"+cause, desc)
	if !run.wait(4 * time.Second) {
		out.fail(finding{Property: "C04", Class: "new", What: "Run does not return (program without a renderer)", Input: desc, Observed: goroutineDump()})
		go run.p.Kill()
		return
	}
	if cause == "readerr" && errors.Is(run.err, errInjectedRead) {
		want = errClass(run.err) // the reader's error (wrapped)
	}
	if got := errClass(run.err); got != want {
		out.fail(finding{Property: "C04", Class: "new", What: "wrong Run result (program without a renderer)", Input: desc, Expected: want, Observed: got})
	}
	// C01: the sender's messages in order, once each
	next := 0
	for _, e := range ctl.log.snapshot() {
		if e.Kind == "update-enter" && strings.HasPrefix(e.Arg, "u1.") {
			var seq int
			fmt.Sscanf(e.Arg, "u1.%d", &seq)
			if seq != next {
				out.fail(finding{Property: "C01", Class: "new", What: "messages of one sender did not reach Update in order, once each (program without a renderer)", Input: desc,
					Expected: fmt.Sprintf("u1.%d", next), Observed: e.Arg})
				break
			}
			next++
		}
	}
	if next != n {
		out.fail(finding{Property: "C01", Class: "new", What: "a message whose Send completed before the program began terminating did not reach Update (program without a renderer)", Input: desc,
			Expected: fmt.Sprint(n), Observed: fmt.Sprint(next)})
	}
	if got := ctl.log.count("update-enter", "c:c"); got != n/10 {
		out.fail(finding{Property: "C02", Class: "new", What: "command results did not reach Update exactly once (program without a renderer)", Input: desc, Expected: fmt.Sprint(n / 10), Observed: fmt.Sprint(got)})
	}
	// C05: a program without a renderer never touches the terminal
	if cause != "panic-update" && buf.Len() != 0 {
		out.fail(finding{Property: "C05", Class: "new", What: "a program without a renderer wrote to its output (terminal modes may have been changed with nothing to restore them)", Input: desc,
			Expected: "no output", Observed: fmt.Sprintf("%q", buf.String())})
	}
	// C13: late calls return
	done := make(chan struct{})
	go func() {
		run.p.Wait()
		run.p.Send(userMsg{5, 5})
		run.p.Println("late")
		run.p.Printf("%d", 1)
		run.p.Quit()
		close(done)
	}()
	select {
	case <-done:
	case <-time.After(3 * time.Second):
		out.fail(finding{Property: "C13", Class: "new", What: "Wait / Send / Println / Printf / Quit after the end of a program without a renderer do not all return", Input: desc, Observed: goroutineDump()})
	}
}

// stalledWriter: an output nobody reads any more (a full pipe): Write never returns.
type stalledWriter struct{ release chan struct{} }

func (w stalledWriter) Write(p []byte) (int, error) { <-w.release; return len(p), nil }

// noRendererStalledOutput: a program built with WithoutRenderer whose output is stalled (a pipe
// nobody drains). It never writes to it, so nothing can hang there: Println / Printf called while
// it runs return once the loop has taken them, callers parked in them when the program ends are
// released, and calls after the end return at once (C13).
func noRendererStalledOutput(out *scenOut, cause string) {
	ctl := newRecCtl()
	w := stalledWriter{release: make(chan struct{})}
	defer close(w.release)
	hold := make(chan struct{})
	ctl.onUpdate = func(m tea.Msg, v int) tea.Cmd {
		if u, ok := m.(userMsg); ok && u.Sender == 2 {
			<-hold
		}
		return nil
	}
	p := tea.NewProgram(recModel{c: ctl}, tea.WithoutRenderer(), tea.WithOutput(w), tea.WithInput(nil), tea.WithoutSignalHandler())
	done := make(chan struct{})
	go func() { p.Run(); close(done) }()
	desc := "WithoutRenderer, output stalled for ever; Println / Printf while running, three callers parked in them while Update holds the loop, then " + cause + "; then calls after the end"
	if !waitFor(3*time.Second, func() bool { return ctl.log.has("view-exit", "") }) {
		go p.Kill()
		return
	}
	out.record("no-renderer-stalled-output/"+cause, desc)
	type call struct {
		name string
		done chan struct{}
	}
	var calls []call
	start := func(name string, f func()) {
		c := call{name, make(chan struct{})}
		calls = append(calls, c)
		go func() { f(); close(c.done) }()
	}
	start("println@running", func() { p.Println("a") })
	start("printf@running", func() { p.Printf("%d", 1) })
	time.Sleep(30 * time.Millisecond)
	go p.Send(userMsg{2, 0})
	waitFor(2*time.Second, func() bool { return ctl.log.has("update-enter", "u2.0") })
	for i := 0; i < 3; i++ {
		start(fmt.Sprintf("println#%d@parked", i), func() { p.Println("b") })
		start(fmt.Sprintf("printf#%d@parked", i), func() { p.Printf("%s", "c") })
	}
	time.Sleep(30 * time.Millisecond)
	if cause == "kill" {
		go p.Kill()
		close(hold)
	} else {
		close(hold)
		p.Quit()
	}
	select {
	case <-done:
	case <-time.After(4 * time.Second):
		out.fail(finding{Property: "C04", Class: "new", What: "Run does not return (program without a renderer, stalled output)", Input: desc, Observed: goroutineDump()})
		go p.Kill()
		return
	}
	start("println@after", func() { p.Println("d") })
	start("printf@after", func() { p.Printf("%d", 2) })
	start("wait@after", p.Wait)
	deadline := time.After(3 * time.Second)
	var stuck []string
	for _, c := range calls {
		select {
		case <-c.done:
		case <-deadline:
			stuck = append(stuck, c.name)
			deadline = time.After(time.Millisecond)
		}
	}
	if len(stuck) > 0 {
		out.fail(finding{Property: "C13", Class: "new", What: "calls that never returned although the program has ended (program without a renderer, stalled output)", Input: desc,
			Expected: "all return", Observed: strings.Join(stuck, ", ")})
	}
}

// endWithManyBlockedCommands: n commands that never return are running (far more than any limit on
// concurrent commands could be) when the program is asked to end: Run returns with the right error
// (C04: "commands that never return" never delay the program's exit, however many).
func endWithManyBlockedCommands(out *scenOut, cause string, n int) {
	ctl := newRecCtl()
	never := make(chan struct{})
	defer close(never)
	var started int32
	ctl.onUpdate = func(m tea.Msg, v int) tea.Cmd {
		if u, ok := m.(userMsg); ok && u.Sender == 9 {
			cmds := make([]tea.Cmd, n)
			for i := range cmds {
				cmds[i] = func() tea.Msg { atomic.AddInt32(&started, 1); <-never; return nil }
			}
			return tea.Batch(cmds...)
		}
		return nil
	}
	run := startProgram(ctl, nil, tea.WithInput(nil), tea.WithoutSignalHandler())
	desc := fmt.Sprintf("%d commands that never return are in flight, then %s", n, cause)
	waitFor(2*time.Second, func() bool { return ctl.log.has("view-exit", "") })
	run.p.Send(userMsg{9, 0})
	waitFor(3*time.Second, func() bool { return atomic.LoadInt32(&started) >= int32(n) })
	time.Sleep(30 * time.Millisecond)
	want := "nil"
	ended := make(chan struct{})
	go func() {
		defer close(ended)
		switch cause {
		case "quitmsg":
			run.p.Send(tea.QuitMsg{})
		case "quitapi":
			run.p.Quit()
		case "interrupt":
			run.p.Send(tea.InterruptMsg{})
		}
	}()
	if cause == "interrupt" {
		want = "interrupted"
	}
	out.record(fmt.Sprintf("end-with-%d-blocked-commands/%s", n, cause), desc)
	if !run.wait(4 * time.Second) {
		out.fail(finding{Property: "C04", Class: "new", What: "Run does not return although it was asked to end (many commands that never return are in flight)", Input: desc,
			Expected: "Run returns " + want, Observed: fmt.Sprintf("still running after 4 s; %d of %d commands had been started", atomic.LoadInt32(&started), n)})
		go run.p.Kill()
		run.wait(3 * time.Second)
		return
	}
	if got := errClass(run.err); got != want {
		out.fail(finding{Property: "C04", Class: "new", What: "wrong Run result", Input: desc, Expected: want, Observed: got})
	}
}

// sendLongBeforeRun: Send, Println and Quit are called 3.4 s before the program is started (a
// producer goroutine that is up long before the UI): "before the program starts, Send blocks until
// it is running" - for however long - and the messages are then delivered in order.
func sendLongBeforeRun(out *scenOut) {
	ctl := newRecCtl()
	p := tea.NewProgram(recModel{c: ctl}, tea.WithInput(nil), tea.WithOutput(&safeBuffer{}), tea.WithoutSignalHandler())
	desc := "Send(a), Println, Send(b) by one goroutine 3.4 s before Run"
	returned := make(chan struct{})
	go func() {
		p.Send(userMsg{4, 0})
		p.Println("early")
		p.Send(userMsg{4, 1})
		close(returned)
	}()
	select {
	case <-returned:
		out.fail(finding{Property: "C13", Class: "new", What: "Send returned although the program had not been started (the message cannot have been delivered)", Input: desc,
			Expected: "blocks until the program is running", Observed: "returned before Run"})
		return
	case <-time.After(3400 * time.Millisecond):
	}
	out.record("send-long-before-run", desc)
	done := make(chan struct{})
	go func() { p.Run(); close(done) }()
	select {
	case <-returned:
	case <-time.After(3 * time.Second):
		out.fail(finding{Property: "C13", Class: "new", What: "Send called before the program started did not return once it was running", Input: desc})
	}
	waitFor(2*time.Second, func() bool { return ctl.log.has("update-exit", "u4.1") })
	var got []string
	for _, u := range updatesOf(ctl.log.snapshot()) {
		if strings.HasPrefix(u, "u4.") || strings.HasPrefix(u, "printline") {
			got = append(got, u)
		}
	}
	if want := `u4.0 printline "early" u4.1`; strings.Join(got, " ") != want {
		out.fail(finding{Property: "C13", Class: "new", What: "messages sent before the program started were not delivered (in order) once it was running", Input: desc, Expected: want, Observed: strings.Join(got, " ")})
	}
	p.Quit()
	select {
	case <-done:
	case <-time.After(3 * time.Second):
		go p.Kill()
	}
}

// endWithBlockedSequence: a Sequence is in flight whose current element never returns (and one whose
// current element is a Batch with a command that never returns) when the program is asked to end:
// Run returns - nothing of a sequence is waited for at shutdown (C04: "commands that never return").
func endWithBlockedSequence(out *scenOut, cause string) {
	ctl := newRecCtl()
	never := make(chan struct{})
	defer close(never)
	var started int32
	block := func() tea.Msg { atomic.AddInt32(&started, 1); <-never; return nil }
	quick := func() tea.Msg { return cmdMsg{"sq"} }
	ctl.onUpdate = func(m tea.Msg, v int) tea.Cmd {
		if u, ok := m.(userMsg); ok && u.Sender == 9 {
			return tea.Batch(tea.Sequence(quick, block, quick), tea.Sequence(quick, tea.Batch(quick, block), quick))
		}
		return nil
	}
	parent, cancel := context.WithCancel(context.Background())
	defer cancel()
	run := startProgram(ctl, nil, tea.WithInput(nil), tea.WithoutSignalHandler(), tea.WithContext(parent))
	desc := "two sequences in flight, one at an element that never returns, one at a Batch with a command that never returns; then " + cause
	waitFor(2*time.Second, func() bool { return ctl.log.has("view-exit", "") })
	run.p.Send(userMsg{9, 0})
	waitFor(3*time.Second, func() bool { return atomic.LoadInt32(&started) >= 2 })
	time.Sleep(20 * time.Millisecond)
	want := "killed"
	switch cause {
	case "quitmsg":
		go run.p.Send(tea.QuitMsg{})
		want = "nil"
	case "kill":
		go run.p.Kill()
	case "ctx":
		cancel()
	}
	out.record("end-with-blocked-sequence/"+cause, desc)
	if !run.wait(4 * time.Second) {
		out.fail(finding{Property: "C04", Class: "new", What: "Run does not return while a sequence is at an element that never returns", Input: desc, Observed: goroutineDump()})
		go run.p.Kill()
		return
	}
	if got := errClass(run.err); got != want {
		out.fail(finding{Property: "C04", Class: "new", What: "wrong Run result", Input: desc, Expected: want, Observed: got})
	}
}

// quitUnderContinuousSends (round 16, C04-p): producers that never stop calling Send, a model whose Update
// takes a little time, then a quit. "Run returns as soon as any in-progress user callback returns - no
// matter what else is happening: ... goroutines blocked in Send": the stream of senders must not keep
// Run alive after the quit has been handled.
func quitUnderContinuousSends(out *scenOut, how string) {
	ctl := newRecCtl()
	var after int32 // Updates that began after the quit was handled
	var quitSeen int32
	ctl.onUpdate = func(m tea.Msg, v int) tea.Cmd {
		if atomic.LoadInt32(&quitSeen) == 1 {
			atomic.AddInt32(&after, 1)
		}
		time.Sleep(200 * time.Microsecond)
		if u, ok := m.(userMsg); ok && u.Sender == 9 && how == "quit-msg" {
			return tea.Quit
		}
		return nil
	}
	run := startProgram(ctl, nil, tea.WithInput(nil), tea.WithoutSignalHandler(), loggingFilter(ctl, func(name string, m tea.Msg) tea.Msg {
		if _, ok := m.(tea.QuitMsg); ok {
			atomic.StoreInt32(&quitSeen, 1)
		}
		return m
	}))
	desc := "four goroutines keep calling Send, Update takes 0.2 ms; then " + how
	stop := make(chan struct{})
	for g := 0; g < 4; g++ {
		g := g
		go func() {
			for k := 0; ; k++ {
				select {
				case <-stop:
					return
				default:
				}
				run.p.Send(userMsg{10 + g, k})
			}
		}()
	}
	waitFor(5*time.Second, func() bool { return ctl.log.count("update-exit", "u1") >= 300 })
	if how == "quit-msg" {
		go run.p.Send(userMsg{9, 0})
	} else {
		run.p.Quit()
	}
	out.record("quit-under-continuous-sends "+how, desc)
	ok := run.wait(6 * time.Second)
	close(stop)
	if !ok {
		out.fail(finding{Property: "C04", Class: "new", What: "Run does not return after a quit while goroutines keep calling Send", Input: desc,
			Expected: "Run returns nil", Observed: fmt.Sprintf("not returned after 6 s; %d Updates began after the quit message had been handled", atomic.LoadInt32(&after))})
		killNow(run.p)
		run.wait(3 * time.Second)
		return
	}
	if errClass(run.err) != "nil" {
		out.fail(finding{Property: "C04", Class: "new", What: "quit under continuous sends: wrong error", Input: desc, Expected: "nil", Observed: fmt.Sprint(run.err)})
	}
}
