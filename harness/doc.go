package main

import (
	"bytes"
	"encoding/json"
	"fmt"
	"os"
	"path/filepath"

	tea "github.com/charmbracelet/bubbletea"
)

// docEntry is one entry of the frozen, documented key table.
type docEntry struct {
	Seq   []int `json:"seq"`
	Type  int   `json:"type"`
	Alt   bool  `json:"alt"`
	Runes []int `json:"runes"`
}

type docTable struct {
	Sequences []docEntry `json:"sequences"`
	KeyRunes  int        `json:"keyRunes"`
	KeySpace  int        `json:"keySpace"`
	KeyEscape int        `json:"keyEscape"`
}

func (e docEntry) bytes() []byte {
	b := make([]byte, len(e.Seq))
	for i, v := range e.Seq {
		b[i] = byte(v)
	}
	return b
}

func verifDir() string {
	if d := os.Getenv("VERIF_DIR"); d != "" {
		return d
	}
	return "/verif"
}

func loadDoc() (*docTable, error) {
	raw, err := os.ReadFile(filepath.Join(verifDir(), "doc", "keytable.json"))
	if err != nil {
		return nil, err
	}
	var d docTable
	if err := json.Unmarshal(raw, &d); err != nil {
		return nil, err
	}
	return &d, nil
}

// cmdFreezeDoc writes the frozen documented table from the tree as it is now.
// It is run by hand when the documentation of record changes, never by a check.
func cmdFreezeDoc() int {
	var d docTable
	for _, e := range tea.VerifSequences() {
		de := docEntry{Type: int(e.Key.Type), Alt: e.Key.Alt, Runes: []int{}}
		for i := 0; i < len(e.Seq); i++ {
			de.Seq = append(de.Seq, int(e.Seq[i]))
		}
		for _, r := range e.Key.Runes {
			de.Runes = append(de.Runes, int(r))
		}
		d.Sequences = append(d.Sequences, de)
	}
	d.KeyRunes, d.KeySpace, d.KeyEscape = int(tea.KeyRunes), int(tea.KeySpace), int(tea.KeyEscape)
	raw, _ := json.MarshalIndent(d, "", " ")
	if err := os.MkdirAll(filepath.Join(verifDir(), "doc"), 0o755); err != nil {
		fmt.Fprintln(os.Stderr, err)
		return 1
	}
	if err := os.WriteFile(filepath.Join(verifDir(), "doc", "keytable.json"), raw, 0o644); err != nil {
		fmt.Fprintln(os.Stderr, err)
		return 1
	}
	var b bytes.Buffer
	b.WriteString("-- FROZEN copy of the documented key table (key.go `sequences`), written once by\n")
	b.WriteString("-- `harness freeze-doc`; kept by hand afterwards. This is the specification side.\n")
	b.WriteString("import Tea.Input.Types\nnamespace Tea.Doc\nopen Tea.Input\n\n")
	b.WriteString(leanTable("sequences", tea.VerifSequences()))
	b.WriteString("\nend Tea.Doc\n")
	if err := os.WriteFile(filepath.Join(verifDir(), "lean", "Tea", "Doc", "KeyTable.lean"), b.Bytes(), 0o644); err != nil {
		fmt.Fprintln(os.Stderr, err)
		return 1
	}
	return 0
}
