import Tea.Driver.Util
import Tea.Input.Reader
import Tea.Gen.KeyTable
import Tea.Time.Model

open Tea Tea.Driver Tea.Input

def descOpt : Option Msg → String
  | none => "nil"
  | some m => m.describe

/-- `detect`: `<0|1> <hex>` → `<w> <msg>` -/
def stepDetect (line : String) : String :=
  match words line with
  | [f, h] =>
    match parseHex h with
    | some b =>
      match detectOneMsg Tea.Gen.extSequences Tea.Gen.seqLengths b (f == "1") with
      | .ok (w, m) => s!"{w} {descOpt m}"
      | .error e => s!"panic {e.toString}"
    | none => "bad-op"
  | _ => "bad-op"

/-- `reader`: `<hex> <hex> ...` (one word per successful Read) → messages joined by ` | ` -/
def stepReader (line : String) : String :=
  match (words line).mapM parseHex with
  | some chunks =>
    match readAll Tea.Gen.extSequences Tea.Gen.seqLengths true chunks [] [] with
    | .ok (out, _) => " | ".intercalate (out.map fun o =>
        match o.msg with
        | some (.unknownCSI bs) => s!"unknowncsi len={bs.length}"   -- content aliases the read buffer in Go
        | m => descOpt m)
    | .error e => s!"panic {e.toString}"
  | none => "bad-op"

/-- `every`: `<unix-ns> <d-ns>` → the delay Every arms its timer with -/
def stepEvery (line : String) : String :=
  match words line with
  | [a, b] =>
    match a.toInt?, b.toInt? with
    | some n, some d => toString (Tea.Time.everyDelay (n + Tea.Time.unixToZero) d)
    | _, _ => "bad-op"
  | _ => "bad-op"

partial def loop (h : IO.FS.Stream) (out : IO.FS.Stream) (f : String → String) : IO Unit := do
  let line ← h.getLine
  if line.isEmpty then return ()
  let l := String.ofList (line.toList.filter (fun c => c != '\n' && c != '\r'))
  out.putStrLn (f l)
  loop h out f

def main (args : List String) : IO UInt32 := do
  let stdin ← IO.getStdin
  let stdout ← IO.getStdout
  match args with
  | ["detect"] => loop stdin stdout stepDetect; return 0
  | ["reader"] => loop stdin stdout stepReader; return 0
  | ["every"] => loop stdin stdout stepEvery; return 0
  | _ => IO.eprintln "usage: driver <stream>"; return 2
