import Tea.Driver.Util
import Tea.Input.Reader
import Tea.Gen.KeyTable
import Tea.Time.Model
import Tea.Render.Model
import Tea.VT.Term
import Tea.Render.Program
import Tea.Render.Fps
import Tea.Runtime.Pipeline
import Tea.Runtime.Lifecycle
import Tea.Driver.LTrace
import Tea.Driver.STrace

open Tea Tea.Driver Tea.Input

def descOpt : Option Msg → String
  | none => "nil"
  | some m => m.describe

/-- `detect`: `<0|1> <hex>` → `<w> <msg>` -/
def stepDetect (line : String) : String :=
  match words line with
  | [f, h] =>
    match parseHex h with
    | some b =>
      match detectOneMsg Tea.Gen.extSequences Tea.Gen.seqLengths b (f == "1") with
      | .ok (w, m) => s!"{w} {descOpt m}"
      | .error e => s!"panic {e.toString}"
    | none => "bad-op"
  | _ => "bad-op"

/-- `reader`: `E|I|X <hex> <hex> ...` (E: end of input follows, I: the input stays open and then
fails, X: the last word is returned by the failing Read itself; one word per Read) → messages joined by ` | ` -/
def stepReader (line : String) : String :=
  let ws0 := words line
  -- `C<k>E` / `C<k>I`: the context is cancelled after k messages were taken
  let (budget, ws) : Option Nat × List String :=
    match ws0 with
    | w :: rest =>
      if w.startsWith "C" then
        let body := String.ofList (w.toList.drop 1)
        let kind := String.ofList (body.toList.drop (body.length - 1))
        ((String.ofList (body.toList.take (body.length - 1))).toNat?, kind :: rest)
      else (none, ws0)
    | [] => (none, ws0)
  let eof := ws.head? == some "E"
  match (ws.drop 1).mapM parseHex with
  | some chunks0 =>
    -- X: the last word came TOGETHER with a non-EOF error: readAnsiInputs looks at the error
    -- first and returns at once; those bytes are never decoded
    let T := Tea.Gen.extSequences
    let lens := Tea.Gen.seqLengths
    let showOut (out : List Out) : String := " | ".intercalate (out.map fun o => descOpt o.msg)
    match budget with
    | some k =>
      -- the context is cancelled after k messages were taken (Tea.Input.readAllC)
      match readAllC T lens eof chunks0 k with
      | .ok (sent, cancelled) => showOut sent ++ s!" # cancelled={cancelled}"
      | .error e => s!"panic {e.toString}"
    | none =>
      let res := if ws.head? == some "X" then readAllX T lens chunks0.dropLast (chunks0.getLast?.getD [])
                 else readAll T lens eof chunks0 [] []
      match res with
      | .ok (out, _) => showOut out
      | .error e => s!"panic {e.toString}"
  | none => "bad-op"

/-- `Q tok...` = Sequentially; tok = `n` | `z<k>` (result nil) | `<k>` -/
def stepSequentially (toks : List String) : String :=
  let parse (t : String) : Option (Option (Nat × Bool)) :=
    if t == "n" then some none
    else if t.startsWith "z" then (t.drop 1).toNat?.map (fun k => some (k, false))
    else t.toNat?.map (fun k => some (k, true))
  match toks.mapM parse with
  | none => "bad-op"
  | some cs =>
    let r := Tea.Runtime.sequentiallyFn cs
    let res := match r.1 with | none => "nil" | some k => toString k
    " ".intercalate (["res", res, "ran"] ++ r.2.map toString)

/-- `cmdfns`: `B tok...` = Batch, `S tok...` = Sequence on identifiable commands (`n` = nil):
what comes back (Tea.Runtime.batchFn; a sequence message carries the list as it is) -/
def stepCmdFns (line : String) : String :=
  match words line with
  | "Q" :: toks => stepSequentially toks
  | kind :: toks =>
    let parse (t : String) : Option (Option Nat) := if t == "n" then some none else t.toNat?.map some
    match toks.mapM parse with
    | none => "bad-op"
    | some cs =>
      let show1 (c : Option Nat) : String := match c with | none => "n" | some k => toString k
      if kind == "B" then
        match Tea.Runtime.batchFn cs with
        | none => "nil"
        | some (.inl c) => s!"cmd {c}"
        | some (.inr l) => (" ".intercalate ("batch" :: l.map toString))
      else if kind == "S" then (" ".intercalate ("seq" :: cs.map show1))
      else "bad-op"
  | [] => "bad-op"

/-- `every`: `<unix-ns> <d-ns>` → the delay Every arms its timer with -/
def stepEvery (line : String) : String :=
  match words line with
  | [a, b] =>
    match a.toInt?, b.toInt? with
    | some n, some d => toString (Tea.Time.everyDelay (n + Tea.Time.unixToZero) d)
    | _, _ => "bad-op"
  | _ => "bad-op"

open Tea.Render in
def parseROp (ws : List String) : Option ROp :=
  match ws with
  | ["size", w, h] => do some (.size (← w.toNat?) (← h.toNat?))
  | ["w", h] => do some (.write (← parseHex h))
  | ["f"] => some .flush
  | ["rp"] => some .repaintMsg
  | ["cs"] => some .clearScreen
  | ["ea"] => some .enterAlt
  | ["xa"] => some .exitAlt
  | ["sc"] => some .showCursor
  | ["hc"] => some .hideCursor
  | ["mc"] => some .mouseCell
  | ["dmc"] => some .noMouseCell
  | ["ma"] => some .mouseAll
  | ["dma"] => some .noMouseAll
  | ["ms"] => some .mouseSGR
  | ["dms"] => some .noMouseSGR
  | ["bp"] => some .paste
  | ["dbp"] => some .noPaste
  | ["rf"] => some .focus
  | ["drf"] => some .noFocus
  | ["pl", h] => do some (.printLine (← parseHex h))
  | ["st"] => some .stop
  | ["ki"] => some .kill
  | ["title", h] => do some (.title (← parseHex h))
  | _ => none

open Tea.Render Tea.VT in
/-- `render`: `W H r0 | op | op ...` → per-op bytes (hex) joined by ` | `, then ` # ` state -/
def stepRender (line : String) : String :=
  match (line.splitOn " | ") with
  | [] => "bad-op"
  | _hdr :: opsS =>
    match opsS.mapM (fun o => parseROp (words o)) with
    | none => "bad-op"
    | some ops =>
      let (r, outs) := run {} ops
      let per := outs.map (fun o => toHex (serializeAll o))
      let st := s!"lines={r.linesRendered} altlines={r.altLinesRendered} hidden={r.cursorHidden} alt={r.altActive} bp={r.bpActive} focus={r.focusActive} w={r.width} h={r.height} queued={r.queued.length} cache={r.lastLines.isSome}"
      " | ".intercalate per ++ " # " ++ st

open Tea.VT in
def rowText (b : Buf) (maxw r : Nat) : Bytes :=
  let cells := (List.range maxw).map (fun c => b.cells r c)
  (cells.reverse.dropWhile (· == 32)).reverse

open Tea.VT in
def bufDump (name : String) (b : Buf) (maxw : Nat) : String :=
  let rows := (List.range b.used).map (rowText b maxw)
  let rows := (rows.reverse.dropWhile (·.isEmpty)).reverse
  s!" {name}:top={b.top} cur={b.cr},{b.cc} pw={b.pw} rows=" ++ String.join (rows.map (fun r => toHex r ++ ","))

open Tea.VT in
def termDump (t : Term) : String :=
  s!"alt={t.onAlt} vis={t.cursorVis} m1002={t.m1002} m1003={t.m1003} m1006={t.m1006} m1004={t.m1004} m2004={t.m2004}" ++
  bufDump "main" t.main t.maxw ++ bufDump "alt" t.alt t.maxw

/-- FNV-1a (64 bit) of a string: the fingerprint of a terminal state -/
def fnv1a (s : String) : UInt64 :=
  s.toUTF8.foldl (fun h b => (h ^^^ b.toUInt64) * 1099511628211) 14695981039346656037

open Tea.Render Tea.VT in
/-- `vt`: the same history lines as `render`; the model's operations are applied to the
Lean terminal semantics; the fingerprint of the terminal state after EVERY operation and the
final terminal state are printed -/
def stepVT (line : String) : String :=
  match (line.splitOn " | ") with
  | [] => "bad-op"
  | hdr :: opsS =>
    match (words hdr).mapM (·.toNat?), opsS.mapM (fun o => parseROp (words o)) with
    | some [w, h, r0], some ops =>
      let t0 : Term := { w := w, h := h, maxw := w }
      let initLine (i : Nat) : Bytes := (s!"init{i}".toUTF8.toList.map (·.toNat)).take w
      let t1 := (List.range r0).foldl (fun t i => applyOps t [.text (initLine i), .cr, .lf]) t0
      let rec go (r : RState) (t : Term) (hs : List String) : List ROp → Term × List String
        | [] => (t, hs.reverse)
        | o :: os =>
          let (r', out) := Tea.Render.step r o
          let t := match o with
            | .size w h => resize t w h
            | _ => t
          let t' := applyOps t out
          go r' t' (toString (fnv1a (termDump t')) :: hs) os
      let (t, hs) := go {} t1 [] ops
      ",".intercalate hs ++ " # " ++ termDump t
    | _, _ => "bad-op"

open Tea.Render in
def parseModeCmd : String → Option ModeCmd
  | "enterAlt" => some .enterAlt | "exitAlt" => some .exitAlt | "mouseCell" => some .mouseCell
  | "mouseAll" => some .mouseAll | "disableMouse" => some .disableMouse | "paste" => some .paste
  | "noPaste" => some .noPaste | "focus" => some .focus | "noFocus" => some .noFocus
  | "show" => some .show | "hide" => some .hide | "clear" => some .clear
  | _ => none

open Tea.Render Tea.VT in
/-- `glue`: `<option bits> <quit|ctx|kill> <mode cmd>...` → the DECSET/DECRST sequence of the whole
run (or, for kill, the final modes: two shutdowns may interleave in the implementation) -/
def stepGlue (line : String) : String :=
  match words line with
  | bitsS :: exitS :: cmdsS =>
    match bitsS.toNat?, cmdsS.mapM parseModeCmd with
    | some bits, some cmds =>
      let all := bits / 4 % 2 == 1
      let o : Opts := { alt := bits % 2 == 1, cell := bits / 2 % 2 == 1 && !all, all := all,
                        noPaste := bits / 8 % 2 == 1, focus := bits / 16 % 2 == 1 }
      let k : Option ExitKind := match exitS with
        | "quit" => some .quit | "ctx" => some .ctx | "kill" => some .killApi | _ => none
      match k with
      | none => "bad-op"
      | some k =>
        let (_, out) := runProgram o cmds k
        if exitS == "kill" then
          let t := applyOps ({ w := 80, h := 24 } : Term) out
          s!"final alt={t.onAlt} vis={t.cursorVis} m1002={t.m1002} m1003={t.m1003} m1006={t.m1006} m1004={t.m1004} m2004={t.m2004}"
        else
          " ".intercalate ((modeOpsOf out).map fun (n, v) => s!"{n}{if v then "h" else "l"}")
    | _, _ => "bad-op"
  | _ => "bad-op"

/-- `fps`: requested fps → frame interval in nanoseconds -/
def stepFPS (line : String) : String :=
  match line.trimAscii.toString.toInt? with
  | some f => toString (Tea.Render.framerateNs f)
  | none => "bad-op"

namespace PTrace
open Tea.Runtime

def dropS (s : String) (n : Nat) : String := String.ofList (s.toList.drop n)
abbrev RMsg := Tea.Runtime.Msg

def parseTok (t : String) : Option RMsg :=
  if t == "q" then some .quit
  else if t.startsWith "u" then
    match (dropS t 1).splitOn "." with
    | [a, b] => do some (.user (← a.toNat?) (← b.toNat?))
    | _ => none
  else if t.startsWith "r" then do some (.res (← (dropS t 1).toNat?))
  else none

def tokOf : RMsg → String
  | .user s k => s!"u{s}.{k}"
  | .res c => s!"r{c}"
  | .quit => "q"
  | .interrupt => "i"
  | .batch _ => "b"
  | .other _ => "o"

def parseLabel (ws : List String) : Option Label :=
  match ws with
  | ["sendStart", i] => do some (.sendStart (← i.toNat?))
  | ["process", i] => do some (.process (← i.toNat?))
  | ["cmdRun", i] => do some (.cmdRun (← i.toNat?))
  | ["cmdHandOver"] => some .cmdHandOver
  | ["batchNext"] => some .batchNext
  | ["batchDone"] => some .batchDone
  | ["initHandOver"] => some .initHandOver
  | _ => none

/-- `key=value` pairs -/
def parsePairs (ws : List String) : List (String × String) :=
  ws.filterMap fun w => match w.splitOn "=" with
    | [k, v] => some (k, v)
    | _ => none

def replayFrom (P : Prog Nat) : St Nat → Nat → List Label → Except String (St Nat)
  | s, _, [] => .ok s
  | s, k, l :: ls =>
    match step P s l with
    | some s' => replayFrom P s' (k + 1) ls
    | none => .error s!"rejected at {k}: {repr l}"

def run (line : String) : String :=
  match line.splitOn " | " with
  | [hdr, upd, cmds, labs] =>
    match words hdr with
    | ["senders", nsS, nmS, "init", initS] =>
      match nsS.toNat?, nmS.toNat?, initS.toNat? with
      | some ns, some nm, some initId =>
        let updT := parsePairs ((words upd).drop 1)
        let cmdT := parsePairs ((words cmds).drop 1)
        let cmdResult (id : Nat) : Option RMsg :=
          match cmdT.lookup (toString id) with
          | some v =>
            if v == "r" then some (.res id)
            else if v == "n" then none
            else if v.startsWith "b" then
              some (.batch (((dropS v 1).splitOn ",").filterMap (fun p => p.toNat?.map (fun n => if n == 0 then none else some n))))
            else none
          | none => none
        let update (m : Nat) (x : RMsg) : Nat × Option Nat :=
          (m + 1, match updT.lookup (tokOf x) with
            | some v => (v.toNat?.bind fun n => if n == 0 then none else some n)
            | none => none)
        let P : Prog Nat := { init := 0, initCmd := if initId == 0 then none else some initId,
                              update := update, cmdResult := cmdResult, filter := none }
        let senders : List Sender :=
          (List.range ns).map (fun s => { script := (List.range nm).map (fun k => Tea.Runtime.Msg.user s k) }) ++ [{ script := [.quit] }]
        let labels := ((dropS labs 7).splitOn ";").filterMap (fun l => parseLabel (words l))
        let nlab := ((dropS labs 7).splitOn ";").filter (· ≠ "") |>.length
        if labels.length ≠ nlab then "bad-label" else
        match replayFrom P (Tea.Runtime.init P senders) 0 labels with
        | .error e => e
        | .ok s =>
          let ex := match s.el with
            | .exited .quit => "quit"
            | .exited .interrupt => "interrupt"
            | .exited .ctx => "ctx"
            | _ => "running"
          s!"accepted upd=[{" ".intercalate (s.updLog.map tokOf)}] model={s.model} exit={ex}"
      | _, _, _ => "bad-op"
    | _ => "bad-op"
  | _ => "bad-op"
end PTrace

namespace LifeStream
open Tea.Runtime.Life

/-- every lifecycle label that can matter, in a fixed order (greedy scheduler); the internal steps of
Run's start-up come LAST: a Kill() that strikes during the start-up runs its whole shutdown (the
renderer's halt included) before Run goes on starting up -/
def lifecycleLabels (nSenders nKillers : Nat) : List Label :=
  [.elCtxExit, .elCmdAbort, .elRecvErr, .elRecvSig, .runTail, .dispExit, .sigExit, .sigAbort, .resizeExit,
   .initAbort, .readerMsgAbort, .readerErrAbort, .readerCanceled, .elCmdHandOver, .initHandOver, .elRecvReader] ++
  (List.range nSenders).map (fun i => Label.elRecvSender i) ++
  (List.range nSenders).map (fun i => Label.sendAbort i) ++
  ((none :: (List.range nKillers).map some).flatMap fun who =>
    [.shCancel who, .shHandlers who, .shReader who, .shWaitRead who, .shWaitReadTimeout who, .shRenderer who, .shRestore who]) ++
  [.runReturn] ++
  [.exRelCancel, .exRelWaitRead, .exRelWaitTimeout, .exRelRenderer, .exRelRestore, .exResReader, .exResRenderer,
   .exResSpawn] ++
  [.suSigHandler, .suNewRenderer, .suStartRenderer, .suSpawnInit, .suOpenReader, .suSpawnHandlers]

/-- run lifecycle steps (first enabled, repeatedly) plus the returns of user callbacks the
scenario releases; stop when Run has returned or nothing is enabled -/
def settle (fuel : Nat) (release : List Label) (s : St) : St :=
  match fuel with
  | 0 => s
  | fuel + 1 =>
    if s.runPc = .returned then s else
    let labels := lifecycleLabels s.senders.length s.killers.length ++ release
    match labels.findSome? (fun l => step s l) with
    | some s' => settle fuel release s'
    | none => s

def applyAll (s : St) (ls : List Label) : St :=
  ls.foldl (fun s l => (step s l).getD s) s

/-- the user callbacks a scenario releases: those of the loop and the listen goroutine, those of
Run's start-up (the writer of the mode sequences, Init, the first View), the command of an Exec -/
def releaseLabels : List Label :=
  [.callbackReturns, .viewReturns, .writerReturns, .startWriterReturns, .initReturns, .firstViewReturns,
   .execCmdReturns]

def run (line : String) : String :=
  match words line with
  | [cause, strike, pending, input] =>
    let nBlocked := if pending == "senders1" then 1 else if pending == "senders50" then 50 else 0
    -- sender 0: the strike message; sender 1: the cause message (quit/interrupt); 2..: pending senders
    let causeKind : SendKind := if cause == "interrupt" then .interrupt else .quit
    -- `in-exec`: one more sender, LAST, whose message is the execMsg
    let inExec : Bool := strike == "in-exec"
    let execIdx : Nat := 3 + nBlocked
    let sendersK : List SendKind :=
      [.user, causeKind, .user] ++ List.replicate nBlocked .user ++ (if inExec then [.exec] else [])
    let hasInput : Bool := input != "nil" || cause == "readerr"
    let cfg : Config := { cancelable := input == "pipe", withSignalHandler := false, ignoreSignals := false, withResize := false, withInitCmd := false, withInput := hasInput, senders := sendersK, waiters := 0 }
    -- a strike during Run's start-up: how many steps of the fault-free schedule lead to that stage
    let startupStage : Option Nat := match strike with
      | "startup-write" => some 2     -- inside the writer of the mode sequences
      | "in-init" => some 4           -- inside Init
      | "in-first-view" => some 6     -- inside the first View
      | _ => none
    -- causes that need the running loop (a message to process, a read loop): during the start-up
    -- (during an Exec) they can only strike once the loop has begun (is back at its select)
    let needsLoop : Bool := cause == "readerr" || cause == "panic-update" || cause == "panic-view"
    -- reach the strike point
    let toCallback : List Label := [.sendCall 0, .elRecvSender 0]
    let s1 := match startupStage with
      | some k =>
        let sk := applyAll (init0 cfg) (startupSchedule.take k)
        if needsLoop then settle 2000 releaseLabels sk else sk
      | none =>
        let s0 := init cfg
        match strike with
        | "in-exec" =>
          -- the fault-free release schedule up to the command (applyAll skips what is not enabled: the
          -- wait ends by the read loop's exit when the input can be cancelled, by the timeout otherwise)
          let sx := applyAll s0 [.sendCall execIdx, .elRecvSender execIdx, .exRelCancel, .readerCanceled,
                                 .exRelWaitRead, .exRelWaitTimeout, .exRelRenderer, .exRelRestore]
          if needsLoop then settle 2000 releaseLabels sx else sx
        | "in-update" | "in-filter" => applyAll s0 toCallback
        | "in-view" => applyAll s0 (toCallback ++ [.callbackReturns, .elCmdHandOver])
        | "in-writer" => applyAll s0 [.tick]
        | _ => s0
    -- pending senders block in Send
    let s2 := applyAll s1 ((List.range nBlocked).map (fun i => Label.sendCall (3 + i)))
    -- the cause strikes (during the start-up the sender of a quit / interrupt message blocks in Send
    -- until the loop runs)
    let s3 := match cause with
      | "quitmsg" | "quitapi" | "interrupt" => applyAll s2 [.sendCall 1]
      | "kill" | "panic-cmd" => applyAll s2 [.killCall, .shCancel (some 0)]
      | "ctx" => applyAll s2 [.parentCancel]
      | "readerr" => applyAll s2 [.readError]
      | "panic-update" =>
        -- the message whose Update panics is sent now; it is processed once the loop is free again
        -- (the callbacks in progress return: applyAll skips the labels that are not enabled)
        applyAll s2 [.sendCall 2, .writerReturns, .callbackReturns, .elCmdHandOver, .viewReturns, .elRecvSender 2, .callbackPanics]
      | "panic-view" =>
        applyAll s2 [.sendCall 2, .writerReturns, .callbackReturns, .elCmdHandOver, .viewReturns, .elRecvSender 2,
                     .callbackReturns, .elCmdHandOver, .viewPanics]
      | _ => s2
    -- the in-progress callbacks return; everything else is lifecycle
    let s4 := settle 2000 releaseLabels s3
    if s4.runPc = .returned then
      let e := match s4.runErr with
        | .nil => "nil" | .interrupted => "interrupted" | .killed => "killed" | .reader => "readerr"
        | .startup => "startup"
      s!"returned err={e}"
    else "HANG"
  | _ => "bad-op"
end LifeStream

partial def loop (h : IO.FS.Stream) (out : IO.FS.Stream) (f : String → String) : IO Unit := do
  let line ← h.getLine
  if line.isEmpty then return ()
  let l := String.ofList (line.toList.filter (fun c => c != '\n' && c != '\r'))
  out.putStrLn (f l)
  loop h out f

def main (args : List String) : IO UInt32 := do
  let stdin ← IO.getStdin
  let stdout ← IO.getStdout
  match args with
  | ["detect"] => loop stdin stdout stepDetect; return 0
  | ["reader"] => loop stdin stdout stepReader; return 0
  | ["every"] => loop stdin stdout stepEvery; return 0
  | ["cmdfns"] => loop stdin stdout stepCmdFns; return 0
  | ["render"] => loop stdin stdout stepRender; return 0
  | ["vt"] => loop stdin stdout stepVT; return 0
  | ["glue"] => loop stdin stdout stepGlue; return 0
  | ["fps"] => loop stdin stdout stepFPS; return 0
  | ["ptrace"] => loop stdin stdout PTrace.run; return 0
  | ["life"] => loop stdin stdout LifeStream.run; return 0
  | ["ltrace"] => loop stdin stdout Tea.Driver.LTrace.run; return 0
  | ["strace"] => loop stdin stdout Tea.Driver.STrace.run; return 0
  | _ => IO.eprintln "usage: driver <stream>"; return 2
