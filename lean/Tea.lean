import Tea.Prelude.Bytes
import Tea.Prelude.Utf8
import Tea.Prelude.Decimal
import Tea.Input.Types
import Tea.Input.Mouse
import Tea.Input.Detect
import Tea.Input.Reader
