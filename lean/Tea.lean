-- Root of the library: the models and specifications only. The proof and property
-- modules are built module by module (`./check setup` lists them): independently
-- written proof files may reuse helper names, so no single module imports them all.
import Tea.Prelude.Bytes
import Tea.Prelude.Utf8
import Tea.Prelude.Decimal
import Tea.Input.Types
import Tea.Input.Mouse
import Tea.Input.Detect
import Tea.Input.Reader
import Tea.Input.XtermSpec
import Tea.Input.XtermEvent
import Tea.VT.Ops
import Tea.VT.Term
import Tea.Render.Model
import Tea.Render.Program
import Tea.Render.Tty
import Tea.Render.Fps
import Tea.Runtime.Pipeline
import Tea.Runtime.Sequence
import Tea.Runtime.Lifecycle
import Tea.Time.Model
