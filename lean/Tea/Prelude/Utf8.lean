import Tea.Prelude.Bytes
/-
Model of Go's `unicode/utf8.DecodeRune`, `FullRune` and `EncodeRune`
(validated against the real functions by the `utf8` correspondence stream).
-/
namespace Tea.Utf8
open Tea

def runeError : Nat := 0xFFFD

/-- continuation byte -/
def isCont (b : Nat) : Bool := 0x80 ≤ b && b ≤ 0xBF

/-- `(size, lo, hi)` of the accepted second byte for a leading byte, `none` for ASCII/invalid. -/
def lead (p0 : Nat) : Option (Nat × Nat × Nat) :=
  if 0xC2 ≤ p0 && p0 ≤ 0xDF then some (2, 0x80, 0xBF)
  else if p0 == 0xE0 then some (3, 0xA0, 0xBF)
  else if 0xE1 ≤ p0 && p0 ≤ 0xEC then some (3, 0x80, 0xBF)
  else if p0 == 0xED then some (3, 0x80, 0x9F)
  else if 0xEE ≤ p0 && p0 ≤ 0xEF then some (3, 0x80, 0xBF)
  else if p0 == 0xF0 then some (4, 0x90, 0xBF)
  else if 0xF1 ≤ p0 && p0 ≤ 0xF3 then some (4, 0x80, 0xBF)
  else if p0 == 0xF4 then some (4, 0x80, 0x8F)
  else none

/-- Go's `utf8.DecodeRune`: `(rune, size)`; `(RuneError, 0)` on empty input,
`(RuneError, 1)` on any invalid or truncated encoding. -/
def decodeRune (p : Bytes) : Nat × Nat :=
  match p with
  | [] => (runeError, 0)
  | p0 :: rest =>
    if p0 < 0x80 then (p0, 1)
    else match lead p0 with
      | none => (runeError, 1)
      | some (sz, lo, hi) =>
        if p.length < sz then (runeError, 1)
        else match rest with
          | [] => (runeError, 1)
          | b1 :: rest1 =>
            if b1 < lo || hi < b1 then (runeError, 1)
            else if sz ≤ 2 then ((p0 % 32) * 64 + (b1 % 64), 2)
            else match rest1 with
              | [] => (runeError, 1)
              | b2 :: rest2 =>
                if !isCont b2 then (runeError, 1)
                else if sz ≤ 3 then ((p0 % 16) * 4096 + (b1 % 64) * 64 + (b2 % 64), 3)
                else match rest2 with
                  | [] => (runeError, 1)
                  | b3 :: _ =>
                    if !isCont b3 then (runeError, 1)
                    else ((p0 % 8) * 262144 + (b1 % 64) * 4096 + (b2 % 64) * 64 + (b3 % 64), 4)

/-- Go's `utf8.FullRune`: does `p` begin with a full encoding of a rune
(an invalid encoding counts as a full width-1 error rune) -/
def fullRune (p : Bytes) : Bool :=
  match p with
  | [] => false
  | p0 :: rest =>
    match lead p0 with
    | none => true
    | some (sz, lo, hi) =>
      if p.length ≥ sz then true
      else match rest with
        | [] => false
        | b1 :: rest1 =>
          if b1 < lo || hi < b1 then true
          else match rest1 with
            | [] => false
            | b2 :: _ => !isCont b2

/-- Go's `utf8.EncodeRune` for valid scalars; invalid values (surrogates, > 0x10FFFF)
encode U+FFFD like Go. -/
def encodeRune (r : Nat) : Bytes :=
  if r < 0x80 then [r]
  else if r < 0x800 then [0xC0 + r / 64, 0x80 + r % 64]
  else if (0xD800 ≤ r && r ≤ 0xDFFF) || r > 0x10FFFF then [0xEF, 0xBF, 0xBD]
  else if r < 0x10000 then [0xE0 + r / 4096, 0x80 + (r / 64) % 64, 0x80 + r % 64]
  else [0xF0 + r / 262144, 0x80 + (r / 4096) % 64, 0x80 + (r / 64) % 64, 0x80 + r % 64]

def validScalar (r : Nat) : Bool := (r < 0xD800 || (0xDFFF < r && r ≤ 0x10FFFF))

def encodeRunes (rs : List Nat) : Bytes := rs.flatMap encodeRune

end Tea.Utf8
