import Tea.Prelude.Bytes
/-
Styled text: the text metric shared by the renderer model (`ansi.StringWidth`,
`ansi.Truncate` of charmbracelet/x/ansi v0.8.0) and by the terminal semantics
(what a terminal prints of a string that contains control sequences).

Alphabet that is modelled: every byte is one cell wide except the bytes of an
escape sequence, which take no cell.  An escape sequence is `ESC` followed by
one byte, or `ESC [` followed by parameter / intermediate bytes up to and
including a final byte `0x40 .. 0x7e` (CSI; SGR "styling" sequences `ESC [ … m`
are the ones a view contains).  This is the library's parser restricted to
printable ASCII plus CSI sequences; multi-byte UTF-8, wide characters, OSC / DCS
strings and C0 controls inside a line are outside the model (the generators of
the `render` / `vt` streams stay inside the alphabet; a separate Go-side oracle
stream covers multi-byte and wide characters).
-/
namespace Tea.Ansi
open Tea

inductive St where
  | ground | esc | csi
  deriving Repr, DecidableEq, Inhabited

/-- one byte through the parser: the next state and whether the byte prints (takes a cell) -/
def next : St → Nat → St × Bool
  | .ground, b => if b = 0x1b then (.esc, false) else (.ground, true)
  | .esc, b => if b = 0x5b then (.csi, false) else (.ground, false)
  | .csi, b => if 0x40 ≤ b ∧ b ≤ 0x7e then (.ground, false) else (.csi, false)

/-- the printing bytes of `s`, parser starting in state `st` -/
def visibleFrom : St → Bytes → Bytes
  | _, [] => []
  | st, b :: bs =>
    let (st', p) := next st b
    if p then b :: visibleFrom st' bs else visibleFrom st' bs

/-- what a terminal shows of `s`: its bytes without the escape sequences -/
def visible (s : Bytes) : Bytes := visibleFrom .ground s

/-- `ansi.StringWidth` (on the modelled alphabet) -/
def width (s : Bytes) : Nat := (visible s).length

/-- the loop of `ansi.Truncate(s, w, "")`: escape sequences are always kept, printing bytes
only while fewer than `w` have been kept (`cur` counts them) -/
def truncFrom (w : Nat) : St → Nat → Bytes → Bytes
  | _, _, [] => []
  | st, cur, b :: bs =>
    let (st', p) := next st b
    if p then
      if cur < w then b :: truncFrom w st' (cur + 1) bs else truncFrom w st' cur bs
    else b :: truncFrom w st' cur bs

/-- `ansi.Truncate(s, w, "")`: `s` itself when it fits -/
def truncate (w : Nat) (s : Bytes) : Bytes :=
  if width s ≤ w then s else truncFrom w .ground 0 s

/-- a line of the modelled alphabet: printable ASCII and complete CSI sequences -/
def plainByte (b : Nat) : Bool := 0x20 ≤ b && b ≤ 0x7e

end Tea.Ansi
