/-
Bytes are modelled as `Nat` in a `List` (kernel evaluation of `Nat` literals is
an order of magnitude cheaper than `UInt8`).  Well-formed inputs have every
element `< 256`; the model's functions are total on every `List Nat` and the
theorems that need the bound say so.
-/
namespace Tea

abbrev Bytes := List Nat

/-- Go run-time panics that the modelled code can raise. -/
inductive Panic where
  | indexOutOfRange
  | invalidMouseEvent      -- the explicit `panic("invalid mouse event")` of mouse.go
  | nilFuncCall
  deriving Repr, DecidableEq, Inhabited

def Panic.toString : Panic → String
  | .indexOutOfRange => "index-out-of-range"
  | .invalidMouseEvent => "invalid-mouse-event"
  | .nilFuncCall => "nil-func-call"

/-- `b[i]` with Go's bounds check. -/
def idx (b : Bytes) (i : Nat) : Except Panic Nat :=
  match b[i]? with
  | some x => .ok x
  | none => .error .indexOutOfRange

def ESC : Nat := 0x1b

/-- is `p` a prefix of `b` (Boolean, structural). -/
def isPrefix : Bytes → Bytes → Bool
  | [], _ => true
  | _ :: _, [] => false
  | x :: xs, y :: ys => x == y && isPrefix xs ys

theorem isPrefix_iff {p b : Bytes} : isPrefix p b = true ↔ p <+: b := by
  induction p generalizing b with
  | nil => simp [isPrefix]
  | cons x xs ih =>
    cases b with
    | nil => simp [isPrefix]
    | cons y ys =>
      simp [isPrefix, ih, List.cons_prefix_cons]

/-- index of the first occurrence of `pat` in `b` (Go `bytes.Index`), `none` for -1. -/
def indexOf (pat : Bytes) : Bytes → Option Nat
  | [] => if pat.isEmpty then some 0 else none
  | x :: xs =>
    if isPrefix pat (x :: xs) then some 0
    else (indexOf pat xs).map (· + 1)

def isDigit (c : Nat) : Bool := 48 ≤ c && c ≤ 57

end Tea
