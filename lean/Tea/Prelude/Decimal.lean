import Tea.Prelude.Bytes
/-
Decimal printing and Go's `strconv.Atoi` on a non-empty ASCII digit string with
the error ignored: the value, saturated at `2^63 - 1` (range errors return the
maximum `int64`).  Validated by the `atoi` correspondence stream.
-/
namespace Tea.Dec
open Tea

def maxInt64 : Nat := 9223372036854775807

/-- value of a digit string, most significant first (no saturation) -/
def valueAux (acc : Nat) : Bytes → Nat
  | [] => acc
  | c :: cs => valueAux (acc * 10 + (c - 48)) cs

def value (ds : Bytes) : Nat := valueAux 0 ds

/-- `strconv.Atoi` on digits, error dropped -/
def atoi (ds : Bytes) : Nat := min (value ds) maxInt64

/-- decimal digits of `n`, most significant first, as bytes -/
def digitsAux : Nat → Nat → Bytes → Bytes
  | 0, _, acc => acc
  | fuel + 1, n, acc =>
    if n < 10 then (48 + n) :: acc
    else digitsAux fuel (n / 10) ((48 + n % 10) :: acc)

def digits (n : Nat) : Bytes := digitsAux (n + 1) n []

/-- longest prefix of ASCII digits and the rest -/
def spanDigits : Bytes → Bytes × Bytes
  | [] => ([], [])
  | c :: cs =>
    if isDigit c then
      let (d, r) := spanDigits cs
      (c :: d, r)
    else ([], c :: cs)

end Tea.Dec
