import Tea.Prelude.Bytes
import Tea.Prelude.Utf8
import Tea.Prelude.Decimal

namespace Tea.Input
open Tea

/-- `tea.Key` -/
structure Key where
  type  : Int
  runes : List Nat := []
  alt   : Bool := false
  paste : Bool := false
  deriving DecidableEq, Repr, Inhabited

/-- `tea.MouseEvent`; action/button/type are the Go enum values. -/
structure MouseEvent where
  x : Int := 0
  y : Int := 0
  shift : Bool := false
  alt : Bool := false
  ctrl : Bool := false
  action : Nat := 0
  button : Nat := 0
  type : Nat := 0
  deriving DecidableEq, Repr, Inhabited

/-- messages the input decoder can produce -/
inductive Msg where
  | key (k : Key)
  | mouse (m : MouseEvent)
  | focus
  | blur
  | unknownByte (b : Nat)
  | unknownCSI (bs : Bytes)
  deriving DecidableEq, Repr, Inhabited

structure Entry where
  seq : Bytes
  key : Key
  deriving DecidableEq, Repr, Inhabited

abbrev Table := List Entry

/-- Go key type constants the decoder mentions by name -/
def keyRunes : Int := -1
def keySpace : Int := -15
def keyNUL : Int := 0
def keyESC : Int := 27
def keyUS : Nat := 31
def keyDEL : Nat := 127

/-- map lookup `seqs[string(prefix)]` -/
def Table.lookup : Table → Bytes → Option Key
  | [], _ => none
  | e :: es, k => if e.seq == k then some e.key else Table.lookup es k

def listStr (xs : List Nat) : String := ",".intercalate (xs.map toString)

def Msg.describe : Msg → String
  | .key k => s!"key type={k.type} alt={k.alt} paste={k.paste} runes=[{listStr k.runes}]"
  | .mouse m => s!"mouse x={m.x} y={m.y} shift={m.shift} alt={m.alt} ctrl={m.ctrl} action={m.action} button={m.button} type={m.type}"
  | .focus => "focus"
  | .blur => "blur"
  | .unknownByte b => s!"unknownbyte {b}"
  | .unknownCSI bs => s!"unknowncsi [{listStr bs}]"

end Tea.Input
