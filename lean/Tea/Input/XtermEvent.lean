import Tea.Input.Mouse
import Tea.Input.XtermSpec
/-
Packaging of a decoded xterm report (`Xterm.Decoded`) and a cell as the
`tea.MouseEvent` value, including the deprecated `Type` field.
-/
namespace Tea.Input.Xterm
open Tea.Input

/-- the deprecated `Type` field: `MouseRelease` for every release, otherwise the `switch`
at the end of parseMouseButton on the final button and action -/
def legacy (d : Decoded) : Nat :=
  if d.action = release then mtRelease else legacyType d.button d.action

/-- the mouse event for a decoded report at zero-based cell `(x, y)` -/
def event (d : Decoded) (x y : Int) : MouseEvent :=
  { x := x, y := y, shift := d.shift, alt := d.alt, ctrl := d.ctrl,
    action := d.action, button := d.button, type := legacy d }

end Tea.Input.Xterm

namespace Tea.Input.Xterm
open Tea Tea.Input

/-- the SGR (1006) report `ESC [ < b ; x ; y fin`, numbers in decimal; `fin` is `M` (77) or `m` (109) -/
def sgrReport (b x y fin : Nat) : Bytes :=
  [0x1b, 0x5b, 0x3c] ++ Dec.digits b ++ [59] ++ Dec.digits x ++ [59] ++ Dec.digits y ++ [fin]

/-- the X10 / normal (1000) report `ESC [ M cb cx cy` -/
def x10Report (cb cx cy : Nat) : Bytes := [0x1b, 0x5b, 0x4d, cb, cx, cy]

end Tea.Input.Xterm
