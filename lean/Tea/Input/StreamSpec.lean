import Tea.Input.RefDecoder
import Tea.Input.Reader
import Tea.Input.XtermEvent
/-
SPEC file (not a model file, not differential-tested): the vocabulary of the C15 stream
theorems ("input longer than the read buffer decodes as if it had arrived in one piece",
for a whole STREAM of events over any number of completely filled reads).

* `CutStable T lens evs`  what the reader needs of a stream of events when a completely
                          filled read cuts it: a conjunction of statements about
                          `detectOneMsg … true` on explicit byte strings (it does not
                          mention the decode loop or the reader);
* `Ev`, `Ev.bytes`, `Ev.msg`  a small grammar of well-formed terminal events;
* `WellFormed T evs`      decidable side conditions on a stream of such events.
-/
namespace Tea.Input
open Tea Tea.Utf8

/-- what a completely filled read (`canHaveMoreData = true`) may do to a stream of events
`(bytes, message)`.  For every event `(s, m)`, with `rest` the bytes of the events after it:

 (a) a proper non-empty prefix of `s`, standing alone at the end of a completely filled read,
     is held back (`(0, nil)`);
 (b) `s` followed by a NON-EMPTY prefix `r` of `rest`, at the end of a completely filled read,
     still decodes to its message and consumes exactly `s`;
 (c) `s` alone at the very end of a completely filled read is decoded to its message or held
     back whole (never split, never something else).

(Compare `StreamOK`, the same shape for a short read.) -/
def CutStable (T : Table) (lens : List Nat) : List (Bytes × Msg) → Prop
  | [] => True
  | (s, m) :: tl =>
    (∀ k, 0 < k → k < s.length → detectOneMsg T lens (s.take k) true = .ok (0, none)) ∧
    (∀ r, r ≠ [] → r <+: (tl.map Prod.fst).flatten →
        detectOneMsg T lens (s ++ r) true = .ok (s.length, some m)) ∧
    (detectOneMsg T lens s true = .ok (s.length, some m) ∨
     detectOneMsg T lens s true = .ok (0, none)) ∧
    CutStable T lens tl

/-! ### a grammar of well-formed terminal events -/

/-- hypotheses on the key table and the list of lengths under which the event grammar below
decodes as documented (all hold for the table derived from the documented table, see
`C15_doc_tableOK`): no conflicting duplicates; no key comparable with a mouse / paste
introducer or a prefix of a focus report; every key starts with a control byte, space or DEL;
some key longer than one byte starts with ESC (so a lone ESC at the end of a completely
filled read is held back); the lengths are tried longest first and include the length of
every key; no length is zero. -/
structure TableOK (T : Table) (lens : List Nat) : Prop where
  consistent : Consistent T
  introFree : introFreeB T = true
  wf : WFTable T
  esc : isProperPrefixOfKey T [0x1b] = true
  lensDesc : lens.Pairwise (· > ·)
  lensAll : ∀ e ∈ T, e.seq.length ∈ lens
  lensPos : ∀ l ∈ lens, 0 < l

/-- `ESC [ params intermediates final` -/
def csiBytes (params inter : Bytes) (final : Nat) : Bytes := 0x1b :: 0x5b :: (params ++ inter ++ [final])

/-- a CSI sequence that is not comparable with a mouse / paste introducer and is not a focus
report (those are other events) -/
def csiPlain (s : Bytes) : Bool :=
  (introducers.all fun p => !isPrefix p s && !isPrefix s p) && (focusReports.all fun p => s != p)

/-- the event classes of the C15 property -/
inductive Ev where
  /-- a maximal run of printable characters (given as scalar values, sent UTF-8 encoded) -/
  | run (rs : List Nat)
  /-- a key sequence of the table: CSI / SS3 keys, their alt variants, control characters, space -/
  | key (e : Entry)
  /-- an SGR (1006) mouse report `ESC [ < b ; x ; y M/m` -/
  | sgr (b x y fin : Nat)
  /-- an X10 / normal (1000) mouse report `ESC [ M cb cx cy` -/
  | x10 (cb cx cy : Nat)
  /-- a bracketed paste `ESC [ 200 ~ payload ESC [ 201 ~` -/
  | paste (payload : Bytes)
  /-- a CSI sequence unknown to the table -/
  | csi (params inter : Bytes) (final : Nat)
  /-- NUL (ctrl+@): not in the table, detectOneMsg handles it itself -/
  | nul
  /-- alt + a printable character: ESC followed by the UTF-8 encoding of ONE printable character
  (the tail of detectOneMsg: `alt = true`, exactly one rune is taken after the ESC) -/
  | altRune (r : Nat)
  deriving DecidableEq, Repr

/-- the bytes the terminal sends for an event -/
def Ev.bytes : Ev → Bytes
  | .run rs => encodeRunes rs
  | .key e => e.seq
  | .sgr b x y fin => Xterm.sgrReport b x y fin
  | .x10 cb cx cy => Xterm.x10Report cb cx cy
  | .paste p => bpStart ++ p ++ bpEnd
  | .csi ps is f => csiBytes ps is f
  | .nul => [0]
  | .altRune r => 0x1b :: encodeRune r

/-- the message the event must become (the messages of C08 / C10 / C11) -/
def Ev.msg : Ev → Msg
  | .run rs => .key { type := keyRunes, runes := rs }
  | .key e => .key e.key
  | .sgr b x y fin =>
    .mouse (Xterm.event (Xterm.decode true (min b Dec.maxInt64) (fin == 109))
      (Int.ofNat (min x Dec.maxInt64) - 1) (Int.ofNat (min y Dec.maxInt64) - 1))
  | .x10 cb cx cy =>
    .mouse (Xterm.event (Xterm.decode false (cb - 32) false) (Int.ofNat cx - 32 - 1) (Int.ofNat cy - 32 - 1))
  | .paste p => .key { type := keyRunes, paste := true, runes := pasteRunes p.length p }
  | .csi ps is f => .unknownCSI (csiBytes ps is f)
  | .nul => .key { type := keyNUL }
  | .altRune r => .key { type := keyRunes, runes := [r], alt := true }

def Ev.isRun : Ev → Bool
  | .run _ => true
  | _ => false

/-- the side condition on a key of the table: one byte long or starting with ESC; not a proper
prefix of another key (so nothing that follows can extend it); and not by itself an incomplete
event (`isIncompleteEvent`, the decoder's own test) -/
def keyStableB (T : Table) (e : Entry) : Bool :=
  (e.seq.length == 1 || e.seq.head? == some 0x1b) &&
    !isProperPrefixOfKey T e.seq && !isIncompleteEvent T e.seq

/-- the decidable side condition on one event:
* run: non-empty, every character is `printableScalar`;
* key: an entry of the table that is `keyStableB` (one byte long or starting with ESC; not a
  proper prefix of another key: excludes `ESC ESC`, alt+escape; not by itself an incomplete event);
* SGR report: the final byte is `M` or `m`;   * X10 report: the button byte is at least 32;
* paste: the payload does not contain the end marker;
* unknown CSI: parameter bytes, intermediate bytes, a final byte; not a mouse / paste introducer
  or focus report; no key of the table is comparable with it;
* NUL: no key of the table starts with NUL;
* alt + character `ESC utf8(r)`: `r` is `printableScalar` (so not a control character, space or
  DEL: `ESC` + those are KEYS of the table, event class `key`; and not U+FFFD); `r` is not `[`
  (`ESC [` opens a CSI sequence, a mouse report, a paste or a focus report: there the bytes that
  follow decide, and `ESC [` alone is comparable with every introducer); and no key of the table
  is comparable with `ESC utf8(r)` (`incomparableB`):
  - no key is a prefix of it — it is not itself a key, and neither `ESC` alone nor `ESC` + the
    first bytes of `utf8(r)` is one (detectSequence would take that key first);
  - it is not a proper prefix of a key — excludes alt + a character that STARTS a known
    sequence, e.g. `ESC O` (SS3 keys `ESC O A` …) and `ESC [`: at the end of a full read the
    decoder's `isIncompleteEvent` holds it back, and the bytes of the next event could complete
    the key (`ESC O` + the run `A` IS the up arrow).
  Both directions are necessary (the model really decodes differently otherwise), so this is
  the weakest condition under which `ESC utf8(r)` followed by ANY bytes is alt+`r`. -/
def Ev.ok (T : Table) : Ev → Bool
  | .run rs => !rs.isEmpty && rs.all printableScalar
  | .key e => decide (e ∈ T) && keyStableB T e
  | .sgr _ _ _ fin => fin == 77 || fin == 109
  | .x10 cb _ _ => decide (32 ≤ cb)
  | .paste p => (indexOf bpEnd p).isNone
  | .csi ps is f => ps.all isParam && is.all isInter && isFinal f &&
      csiPlain (csiBytes ps is f) && incomparableB T (csiBytes ps is f)
  | .nul => incomparableB T [0]
  | .altRune r => printableScalar r && r != 0x5b && incomparableB T (0x1b :: encodeRune r)

/-- a well-formed stream of events: every event satisfies its side condition, and runs of
printable characters are maximal (no two runs in a row: what follows a run stops it).  An
`altRune` followed by a `run` is fine (alt takes exactly ONE character after the ESC, the run
is the next message), and so is a `run` followed by an `altRune` (the ESC stops the run). -/
def WellFormed (T : Table) : List Ev → Bool
  | [] => true
  | e :: tl => e.ok T &&
      (match tl with
       | [] => true
       | e' :: _ => !(e.isRun && e'.isRun)) && WellFormed T tl

/-- the stream of `(bytes, message)` pairs of a list of events -/
def evStream (evs : List Ev) : List (Bytes × Msg) := evs.map fun e => (e.bytes, e.msg)

end Tea.Input
