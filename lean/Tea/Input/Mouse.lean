import Tea.Input.Types
/-
Model of mouse.go: parseMouseButton, parseX10MouseEvent, parseSGRMouseEvent and
of the regular expression `(\d+);(\d+);(\d+)([Mm])` used unanchored
(leftmost-first) on `b[3:]`.
-/
namespace Tea.Input
open Tea Tea.Dec

-- Go enum values (mouse.go)
def actPress : Nat := 0
def actRelease : Nat := 1
def actMotion : Nat := 2

def btnNone : Nat := 0
def btnLeft : Nat := 1
def btnMiddle : Nat := 2
def btnRight : Nat := 3
def btnWheelUp : Nat := 4
def btnWheelDown : Nat := 5
def btnWheelLeft : Nat := 6
def btnWheelRight : Nat := 7
def btnBackward : Nat := 8
def btnForward : Nat := 9

def mtUnknown : Nat := 0
def mtLeft : Nat := 1
def mtRight : Nat := 2
def mtMiddle : Nat := 3
def mtRelease : Nat := 4
def mtWheelUp : Nat := 5
def mtWheelDown : Nat := 6
def mtWheelLeft : Nat := 7
def mtWheelRight : Nat := 8
def mtBackward : Nat := 9
def mtForward : Nat := 10
def mtMotion : Nat := 11

def isWheelBtn (b : Nat) : Bool := 4 ≤ b && b ≤ 7

/-- the deprecated `Type` field: the `switch` at the end of parseMouseButton -/
def legacyType (button action : Nat) : Nat :=
  if button == btnLeft && action == actPress then mtLeft
  else if button == btnMiddle && action == actPress then mtMiddle
  else if button == btnRight && action == actPress then mtRight
  else if button == btnNone && action == actRelease then mtRelease
  else if button == btnWheelUp && action == actPress then mtWheelUp
  else if button == btnWheelDown && action == actPress then mtWheelDown
  else if button == btnWheelLeft && action == actPress then mtWheelLeft
  else if button == btnWheelRight && action == actPress then mtWheelRight
  else if button == btnBackward && action == actPress then mtBackward
  else if button == btnForward && action == actPress then mtForward
  else if action == actMotion then
    (if button == btnLeft then mtLeft
     else if button == btnMiddle then mtMiddle
     else if button == btnRight then mtRight
     else if button == btnBackward then mtBackward
     else if button == btnForward then mtForward
     else mtMotion)
  else mtUnknown

/-- low eight bits of a Go `int` (two's complement): all masks used are `< 256`. -/
def low8 (e : Int) : Nat := (e % 256).toNat

/-- `parseMouseButton(b, isSGR)`; X and Y are left at 0. -/
def parseMouseButton (b : Int) (isSGR : Bool) : MouseEvent :=
  let e : Int := if isSGR then b else b - 32
  let u := low8 e
  let low := u % 4
  let bitAdd := u / 128 % 2 == 1
  let bitWheel := u / 64 % 2 == 1
  let bitMotion := u / 32 % 2 == 1
  let (button, action) :=
    if bitAdd then (btnBackward + low, actPress)
    else if bitWheel then (btnWheelUp + low, actPress)
    else if low == 3 then (btnNone, actRelease)
    else (btnLeft + low, actPress)
  let action := if bitMotion && !isWheelBtn button then actMotion else action
  { x := 0, y := 0,
    shift := u / 4 % 2 == 1, alt := u / 8 % 2 == 1, ctrl := u / 16 % 2 == 1,
    action := action, button := button, type := legacyType button action }

/-- `parseX10MouseEvent(buf)`: indexes `buf[3:6]` (panics if shorter). -/
def parseX10 (buf : Bytes) : Except Panic MouseEvent := do
  let v0 ← idx buf 3
  let v1 ← idx buf 4
  let v2 ← idx buf 5
  let m := parseMouseButton (Int.ofNat v0) false
  pure { m with x := Int.ofNat v1 - 32 - 1, y := Int.ofNat v2 - 32 - 1 }

structure SgrMatch where
  d1 : Bytes
  d2 : Bytes
  d3 : Bytes
  fin : Nat
  len : Nat      -- length of the match
  deriving Repr, DecidableEq

/-- does `(\d+);(\d+);(\d+)([Mm])` match at the start of `s` -/
def sgrMatchAt (s : Bytes) : Option SgrMatch :=
  let (d1, r1) := spanDigits s
  if d1.isEmpty then none else
  match r1 with
  | 59 :: r1' =>
    let (d2, r2) := spanDigits r1'
    if d2.isEmpty then none else
    match r2 with
    | 59 :: r2' =>
      let (d3, r3) := spanDigits r2'
      if d3.isEmpty then none else
      match r3 with
      | c :: _ =>
        if c == 77 || c == 109 then
          some { d1, d2, d3, fin := c, len := d1.length + 1 + d2.length + 1 + d3.length + 1 }
        else none
      | [] => none
    | _ => none
  | _ => none

/-- leftmost match: `(offset, match)` -/
def sgrFind : Bytes → Option (Nat × SgrMatch)
  | [] => none
  | c :: cs =>
    match sgrMatchAt (c :: cs) with
    | some m => some (0, m)
    | none => (sgrFind cs).map (fun (o, m) => (o + 1, m))

/-- `parseSGRMouseEvent(buf)` -/
def parseSGR (buf : Bytes) : Except Panic MouseEvent :=
  match sgrFind (buf.drop 3) with
  | none => .error .invalidMouseEvent
  | some (_, m) =>
    let b := atoi m.d1
    let release := m.fin == 109
    let ev := parseMouseButton (Int.ofNat b) true
    let ev := if ev.action != actMotion && !isWheelBtn ev.button && release
              then { ev with action := actRelease, type := mtRelease } else ev
    .ok { ev with x := Int.ofNat (atoi m.d2) - 1, y := Int.ofNat (atoi m.d3) - 1 }

end Tea.Input
