import Tea.Input.Mouse
/-
Model of key_sequences.go (detectSequence, detectBracketedPaste,
detectReportFocus) and key.go (detectOneMsg), same order of checks.
-/
namespace Tea.Input
open Tea Tea.Utf8

def bpStart : Bytes := [0x1b, 0x5b, 0x32, 0x30, 0x30, 0x7e]   -- ESC [ 2 0 0 ~
def bpEnd   : Bytes := [0x1b, 0x5b, 0x32, 0x30, 0x31, 0x7e]   -- ESC [ 2 0 1 ~

def isParam (c : Nat) : Bool := 0x30 ≤ c && c ≤ 0x3f
def isInter (c : Nat) : Bool := 0x20 ≤ c && c ≤ 0x2f
def isFinal (c : Nat) : Bool := 0x40 ≤ c && c ≤ 0x7e

/-- length of the match of `^\x1b\[[\x30-\x3f]*[\x20-\x2f]*[\x40-\x7e]` -/
def unknownCSILen (b : Bytes) : Option Nat :=
  match b with
  | 0x1b :: 0x5b :: rest =>
    let ps := rest.takeWhile isParam
    let r1 := rest.dropWhile isParam
    let is := r1.takeWhile isInter
    let r2 := r1.dropWhile isInter
    match r2 with
    | c :: _ => if isFinal c then some (2 + ps.length + is.length + 1) else none
    | [] => none
  | _ => none

/-- the length loop of detectSequence -/
def lookupLens (T : Table) (input : Bytes) : List Nat → Option (Nat × Key)
  | [] => none
  | sz :: rest =>
    if sz > input.length then lookupLens T input rest
    else match T.lookup (input.take sz) with
      | some k => some (sz, k)
      | none => lookupLens T input rest

/-- `detectSequence(input)`: `(hasSeq, width, msg)` as an option -/
def detectSequence (T : Table) (lens : List Nat) (input : Bytes) : Option (Nat × Msg) :=
  match lookupLens T input lens with
  | some (sz, k) => some (sz, .key k)
  | none =>
    match unknownCSILen input with
    | some n => some (n, .unknownCSI (input.take n))
    | none => none

/-- runes of a paste: iterate DecodeRune, drop RuneError results -/
def pasteRunes : Nat → Bytes → List Nat
  | 0, _ => []
  | _ + 1, [] => []
  | fuel + 1, p =>
    let (r, w) := decodeRune p
    let rest := pasteRunes fuel (p.drop w)
    if r != runeError then r :: rest else rest

/-- `detectBracketedPaste(input)`: `none` = not a paste; `some (0, none)` = need more -/
def detectBracketedPaste (input : Bytes) : Option (Nat × Option Msg) :=
  if input.length < bpStart.length || input.take bpStart.length != bpStart then none
  else
    let body := input.drop bpStart.length
    match indexOf bpEnd body with
    | none => some (0, none)
    | some i =>
      let paste := body.take i
      some (bpStart.length + i + bpEnd.length,
            some (.key { type := keyRunes, paste := true, runes := pasteRunes paste.length paste }))

/-- `detectReportFocus(input)`: whole-buffer equality -/
def detectReportFocus (input : Bytes) : Option (Nat × Msg) :=
  if input == [0x1b, 0x5b, 0x49] then some (3, .focus)
  else if input == [0x1b, 0x5b, 0x4f] then some (3, .blur)
  else none

/-- the rune loop of detectOneMsg: returns `(i, runes, incomplete)`; `incomplete` is the
early `return 0, nil` taken when the buffer ends inside a multi-byte character and more
data may follow -/
def runeLoop (alt more : Bool) : Nat → Bytes → Nat → List Nat → Nat × List Nat × Bool
  | 0, _, i, acc => (i, acc.reverse, false)
  | fuel + 1, b, i, acc =>
    if i < b.length then
      let (r, rw) := decodeRune (b.drop i)
      if r == runeError && more && !fullRune (b.drop i) then (i, acc.reverse, true)
      else if r == runeError || r ≤ keyUS || r == keyDEL || r == 32 then (i, acc.reverse, false)
      else if alt then (i + rw, (r :: acc).reverse, false)
      else runeLoop alt more fuel b (i + rw) (r :: acc)
    else (i, acc.reverse, false)

/-- is `b` a proper (non-empty) prefix of a known sequence: `extSequencePrefixes[string(b)]` -/
def isProperPrefixOfKey (T : Table) (b : Bytes) : Bool :=
  T.any (fun e => decide (b.length < e.seq.length) && isPrefix b e.seq)

/-- `isIncompleteEvent(input)` (key_sequences.go): may `input`, which runs to the end of a
completely filled read buffer, be the beginning of an event whose rest is still unread -/
def isIncompleteEvent (T : Table) (input : Bytes) : Bool :=
  match input with
  | [] => false
  | b0 :: tl =>
    if b0 != 0x1b then false
    else if isProperPrefixOfKey T input then true
    else match tl with
      | 0x5b :: rest2 =>
        if (detectReportFocus input).isSome then true
        else match rest2 with
          | 0x4d :: _ => decide (input.length < 6)
          | _ => ((rest2.dropWhile isParam).dropWhile isInter).isEmpty
      | _ => false

/-- the mouse prefix of detectOneMsg -/
def detectMouse (b : Bytes) : Except Panic (Option (Nat × Msg)) :=
  if b.length ≥ 6 then
    match b with
    | 0x1b :: 0x5b :: 0x4d :: _ => do      -- ESC [ M
      let m ← parseX10 b
      pure (some (6, .mouse m))
    | 0x1b :: 0x5b :: 0x3c :: rest =>      -- ESC [ <
      match sgrFind rest with
      | some (off, m) => do
        let ev ← parseSGR b
        pure (some (off + m.len + 3, .mouse ev))
      | none => pure none
    | _ => pure none
  else pure none

/-- the tail of detectOneMsg: NUL, rune run, lone ESC, invalid byte -/
def detectTail (b : Bytes) (more : Bool) : Except Panic (Nat × Option Msg) :=
  match idx b 0 with
  | .error e => .error e
  | .ok b0 =>
    let alt := b0 == 0x1b
    let i := if alt then 1 else 0
    if i < b.length && b.getD i 1 == 0 then
      .ok (i + 1, some (.key { type := keyNUL, alt := alt }))
    else
      let r := runeLoop alt more (b.length + 1) b i []
      if r.2.2 then .ok (0, none)
      else if r.1 ≥ b.length && more then .ok (0, none)
      else if r.2.1.length > 0 then
        -- (the KeySpace branch is dead in the source: a space ends the rune loop)
        let ty := if r.2.1 == [32] then keySpace else keyRunes
        .ok (r.1, some (.key { type := ty, runes := r.2.1, alt := alt }))
      else if alt && b.length == 1 then
        .ok (1, some (.key { type := keyESC }))
      else .ok (1, some (.unknownByte b0))

/-- `detectOneMsg(b, canHaveMoreData)`: `(w, msg)`; `msg = none` is Go's nil. -/
def detectOneMsg (T : Table) (lens : List Nat) (b : Bytes) (more : Bool) :
    Except Panic (Nat × Option Msg) :=
  if more && isIncompleteEvent T b then .ok (0, none) else
  match detectMouse b with
  | .error e => .error e
  | .ok (some (w, m)) => .ok (w, some m)
  | .ok none =>
  match detectReportFocus b with
  | some (w, m) => .ok (w, some m)
  | none =>
  match detectBracketedPaste b with
  | some (w, m) => .ok (w, m)
  | none =>
  match detectSequence T lens b with
  | some (w, m) => .ok (w, some m)
  | none => detectTail b more

end Tea.Input
