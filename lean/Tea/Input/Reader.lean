import Tea.Input.Detect
/-
Model of readAnsiInputs (key.go): a 256-byte read buffer, the left-over slice,
`canHaveMoreData := numBytes == len(buf)`, and the inner decode loop.
Every emitted message carries the bytes it consumed (ghost component).
-/
namespace Tea.Input
open Tea

def bufSize : Nat := 256

structure Out where
  msg : Option Msg      -- `none` is a nil message (never produced: proved)
  consumed : Bytes
  deriving Repr, DecidableEq

/-- inner `for i, w = 0, 0; i < len(b); i += w` loop on the not-yet-decoded suffix `b`.
Returns the emitted messages (in order) and the left-over (`[]` = nil). -/
def decodeLoop (T : Table) (lens : List Nat) (more : Bool) :
    Nat → Bytes → List Out → Except Panic (List Out × Bytes)
  | 0, b, acc => .ok (acc.reverse, b)          -- unreachable with fuel > length (proved)
  | fuel + 1, b, acc =>
    if b.isEmpty then .ok (acc.reverse, [])
    else
      match detectOneMsg T lens b more with
      | .error e => .error e
      | .ok (w, m) =>
        if w == 0 then .ok (acc.reverse, b)
        else
          decodeLoop T lens more fuel (b.drop w) ({ msg := m, consumed := b.take w } :: acc)

/-- one iteration of the outer loop: a successful `Read` returning `chunk` -/
def processRead (T : Table) (lens : List Nat) (left chunk : Bytes) :
    Except Panic (List Out × Bytes) :=
  let b := left ++ chunk
  decodeLoop T lens (chunk.length == bufSize) (b.length + 1) b []

/-- the whole reader on a list of successful reads followed by a failing one. `eof` says
whether that final error is io.EOF: then the held-back bytes are decoded with
`canHaveMoreData = false` (what still cannot be decoded is dropped); any other error
(cancellation, a real read error) returns at once. Result: all messages and the bytes
that were never turned into a message. -/
def readAll (T : Table) (lens : List Nat) (eof : Bool) : List Bytes → Bytes → List Out →
    Except Panic (List Out × Bytes)
  | [], left, acc =>
    if eof then
      match decodeLoop T lens false (left.length + 1) left [] with
      | .error e => .error e
      | .ok (out, left') => .ok (acc ++ out, left')
    else .ok (acc, left)
  | c :: cs, left, acc =>
    match processRead T lens left c with
    | .error e => .error e
    | .ok (out, left') => readAll T lens eof cs left' (acc ++ out)

/-- how `io.Reader` delivers a byte string when each Read fills the buffer
if it can: full 256-byte reads, then one short (possibly empty) read -/
def readsOf (n : Nat) (s : Bytes) : Nat → List Bytes
  | 0 => [s]
  | fuel + 1 => if s.length < n then [s] else s.take n :: readsOf n (s.drop n) fuel

/-! ### a failing Read that carries data -/

/-- The reader on the successful reads `reads` followed by a last Read that returns the
bytes `lastData` TOGETHER with an error (`io.Reader` allows `n > 0, err != nil` and asks
callers to process the bytes first). readAnsiInputs sets the error aside, decodes the bytes as
a SHORT read (`canHaveMoreData = false`: nothing more will come, whatever the length) and deals
with the error on the next turn of its loop: a non-EOF error returns at once; io.EOF decodes
the left-over once more with the same flag, which changes nothing (`decodeLoop_false_left_fixed`).
So for either kind of error: the messages of the successful reads, then the messages of
`left ++ lastData` decoded with the flag off. An empty `lastData` is the ordinary failing Read.
(Before fix `6d200e8` the code looked at the error first and dropped the bytes; the `X` lines
of the `reader` stream pinned that, and now pin this.) -/
def readAllX (T : Table) (lens : List Nat) (reads : List Bytes) (lastData : Bytes) :
    Except Panic (List Out × Bytes) :=
  match readAll T lens false reads [] [] with
  | .error e => .error e
  | .ok (out, left) =>
    if lastData.isEmpty then .ok (out, left)
    else
      match decodeLoop T lens false ((left ++ lastData).length + 1) (left ++ lastData) [] with
      | .error e => .error e
      | .ok (out2, left2) => .ok (out ++ out2, left2)

/-! ### cancellation

Every message is handed over by `select { case msgs <- msg: case <-ctx.Done(): return err }`:
one cancellation point per message, AFTER detectOneMsg has produced it and after the
`w == 0` test. `budget` = the number of sends that still succeed; the send that finds the
budget at 0 finds the context done and the reader returns at once. -/

/-- the inner loop with the cancellation point. Third component: `true` = returned because
the context was done at a send (the message in hand is not sent, nothing after it is decoded;
the second component is then the undecoded rest, which Go discards), `false` = the loop ended
as `decodeLoop` does. -/
def decodeLoopC (T : Table) (lens : List Nat) (more : Bool) :
    Nat → Bytes → List Out → Nat → Except Panic (List Out × Bytes × Bool)
  | 0, b, acc, _ => .ok (acc.reverse, b, false)
  | fuel + 1, b, acc, budget =>
    if b.isEmpty then .ok (acc.reverse, [], false)
    else
      match detectOneMsg T lens b more with
      | .error e => .error e
      | .ok (w, m) =>
        if w == 0 then .ok (acc.reverse, b, false)
        else
          match budget with
          | 0 => .ok (acc.reverse, b, true)          -- `case <-ctx.Done(): return`
          | k + 1 =>
            decodeLoopC T lens more fuel (b.drop w) ({ msg := m, consumed := b.take w } :: acc) k

/-- the outer loop with the cancellation point: `acc` = the messages sent so far, `budget` =
the sends that still succeed. When a read's inner loop returns because of the cancellation
the remaining reads `cs` are not looked at: no further Read is issued. -/
def readAllCAux (T : Table) (lens : List Nat) (eof : Bool) :
    List Bytes → Bytes → List Out → Nat → Except Panic (List Out × Bool)
  | [], left, acc, budget =>
    if eof then
      match decodeLoopC T lens false (left.length + 1) left [] budget with
      | .error e => .error e
      | .ok (out, _, c) => .ok (acc ++ out, c)
    else .ok (acc, false)
  | c :: cs, left, acc, budget =>
    match decodeLoopC T lens (c.length == bufSize) ((left ++ c).length + 1) (left ++ c) [] budget with
    | .error e => .error e
    | .ok (out, left', cancelled) =>
      if cancelled then .ok (acc ++ out, true)
      else readAllCAux T lens eof cs left' (acc ++ out) (budget - out.length)

/-- The reader when the context is cancelled after exactly `budget` messages have been handed
over: the messages actually sent, and whether the reader stopped because of the cancellation
(`true`: the send of message number `budget + 1` found the context done) or ran to the end
of `reads` and the final error (`false`). -/
def readAllC (T : Table) (lens : List Nat) (eof : Bool) (reads : List Bytes) (budget : Nat) :
    Except Panic (List Out × Bool) :=
  readAllCAux T lens eof reads [] [] budget

end Tea.Input
