import Tea.Input.Detect
/-
Model of readAnsiInputs (key.go): a 256-byte read buffer, the left-over slice,
`canHaveMoreData := numBytes == len(buf)`, and the inner decode loop.
Every emitted message carries the bytes it consumed (ghost component).
-/
namespace Tea.Input
open Tea

def bufSize : Nat := 256

structure Out where
  msg : Option Msg      -- `none` is a nil message (never produced: proved)
  consumed : Bytes
  deriving Repr, DecidableEq

/-- inner `for i, w = 0, 0; i < len(b); i += w` loop on the not-yet-decoded suffix `b`.
Returns the emitted messages (in order) and the left-over (`[]` = nil). -/
def decodeLoop (T : Table) (lens : List Nat) (more : Bool) :
    Nat → Bytes → List Out → Except Panic (List Out × Bytes)
  | 0, b, acc => .ok (acc.reverse, b)          -- unreachable with fuel > length (proved)
  | fuel + 1, b, acc =>
    if b.isEmpty then .ok (acc.reverse, [])
    else
      match detectOneMsg T lens b more with
      | .error e => .error e
      | .ok (w, m) =>
        if w == 0 then .ok (acc.reverse, b)
        else
          decodeLoop T lens more fuel (b.drop w) ({ msg := m, consumed := b.take w } :: acc)

/-- one iteration of the outer loop: a successful `Read` returning `chunk` -/
def processRead (T : Table) (lens : List Nat) (left chunk : Bytes) :
    Except Panic (List Out × Bytes) :=
  let b := left ++ chunk
  decodeLoop T lens (chunk.length == bufSize) (b.length + 1) b []

/-- the whole reader on a list of successful reads followed by a failing one. `eof` says
whether that final error is io.EOF: then the held-back bytes are decoded with
`canHaveMoreData = false` (what still cannot be decoded is dropped); any other error
(cancellation, a real read error) returns at once. Result: all messages and the bytes
that were never turned into a message. -/
def readAll (T : Table) (lens : List Nat) (eof : Bool) : List Bytes → Bytes → List Out →
    Except Panic (List Out × Bytes)
  | [], left, acc =>
    if eof then
      match decodeLoop T lens false (left.length + 1) left [] with
      | .error e => .error e
      | .ok (out, left') => .ok (acc ++ out, left')
    else .ok (acc, left)
  | c :: cs, left, acc =>
    match processRead T lens left c with
    | .error e => .error e
    | .ok (out, left') => readAll T lens eof cs left' (acc ++ out)

/-- how `io.Reader` delivers a byte string when each Read fills the buffer
if it can: full 256-byte reads, then one short (possibly empty) read -/
def readsOf (n : Nat) (s : Bytes) : Nat → List Bytes
  | 0 => [s]
  | fuel + 1 => if s.length < n then [s] else s.take n :: readsOf n (s.drop n) fuel

end Tea.Input
