import Tea.Input.Detect
/-
SPEC file (not a model file, not differential-tested): the derivation of the extended key
table and of the list of lengths from the documented table, as key_sequences.go does it
(`extSequences`, `seqLengths`), plus the vocabulary the C08 theorems are stated in.
-/
namespace Tea.Input
open Tea

/-- `key.Alt = true` -/
def Key.withAlt (k : Key) : Key := { k with alt := true }

/-- first loop of `extSequences`: every documented sequence, and its ESC-prefixed alt
variant when the key is not already an alt key -/
def deriveSeqs (S : Table) : Table :=
  S.flatMap fun e =>
    if e.key.alt then [e] else [e, { seq := 0x1b :: e.seq, key := e.key.withAlt }]

/-- the control codes of the second loop: `keyNUL+1 .. keyUS` except `keyESC`, then `keyDEL` -/
def ctrlCodes : List Nat := ((List.range 32).filter fun i => i != 0 && i != 27) ++ [127]

/-- second loop of `extSequences`: control characters, alone and after ESC -/
def deriveCtrl : Table :=
  ctrlCodes.flatMap fun i =>
    [{ seq := [i], key := { type := (i : Int) } },
     { seq := [0x1b, i], key := { type := (i : Int), alt := true } }]

/-- the three final assignments of `extSequences`: space, alt+space, alt+escape -/
def deriveFixed : Table :=
  [{ seq := [0x20], key := { type := keySpace, runes := [0x20] } },
   { seq := [0x1b, 0x20], key := { type := keySpace, runes := [0x20], alt := true } },
   { seq := [0x1b, 0x1b], key := { type := keyESC, alt := true } }]

/-- `extSequences` as an association list, in the order the Go code writes the map.
(`Table.lookup` returns the first match, a Go map keeps the last write: irrelevant when the
table is `Consistent`, which is proved for the documented table.) -/
def deriveExt (S : Table) : Table := deriveSeqs S ++ deriveCtrl ++ deriveFixed

/-- insert into a strictly descending list, keeping it strictly descending -/
def insertDesc (n : Nat) : List Nat → List Nat
  | [] => [n]
  | m :: ms => if m < n then n :: m :: ms else if n = m then m :: ms else m :: insertDesc n ms

/-- `seqLengths`: the distinct lengths of the keys of the table, largest first -/
def descLengths (T : Table) : List Nat := T.foldr (fun e acc => insertDesc e.seq.length acc) []

/-- every entry is found under its own sequence: no two entries with the same sequence and
different keys (so first-match and last-write lookup agree) -/
def Consistent (T : Table) : Prop := ∀ e ∈ T, T.lookup e.seq = some e.key

def consistentB (T : Table) : Bool := T.all fun e => T.lookup e.seq == some e.key

/-- no two entries (at different positions) have the same sequence -/
def NodupKeys (T : Table) : Prop := T.Pairwise fun a b => a.seq ≠ b.seq

/-- strict lexicographic order on byte strings (a proper prefix is smaller) -/
def lexLt : Bytes → Bytes → Bool
  | _, [] => false
  | [], _ :: _ => true
  | x :: xs, y :: ys => Nat.blt x y || (Nat.beq x y && lexLt xs ys)

/-- the table is strictly sorted by sequence (a linear check that implies `NodupKeys`) -/
def sortedKeysB : Table → Bool
  | [] => true
  | [_] => true
  | a :: b :: rest => lexLt a.seq b.seq && sortedKeysB (b :: rest)

/-- the shape of a documented sequence that makes the derivation collision-free: it starts with
ESC, not with ESC ESC, and has at least three bytes (so it cannot collide with an ESC-prefixed
variant of another sequence, nor with the one- and two-byte control / space / alt-escape keys) -/
def docShapeB (S : Table) : Bool :=
  S.all fun e => match e.seq with
    | 0x1b :: c :: _ :: _ => c != 0x1b
    | _ => false

/-- prefixes that make detectOneMsg leave the key-table path: X10 mouse `ESC [ M`, SGR mouse
`ESC [ <`, the bracketed-paste start marker -/
def introducers : List Bytes := [[0x1b, 0x5b, 0x4d], [0x1b, 0x5b, 0x3c], bpStart]

/-- whole buffers that detectReportFocus takes: `ESC [ I`, `ESC [ O` -/
def focusReports : List Bytes := [[0x1b, 0x5b, 0x49], [0x1b, 0x5b, 0x4f]]

/-- the buffer is not taken by the mouse / focus / paste detectors that run before the key
table: it does not start with `ESC [ M` or `ESC [ <` (those only matter when 6 bytes or more are
present), does not start with the paste start marker, and is not exactly `ESC [ I` / `ESC [ O` -/
def NoIntroducer (b : Bytes) : Bool :=
  !(decide (6 ≤ b.length) && (isPrefix [0x1b, 0x5b, 0x4d] b || isPrefix [0x1b, 0x5b, 0x3c] b)) &&
  !isPrefix bpStart b && b != [0x1b, 0x5b, 0x49] && b != [0x1b, 0x5b, 0x4f]

/-- no key of the table is comparable (prefix either way) with a mouse / paste introducer, and no
key is a prefix of a focus report (a key may extend one: `ESC [ O A` is a documented key): then a
key followed by anything is never taken by the mouse / focus / paste detectors -/
def introFreeB (T : Table) : Bool :=
  T.all fun e => (introducers.all fun p => !isPrefix e.seq p && !isPrefix p e.seq) &&
    (focusReports.all fun p => !isPrefix e.seq p)

/-- no key of the table is a prefix of `b` -/
def NoKeyPrefix (T : Table) (b : Bytes) : Prop := ∀ e ∈ T, ¬ e.seq <+: b

/-- `s` followed by `rest`: no key of the table that is a prefix of `s ++ rest` is longer than
`s` (nothing in `rest` extends `s`, or a prefix of it, to a longer known sequence) -/
def NotExtended (T : Table) (s rest : Bytes) : Prop :=
  ∀ e' ∈ T, e'.seq <+: s ++ rest → e'.seq.length ≤ s.length

/-- every key sequence is non-empty and starts with a control byte, space or DEL (never with a
printableScalar character other than space, never with a byte ≥ 0x80) -/
def WFTable (T : Table) : Prop := ∀ e ∈ T, ∃ c tl, e.seq = c :: tl ∧ (c ≤ 32 ∨ c = 127)

/-- no key of the table is comparable (prefix either way) with `p`: then no key is a prefix of
`p ++ rest`, and `p ++ rest` is not a proper prefix of a key, whatever `rest` is -/
def incomparableB (T : Table) (p : Bytes) : Bool :=
  T.all fun e => !isPrefix e.seq p && !isPrefix p e.seq

/-- a character the rune loop of detectOneMsg accepts: a valid scalar value that is not a control
character, not space, not DEL and not U+FFFD -/
def printableScalar (r : Nat) : Bool :=
  Utf8.validScalar r && decide (32 < r) && r != 127 && r != Utf8.runeError

/-- what follows a run of printableScalar characters ends the run: nothing, or bytes that decode to a
control character, space, DEL, or an invalid / truncated encoding -/
def stopsRun (rest : Bytes) : Bool :=
  let r := (Utf8.decodeRune rest).1
  r == Utf8.runeError || decide (r ≤ keyUS) || r == keyDEL || r == 32

/-- a stream of events, each given by its bytes and the message it must become: every event is
non-empty and decodes to its message in the context of everything that follows it -/
def StreamOK (T : Table) (lens : List Nat) : List (Bytes × Msg) → Prop
  | [] => True
  | (s, m) :: tl =>
    s ≠ [] ∧ detectOneMsg T lens (s ++ (tl.map Prod.fst).flatten) false = .ok (s.length, some m) ∧
    StreamOK T lens tl

def wfTableB (T : Table) : Bool :=
  T.all fun e => match e.seq with
    | [] => false
    | c :: _ => decide (c ≤ 32) || c == 127

end Tea.Input
