/-
An independent, short specification of the xterm mouse-report encoding
(ctlseqs, "Mouse Tracking"), as bubbletea interprets it.  It does NOT mention
the decoder model (`parseMouseButton`); it is written with `%` and `/` on the
low eight bits of the button code only.

  bits 0-1 : button number within its group (3 = "no button" in the basic group)
  bit 2 (+4)   : shift
  bit 3 (+8)   : alt / meta
  bit 4 (+16)  : ctrl
  bit 5 (+32)  : motion
  bit 6 (+64)  : wheel group   (buttons 4..7)
  bit 7 (+128) : extra group   (buttons 8..11); it wins over bit 6

Numeric values are the Go enums of mouse.go:
  action : 0 press, 1 release, 2 motion
  button : 0 none, 1 left, 2 middle, 3 right, 4..7 wheel up/down/left/right,
           8 backward, 9 forward, 10, 11
-/
namespace Tea.Input.Xterm

structure Decoded where
  button : Nat
  action : Nat
  shift : Bool
  alt : Bool
  ctrl : Bool
  deriving DecidableEq, Repr

def press : Nat := 0
def release : Nat := 1
def motion : Nat := 2

/-- bit `k` of the low byte of `code` -/
def bit (code k : Nat) : Bool := decide (code % 256 / 2 ^ k % 2 = 1)

/-- the report is about a wheel button (group bit 6 set, group bit 7 clear) -/
def isWheel (code : Nat) : Bool := bit code 6 && !bit code 7

/-- the report has the motion flag -/
def isMotion (code : Nat) : Bool := bit code 5

/-- the button the code names -/
def buttonOf (code : Nat) : Nat :=
  let low := code % 256 % 4
  if bit code 7 then 8 + low
  else if bit code 6 then 4 + low
  else if low = 3 then 0
  else 1 + low

/-- the basic-group code 3: "release, button unknown" of the X10/normal encoding -/
def isX10Release (code : Nat) : Bool :=
  decide (code % 256 % 4 = 3) && !bit code 6 && !bit code 7

/-- `sgr`: the report is in SGR (1006) form; `releaseFinal`: its final byte is `m`
(ignored unless `sgr`).  `code` is the button code as transmitted in SGR, or the X10
byte minus 32. -/
def decode (sgr : Bool) (code : Nat) (releaseFinal : Bool) : Decoded :=
  { button := buttonOf code
    action :=
      if isWheel code then press            -- a wheel event is never a release or a motion
      else if isMotion code then motion     -- whatever the final byte
      else if sgr && releaseFinal then release
      else if isX10Release code then release
      else press
    shift := bit code 2
    alt := bit code 3
    ctrl := bit code 4 }

end Tea.Input.Xterm
