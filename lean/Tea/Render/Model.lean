import Tea.VT.Ops
/-
Model of standard_renderer.go: the fields of standardRenderer that matter and
one function per method, each returning the new state and the terminal
operations it writes. Mirrors the source line by line (including the
`CursorBackward(width)` that ends an inline flush and the one-space frame that
stands for an empty view). Not modelled: the deprecated ignored-lines /
scroll-area API and the ANSI compressor. Text metric (`Tea/Prelude/Ansi.lean`):
one cell per byte except the bytes of escape sequences (styled text), which
take none; `ansi.StringWidth` / `ansi.Truncate` are library code, modelled there.
-/
namespace Tea.Render
open Tea Tea.VT

abbrev Line := Bytes

structure RState where
  buf : Bytes := []
  queued : List Line := []
  lastRender : Bytes := []
  lastLines : Option (List Line) := none      -- lastRenderedLines (nil = none)
  linesRendered : Nat := 0
  altLinesRendered : Nat := 0
  cursorHidden : Bool := false
  altActive : Bool := false
  bpActive : Bool := false
  focusActive : Bool := false
  width : Nat := 0
  height : Nat := 0
  deriving Repr, DecidableEq, Inhabited

/-- `strings.Split(s, "\n")`: always at least one element -/
def splitLines (s : Bytes) : List Line :=
  let rec go : Bytes → Line → List Line
    | [], cur => [cur.reverse]
    | c :: cs, cur => if c == 10 then cur.reverse :: go cs [] else go cs (c :: cur)
  go s []

/-- `ansi.StringWidth`: the cells a line takes (escape sequences take none) -/
def lineWidth (l : Line) : Nat := Ansi.width l
/-- `ansi.Truncate(l, w, "")`: printing bytes beyond `w` cells are dropped, escape sequences kept -/
def truncateLine (w : Nat) (l : Line) : Line := Ansi.truncate w l

def RState.lastLinesRendered (r : RState) : Nat :=
  if r.altActive then r.altLinesRendered else r.linesRendered

def RState.repaint (r : RState) : RState := { r with lastRender := [], lastLines := none }

/-- `len(r.lastRenderedLines) > i && r.lastRenderedLines[i] == newLines[i]` -/
def sameAsLast (r : RState) (i : Nat) (l : Line) : Bool :=
  match r.lastLines with
  | none => false
  | some ls => ls[i]? == some l

/-- what flush writes for a queued (printed) line -/
def queuedLineOps (width : Nat) (line : Line) : List TermOp :=
  [.text line] ++
  (if width > 0 && (lineWidth line == 0 || lineWidth line % width != 0) then [.el0] else []) ++
  [.cr, .lf]

/-- the body of the paint loop for line `i` of `n` -/
def paintLineOps (r : RState) (flushQ shrinking : Bool) (n i : Nat) (l : Line) : List TermOp :=
  let eraseBelow := shrinking && i == n - 1
  let canSkip := !flushQ && !eraseBelow && sameAsLast r i l
  if canSkip then
    (if i < n - 1 then [.lf] else [])
  else
    (if i == 0 && r.lastRender.isEmpty then [.cr] else []) ++
    (if eraseBelow then [.ed0] else []) ++
    (let line := if r.width > 0 then truncateLine r.width l else l
     [.text line] ++ (if lineWidth line < r.width then [.el0] else [])) ++
    (if i < n - 1 then [.cr, .lf] else [])

def paintOps (r : RState) (flushQ shrinking : Bool) (n : Nat) : Nat → List Line → List TermOp
  | _, [] => []
  | i, l :: ls => paintLineOps r flushQ shrinking n i l ++ paintOps r flushQ shrinking n (i + 1) ls

/-- the lines a flush paints: split, keep the last `height` -/
def frameLines (r : RState) : List Line :=
  let ls := splitLines r.buf
  if r.height > 0 && ls.length > r.height then ls.drop (ls.length - r.height) else ls

/-- `flush()` -/
def flush (r : RState) : RState × List TermOp :=
  if r.buf.isEmpty || r.buf == r.lastRender then (r, [])
  else
    let pre : List TermOp :=
      if r.altActive then [.home]
      else if r.linesRendered > 1 then [.cuu (r.linesRendered - 1)] else []
    let newLines := frameLines r
    let n := newLines.length
    let flushQ := !r.queued.isEmpty && !r.altActive
    let qops := if flushQ then r.queued.flatMap (queuedLineOps r.width) else []
    let shrinking := r.lastLinesRendered > n
    let body := paintOps r flushQ shrinking n 0 newLines
    -- (the post-loop erase only concerns frames whose last line is an ignored line: not modelled)
    let fin : List TermOp := if r.altActive then [.cup n] else [.cub r.width]
    let r' := { r with
      queued := if flushQ then [] else r.queued
      linesRendered := if r.altActive then r.linesRendered else n
      altLinesRendered := if r.altActive then n else r.altLinesRendered
      lastRender := r.buf
      lastLines := some newLines
      buf := [] }
    (r', pre ++ qops ++ body ++ fin)

/-- `write(s)` -/
def write (r : RState) (s : Bytes) : RState := { r with buf := if s.isEmpty then [32] else s }

def cursorOp (hidden : Bool) : TermOp := if hidden then .decrst 25 else .decset 25

def clearScreen (r : RState) : RState × List TermOp := (r.repaint, [.ed2, .home])

/-- `enterAltScreen()`. Lines printed since the last frame belong above the view on the MAIN screen
and the alt screen never shows them: if any are queued the main screen is brought up to date first
(one ordinary `flush`), then the screen is switched. (Before fix `dcf56fa` the queue was
simply carried into the alt screen, and a program that ended there lost the lines.) -/
def enterAlt (r : RState) : RState × List TermOp :=
  if r.altActive then (r, [])
  else
    let p := if r.queued.isEmpty then (r, []) else flush r
    (({ p.1 with altActive := true, altLinesRendered := 0 } : RState).repaint,
      p.2 ++ [.decset 1049, .ed2, .home, cursorOp p.1.cursorHidden])

def exitAlt (r : RState) : RState × List TermOp :=
  if !r.altActive then (r, [])
  else (({ r with altActive := false } : RState).repaint, [.decrst 1049, cursorOp r.cursorHidden])

/-- `stop()`: the final flush, then the cursor line is erased — and the line cache is
invalidated, because that line is no longer on screen (a later render, after a restart or when
the program quits while the terminal is released, must not skip it as unchanged) -/
def stop (r : RState) : RState × List TermOp :=
  let (r', ops) := flush r
  (r'.repaint, ops ++ [.el2, .cr])

/-- `kill()`: no final flush; the cursor line is erased and, as in `stop`, the line cache is
invalidated (the erased line is no longer on screen: if Run's own `stop` still paints the final view
after a Kill that lost the race to a quit, it must not skip that line as unchanged) -/
def kill (r : RState) : RState × List TermOp := (r.repaint, [.el2, .cr])

inductive ROp where
  | size (w h : Nat)        -- handleMessages(WindowSizeMsg)
  | write (s : Bytes)
  | flush
  | repaintMsg
  | clearScreen
  | enterAlt | exitAlt
  | showCursor | hideCursor
  | mouseCell | noMouseCell | mouseAll | noMouseAll | mouseSGR | noMouseSGR
  | paste | noPaste | focus | noFocus
  | printLine (body : Bytes)
  | stop | kill
  | title (s : Bytes)
  deriving Repr, DecidableEq, Inhabited

def step (r : RState) : ROp → RState × List TermOp
  | .size w h => (({ r with width := w, height := h } : RState).repaint, [])
  | .write s => (write r s, [])
  | .flush => flush r
  | .repaintMsg => (r.repaint, [])
  | .clearScreen => clearScreen r
  | .enterAlt => enterAlt r
  | .exitAlt => exitAlt r
  | .showCursor => ({ r with cursorHidden := false }, [.decset 25])
  | .hideCursor => ({ r with cursorHidden := true }, [.decrst 25])
  | .mouseCell => (r, [.decset 1002])
  | .noMouseCell => (r, [.decrst 1002])
  | .mouseAll => (r, [.decset 1003])
  | .noMouseAll => (r, [.decrst 1003])
  | .mouseSGR => (r, [.decset 1006])
  | .noMouseSGR => (r, [.decrst 1006])
  | .paste => ({ r with bpActive := true }, [.decset 2004])
  | .noPaste => ({ r with bpActive := false }, [.decrst 2004])
  | .focus => ({ r with focusActive := true }, [.decset 1004])
  | .noFocus => ({ r with focusActive := false }, [.decrst 1004])
  | .printLine body =>
    if r.altActive then (r, [])
    else (({ r with queued := r.queued ++ splitLines body } : RState).repaint, [])
  | .stop => stop r
  | .kill => kill r
  | .title s => (r, [.title s])

/-- run a history, collecting the operations of every step -/
def run (r : RState) : List ROp → RState × List (List TermOp)
  | [] => (r, [])
  | o :: os =>
    let (r1, ops) := step r o
    let (r2, rest) := run r1 os
    (r2, ops :: rest)

end Tea.Render
