/-
The frame-rate clamp of newRenderer (standard_renderer.go):

    if fps < 1 { fps = defaultFPS } else if fps > maxFPS { fps = maxFPS }
    framerate: time.Second / time.Duration(fps)

with defaultFPS = 60, maxFPS = 120. Tied to the code by the `fps` stream (the real
newRenderer's framerate for every requested fps) and the extracted fact `body_newRenderer`.
-/
namespace Tea.Render

def clampFPS (fps : Int) : Int := if fps < 1 then 60 else if fps > 120 then 120 else fps

/-- nanoseconds between frames: Go integer division of positive operands -/
def framerateNs (fps : Int) : Int := 1000000000 / clampFPS fps

end Tea.Render
