import Tea.Render.Model
import Tea.VT.Term
/-
Program-level glue around the renderer (tea.go, tty.go, exec.go), as functions
producing renderer operations: start-up options, the event loop's mode
messages, restoreTerminalState, shutdown, ReleaseTerminal / RestoreTerminal
(Exec). The call orders mirrored here are tied to the source by the extracted
facts `order_Program_Run`, `order_Program_restoreTerminalState`,
`order_Program_shutdown`, `order_Program_ReleaseTerminal`,
`order_Program_RestoreTerminal`, `order_Program_disableMouse`,
`order_Program_initTerminal` and the `el_case_*` facts (bridge modules C05, C12,
C17) and by the `modes` / `exec` scenario sets on real programs.
-/
namespace Tea.Render
open Tea.VT

/-- start-up options after option processing (`WithMouseAllMotion` clears cell motion and vice
versa in options.go; Run tests cell motion first) -/
structure Opts where
  alt : Bool := false
  cell : Bool := false
  all : Bool := false
  noPaste : Bool := false
  focus : Bool := false
  deriving DecidableEq, Repr

/-- `initTerminal` (hide the cursor) followed by "Honor program startup options" of Run -/
def startupOps (o : Opts) : List ROp :=
  [.hideCursor] ++
  (if o.alt then [.enterAlt] else []) ++
  (if !o.noPaste then [.paste] else []) ++
  (if o.cell then [.mouseCell, .mouseSGR] else if o.all then [.mouseAll, .mouseSGR] else []) ++
  (if o.focus then [.focus] else [])

/-- the mode commands a program can issue (screen.go) -/
inductive ModeCmd where
  | enterAlt | exitAlt | mouseCell | mouseAll | disableMouse
  | paste | noPaste | focus | noFocus | show | hide | clear
  deriving DecidableEq, Repr

/-- what the event loop does for each mode message before Update sees it (tea.go switch) -/
def modeMsgOps : ModeCmd → List ROp
  | .enterAlt => [.enterAlt]
  | .exitAlt => [.exitAlt]
  | .mouseCell => [.mouseCell, .mouseSGR]
  | .mouseAll => [.mouseAll, .mouseSGR]
  | .disableMouse => [.noMouseCell, .noMouseAll, .noMouseSGR]
  | .paste => [.paste]
  | .noPaste => [.noPaste]
  | .focus => [.focus]
  | .noFocus => [.noFocus]
  | .show => [.showCursor]
  | .hide => [.hideCursor]
  | .clear => [.clearScreen]

/-- run renderer operations, concatenating what they write -/
def runOps (r : RState) : List ROp → RState × List TermOp
  | [] => (r, [])
  | o :: os =>
    let (r1, out1) := step r o
    let (r2, out2) := runOps r1 os
    (r2, out1 ++ out2)

/-- `restoreTerminalState` (tty.go): consults the renderer's tracked flags for focus and alt screen -/
def restoreOps (r : RState) : List ROp :=
  [.noPaste, .showCursor, .noMouseCell, .noMouseAll, .noMouseSGR] ++
  (if r.focusActive then [.noFocus] else []) ++
  (if r.altActive then [.exitAlt] else [])

/-- `shutdown(kill)` as far as the terminal is concerned: stop or kill the renderer, then restore -/
def shutdownOps (r : RState) (kill : Bool) : List ROp :=
  [if kill then .kill else .stop] ++ restoreOps r

/-- what ReleaseTerminal remembers -/
structure Saved where
  alt : Bool
  bp : Bool
  focus : Bool
  deriving DecidableEq, Repr

/-- `ReleaseTerminal`: stop the renderer, remember alt/paste/focus, restore the terminal -/
def releaseTerminal (r : RState) : (RState × List TermOp) × Saved :=
  let (r1, out1) := step r .stop
  let saved : Saved := { alt := r1.altActive, bp := r1.bpActive, focus := r1.focusActive }
  let (r2, out2) := runOps r1 (restoreOps r1)
  ((r2, out1 ++ out2), saved)

/-- `RestoreTerminal`: initTerminal (hide cursor), re-enter the alt screen if it was active
(otherwise a repaint message is sent), paste and focus if they were active -/
def restoreTerminalOps (sv : Saved) : List ROp :=
  [.hideCursor] ++
  (if sv.alt then [.enterAlt] else [.repaintMsg]) ++
  (if sv.bp then [.paste] else []) ++
  (if sv.focus then [.focus] else [])

/-- the terminal modes Bubble Tea may change -/
structure ModeReg where
  alt : Bool := false
  cursorVis : Bool := true
  m1002 : Bool := false
  m1003 : Bool := false
  m1006 : Bool := false
  paste : Bool := false
  focus : Bool := false
  deriving DecidableEq, Repr

def modesOf (t : Term) : ModeReg :=
  { alt := t.onAlt, cursorVis := t.cursorVis, m1002 := t.m1002, m1003 := t.m1003, m1006 := t.m1006,
    paste := t.m2004, focus := t.m1004 }

/-- the documented meaning of options and commands: a register machine -/
def specStartup (o : Opts) : ModeReg :=
  { alt := o.alt, cursorVis := false, paste := !o.noPaste, focus := o.focus,
    m1002 := o.cell, m1003 := !o.cell && o.all, m1006 := o.cell || o.all }

def specCmd (m : ModeReg) : ModeCmd → ModeReg
  | .enterAlt => { m with alt := true }
  | .exitAlt => { m with alt := false }
  | .mouseCell => { m with m1002 := true, m1006 := true }
  | .mouseAll => { m with m1003 := true, m1006 := true }
  | .disableMouse => { m with m1002 := false, m1003 := false, m1006 := false }
  | .paste => { m with paste := true }
  | .noPaste => { m with paste := false }
  | .focus => { m with focus := true }
  | .noFocus => { m with focus := false }
  | .show => { m with cursorVis := true }
  | .hide => { m with cursorVis := false }
  | .clear => m

/-- how a program's life ends, as far as the terminal is concerned -/
inductive ExitKind where
  | quit      -- shutdown(false): stop (final flush), restore
  | ctx       -- shutdown(true) once: context cancellation, interrupt, reader error, panic on the main goroutine
  | killApi   -- shutdown(true) twice: Kill() or a panic in a command goroutine, then Run's own shutdown
  deriving DecidableEq, Repr

/-- the renderer operations of the shutdown(s) that end a run -/
def exitOps (r : RState) : ExitKind → List ROp
  | .quit => shutdownOps r false
  | .ctx => shutdownOps r true
  | .killApi => shutdownOps r true ++ shutdownOps (runOps r (shutdownOps r true)).1 true

/-- a whole run as far as modes are concerned: start-up, mode commands, exit -/
def runProgram (o : Opts) (cmds : List ModeCmd) (k : ExitKind) : RState × List TermOp :=
  let (r1, out1) := runOps {} (startupOps o ++ cmds.flatMap modeMsgOps)
  let (r2, out2) := runOps r1 (exitOps r1 k)
  (r2, out1 ++ out2)

/-- only the mode-setting operations, as text (`1049h`, `25l`, ...) -/
def modeOpsOf (ops : List TermOp) : List (Nat × Bool) :=
  ops.filterMap (fun
    | .decset n => some (n, true)
    | .decrst n => some (n, false)
    | _ => none)

end Tea.Render
