/-
The stop / restart handshake of the renderer's ticker (standard_renderer.go: `start`, `halt`,
`listen`) as a labelled transition system.

One goroutine at a time calls `start` and `halt` (both hold `listenMtx`; Run, ReleaseTerminal,
RestoreTerminal, shutdown); the listener goroutines run on their own. `halt` hands the stop signal
to the listener at its `select` (a rendezvous on the unbuffered `done` channel) - after that the
caller and the listener both run on.

  * `stepOld`: the code before fix `c17-ticker` - the LISTENER stops the ticker after it has taken
    the signal (`case <-r.done: r.ticker.Stop(); return`). A restart (`start`: `ticker.Reset`, new
    listener) can come between the two, and the old listener then stops the ticker of the new run.
  * `stepNew`: the repaired code - `halt` stops the ticker itself, in order with `start`.
-/
namespace Tea.Render.Ticker

inductive LPc where
  | atSelect          -- in `select { case <-r.done: …; case <-r.ticker.C: r.flush() }`
  | gotStop           -- has taken the stop signal
  | gone
  deriving DecidableEq, Repr

structure St where
  tickerOn : Bool := false
  listening : Bool := false          -- the flag `r.listening`
  listeners : List LPc := []         -- every listener goroutine ever started, in order
  ticks : Nat := 0                   -- flushes performed by listeners
  deriving DecidableEq, Repr

inductive Label where
  | start                            -- `start()`: NewTicker / Reset; a listener unless one is running
  | halt (i : Nat)                   -- `halt()`: the signal is taken by listener `i` (at its select)
  | after (i : Nat)                  -- what listener `i` does after taking the signal
  | tick (i : Nat)                   -- the ticker fires and listener `i` flushes
  deriving DecidableEq, Repr

def startStep (s : St) : St :=
  if s.listening then { s with tickerOn := true }
  else { s with tickerOn := true, listening := true, listeners := s.listeners ++ [.atSelect] }

def tickStep (s : St) (i : Nat) : Option St :=
  if s.tickerOn = true ∧ s.listeners[i]? = some .atSelect then some { s with ticks := s.ticks + 1 } else none

/-- before the repair -/
def stepOld (s : St) : Label → Option St
  | .start => some (startStep s)
  | .halt i =>
    if s.listening = true ∧ s.listeners[i]? = some .atSelect then
      some { s with listening := false, listeners := s.listeners.set i .gotStop }
    else none
  | .after i =>
    if s.listeners[i]? = some .gotStop then
      some { s with tickerOn := false, listeners := s.listeners.set i .gone }   -- `r.ticker.Stop(); return`
    else none
  | .tick i => tickStep s i

/-- the repaired code -/
def stepNew (s : St) : Label → Option St
  | .start => some (startStep s)
  | .halt i =>
    if s.listening = true ∧ s.listeners[i]? = some .atSelect then
      some { s with tickerOn := false, listening := false, listeners := s.listeners.set i .gotStop }   -- halt stops the ticker
    else none
  | .after i =>
    if s.listeners[i]? = some .gotStop then some { s with listeners := s.listeners.set i .gone } else none   -- `return`
  | .tick i => tickStep s i

def runWith (stp : St → Label → Option St) (s : St) : List Label → Option St
  | [] => some s
  | l :: ls => match stp s l with
    | some s' => runWith stp s' ls
    | none => none

inductive Reach (stp : St → Label → Option St) : St → Prop where
  | init : Reach stp {}
  | step {s s' : St} (l : Label) : Reach stp s → stp s l = some s' → Reach stp s'

/-- the listeners at their select -/
def waiting (s : St) : Nat := (s.listeners.filter (· == .atSelect)).length

end Tea.Render.Ticker
