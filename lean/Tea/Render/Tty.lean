import Tea.Render.Program
/-
The input terminal's line discipline (termios) in the program glue (tty.go, tty_unix.go,
tea.go), next to the MODE model of Tea/Render/Program.lean.

   initTerminal():   initInput(); renderer.hideCursor()
   initInput():      if the input is a terminal { p.ttyInput = f;
                       p.previousTtyInputState, err = term.MakeRaw(fd) }   -- saves the CURRENT state, enters raw mode
   restoreTerminalState(): (mode resets ...); return restoreInput()
   restoreInput():   if p.ttyInput != nil && p.previousTtyInputState != nil {
                       term.Restore(fd, p.previousTtyInputState) }          -- puts the saved state back
   Run:              ... initTerminal() ... event loop ... shutdown(kill) { ... restoreTerminalState() }
                     (Kill() / a panic in a command goroutine: shutdown twice)
   ReleaseTerminal(): ... renderer.stop(); remember alt/paste/focus; restoreTerminalState()
   RestoreTerminal(): initTerminal(); ... re-enter modes ...
   exec():           ReleaseTerminal(); run the command; RestoreTerminal(); send the callback message

The termios settings are an ABSTRACT value of a type `σ`; `raw : σ → σ` is what `term.MakeRaw`
does to them. Nothing is assumed about `raw` (it need not be idempotent, injective, or different
from the identity); the only theorem with a hypothesis on it is the misuse counterexample, which
needs `raw s0 ≠ s0` to conclude that the final state DIFFERS from the initial one.

Assumptions of the model (what it does not cover):
* `term.MakeRaw` and `term.Restore` succeed (a failing MakeRaw leaves `previousTtyInputState`
  nil and the settings untouched: that is the state before `initInput`, see
  `restoreInput_fresh`);
* nobody else changes the settings while the program owns the terminal, and the command run by
  `exec` leaves them as it found them (`initInput` saves whatever is CURRENT at that moment).
-/
namespace Tea.Render

/-- the line-discipline side of a Program: the terminal's current settings `cur`, the field
`previousTtyInputState` (`saved`), and whether the input is a terminal at all (`ttyInput != nil`
after `initInput`) -/
structure TtyState (σ : Type) where
  cur : σ
  saved : Option σ
  isTty : Bool
  deriving DecidableEq, Repr

variable {σ : Type}

/-- `initInput`: on a terminal, remember the CURRENT settings and enter raw mode; otherwise nothing -/
def initInput (raw : σ → σ) (t : TtyState σ) : TtyState σ :=
  if t.isTty then { t with cur := raw t.cur, saved := some t.cur } else t

/-- `restoreInput`: on a terminal with a remembered state, put that state back (the remembered
state is kept, as in the code); otherwise nothing -/
def restoreInput (t : TtyState σ) : TtyState σ :=
  match t.isTty, t.saved with
  | true, some s => { t with cur := s }
  | _, _ => t

/-- what happens to the line discipline during a program's life, mirroring the call structure -/
inductive TtyEvent where
  | exec         -- ReleaseTerminal (restoreInput); the command runs; RestoreTerminal (initInput)
  | releaseOnly  -- the application calls ReleaseTerminal itself (and does not restore here)
  | restoreOnly  -- the application calls RestoreTerminal itself (without a release here)
  deriving DecidableEq, Repr

/-- the state after one event -/
def ttyStep (raw : σ → σ) (t : TtyState σ) : TtyEvent → TtyState σ
  | .exec => initInput raw (restoreInput t)
  | .releaseOnly => restoreInput t
  | .restoreOnly => initInput raw t

/-- the settings the external command finds (after the release, before the restore); only `exec`
runs a command -/
def ttyDuring (t : TtyState σ) : TtyEvent → List σ
  | .exec => [(restoreInput t).cur]
  | _ => []

/-- the state after a list of events -/
def ttyEvents (raw : σ → σ) (t : TtyState σ) : List TtyEvent → TtyState σ
  | [] => t
  | e :: es => ttyEvents raw (ttyStep raw t e) es

/-- the settings found by each external command of a list of events, in order -/
def ttyDuringAll (raw : σ → σ) (t : TtyState σ) : List TtyEvent → List σ
  | [] => []
  | e :: es => ttyDuring t e ++ ttyDuringAll raw (ttyStep raw t e) es

/-- the settings in force after each event of a list (i.e. between the events), in order -/
def ttyBetweenAll (raw : σ → σ) (t : TtyState σ) : List TtyEvent → List σ
  | [] => []
  | e :: es => (ttyStep raw t e).cur :: ttyBetweenAll raw (ttyStep raw t e) es

/-- the `restoreInput` calls of the shutdown(s) that end a run: one for `quit` and `ctx`, two for
`killApi` (Kill() or a panic in a command goroutine, then Run's own shutdown) -/
def ttyExit (t : TtyState σ) : ExitKind → TtyState σ
  | .quit => restoreInput t
  | .ctx => restoreInput t
  | .killApi => restoreInput (restoreInput t)

/-- a Program before Run: settings `s0`, nothing remembered -/
def ttyFresh (isTty : Bool) (s0 : σ) : TtyState σ := { cur := s0, saved := none, isTty := isTty }

/-- what a run shows of the line discipline -/
structure TtyRun (σ : Type) where
  /-- when Run has returned -/
  final : TtyState σ
  /-- the settings each external command found, in order (one entry per `exec`) -/
  during : List σ
  /-- the settings after start-up and after each event, in order (one entry more than events) -/
  between : List σ
  deriving DecidableEq, Repr

/-- a whole run as far as termios is concerned: start-up (`initInput`), the events, the exit -/
def runTty (raw : σ → σ) (isTty : Bool) (s0 : σ) (evs : List TtyEvent) (k : ExitKind) : TtyRun σ :=
  let t1 := initInput raw (ttyFresh isTty s0)
  { final := ttyExit (ttyEvents raw t1 evs) k
    during := ttyDuringAll raw t1 evs
    between := t1.cur :: ttyBetweenAll raw t1 evs }

/-- Run's early-return path: `initInput` succeeded, a later start-up step failed, and
`restoreTerminalState` is called before Run returns the error -/
def startupFailureTty (raw : σ → σ) (isTty : Bool) (s0 : σ) : TtyState σ :=
  restoreInput (initInput raw (ttyFresh isTty s0))

/-- releases and restores alternate: `restoreOnly` (RestoreTerminal) is only called while the
terminal is released. The flag says whether the terminal is released now; a run starts with
`false`. `exec` is allowed anywhere (its own release is harmless on a released terminal) and
leaves the terminal taken; `releaseOnly` is allowed anywhere and leaves it released. -/
def alternating : Bool → List TtyEvent → Bool
  | _, [] => true
  | _, .exec :: es => alternating false es
  | _, .releaseOnly :: es => alternating true es
  | true, .restoreOnly :: es => alternating false es
  | false, .restoreOnly :: _ => false

end Tea.Render
