import Tea.Prelude.Bytes
namespace Tea.Driver
open Tea

def hexVal (c : Char) : Option Nat :=
  if '0' ≤ c && c ≤ '9' then some (c.toNat - '0'.toNat)
  else if 'a' ≤ c && c ≤ 'f' then some (c.toNat - 'a'.toNat + 10)
  else if 'A' ≤ c && c ≤ 'F' then some (c.toNat - 'A'.toNat + 10)
  else none

/-- "-" is the empty byte string; otherwise pairs of hex digits -/
def parseHex (s : String) : Option Bytes :=
  if s == "-" then some [] else
  let rec go : List Char → List Nat → Option Bytes
    | [], acc => some acc.reverse
    | [_], _ => none
    | a :: b :: rest, acc =>
      match hexVal a, hexVal b with
      | some x, some y => go rest ((x * 16 + y) :: acc)
      | _, _ => none
  go s.toList []

def hexDigit (n : Nat) : Char :=
  if n < 10 then Char.ofNat (48 + n) else Char.ofNat (87 + n)

def toHex (b : Bytes) : String :=
  if b.isEmpty then "-" else
  String.ofList (b.flatMap fun x => [hexDigit (x / 16 % 16), hexDigit (x % 16)])

def words (s : String) : List String :=
  (s.splitOn " ").filter (· ≠ "")

end Tea.Driver
