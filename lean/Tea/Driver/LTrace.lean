import Tea.Driver.Util
import Tea.Runtime.LifeAccept
/-
Line protocol of the `ltrace` stream:
   cancelable=<b> initcmd=<b> input=<b> senders=-,<kind>,… spare=<n> | tok tok …
answer: `accepted`, or `rejected@<i>:<tok> after <n> compatible states` (observation i is the
first the Lifecycle LTS has no run for).
-/
namespace Tea.Driver.LTrace
open Tea.Driver Tea.Runtime.Life

def parseBool (s : String) : Bool := s == "true"

def kv (w : String) : String × String :=
  match w.splitOn "=" with
  | [k, v] => (k, v)
  | _ => (w, "")

def parseWho (s : String) : Option (Option Nat) :=
  if s == "R" then some none else s.toNat?.map some

def never : St → Bool := fun _ => false

/-- the observation a token stands for (`spare0` = index of the first sender the harness does not see) -/
def obsOf (tok : String) : Option Obs :=
  match tok.splitOn ":" with
  | ["send", i] => i.toNat?.map (fun i => Obs.lab (.sendCall i))
  | ["cancel"] => some (.lab .parentCancel)
  | ["su", "sig"] => some (.lab .suSigHandler)
  | ["su", "rend"] => some (.lab .suNewRenderer)
  | ["su", "termfail"] => some (.lab .startTermFails)
  | ["su", "modes"] => some (.lab .startWriterReturns)
  | ["su", "start"] => some (.lab .suStartRenderer)
  | ["su", "init"] => some (.alts [[.initReturns, .suSpawnInit]] never)
  | ["su", "view"] => some (.lab .firstViewReturns)
  | ["su", "reader"] => some (.lab .suOpenReader)
  | ["reader", "respawn"] => some (.lab .exResReader)
  | ["su", "readerfail"] => some (.lab .startReaderFails)
  | ["su", "handlers"] => some (.alts [[.suSpawnHandlers], [.suOpenReader, .suSpawnHandlers]] never)
  | ["run", "tail"] => some (.lab .runTail)
  | ["run", "return"] => some (.lab .runReturn)
  | ["sig", "exit"] => some (.alts [[.sigExit], [.sigAbort]] (fun s => s.sig = .exited))
  | ["cmds", "exit"] => some (.lab .dispExit)
  | ["resize", "exit"] => some (.lab .resizeExit)
  | ["init", "exit"] => some (.alts [[.initHandOver], [.initAbort]] never)
  | ["reader", "exit"] =>
    some (.alts [[.readerCanceled], [.readerMsgAbort], [.readerErrAbort], [.readEOF]] (fun s => s.reader = .exited))
  | ["el", "exit"] => some .elExited
  | ["sh", ph, who] =>
    match parseWho who with
    | none => none
    | some w =>
      match ph with
      | "cancel" =>
        match w with
        -- Run's own shutdown: after the loop (`run:tail` was seen), or from the panic handler (no tail trace point on that path)
        | none => some (.alts [[.shCancel none], [.runTail, .shCancel none]] never)
        | some k => some (.shCancelBy k)
      | "handlers" => some (.lab (.shHandlers w))
      | "reader" => some (.lab (.shReader w))
      | "renderer" => some (.alts [[.shRenderer w], [.shWaitRead w, .shRenderer w], [.shWaitReadTimeout w, .shRenderer w]] never)
      | "restore" => some (.lab (.shRestore w))
      | _ => none
  | _ => none

def kindOf (s : String) : Option SendKind :=
  match s with
  | "user" => some .user
  | "quit" => some .quit
  | "interrupt" => some .interrupt
  | _ => none

def run (line : String) : String :=
  match line.splitOn " | " with
  | [cfgS, toksS] =>
    let kvs := (words cfgS).map kv
    let get (k : String) : String := ((kvs.find? (·.1 == k)).map (·.2)).getD ""
    let kinds := ((get "senders").splitOn ",").filterMap kindOf
    let spare := (get "spare").toNat?.getD 0
    let spareExec := (get "spareexec").toNat?.getD 0
    let cfg : Config := { cancelable := parseBool (get "cancelable"), withSignalHandler := false, ignoreSignals := false,
                          withResize := false, withInitCmd := parseBool (get "initcmd"), withInput := parseBool (get "input"),
                          senders := kinds ++ List.replicate spare .user ++ List.replicate spareExec .exec, waiters := 0 }
    let toks := words toksS
    match toks.mapM obsOf with
    | none => "bad-op"
    | some obs =>
      -- hidden as well: the Send calls of the spare senders (messages produced by command goroutines the
      -- harness does not see), the steps of an Exec (no trace points there, except the re-spawn of the read
      -- loop when there is input), and the callers an Exec appends (two per Exec)
      let n := cfg.senders.length
      let execHidden : List Label :=
        if spareExec = 0 then [] else
        [.exRelCancel, .exRelWaitRead, .exRelWaitTimeout, .exRelRenderer, .exRelRestore, .exResRenderer, .exResSpawn,
         .execCmdReturns, .execCmdPanics] ++ (if cfg.withInput then [] else [.exResReader]) ++
        (List.range (2 * spareExec)).flatMap (fun j => [Label.elRecvSender (n + j), Label.sendAbort (n + j)])
      let hid := hiddenLabels n ++ (List.range (spare + spareExec)).map (fun j => Label.sendCall (kinds.length + j)) ++ execHidden
      match firstRejectedWith hid cfg obs with
      | none => "accepted"
      | some (i, n) => s!"rejected@{i}:{toks.getD i ""} after {n} compatible states"
  | [cfgS] => if cfgS.isEmpty then "bad-op" else "bad-op"
  | _ => "bad-op"

end Tea.Driver.LTrace
