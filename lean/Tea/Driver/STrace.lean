import Tea.Driver.Util
import Tea.Runtime.SeqTrace
/-
`strace` stream: one recorded history of a real `Sequence` per line,

    E <elem>... | N <j.p>... | O <obs>...

elem = `n` (nil command) | `p` (plain command) | `b<bits>` (a command returning a BatchMsg; one bit per
entry, 0 = nil entry); N = the messages of the sequence that are nil results; obs = `sp<j>` (cmd-start
of plain element j) | `fr<j>.<p>` (cmd-start of entry p of batch element j) | `ls<j>.<p>` (filter-enter
of that message) | `ln` (filter-enter of a nil message) | `lo` (filter-enter of anything else) | `id`
(last log entry of an episode of the event loop).  Answer: `accepted`, or the first observation the
product of the Sequence LTS and the loop's books cannot explain.
-/
namespace Tea.Driver.STrace
open Tea.Runtime.Seq Tea.Runtime.SeqTrace

def parsePair (s : String) : Option (Nat × Nat) :=
  match s.splitOn "." with
  | [a, b] => do some (← a.toNat?, ← b.toNat?)
  | _ => none

def parseElem (t : String) : Option Elem :=
  if t == "n" then some .nilCmd
  else if t == "p" then some .plain
  else if t.startsWith "b" then
    (t.drop 1).toString.toList.mapM (fun c => if c == '1' then some true else if c == '0' then some false else none) |>.map .batch
  else none

def parseObs (t : String) : Option XLabel :=
  if t == "ln" then some .logNil
  else if t == "lo" then some .logOther
  else if t == "id" then some .idle
  else if t.startsWith "sp" then (t.drop 2).toNat?.map .startPlain
  else if t.startsWith "fr" then (parsePair (t.drop 2).toString).map (fun p => .fanRunning p.1 p.2)
  else if t.startsWith "ls" then (parsePair (t.drop 2).toString).map (fun p => .logSeq ⟨p.1, p.2⟩)
  else none

def run (line : String) : String :=
  match line.splitOn "|" with
  | [e, n, o] =>
    match words e, words n, words o with
    | "E" :: es, "N" :: ns, "O" :: os =>
      match es.mapM parseElem, ns.mapM parsePair, os.mapM parseObs with
      | some elems, some nils, some obs =>
        match firstRejectedX elems (nils.map fun p => ⟨p.1, p.2⟩) obs with
        | none => "accepted"
        | some i => s!"rejected at {i} {os.getD i "?"}"
      | _, _, _ => "bad-op"
    | _, _, _ => "bad-op"
  | _ => "bad-op"

end Tea.Driver.STrace
