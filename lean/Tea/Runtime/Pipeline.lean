/-
The message pipeline of tea.go as a labelled transition system (C01 C02 C16):
any number of senders (goroutines calling Send, command goroutines delivering
their result), the event loop, the command dispatcher, the Init hand-over
goroutine and the program context.

Granularity. The event loop's whole reaction to one received message - filter,
built-in switch, renderer messages, Update - is ONE step (`process i`): it is
straight-line code on one goroutine that touches only event-loop-private state
(the model and the history variables), so no other process can observe an
intermediate point. The points where the event loop interacts with other
processes are separate steps: the hand-over of the command (`cmdHandOver`,
which also covers the View call and the renderer write that follow it), each
element of a batch (`batchNext`) and the context checks. The fine-grained
callback states (needed for "termination strikes inside Update") live in the
Lifecycle model.

Rendezvous on the unbuffered channels is one joint step enabled only when both
sides are at the matching point: `process i` needs sender `i` blocked in Send
and the loop at its select; `cmdHandOver` needs the dispatcher alive.

Deviation recorded: a command returning nil sends nothing in the model; in the
code it sends a nil message that the loop drops right after the filter.
-/
namespace Tea.Runtime

inductive Msg where
  | user (sender seq : Nat)
  | res (cmd : Nat)                      -- the message command `cmd` returns
  | quit
  | interrupt
  | batch (cs : List (Option Nat))       -- BatchMsg: commands by id, `none` = nil entry
  | other (k : Nat)                      -- any message with a built-in effect that also reaches Update
  deriving DecidableEq, Repr

/-- the user program: everything the runtime calls back into -/
structure Prog (M : Type) where
  init : M
  initCmd : Option Nat
  update : M → Msg → M × Option Nat
  cmdResult : Nat → Option Msg           -- `none` = the command returns nil
  filter : Option (M → Msg → Option Msg)

inductive ExitKind where
  | quit | interrupt | ctx
  deriving DecidableEq, Repr

inductive ElPc where
  | select
  | sendCmd (c : Option Nat)             -- `select { case <-ctx.Done(): ...; case cmds <- cmd: }` after Update
  | batchSend (cs : List (Option Nat))   -- the same select, per element of a BatchMsg
  | exited (k : ExitKind)
  deriving DecidableEq, Repr

inductive SPc where
  | idle | blocked
  deriving DecidableEq, Repr

/-- a goroutine that calls Send for each message of its script, in order -/
structure Sender where
  script : List Msg
  pos : Nat := 0                          -- next script index
  pc : SPc := .idle
  needsRun : Bool := false                -- a command goroutine whose command has not executed yet
  cmd : Option Nat := none
  deriving DecidableEq, Repr

structure St (M : Type) where
  model : M
  el : ElPc := .select
  dispAlive : Bool := true
  ctxDone : Bool := false
  initPending : Option Nat := none        -- the Init command waiting to be handed over
  senders : List Sender
  -- history variables
  recvLog : List (Nat × Msg) := []        -- (sender index, message) in the order the loop received them
  filterLog : List (M × Msg) := []        -- (model, message) the filter was consulted with
  updLog : List Msg := []                 -- messages passed to Update, in order
  issuedEl : List (Option Nat) := []      -- commands the loop had to hand over (Update results, batch elements)
  handedEl : List (Option Nat) := []      -- commands the loop did hand over
  handed : List (Option Nat) := []        -- every hand-over (loop and Init goroutine), in order
  spawned : List Nat := []                -- command goroutines started by the dispatcher (command ids), in order
  ran : List Nat := []                    -- sender indices of command goroutines whose command executed

inductive Label where
  | sendStart (i : Nat)
  | process (i : Nat)
  | sendAbort (i : Nat)
  | cmdHandOver
  | cmdAbort
  | batchNext
  | batchDone
  | batchAbort
  | cmdRun (i : Nat)
  | initHandOver
  | initAbort
  | cancel
  | elCtxExit
  | dispExit
  deriving DecidableEq, Repr

def isBatch : Msg → Bool
  | .batch _ => true
  | _ => false

/-- does the message get passed to Update (quit/interrupt end the loop, a batch is expanded) -/
def reachesUpdate : Msg → Bool
  | .quit => false
  | .interrupt => false
  | .batch _ => false
  | _ => true

inductive After where
  | toSelect
  | toSendCmd (c : Option Nat)
  | toBatch (cs : List (Option Nat))
  | toExit (k : ExitKind)
  deriving DecidableEq, Repr

/-- the built-in switch and Update applied to the (already filtered) message -/
def elHandle {M : Type} (P : Prog M) (model : M) : Msg → M × List Msg × After
  | .quit => (model, [], .toExit .quit)
  | .interrupt => (model, [], .toExit .interrupt)
  | .batch cs => (model, [], .toBatch cs)
  | m => let r := P.update model m; (r.1, [m], .toSendCmd r.2)

/-- the event loop's reaction to one received message: `(model', passed to Update, what next)` -/
def elOne {M : Type} (P : Prog M) (model : M) (m : Msg) : M × List Msg × After :=
  match P.filter with
  | none => elHandle P model m
  | some φ =>
    match φ model m with
    | none => (model, [], .toSelect)
    | some m' => elHandle P model m'

def afterPc : After → ElPc
  | .toSelect => .select
  | .toSendCmd c => .sendCmd c
  | .toBatch cs => .batchSend cs
  | .toExit k => .exited k

def afterIssued : After → List (Option Nat)
  | .toSendCmd c => [c]
  | .toBatch cs => cs
  | _ => []

/-- the dispatcher receives a command: nil is skipped, anything else gets its own goroutine -/
def spawn {M : Type} (P : Prog M) (s : St M) (c : Option Nat) : St M :=
  match c with
  | none => { s with handed := s.handed ++ [none] }
  | some id =>
    { s with handed := s.handed ++ [some id], spawned := s.spawned ++ [id],
             senders := s.senders ++ [{ script := (P.cmdResult id).toList, needsRun := true, cmd := some id }] }

def init {M : Type} (P : Prog M) (senders : List Sender) : St M :=
  { model := P.init, senders := senders, initPending := P.initCmd }

def step {M : Type} (P : Prog M) (s : St M) : Label → Option (St M)
  | .sendStart i =>
    match s.senders[i]? with
    | some sd =>
      if sd.pc = .idle ∧ sd.needsRun = false ∧ sd.pos < sd.script.length then
        some { s with senders := s.senders.set i { sd with pc := .blocked } }
      else none
    | none => none
  | .process i =>
    match s.senders[i]?, s.el with
    | some sd, .select =>
      match sd.script[sd.pos]? with
      | some m =>
        if sd.pc = .blocked then
          let r := elOne P s.model m
          some { s with
            senders := s.senders.set i { sd with pc := .idle, pos := sd.pos + 1 }
            recvLog := s.recvLog ++ [(i, m)]
            filterLog := match P.filter with
              | none => s.filterLog
              | some _ => s.filterLog ++ [(s.model, m)]
            model := r.1
            updLog := s.updLog ++ r.2.1
            issuedEl := s.issuedEl ++ afterIssued r.2.2
            el := afterPc r.2.2 }
        else none
      | none => none
    | _, _ => none
  | .sendAbort i =>
    match s.senders[i]? with
    | some sd =>
      if sd.pc = .blocked ∧ s.ctxDone = true then
        some { s with senders := s.senders.set i { sd with pc := .idle, pos := sd.pos + 1 } }
      else none
    | none => none
  | .cmdHandOver =>
    match s.el with
    | .sendCmd c =>
      if s.dispAlive = true then
        some { spawn P s c with el := .select, handedEl := s.handedEl ++ [c] }
      else none
    | _ => none
  | .cmdAbort =>
    match s.el with
    | .sendCmd _ => if s.ctxDone = true then some { s with el := .exited .ctx } else none
    | _ => none
  | .batchNext =>
    match s.el with
    | .batchSend (c :: cs) =>
      if s.dispAlive = true then
        some { spawn P s c with el := .batchSend cs, handedEl := s.handedEl ++ [c] }
      else none
    | _ => none
  | .batchDone =>
    match s.el with
    | .batchSend [] => some { s with el := .select }
    | _ => none
  | .batchAbort =>
    match s.el with
    | .batchSend (_ :: _) => if s.ctxDone = true then some { s with el := .exited .ctx } else none
    | _ => none
  | .cmdRun i =>
    match s.senders[i]? with
    | some sd =>
      if sd.needsRun = true then
        some { s with senders := s.senders.set i { sd with needsRun := false }, ran := s.ran ++ [i] }
      else none
    | none => none
  | .initHandOver =>
    match s.initPending with
    | some id =>
      if s.dispAlive = true then some { spawn P s (some id) with initPending := none } else none
    | none => none
  | .initAbort =>
    match s.initPending with
    | some _ => if s.ctxDone = true then some { s with initPending := none } else none
    | none => none
  | .cancel => some { s with ctxDone := true }
  | .elCtxExit =>
    match s.el with
    | .select => if s.ctxDone = true then some { s with el := .exited .ctx } else none
    | _ => none
  | .dispExit =>
    if s.ctxDone = true ∧ s.dispAlive = true then some { s with dispAlive := false } else none

/-- the states reachable from `init` under any schedule -/
inductive Reachable {M : Type} (P : Prog M) (senders : List Sender) : St M → Prop where
  | init : Reachable P senders (init P senders)
  | step {s s' : St M} (l : Label) : Reachable P senders s → step P s l = some s' → Reachable P senders s'

/-- run a schedule (for the driver and for examples) -/
def runLabels {M : Type} (P : Prog M) (s : St M) : List Label → Option (St M)
  | [] => some s
  | l :: ls => match step P s l with
    | some s' => runLabels P s' ls
    | none => none

/-- `Batch(cmds...)` of commands.go as a pure function on command ids:
`none` = nil, `some (.inl c)` = the single surviving command itself,
`some (.inr cs)` = a command returning `BatchMsg cs` -/
def batchFn (cs : List (Option Nat)) : Option (Nat ⊕ List Nat) :=
  match cs.filterMap id with
  | [] => none
  | [c] => some (.inl c)
  | l => some (.inr l)

/-- `Sequentially(cmds...)` of commands.go (deprecated, still public): the command it returns calls
the given commands one after another ON THE GOROUTINE THAT RUNS IT, skips nil commands, and stops
at the first command whose result is not nil; that result is its own. A command is
`none` = nil, or `some (id, r)` = command `id` whose result is nil (`r = false`) or the message `id`.
Result: what the composite command returns, and the ids of the commands it called, in call order. -/
def sequentiallyFn : List (Option (Nat × Bool)) → Option Nat × List Nat
  | [] => (none, [])
  | none :: cs => sequentiallyFn cs
  | some (id, true) :: _ => (some id, [id])
  | some (id, false) :: cs => ((sequentiallyFn cs).1, id :: (sequentiallyFn cs).2)

end Tea.Runtime
