import Tea.Runtime.Sequence
import Tea.Runtime.LifeAccept
/-
Trace acceptance for the Sequence LTS (the tie of C03 by HISTORIES, next to the regenerated facts
and the oracles of the `seq` scenario).

A real program runs a `Sequence` under unrelated traffic; the recording model logs, in one total
order, the start of every command of the sequence (`cmd-start`) and every call of the message filter
by the event loop (`filter-enter`, the first thing the loop does with a message it has taken), plus
the last log entry of each of the loop's message-handling episodes. What the log does NOT show is the
instant at which the loop TAKES a message (the rendezvous on the unbuffered channel): after it, the
sender and the loop both run on, and their next log entries may come in either order. So the
Sequence LTS is run in a product with a small model of what the loop can be seen doing:

  * `busy`     the loop is inside an episode (between a `filter-enter` and the episode's last entry):
               it is not at its `select` and cannot take a message;
  * `holding`  the loop has taken a message of the sequence and has not logged it yet: the NEXT entry
               of the loop must be that message's `filter-enter`.

`recv` / `fanRecv` (the loop takes the message; `Send` returns) are hidden steps, enabled only
when the loop is idle and holds nothing. Everything else of the Sequence LTS that no log entry
shows (`skipNil`, a batch command starting and returning, a command returning and calling `Send`,
`g.Wait()` returning, the end of the loop) is hidden too. The checker is the generic subset
construction of `LifeAccept.lean` (`closeSetG`); its soundness for this product is
`Tea.Props.C03.C03_trace_checker_sound`, and every product run projects to a run of the Sequence
LTS (`C03_trace_projects`), so every theorem of C03 speaks about the accepted history.

Leniency (never the other way): while the loop has taken an UNRELATED message and not yet logged
it, the product still considers it idle.
-/
namespace Tea.Runtime.SeqTrace
open Tea.Runtime.Seq

deriving instance Hashable for Elem
deriving instance Hashable for MsgId
deriving instance Hashable for GPc
deriving instance Hashable for Fan
deriving instance Hashable for SeqPc
deriving instance BEq for Seq.St
deriving instance Hashable for Seq.St

structure XSt where
  seq : Seq.St
  holding : Option MsgId := none
  busy : Bool := true          -- the trace begins inside the episode that handles the sequence message
  deriving BEq, Hashable

inductive XLabel where
  | hid (l : Seq.Label)        -- a step of the sequence goroutine / a fan-out goroutine that no log entry shows
  | startBatch                 -- `start` of an element whose command returns a BatchMsg (it logs nothing)
  | startPlain (j : Nat)       -- LOG cmd-start of the plain command that is element `j`
  | fanRunning (j p : Nat)     -- LOG cmd-start of entry `p` of the batch that element `j` returned
  | recv                       -- the loop takes the sequence goroutine's message (hidden)
  | fanRecv (k : Nat)          -- the loop takes fan-out goroutine k's message (hidden)
  | logSeq (m : MsgId)         -- LOG filter-enter of message `m` of the sequence
  | logNil                     -- LOG filter-enter of a nil message (a nil result of the sequence)
  | logOther                   -- LOG filter-enter of anything else
  | idle                       -- LOG the last entry of an episode of the loop
  deriving DecidableEq, Repr

/-- the labels of the Sequence LTS that may occur as `hid` steps -/
def quiet : Seq.Label → Bool
  | .skipNil | .finishPlain | .finishBatch | .fanFinish _ | .waitDone | .finish => true
  | _ => false

def isBatchElem (s : Seq.St) : Bool :=
  match s.elems[s.idx]? with
  | some (.batch _) => true
  | _ => false

def isPlainElem (s : Seq.St) : Bool :=
  match s.elems[s.idx]? with
  | some .plain => true
  | _ => false

/-- `nils`: the messages of the sequence that are nil (nil results) -/
def stepX (nils : List MsgId) (x : XSt) : XLabel → Option XSt
  | .hid l => if quiet l then (Seq.step x.seq l).map (fun s => { x with seq := s }) else none
  | .startBatch => if isBatchElem x.seq then (Seq.step x.seq .start).map (fun s => { x with seq := s }) else none
  | .startPlain j =>
    if x.seq.idx = j ∧ isPlainElem x.seq then (Seq.step x.seq .start).map (fun s => { x with seq := s }) else none
  | .fanRunning j p =>
    if x.seq.idx = j ∧ x.seq.pc = .waiting ∧ x.seq.fans.any (fun f => f.part == p && f.pc == .running) then some x
    else none
  | .recv =>
    if x.busy = false ∧ x.holding = none then
      (Seq.step x.seq .recv).map (fun s => { x with seq := s, holding := some ⟨x.seq.idx, 0⟩ })
    else none
  | .fanRecv k =>
    if x.busy = false ∧ x.holding = none then
      match x.seq.fans[k]? with
      | some f => (Seq.step x.seq (.fanRecv k)).map (fun s => { x with seq := s, holding := some ⟨x.seq.idx, f.part⟩ })
      | none => none
    else none
  | .logSeq m =>
    if x.holding = some m ∧ m ∉ nils then some { x with holding := none, busy := true } else none
  | .logNil =>
    match x.holding with
    | some m => if m ∈ nils then some { x with holding := none, busy := true } else none
    | none => none
  | .logOther => if x.holding = none ∧ x.busy = false then some { x with busy := true } else none
  | .idle => if x.busy = true then some { x with busy := false } else none

def initX (elems : List Elem) : XSt := { seq := Seq.init elems }

/-- the hidden labels for a sequence whose widest batch has `width` entries -/
def hiddenX (width : Nat) : List XLabel :=
  [.hid .skipNil, .hid .finishPlain, .hid .finishBatch, .hid .waitDone, .hid .finish, .startBatch, .recv] ++
  (List.range width).map (fun k => .hid (.fanFinish k)) ++ (List.range width).map XLabel.fanRecv

def widthOf (elems : List Elem) : Nat :=
  elems.foldl (fun w e => match e with | .batch ps => max w ps.length | _ => w) 0

open Tea.Runtime.Life in
/-- one observed label applied to every compatible state, then any number of hidden steps -/
def advanceX (nils : List MsgId) (hid : List XLabel) (ss : List XSt) (o : XLabel) : List XSt :=
  closeSetG (stepX nils) hid (ss.filterMap (fun x => stepX nils x o))

/-- `none`: every observation is explained; `some i`: no product run explains observation `i` after the ones before -/
def acceptsX (nils : List MsgId) (hid : List XLabel) : List XSt → List XLabel → Nat → Option Nat
  | _, [], _ => none
  | ss, o :: os, i =>
    match advanceX nils hid ss o with
    | [] => some i
    | ss' => acceptsX nils hid ss' os (i + 1)

open Tea.Runtime.Life in
/-- the checker the driver calls -/
def firstRejectedX (elems : List Elem) (nils : List MsgId) (obs : List XLabel) : Option Nat :=
  let hid := hiddenX (widthOf elems)
  acceptsX nils hid (closeSetG (stepX nils) hid [initX elems]) obs 0

end Tea.Runtime.SeqTrace
