/-
The sequence goroutine of tea.go (`case sequenceMsg:` in eventLoop) as a
labelled transition system (C03):

    for _, cmd := range msg {
        if cmd == nil { continue }
        msg := cmd()
        if batchMsg, ok := msg.(BatchMsg); ok {
            g, _ := errgroup.WithContext(p.ctx)
            for _, cmd := range batchMsg {
                if cmd == nil { continue }
                g.Go(func() error { p.Send(cmd()); return nil })
            }
            g.Wait()
            continue
        }
        p.Send(msg)
    }

Processes: the sequence goroutine, the goroutines of one batch fan-out, the
event loop as a receiver that takes one message at a time from whoever is
blocked in Send (any order: "every interleaving with unrelated traffic" is the
freedom to delay every `recv`), and the program context. `Send` returns when
the event loop has taken the message, or when the context is done.

Messages are identified by `(element index, part index)`; a nil result is a
message too (Send(nil) hands a nil message to the loop, which drops it), so
"received" covers it.
-/
namespace Tea.Runtime.Seq

/-- one element of the sequence -/
inductive Elem where
  | nilCmd                                   -- a nil command: skipped
  | plain                                    -- a command returning one message (possibly nil)
  | batch (parts : List Bool)                -- a command returning BatchMsg; `false` = nil entry
  deriving DecidableEq, Repr

/-- a message: produced by element `elem`, part `part` (0 for a plain command) -/
structure MsgId where
  elem : Nat
  part : Nat
  deriving DecidableEq, Repr

inductive GPc where
  | running              -- the command is executing
  | sending              -- blocked in Send
  | finished
  deriving DecidableEq, Repr

/-- a goroutine of the batch fan-out -/
structure Fan where
  part : Nat
  pc : GPc := .running
  deriving DecidableEq, Repr

inductive SeqPc where
  | next                 -- at the top of the loop, about to look at element `idx`
  | running              -- element `idx` (a non-nil command) is executing
  | sending              -- blocked in Send with the message of plain element `idx`
  | waiting              -- g.Wait(): the fan-out of batch element `idx` is in progress
  | done
  deriving DecidableEq, Repr

structure St where
  elems : List Elem
  idx : Nat := 0
  pc : SeqPc := .next
  fans : List Fan := []
  ctxDone : Bool := false
  -- history
  started : List Nat := []          -- element indices whose command was started, in order
  received : List MsgId := []       -- messages the event loop received, in order
  abandoned : List MsgId := []      -- messages whose Send gave up (context done)

inductive Label where
  | skipNil              -- `if cmd == nil { continue }`
  | start                -- call `cmd()`
  | finishPlain          -- a plain command returns: call Send
  | finishBatch          -- a batch command returns: start one goroutine per non-nil entry, then Wait
  | recv                 -- the event loop takes the sequence goroutine's message; Send returns
  | abort                -- ... or Send gives up because the context is done
  | fanFinish (k : Nat)  -- fan-out goroutine k's command returns: it calls Send
  | fanRecv (k : Nat)    -- the event loop takes goroutine k's message
  | fanAbort (k : Nat)
  | waitDone             -- every goroutine of the fan-out has finished: g.Wait() returns
  | finish               -- past the last element
  | cancel
  deriving DecidableEq, Repr

/-- the fan-out goroutines of a batch result: one per non-nil entry -/
def fansOf (parts : List Bool) : List Fan :=
  let rec go : Nat → List Bool → List Fan
    | _, [] => []
    | i, true :: ps => { part := i } :: go (i + 1) ps
    | i, false :: ps => go (i + 1) ps
  go 0 parts

def step (s : St) : Label → Option St
  | .skipNil =>
    if s.pc = .next then
      match s.elems[s.idx]? with
      | some .nilCmd => some { s with idx := s.idx + 1 }
      | _ => none
    else none
  | .start =>
    if s.pc = .next then
      match s.elems[s.idx]? with
      | some .plain => some { s with pc := .running, started := s.started ++ [s.idx] }
      | some (.batch _) => some { s with pc := .running, started := s.started ++ [s.idx] }
      | _ => none
    else none
  | .finishPlain =>
    if s.pc = .running then
      match s.elems[s.idx]? with
      | some .plain => some { s with pc := .sending }
      | _ => none
    else none
  | .finishBatch =>
    if s.pc = .running then
      match s.elems[s.idx]? with
      | some (.batch parts) => some { s with pc := .waiting, fans := fansOf parts }
      | _ => none
    else none
  | .recv =>
    if s.pc = .sending then
      some { s with pc := .next, idx := s.idx + 1, received := s.received ++ [⟨s.idx, 0⟩] }
    else none
  | .abort =>
    if s.pc = .sending ∧ s.ctxDone = true then
      some { s with pc := .next, idx := s.idx + 1, abandoned := s.abandoned ++ [⟨s.idx, 0⟩] }
    else none
  | .fanFinish k =>
    match s.fans[k]? with
    | some f => if s.pc = .waiting ∧ f.pc = .running then some { s with fans := s.fans.set k { f with pc := .sending } } else none
    | none => none
  | .fanRecv k =>
    match s.fans[k]? with
    | some f =>
      if s.pc = .waiting ∧ f.pc = .sending then
        some { s with fans := s.fans.set k { f with pc := .finished }, received := s.received ++ [⟨s.idx, f.part⟩] }
      else none
    | none => none
  | .fanAbort k =>
    match s.fans[k]? with
    | some f =>
      if s.pc = .waiting ∧ f.pc = .sending ∧ s.ctxDone = true then
        some { s with fans := s.fans.set k { f with pc := .finished }, abandoned := s.abandoned ++ [⟨s.idx, f.part⟩] }
      else none
    | none => none
  | .waitDone =>
    if s.pc = .waiting ∧ s.fans.all (fun f => f.pc == .finished) then
      some { s with pc := .next, idx := s.idx + 1, fans := [] }
    else none
  | .finish =>
    if s.pc = .next ∧ s.elems.length ≤ s.idx then some { s with pc := .done } else none
  | .cancel => some { s with ctxDone := true }

def init (elems : List Elem) : St := { elems := elems }

inductive Reachable (elems : List Elem) : St → Prop where
  | init : Reachable elems (init elems)
  | step {s s' : St} (l : Label) : Reachable elems s → step s l = some s' → Reachable elems s'

def runLabels (s : St) : List Label → Option St
  | [] => some s
  | l :: ls => match step s l with
    | some s' => runLabels s' ls
    | none => none

/-- the messages element `j` of the sequence produces -/
def msgsOf (elems : List Elem) (j : Nat) : List MsgId :=
  match elems[j]? with
  | some .plain => [⟨j, 0⟩]
  | some (.batch parts) => (fansOf parts).map (fun f => ⟨j, f.part⟩)
  | _ => []

end Tea.Runtime.Seq
