/-
The termination protocol of tea.go / tty.go / standard_renderer.go as a labelled
transition system (C04, C13, signal part of C18): Run's START-UP PHASE, the event
loop with its callbacks, the command dispatcher, the handler goroutines shutdown
waits for (signal handler, resize listener, Init hand-over), the read loop, the
renderer's listen goroutine with its `listening` flag and the halt handshake, every
caller of shutdown (Run's own tail, Kill() / panic handlers on other goroutines),
and any number of API callers blocked in Send (Send, Quit, Println, Printf all go
through Send) or in Wait.

START-UP.  The model begins when Run has just been entered (`init0 c`): no goroutine
has been spawned, the renderer has not been created, its listen goroutine has not
been started.  `RunPc.starting p` says which stage Run "is about to do / is inside"
(`StartPc`, in the order of tea.go, frozen as the source fact `order_Program_Run`):

    sigHandler     about to spawn the signal handler goroutine (if one is wanted)
    newRenderer    about to create the renderer (`p.renderer = newRenderer(..)`)
    modeWrites     INSIDE initTerminal / the start-up mode sequences (setWindowTitle,
                   enterAltScreen, enableBracketedPaste, enableMouse.., enableReportFocus):
                   writes to the USER'S output writer; initTerminal may fail
    startRenderer  about to call `p.renderer.start()`
    initCall       INSIDE `model.Init()` (user code, may panic)
    spawnInit      about to spawn the goroutine that hands Init's command over
    firstView      INSIDE the first `model.View()` (user code, may panic)
    openReader     about to open the cancel reader and spawn the read loop (may fail)
    spawnHandlers  about to spawn the resize listener and the command dispatcher and to
                   enter the event loop

The internal steps of Run (`suSigHandler` .. `suSpawnHandlers`) are lifecycle labels, each
enabled only at its stage; user code / faults of the start-up are EXTERNAL labels
(`startWriterReturns`, `startTermFails`, `initReturns`, `initPanics`, `firstViewReturns`,
`firstViewPanics`, `startReaderFails`).  `killCall`, `parentCancel`, `sendCall`, `waitCall`
and `signal` are enabled at every stage: a Kill() can arrive at any point of the start-up.
`init c` is the state in which the event loop begins when nothing has struck; it is reached
from `init0 c` by the fault-free schedule `startupSchedule` (`startup_reaches_loop`).

EXEC.  A message of kind `exec` (an `execMsg`, sent by a command goroutine like every command
result) makes the event loop run `p.exec` ON ITS OWN GOROUTINE: ReleaseTerminal (`execRelease ph`:
ignore signals, cancel the reader, wait for the read loop or 500 ms, stop the renderer,
restoreTerminalState), the external command (`execCmd`: USER CODE, left only by the external labels
`execCmdReturns` / `execCmdPanics`), RestoreTerminal (`execRestore ph`: obey signals again, a NEW
read loop - an old one that outlived the 500 ms is leaked and only counted -, the renderer listening
again, the mode sequences written again, the goroutines that Send the repaint / size message and the
callback's message), and then the message goes on to Update (`callback`).  The steps `exRel*` /
`exRes*` are lifecycle labels, each enabled only at its phase; `execReleaseFails` /
`execRestoreFails` are the error arms.  `ignoreSignals` is therefore DYNAMIC: set by `exRelCancel`,
put back by `exResReader` / `execRestoreFails` to what the program was configured with
(`withoutSignals`, the option WithoutSignals, fixed: `if !p.withoutSignals { store 0 }`).  Before the
repair RestoreTerminal stored 0 unconditionally, and a WithoutSignals program obeyed SIGINT /
SIGTERM again after its first Exec: that defect was found with this model (the old step is kept as
`stepOld` in `Tea/Proofs/LifecycleExec.lean`, with the run that shows it in `Tea/Props/C18.lean`).
One history variable that no guard reads: `releaseStuck` (a release was not followed by a restore:
the release failed, or the command panicked - signals stay ignored until the next RestoreTerminal).

THE RENDERER'S HALT.  `listen = notStarted | idle | flushing | stopped` is the listen
goroutine together with the flag `listening` (`listening = true` iff `idle` or `flushing`).
`shRenderer` is `halt()`: nothing when the renderer has not been created (`p.renderer ==
nil`) or is not listening (not started yet, or already halted); otherwise the hand-over on
the unbuffered `done` channel, which completes only when the listen goroutine is not
inside the user's writer.

User code is a state a goroutine leaves only by an EXTERNAL label
(`callbackReturns`, `viewReturns`, `writerReturns`, `startWriterReturns`, `initReturns`,
`firstViewReturns`, `execCmdReturns`): the theorems say that once termination has begun and no user
callback is in progress, internal ("lifecycle") steps alone bring Run to its return -
during the start-up: together with the returns of the start-up's own user code.

Every blocking operation of the package appears here as a transition guarded
the way the source guards it; the inventory of those operations and guards is
the extracted fact set (`sends`, `recvs`, `closes`, `ctxchecks`, `order_*`),
compared with its frozen expectation by the bridge module of C04 / C13.

Not modelled (limits): the input selection at the very beginning of Run (it may open
/dev/tty and fail: Run returns before anything exists); the data race on `p.handlers`
between Run's appends (`handlers.add`) and the iteration of a concurrent Kill()'s
`handlers.shutdown()` - a killer's `shHandlers` waits for the handlers that exist at that
moment; a reader whose Cancel() claims success but whose Read never returns is covered by
the 500 ms timeout transitions `shWaitReadTimeout` / `exRelWaitTimeout`; a read loop that outlives
the release of an Exec is leaked and only counted (`leakedReaders`): what it might still send is not
modelled; ReleaseTerminal / RestoreTerminal called by the program itself from another goroutine
(outside an Exec) are not modelled.
-/
namespace Tea.Runtime.Life

/-- why the event loop stopped -/
inductive Cause where
  | quit | interrupt | ctx | readErr | panic
  deriving DecidableEq, Repr

/-- the class of error Run returns -/
inductive ErrClass where
  | nil | interrupted | killed | reader | startup
  deriving DecidableEq, Repr

/-- the phases of ReleaseTerminal: "about to ..." -/
inductive RelPhase where
  | cancelReader | waitRead | renderer | restore
  deriving DecidableEq, Repr

/-- the phases of RestoreTerminal: "about to ..." -/
inductive ResPhase where
  | reader | renderer | spawn
  deriving DecidableEq, Repr

inductive ElPc where
  | notStarted          -- Run is still starting up: the event loop has not begun
  | select
  | callback            -- filter / Update in progress (user code)
  | cmdSend             -- `select { case <-ctx.Done(): ; case cmds <- cmd: }`
  | view                -- View in progress (user code)
  | execRelease (ph : RelPhase)   -- Exec: inside ReleaseTerminal, about to do `ph`
  | execCmd                       -- Exec: the external command runs (user code)
  | execRestore (ph : ResPhase)   -- Exec: inside RestoreTerminal, about to do `ph`
  | exited (c : Cause)
  deriving DecidableEq, Repr

/-- signal handler goroutine -/
inductive SigPc where
  | absent | waiting | sending (int : Bool) | exited
  deriving DecidableEq, Repr

/-- resize listener / Init hand-over goroutine -/
inductive HPc where
  | absent | waiting | exited
  deriving DecidableEq, Repr

inductive ReadPc where
  | absent | reading | sendingMsg | sendingErr | exited
  deriving DecidableEq, Repr

/-- the renderer's listen goroutine and its `listening` flag: `notStarted` = `start()` has not been
called (`listening = false`), `idle` / `flushing` = running (`listening = true`), `flushing` = inside
the user's output writer, `stopped` = halted (`listening = false` again) -/
inductive ListenPc where
  | notStarted | idle | flushing | stopped
  deriving DecidableEq, Repr

/-- progress of one call of `shutdown(kill)` -/
inductive ShPhase where
  | cancel | waitHandlers | reader | waitRead | renderer | restore | done
  deriving DecidableEq, Repr

/-- the stages of Run's start-up: "Run is about to do / is inside ..." -/
inductive StartPc where
  | sigHandler | newRenderer | modeWrites | startRenderer | initCall | spawnInit | firstView
  | openReader | spawnHandlers
  deriving DecidableEq, Repr

inductive RunPc where
  | starting (p : StartPc) | loop | tail | returned
  deriving DecidableEq, Repr

/-- what a blocked Send carries -/
inductive SendKind where
  | user | quit | interrupt | exec
  deriving DecidableEq, Repr

inductive APc where
  | notCalled | blocked | returned
  deriving DecidableEq, Repr

structure Caller where
  kind : SendKind := .user
  pc : APc := .notCalled
  deriving DecidableEq, Repr

structure St where
  cancelable : Bool                 -- the input reader's Cancel() works (file input) or not (fallback)
  ignoreSignals : Bool := false     -- dynamic: set by ReleaseTerminal, put back by RestoreTerminal
  withoutSignals : Bool := false    -- the option WithoutSignals: what RestoreTerminal puts back; never changed
  withSignalHandler : Bool := true  -- the configuration, read by the start-up steps
  withResize : Bool := true
  withInitCmd : Bool := false
  withInput : Bool := true
  ctxDone : Bool := false
  el : ElPc := .select
  dispAlive : Bool := true
  sig : SigPc := .waiting
  resize : HPc := .waiting
  initG : HPc := .absent
  reader : ReadPc := .reading
  readerCancelRequested : Bool := false
  listen : ListenPc := .idle
  rendererMade : Bool := true       -- `p.renderer != nil`
  modesDirty : Bool := true         -- mode sequences were written after the last restore
  runPc : RunPc := .loop
  runSh : ShPhase := .cancel
  runKill : Bool := false
  runErr : ErrClass := .nil
  killers : List ShPhase := []      -- shutdown(true) calls on other goroutines (Kill(), panic in a command)
  senders : List Caller := []
  waiters : List APc := []
  finishedClosed : Bool := false
  restores : Nat := 0               -- how many times restoreTerminalState ran
  leakedReaders : Nat := 0          -- read loops that outlived a release: never waited for, only counted
  releaseStuck : Bool := false      -- history: a release was not followed by a restore (release failed / command panicked)
  deriving Repr

inductive Label where
  -- external: the environment and user code
  | callbackReturns | callbackPanics | viewReturns | viewPanics | writerReturns | tick
  | signal (int : Bool) | decoded | readError | readEOF
  | sendCall (i : Nat) | waitCall (i : Nat) | killCall | parentCancel
  -- external, start-up: the user's writer / Init / the first View return or fail
  | startWriterReturns | startTermFails | initReturns | initPanics | firstViewReturns | firstViewPanics
  | startReaderFails
  -- external, Exec: the command returns / panics, ReleaseTerminal / RestoreTerminal fails
  | execCmdReturns | execCmdPanics | execRestoreFails | execReleaseFails
  -- lifecycle: internal steps of an Exec on the event-loop goroutine
  | exRelCancel | exRelWaitRead | exRelWaitTimeout | exRelRenderer | exRelRestore
  | exResReader | exResRenderer | exResSpawn
  -- lifecycle: internal steps of Run's start-up
  | suSigHandler | suNewRenderer | suStartRenderer | suSpawnInit | suOpenReader | suSpawnHandlers
  -- lifecycle: internal steps of the runtime
  | elRecvSender (i : Nat) | elRecvSig | elRecvReader | elRecvErr | elCtxExit
  | elCmdHandOver | elCmdAbort
  | dispExit | sigExit | sigAbort | resizeExit | initHandOver | initAbort
  | readerMsgAbort | readerErrAbort | readerCanceled
  | sendAbort (i : Nat) | waitReturn (i : Nat)
  | runTail
  | shCancel (who : Option Nat)          -- `none` = Run's own shutdown, `some j` = killer j
  | shHandlers (who : Option Nat)
  | shReader (who : Option Nat)
  | shWaitRead (who : Option Nat)
  | shWaitReadTimeout (who : Option Nat)
  | shRenderer (who : Option Nat)
  | shRestore (who : Option Nat)
  | runReturn
  deriving DecidableEq, Repr

def Label.isLifecycle : Label → Bool
  | .callbackReturns | .callbackPanics | .viewReturns | .viewPanics | .writerReturns | .tick
  | .signal _ | .decoded | .readError | .readEOF | .sendCall _ | .waitCall _ | .killCall | .parentCancel
  | .startWriterReturns | .startTermFails | .initReturns | .initPanics | .firstViewReturns | .firstViewPanics
  | .startReaderFails | .execCmdReturns | .execCmdPanics | .execRestoreFails | .execReleaseFails => false
  | _ => true

def handlerGone : HPc → Bool
  | .waiting => false
  | _ => true

def sigGone : SigPc → Bool
  | .absent | .exited => true
  | _ => false

/-- `handlers.shutdown()` returns: every registered handler has closed its channel -/
def handlersDone (s : St) : Bool :=
  sigGone s.sig && handlerGone s.resize && handlerGone s.initG && !s.dispAlive

/-- the phase of shutdown caller `who` -/
def phaseOf (s : St) : Option Nat → Option ShPhase
  | none => if s.runPc = .tail then some s.runSh else none
  | some j => s.killers[j]?

def setPhase (s : St) (who : Option Nat) (ph : ShPhase) : St :=
  match who with
  | none => { s with runSh := ph }
  | some j => { s with killers := s.killers.set j ph }

def killOf (s : St) : Option Nat → Bool
  | none => s.runKill
  | some _ => true

/-- error class computed by Run after the loop: `killed := ctx.Err() != nil || err != nil` -/
def errOf (c : Cause) (ctxDone : Bool) : ErrClass :=
  match c with
  | .quit => if ctxDone then .killed else .nil
  | .interrupt => .interrupted
  | .ctx => .killed
  | .readErr => .reader
  | .panic => .killed

def step (s : St) : Label → Option St
  -- ---------------------------------------------------------------- external
  | .callbackReturns => if s.el = .callback then some { s with el := .cmdSend } else none
  | .callbackPanics => if s.el = .callback then some { s with el := .exited .panic } else none
  | .viewReturns => if s.el = .view then some { s with el := .select } else none
  | .viewPanics => if s.el = .view then some { s with el := .exited .panic } else none
  | .tick => if s.listen = .idle then some { s with listen := .flushing } else none
  | .writerReturns => if s.listen = .flushing then some { s with listen := .idle } else none
  | .signal int =>
    if s.sig = .waiting ∧ s.ignoreSignals = false then some { s with sig := .sending int } else none
  | .decoded => if s.reader = .reading then some { s with reader := .sendingMsg } else none
  | .readError => if s.reader = .reading then some { s with reader := .sendingErr } else none
  | .readEOF => if s.reader = .reading then some { s with reader := .exited } else none
  | .sendCall i =>
    match s.senders[i]? with
    | some c => if c.pc = .notCalled then some { s with senders := s.senders.set i { c with pc := .blocked } } else none
    | none => none
  | .waitCall i =>
    match s.waiters[i]? with
    | some .notCalled => some { s with waiters := s.waiters.set i .blocked }
    | _ => none
  | .killCall => some { s with killers := s.killers ++ [.cancel] }
  | .parentCancel => some { s with ctxDone := true }
  -- ---------------------------------------------------------------- external, start-up
  | .startWriterReturns =>
    if s.runPc = .starting .modeWrites then some { s with modesDirty := true, runPc := .starting .startRenderer }
    else none
  | .startTermFails =>       -- initTerminal failed: Run returns WITHOUT shutdown (deferred cancel, close(finished))
    if s.runPc = .starting .modeWrites then
      some { s with runPc := .returned, ctxDone := true, finishedClosed := true, runErr := .startup }
    else none
  | .initReturns => if s.runPc = .starting .initCall then some { s with runPc := .starting .spawnInit } else none
  | .initPanics =>           -- recovered by Run's deferred handler: shutdown(true), ErrProgramKilled
    if s.runPc = .starting .initCall then
      some { s with runPc := .tail, runSh := .cancel, runKill := true, runErr := .killed }
    else none
  | .firstViewReturns =>
    if s.runPc = .starting .firstView then some { s with runPc := .starting .openReader } else none
  | .firstViewPanics =>
    if s.runPc = .starting .firstView then
      some { s with runPc := .tail, runSh := .cancel, runKill := true, runErr := .killed }
    else none
  | .startReaderFails =>     -- initCancelReader failed: shutdown(true), the error is returned
    if s.runPc = .starting .openReader ∧ s.withInput = true then
      some { s with runPc := .tail, runSh := .cancel, runKill := true, runErr := .startup }
    else none
  -- ---------------------------------------------------------------- external, Exec
  | .execCmdReturns => if s.el = .execCmd then some { s with el := .execRestore .reader } else none
  | .execCmdPanics =>        -- recovered by Run's deferred handler; nobody restores `ignoreSignals`
    if s.el = .execCmd then some { s with el := .exited .panic, releaseStuck := true } else none
  | .execRestoreFails =>     -- RestoreTerminal failed: the flag is put back, nothing restarted, the callback's message
    if s.el = .execRestore .reader then
      some { s with ignoreSignals := s.withoutSignals, releaseStuck := false,
                    senders := s.senders ++ [{ kind := .user, pc := .blocked }], el := .callback }
    else none
  | .execReleaseFails =>     -- restoreTerminalState failed: signals stay ignored, reader / renderer as they are
    if s.el = .execRelease .restore then
      some { s with releaseStuck := true,
                    senders := s.senders ++ [{ kind := .user, pc := .blocked }], el := .callback }
    else none
  -- ---------------------------------------------------------------- Exec, on the event-loop goroutine
  | .exRelCancel =>
    if s.el = .execRelease .cancelReader then
      some { s with ignoreSignals := true,
                    readerCancelRequested :=
                      if s.reader ≠ .absent ∧ s.cancelable = true then true else s.readerCancelRequested,
                    el := .execRelease .waitRead }
    else none
  | .exRelWaitRead =>
    if s.el = .execRelease .waitRead ∧ s.reader = .exited then some { s with el := .execRelease .renderer } else none
  | .exRelWaitTimeout =>     -- the 500 ms timeout; the only way when there is no reader
    if s.el = .execRelease .waitRead then some { s with el := .execRelease .renderer } else none
  | .exRelRenderer =>        -- `if p.renderer != nil { p.renderer.stop() .. }`: halt() as in `shRenderer`
    if s.el = .execRelease .renderer then
      if s.rendererMade = false then some { s with el := .execRelease .restore }
      else match s.listen with
        | .notStarted | .stopped => some { s with el := .execRelease .restore }
        | .idle => some { s with listen := .stopped, el := .execRelease .restore }
        | .flushing => none
    else none
  | .exRelRestore =>         -- restoreTerminalState; afterwards the command runs (user code)
    if s.el = .execRelease .restore then
      some { s with restores := s.restores + 1, modesDirty := false, el := .execCmd }
    else none
  | .exResReader =>          -- `if !p.withoutSignals { ignoreSignals = 0 }`; a NEW read loop (an old one still running is leaked)
    if s.el = .execRestore .reader then
      if s.withInput = true then
        some { s with ignoreSignals := s.withoutSignals, releaseStuck := false,
                      leakedReaders := if s.reader = .absent ∨ s.reader = .exited then s.leakedReaders
                                       else s.leakedReaders + 1,
                      reader := .reading, readerCancelRequested := false, el := .execRestore .renderer }
      else some { s with ignoreSignals := s.withoutSignals, releaseStuck := false,
                         el := .execRestore .renderer }
    else none
  | .exResRenderer =>        -- the mode sequences again; `start()`: nothing on a running renderer
    if s.el = .execRestore .renderer then
      some { s with listen := if s.listen = .notStarted ∨ s.listen = .stopped then .idle else s.listen,
                    modesDirty := true, el := .execRestore .spawn }
    else none
  | .exResSpawn =>           -- `go p.Send(repaintMsg / size)`, `go p.Send(fn(err))`; then Update receives the execMsg
    if s.el = .execRestore .spawn then
      some { s with senders := s.senders ++ [{ kind := .user, pc := .blocked }, { kind := .user, pc := .blocked }],
                    el := .callback }
    else none
  -- ---------------------------------------------------------------- Run's start-up
  | .suSigHandler =>
    if s.runPc = .starting .sigHandler then
      some { s with sig := if s.withSignalHandler = true then .waiting else s.sig,
                    runPc := .starting .newRenderer }
    else none
  | .suNewRenderer =>        -- afterwards Run is inside initTerminal / the mode sequences (user's writer)
    if s.runPc = .starting .newRenderer then some { s with rendererMade := true, runPc := .starting .modeWrites }
    else none
  | .suStartRenderer =>      -- `start()`: nothing if already listening; afterwards Run is inside Init
    if s.runPc = .starting .startRenderer then
      some { s with listen := if s.listen = .notStarted then .idle else s.listen, runPc := .starting .initCall }
    else none
  | .suSpawnInit =>          -- afterwards Run is inside the first View
    if s.runPc = .starting .spawnInit then
      some { s with initG := if s.withInitCmd = true then .waiting else s.initG, runPc := .starting .firstView }
    else none
  | .suOpenReader =>
    if s.runPc = .starting .openReader then
      some { s with reader := if s.withInput = true then .reading else s.reader, runPc := .starting .spawnHandlers }
    else none
  | .suSpawnHandlers =>      -- enters the event loop (which has not begun: always so at this stage, `InvStart`)
    if s.runPc = .starting .spawnHandlers ∧ s.el = .notStarted then
      some { s with resize := if s.withResize = true then .waiting else s.resize, dispAlive := true,
                    el := .select, runPc := .loop }
    else none
  -- ---------------------------------------------------------------- event loop
  | .elRecvSender i =>
    match s.senders[i]? with
    | some c =>
      if s.el = .select ∧ c.pc = .blocked then
        some { s with senders := s.senders.set i { c with pc := .returned },
                      el := match c.kind with
                        | .user => .callback
                        | .quit => .exited .quit
                        | .interrupt => .exited .interrupt
                        | .exec => .execRelease .cancelReader }
      else none
    | none => none
  | .elRecvSig =>
    match s.sig with
    | .sending int => if s.el = .select then some { s with sig := .exited, el := .exited (if int then .interrupt else .quit) } else none
    | _ => none
  | .elRecvReader =>
    if s.el = .select ∧ s.reader = .sendingMsg then some { s with reader := .reading, el := .callback } else none
  | .elRecvErr =>
    if s.el = .select ∧ s.reader = .sendingErr then some { s with reader := .exited, el := .exited .readErr } else none
  | .elCtxExit => if s.el = .select ∧ s.ctxDone = true then some { s with el := .exited .ctx } else none
  | .elCmdHandOver => if s.el = .cmdSend ∧ s.dispAlive = true then some { s with el := .view } else none
  | .elCmdAbort => if s.el = .cmdSend ∧ s.ctxDone = true then some { s with el := .exited .ctx } else none
  -- ---------------------------------------------------------------- handlers
  | .dispExit => if s.dispAlive = true ∧ s.ctxDone = true then some { s with dispAlive := false } else none
  | .sigExit => if s.sig = .waiting ∧ s.ctxDone = true then some { s with sig := .exited } else none
  | .sigAbort =>
    match s.sig with
    | .sending _ => if s.ctxDone = true then some { s with sig := .exited } else none
    | _ => none
  | .resizeExit => if s.resize = .waiting ∧ s.ctxDone = true then some { s with resize := .exited } else none
  | .initHandOver => if s.initG = .waiting ∧ s.dispAlive = true then some { s with initG := .exited } else none
  | .initAbort => if s.initG = .waiting ∧ s.ctxDone = true then some { s with initG := .exited } else none
  -- ---------------------------------------------------------------- read loop
  | .readerMsgAbort => if s.reader = .sendingMsg ∧ s.ctxDone = true then some { s with reader := .exited } else none
  | .readerErrAbort => if s.reader = .sendingErr ∧ s.ctxDone = true then some { s with reader := .exited } else none
  | .readerCanceled =>
    if s.reader = .reading ∧ s.readerCancelRequested = true ∧ s.cancelable = true then some { s with reader := .exited } else none
  -- ---------------------------------------------------------------- API callers
  | .sendAbort i =>
    match s.senders[i]? with
    | some c => if c.pc = .blocked ∧ s.ctxDone = true then some { s with senders := s.senders.set i { c with pc := .returned } } else none
    | none => none
  | .waitReturn i =>
    match s.waiters[i]? with
    | some .blocked => if s.finishedClosed = true then some { s with waiters := s.waiters.set i .returned } else none
    | _ => none
  -- ---------------------------------------------------------------- Run and shutdown
  | .runTail =>
    match s.el with
    | .exited c =>
      if s.runPc = .loop then
        some { s with runPc := .tail, runSh := .cancel, runErr := errOf c s.ctxDone,
                      runKill := s.ctxDone || c != .quit }
      else none
    | _ => none
  | .shCancel who =>
    if phaseOf s who = some .cancel then some { setPhase s who .waitHandlers with ctxDone := true } else none
  | .shHandlers who =>
    if phaseOf s who = some .waitHandlers ∧ handlersDone s = true then some (setPhase s who .reader) else none
  | .shReader who =>
    if phaseOf s who = some .reader then
      if s.reader = .absent then some (setPhase s who .renderer)
      else if s.cancelable = true then
        some { setPhase s who (if killOf s who then .renderer else .waitRead) with readerCancelRequested := true }
      else some (setPhase s who .renderer)
    else none
  | .shWaitRead who =>
    if phaseOf s who = some .waitRead ∧ s.reader = .exited then some (setPhase s who .renderer) else none
  | .shWaitReadTimeout who =>
    if phaseOf s who = some .waitRead then some (setPhase s who .renderer) else none
  | .shRenderer who =>       -- `if p.renderer != nil { halt(); .. }`
    if phaseOf s who = some .renderer then
      if s.rendererMade = false then some (setPhase s who .restore)
      else match s.listen with
        | .notStarted | .stopped => some (setPhase s who .restore)      -- halt finds `listening = false`
        | .idle => some { setPhase s who .restore with listen := .stopped }
        | .flushing => none                                             -- the hand-over waits for the user's writer
    else none
  | .shRestore who =>
    if phaseOf s who = some .restore then
      some { setPhase s who .done with restores := s.restores + 1, modesDirty := false }
    else none
  | .runReturn =>
    if s.runPc = .tail ∧ s.runSh = .done then some { s with runPc := .returned, finishedClosed := true } else none

/-- the configurations a program can start in -/
structure Config where
  cancelable : Bool
  withSignalHandler : Bool
  ignoreSignals : Bool
  withResize : Bool
  withInitCmd : Bool
  withInput : Bool
  senders : List SendKind
  waiters : Nat

/-- Run has just been entered: nothing has been spawned, created or started -/
def init0 (c : Config) : St :=
  { cancelable := c.cancelable, ignoreSignals := c.ignoreSignals, withoutSignals := c.ignoreSignals,
    withSignalHandler := c.withSignalHandler, withResize := c.withResize,
    withInitCmd := c.withInitCmd, withInput := c.withInput,
    el := .notStarted, dispAlive := false,
    sig := .absent, resize := .absent, initG := .absent, reader := .absent,
    listen := .notStarted, rendererMade := false, modesDirty := false,
    runPc := .starting .sigHandler,
    senders := c.senders.map (fun k => { kind := k }),
    waiters := List.replicate c.waiters .notCalled }

/-- the event loop begins and nothing has struck during the start-up: the handlers are running,
the renderer is listening, the start-up mode sequences have been written -/
def init (c : Config) : St :=
  { cancelable := c.cancelable, ignoreSignals := c.ignoreSignals, withoutSignals := c.ignoreSignals,
    withSignalHandler := c.withSignalHandler, withResize := c.withResize,
    withInitCmd := c.withInitCmd, withInput := c.withInput,
    el := .select, dispAlive := true,
    sig := if c.withSignalHandler then .waiting else .absent,
    resize := if c.withResize then .waiting else .absent,
    initG := if c.withInitCmd then .waiting else .absent,
    reader := if c.withInput then .reading else .absent,
    listen := .idle, rendererMade := true, modesDirty := true,
    runPc := .loop,
    senders := c.senders.map (fun k => { kind := k }),
    waiters := List.replicate c.waiters .notCalled }

/-- every state of every schedule, from the moment Run is entered -/
inductive Reachable (c : Config) : St → Prop where
  | init0 : Reachable c (init0 c)
  | step {s s' : St} (l : Label) : Reachable c s → step s l = some s' → Reachable c s'

def runLabels (s : St) : List Label → Option St
  | [] => some s
  | l :: ls => match step s l with
    | some s' => runLabels s' ls
    | none => none

/-- the fault-free start-up: every stage in turn, the user's writer, Init and the first View return -/
def startupSchedule : List Label :=
  [.suSigHandler, .suNewRenderer, .startWriterReturns, .suStartRenderer, .initReturns, .suSpawnInit,
   .firstViewReturns, .suOpenReader, .suSpawnHandlers]

/-- the loop is inside an Exec (ReleaseTerminal, the command, RestoreTerminal) -/
def ElPc.inExec : ElPc → Bool
  | .execRelease _ | .execCmd | .execRestore _ => true
  | _ => false

/-- the phases of an Exec in which the terminal is released: after `exRelCancel` (signals ignored) and
before `exResReader` (signals obeyed again) -/
def ElPc.released : ElPc → Bool
  | .execRelease .waitRead | .execRelease .renderer | .execRelease .restore | .execCmd
  | .execRestore .reader => true
  | _ => false

/-- the fault-free Exec of the message of sender `e`: ReleaseTerminal (the wait for the read loop ends
by `wait`: the 500 ms timeout, or `exRelWaitRead` when the read loop has exited), the command
returns, RestoreTerminal -/
def execSchedule (e : Nat) (wait : Label := .exRelWaitTimeout) : List Label :=
  [.elRecvSender e, .exRelCancel, wait, .exRelRenderer, .exRelRestore, .execCmdReturns, .exResReader,
   .exResRenderer, .exResSpawn]

/-- termination has begun: the context is cancelled, or the loop has exited, or a shutdown caller
on another goroutine exists, or Run is past its loop / its start-up (after a start-up failure or a
start-up panic Run is in its tail without any of the former) -/
def Terminating (s : St) : Prop :=
  s.ctxDone = true ∨ (∃ c, s.el = .exited c) ∨ s.killers ≠ [] ∨ s.runPc = .tail ∨ s.runPc = .returned

/-- no user code is in progress on a goroutine the shutdown depends on: the loop is not inside
filter / Update / View, the listen goroutine is not inside the user's writer, and Run is not inside
the user code of its start-up (the writer of the mode sequences, Init, the first View), and the
loop is not waiting for the command of an Exec -/
def NoCallback (s : St) : Prop :=
  s.el ≠ .callback ∧ s.el ≠ .view ∧ s.listen ≠ .flushing ∧
  s.runPc ≠ .starting .modeWrites ∧ s.runPc ≠ .starting .initCall ∧ s.runPc ≠ .starting .firstView ∧
  s.el ≠ .execCmd

end Tea.Runtime.Life
