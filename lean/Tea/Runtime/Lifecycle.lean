/-
The termination protocol of tea.go / tty.go / standard_renderer.go as a labelled
transition system (C04, C13, signal part of C18): the event loop with its
callbacks, the command dispatcher, the handler goroutines shutdown waits for
(signal handler, resize listener, Init hand-over), the read loop, the
renderer's listen goroutine and stop handshake, every caller of shutdown (Run's
own tail, Kill() / panic handlers on other goroutines), and any number of API
callers blocked in Send (Send, Quit, Println, Printf all go through Send) or in
Wait.

User code is a state a goroutine leaves only by an EXTERNAL label
(`callbackReturns`, `viewReturns`, `writerReturns`): the theorems say that once
termination has begun and no user callback is in progress, internal
("lifecycle") steps alone bring Run to its return.

Every blocking operation of the package appears here as a transition guarded
the way the source guards it; the inventory of those operations and guards is
the extracted fact set (`sends`, `recvs`, `closes`, `ctxchecks`, `order_*`),
compared with its frozen expectation by the bridge module of C04 / C13.

Not modelled (limits): Kill() before the renderer has been started; a reader
whose Cancel() claims success but whose Read never returns is covered by the
500 ms timeout transition `shWaitReadTimeout`.
-/
namespace Tea.Runtime.Life

/-- why the event loop stopped -/
inductive Cause where
  | quit | interrupt | ctx | readErr | panic
  deriving DecidableEq, Repr

/-- the class of error Run returns -/
inductive ErrClass where
  | nil | interrupted | killed | reader
  deriving DecidableEq, Repr

inductive ElPc where
  | select
  | callback            -- filter / Update in progress (user code)
  | cmdSend             -- `select { case <-ctx.Done(): ; case cmds <- cmd: }`
  | view                -- View in progress (user code)
  | exited (c : Cause)
  deriving DecidableEq, Repr

/-- signal handler goroutine -/
inductive SigPc where
  | absent | waiting | sending (int : Bool) | exited
  deriving DecidableEq, Repr

/-- resize listener / Init hand-over goroutine -/
inductive HPc where
  | absent | waiting | exited
  deriving DecidableEq, Repr

inductive ReadPc where
  | absent | reading | sendingMsg | sendingErr | exited
  deriving DecidableEq, Repr

/-- the renderer's listen goroutine; `flushing` = inside the user's output writer -/
inductive ListenPc where
  | idle | flushing | stopped
  deriving DecidableEq, Repr

/-- progress of one call of `shutdown(kill)` -/
inductive ShPhase where
  | cancel | waitHandlers | reader | waitRead | renderer | restore | done
  deriving DecidableEq, Repr

inductive RunPc where
  | loop | tail | returned
  deriving DecidableEq, Repr

/-- what a blocked Send carries -/
inductive SendKind where
  | user | quit | interrupt
  deriving DecidableEq, Repr

inductive APc where
  | notCalled | blocked | returned
  deriving DecidableEq, Repr

structure Caller where
  kind : SendKind := .user
  pc : APc := .notCalled
  deriving DecidableEq, Repr

structure St where
  cancelable : Bool                 -- the input reader's Cancel() works (file input) or not (fallback)
  ignoreSignals : Bool := false
  ctxDone : Bool := false
  el : ElPc := .select
  dispAlive : Bool := true
  sig : SigPc := .waiting
  resize : HPc := .waiting
  initG : HPc := .absent
  reader : ReadPc := .reading
  readerCancelRequested : Bool := false
  listen : ListenPc := .idle
  onceDone : Bool := false
  runPc : RunPc := .loop
  runSh : ShPhase := .cancel
  runKill : Bool := false
  runErr : ErrClass := .nil
  killers : List ShPhase := []      -- shutdown(true) calls on other goroutines (Kill(), panic in a command)
  senders : List Caller := []
  waiters : List APc := []
  finishedClosed : Bool := false
  restores : Nat := 0               -- how many times restoreTerminalState ran
  deriving Repr

inductive Label where
  -- external: the environment and user code
  | callbackReturns | callbackPanics | viewReturns | viewPanics | writerReturns | tick
  | signal (int : Bool) | decoded | readError | readEOF
  | sendCall (i : Nat) | waitCall (i : Nat) | killCall | parentCancel
  -- lifecycle: internal steps of the runtime
  | elRecvSender (i : Nat) | elRecvSig | elRecvReader | elRecvErr | elCtxExit
  | elCmdHandOver | elCmdAbort
  | dispExit | sigExit | sigAbort | resizeExit | initHandOver | initAbort
  | readerMsgAbort | readerErrAbort | readerCanceled
  | sendAbort (i : Nat) | waitReturn (i : Nat)
  | runTail
  | shCancel (who : Option Nat)          -- `none` = Run's own shutdown, `some j` = killer j
  | shHandlers (who : Option Nat)
  | shReader (who : Option Nat)
  | shWaitRead (who : Option Nat)
  | shWaitReadTimeout (who : Option Nat)
  | shRenderer (who : Option Nat)
  | shRestore (who : Option Nat)
  | runReturn
  deriving DecidableEq, Repr

def Label.isLifecycle : Label → Bool
  | .callbackReturns | .callbackPanics | .viewReturns | .viewPanics | .writerReturns | .tick
  | .signal _ | .decoded | .readError | .readEOF | .sendCall _ | .waitCall _ | .killCall | .parentCancel => false
  | _ => true

def handlerGone : HPc → Bool
  | .waiting => false
  | _ => true

def sigGone : SigPc → Bool
  | .absent | .exited => true
  | _ => false

/-- `handlers.shutdown()` returns: every registered handler has closed its channel -/
def handlersDone (s : St) : Bool :=
  sigGone s.sig && handlerGone s.resize && handlerGone s.initG && !s.dispAlive

/-- the phase of shutdown caller `who` -/
def phaseOf (s : St) : Option Nat → Option ShPhase
  | none => if s.runPc = .tail then some s.runSh else none
  | some j => s.killers[j]?

def setPhase (s : St) (who : Option Nat) (ph : ShPhase) : St :=
  match who with
  | none => { s with runSh := ph }
  | some j => { s with killers := s.killers.set j ph }

def killOf (s : St) : Option Nat → Bool
  | none => s.runKill
  | some _ => true

/-- error class computed by Run after the loop: `killed := ctx.Err() != nil || err != nil` -/
def errOf (c : Cause) (ctxDone : Bool) : ErrClass :=
  match c with
  | .quit => if ctxDone then .killed else .nil
  | .interrupt => .interrupted
  | .ctx => .killed
  | .readErr => .reader
  | .panic => .killed

def step (s : St) : Label → Option St
  -- ---------------------------------------------------------------- external
  | .callbackReturns => if s.el = .callback then some { s with el := .cmdSend } else none
  | .callbackPanics => if s.el = .callback then some { s with el := .exited .panic } else none
  | .viewReturns => if s.el = .view then some { s with el := .select } else none
  | .viewPanics => if s.el = .view then some { s with el := .exited .panic } else none
  | .tick => if s.listen = .idle then some { s with listen := .flushing } else none
  | .writerReturns => if s.listen = .flushing then some { s with listen := .idle } else none
  | .signal int =>
    if s.sig = .waiting ∧ s.ignoreSignals = false then some { s with sig := .sending int } else none
  | .decoded => if s.reader = .reading then some { s with reader := .sendingMsg } else none
  | .readError => if s.reader = .reading then some { s with reader := .sendingErr } else none
  | .readEOF => if s.reader = .reading then some { s with reader := .exited } else none
  | .sendCall i =>
    match s.senders[i]? with
    | some c => if c.pc = .notCalled then some { s with senders := s.senders.set i { c with pc := .blocked } } else none
    | none => none
  | .waitCall i =>
    match s.waiters[i]? with
    | some .notCalled => some { s with waiters := s.waiters.set i .blocked }
    | _ => none
  | .killCall => some { s with killers := s.killers ++ [.cancel] }
  | .parentCancel => some { s with ctxDone := true }
  -- ---------------------------------------------------------------- event loop
  | .elRecvSender i =>
    match s.senders[i]? with
    | some c =>
      if s.el = .select ∧ c.pc = .blocked then
        some { s with senders := s.senders.set i { c with pc := .returned },
                      el := match c.kind with
                        | .user => .callback
                        | .quit => .exited .quit
                        | .interrupt => .exited .interrupt }
      else none
    | none => none
  | .elRecvSig =>
    match s.sig with
    | .sending int => if s.el = .select then some { s with sig := .exited, el := .exited (if int then .interrupt else .quit) } else none
    | _ => none
  | .elRecvReader =>
    if s.el = .select ∧ s.reader = .sendingMsg then some { s with reader := .reading, el := .callback } else none
  | .elRecvErr =>
    if s.el = .select ∧ s.reader = .sendingErr then some { s with reader := .exited, el := .exited .readErr } else none
  | .elCtxExit => if s.el = .select ∧ s.ctxDone = true then some { s with el := .exited .ctx } else none
  | .elCmdHandOver => if s.el = .cmdSend ∧ s.dispAlive = true then some { s with el := .view } else none
  | .elCmdAbort => if s.el = .cmdSend ∧ s.ctxDone = true then some { s with el := .exited .ctx } else none
  -- ---------------------------------------------------------------- handlers
  | .dispExit => if s.dispAlive = true ∧ s.ctxDone = true then some { s with dispAlive := false } else none
  | .sigExit => if s.sig = .waiting ∧ s.ctxDone = true then some { s with sig := .exited } else none
  | .sigAbort =>
    match s.sig with
    | .sending _ => if s.ctxDone = true then some { s with sig := .exited } else none
    | _ => none
  | .resizeExit => if s.resize = .waiting ∧ s.ctxDone = true then some { s with resize := .exited } else none
  | .initHandOver => if s.initG = .waiting ∧ s.dispAlive = true then some { s with initG := .exited } else none
  | .initAbort => if s.initG = .waiting ∧ s.ctxDone = true then some { s with initG := .exited } else none
  -- ---------------------------------------------------------------- read loop
  | .readerMsgAbort => if s.reader = .sendingMsg ∧ s.ctxDone = true then some { s with reader := .exited } else none
  | .readerErrAbort => if s.reader = .sendingErr ∧ s.ctxDone = true then some { s with reader := .exited } else none
  | .readerCanceled =>
    if s.reader = .reading ∧ s.readerCancelRequested = true ∧ s.cancelable = true then some { s with reader := .exited } else none
  -- ---------------------------------------------------------------- API callers
  | .sendAbort i =>
    match s.senders[i]? with
    | some c => if c.pc = .blocked ∧ s.ctxDone = true then some { s with senders := s.senders.set i { c with pc := .returned } } else none
    | none => none
  | .waitReturn i =>
    match s.waiters[i]? with
    | some .blocked => if s.finishedClosed = true then some { s with waiters := s.waiters.set i .returned } else none
    | _ => none
  -- ---------------------------------------------------------------- Run and shutdown
  | .runTail =>
    match s.el with
    | .exited c =>
      if s.runPc = .loop then
        some { s with runPc := .tail, runSh := .cancel, runErr := errOf c s.ctxDone,
                      runKill := s.ctxDone || c != .quit }
      else none
    | _ => none
  | .shCancel who =>
    if phaseOf s who = some .cancel then some { setPhase s who .waitHandlers with ctxDone := true } else none
  | .shHandlers who =>
    if phaseOf s who = some .waitHandlers ∧ handlersDone s = true then some (setPhase s who .reader) else none
  | .shReader who =>
    if phaseOf s who = some .reader then
      if s.reader = .absent then some (setPhase s who .renderer)
      else if s.cancelable = true then
        some { setPhase s who (if killOf s who then .renderer else .waitRead) with readerCancelRequested := true }
      else some (setPhase s who .renderer)
    else none
  | .shWaitRead who =>
    if phaseOf s who = some .waitRead ∧ s.reader = .exited then some (setPhase s who .renderer) else none
  | .shWaitReadTimeout who =>
    if phaseOf s who = some .waitRead then some (setPhase s who .renderer) else none
  | .shRenderer who =>
    if phaseOf s who = some .renderer then
      if s.onceDone = true then some (setPhase s who .restore)
      else if s.listen = .idle then some { setPhase s who .restore with onceDone := true, listen := .stopped }
      else none
    else none
  | .shRestore who =>
    if phaseOf s who = some .restore then some { setPhase s who .done with restores := s.restores + 1 } else none
  | .runReturn =>
    if s.runPc = .tail ∧ s.runSh = .done then some { s with runPc := .returned, finishedClosed := true } else none

/-- the configurations a program can start in -/
structure Config where
  cancelable : Bool
  withSignalHandler : Bool
  ignoreSignals : Bool
  withResize : Bool
  withInitCmd : Bool
  withInput : Bool
  senders : List SendKind
  waiters : Nat

def init (c : Config) : St :=
  { cancelable := c.cancelable, ignoreSignals := c.ignoreSignals,
    sig := if c.withSignalHandler then .waiting else .absent,
    resize := if c.withResize then .waiting else .absent,
    initG := if c.withInitCmd then .waiting else .absent,
    reader := if c.withInput then .reading else .absent,
    senders := c.senders.map (fun k => { kind := k }),
    waiters := List.replicate c.waiters .notCalled }

inductive Reachable (c : Config) : St → Prop where
  | init : Reachable c (init c)
  | step {s s' : St} (l : Label) : Reachable c s → step s l = some s' → Reachable c s'

def runLabels (s : St) : List Label → Option St
  | [] => some s
  | l :: ls => match step s l with
    | some s' => runLabels s' ls
    | none => none

/-- termination has begun -/
def Terminating (s : St) : Prop :=
  s.ctxDone = true ∨ (∃ c, s.el = .exited c) ∨ s.killers ≠ []

/-- no user code is in progress on a goroutine the shutdown depends on -/
def NoCallback (s : St) : Prop :=
  s.el ≠ .callback ∧ s.el ≠ .view ∧ s.listen ≠ .flushing

end Tea.Runtime.Life
