import Tea.Runtime.Lifecycle
import Std.Data.HashSet
/-
Trace acceptance for the Lifecycle LTS (the tie of C04 / C13 / C18 by HISTORIES, in addition to
the regenerated facts and the outcome comparison of the `life` stream).

The real program is run with trace points (build tag `verif`) at the places the LTS has labels for:
the stages of Run's start-up, the phases of every call of `shutdown`, the exits of the handler
goroutines and of the read loop, the end of the event loop, Run's tail and return. The harness
records them in one total order and turns each into an OBSERVATION. This file decides whether the
model has a run whose observable part is exactly the recorded sequence; everything the trace
points do not see (user callbacks returning, the loop receiving a message, the listener's
flushes, decoded input, …) is HIDDEN and may happen anywhere in between.

`accepts` is a subset construction: the set of model states compatible with the observations so
far, closed under hidden steps.  It is only a CHECKER (part of the correspondence machinery, like
the stream drivers); the theorems are about `step`.  Soundness of the checker (accepted → there is
a model run from `init0 c` with that observable projection) is PROVED in `Tea.Proofs.LifeAccept`
(`closure_sound`, `advance_sound`, `accepts_sound`, `firstRejected_sound`, and for the function the
driver calls `firstRejectedWith_sound`), for an arbitrary transition function; completeness holds
as long as no closure runs out of fuel (`accepts_complete`).
-/
namespace Tea.Runtime.Life

deriving instance Hashable for Cause
deriving instance Hashable for ErrClass
deriving instance Hashable for RelPhase
deriving instance Hashable for ResPhase
deriving instance Hashable for ElPc
deriving instance Hashable for SigPc
deriving instance Hashable for HPc
deriving instance Hashable for ReadPc
deriving instance Hashable for ListenPc
deriving instance Hashable for ShPhase
deriving instance Hashable for StartPc
deriving instance Hashable for RunPc
deriving instance Hashable for SendKind
deriving instance Hashable for APc
deriving instance Hashable for Caller
deriving instance BEq for St
deriving instance Hashable for St

/-- what the harness records -/
inductive Obs where
  | lab (l : Label)                 -- exactly this step
  | alts (ls : List (List Label)) (orIf : St → Bool)
                                    -- one of these label sequences; or nothing happens, in a state where `orIf` holds
                                    -- (the goroutine whose exit was seen had already left the model's books)
  | elExited                        -- the event loop has returned (a condition on the state, not a step)
  | shCancelBy (k : Nat)            -- `shutdown` begins on a goroutine other than Run's: its k-th distinct caller

/-- the labels no trace point sees -/
def hiddenLabels (nSenders : Nat) : List Label :=
  [.callbackReturns, .callbackPanics, .viewReturns, .viewPanics, .initPanics, .firstViewPanics, .writerReturns, .tick, .decoded, .readError,
   .elRecvSig, .elRecvReader, .elRecvErr, .elCtxExit, .elCmdHandOver, .elCmdAbort, .signal true, .signal false] ++
  (List.range nSenders).map Label.elRecvSender ++ (List.range nSenders).map Label.sendAbort

abbrev StSet := Std.HashSet St

/-
The closure is written for an ARBITRARY transition function `stp : σ → ι → Option σ` (the proofs in
`Tea.Proofs.LifeAccept` never look inside `step`).  The hash set is only the "already seen" test;
the states themselves are carried in lists next to it (`all` = every state inserted so far, `next`
= the ones inserted in the current round), so that soundness does not depend on the hash set at all:
whatever `contains` answers, a state gets into `all` only as `stp s l = some s'` of a state already
there.
-/
structure Work (σ : Type) [BEq σ] [Hashable σ] where
  seen : Std.HashSet σ
  all : List σ
  next : List σ

section Generic
variable {σ ι : Type} [BEq σ] [Hashable σ]

/-- record `s'` unless it was seen before -/
@[inline] def Work.visit (w : Work σ) (s' : σ) : Work σ :=
  if w.seen.contains s' then w else ⟨w.seen.insert s', s' :: w.all, s' :: w.next⟩

/-- one round: every `hid` successor of every state of `frontier` -/
@[specialize] def expand (stp : σ → ι → Option σ) (hid : List ι) (w : Work σ) (frontier : List σ) : Work σ :=
  frontier.foldl (fun w s =>
    hid.foldl (fun w l =>
      match stp s l with
      | some s' => w.visit s'
      | none => w) w) w

/-- states reachable by hidden steps (breadth first, bounded by `fuel` rounds); `frontier` = the
states found in the round before, `all` = every state found so far (`seen` as a list) -/
@[specialize] def closureG (stp : σ → ι → Option σ) (hid : List ι) :
    Nat → Std.HashSet σ → List σ → List σ → List σ
  | 0, _, all, _ => all
  | fuel + 1, seen, all, frontier =>
    if frontier.isEmpty then all else
    let w := expand stp hid ⟨seen, all, []⟩ frontier
    closureG stp hid fuel w.seen w.all w.next

/-- the rounds of breadth-first search the closure may take -/
def closureFuel : Nat := 4096

@[specialize] def closeSetG (stp : σ → ι → Option σ) (hid : List ι) (ss : List σ) : List σ :=
  let w : Work σ := ss.foldl Work.visit ⟨{}, [], []⟩
  closureG stp hid closureFuel w.seen w.all w.next

end Generic

/-- the states of `ss` (without repetitions) and everything reachable from them by hidden steps -/
def closeSet (hid : List Label) (ss : List St) : List St :=
  closeSetG step hid ss

def runSeq (s : St) : List Label → Option St
  | [] => some s
  | l :: ls => match step s l with
    | some s' => runSeq s' ls
    | none => none

/-- one observation applied to every compatible state: the states right after the labels of the alternative chosen -/
def observe (ss : List St) (o : Obs) : List St :=
  match o with
  | .lab l => ss.filterMap (fun s => step s l)
  | .alts as orIf => ss.flatMap (fun s => (if orIf s then [s] else []) ++ as.filterMap (fun ls => runSeq s ls))
  | .elExited => ss.filter (fun s => match s.el with | .exited _ => true | _ => false)
  | .shCancelBy k =>
    ss.flatMap (fun s =>
      -- the caller is new (Kill(), or the panic handler of a command goroutine): it arrives and cancels
      (if s.killers.length = k then (runSeq s [.killCall, .shCancel (some k)]).toList else []) )

/-- … followed by any number of hidden steps -/
def advance (hid : List Label) (ss : List St) (o : Obs) : List St :=
  closeSet hid (observe ss o)

def acceptsFrom (hid : List Label) : List St → List Obs → Nat → Option Nat
  | _, [], _ => none
  | ss, o :: os, i =>
    match advance hid ss o with
    | [] => some i
    | ss' => acceptsFrom hid ss' os (i + 1)

/-- `acceptsFrom`, reporting in addition how many states were compatible before the rejected observation -/
def rejectedAt (hid : List Label) : List St → List Obs → Nat → Option (Nat × Nat)
  | _, [], _ => none
  | ss, o :: os, i =>
    match advance hid ss o with
    | [] => some (i, ss.length)
    | ss' => rejectedAt hid ss' os (i + 1)

/-- the checker, from Run's entry, for a given set of hidden labels -/
def firstRejectedWith (hid : List Label) (c : Config) (obs : List Obs) : Option (Nat × Nat) :=
  rejectedAt hid (closeSet hid [init0 c]) obs 0

/-- `none`: the model has a run with exactly this observable history; `some i`: no model run
explains observation number `i` after the ones before it -/
def firstRejected (c : Config) (obs : List Obs) : Option Nat :=
  let hid := hiddenLabels c.senders.length
  acceptsFrom hid (closeSet hid [init0 c]) obs 0

end Tea.Runtime.Life
