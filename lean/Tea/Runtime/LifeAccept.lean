import Tea.Runtime.Lifecycle
import Std.Data.HashSet
/-
Trace acceptance for the Lifecycle LTS (the tie of C04 / C13 / C18 by HISTORIES, in addition to
the regenerated facts and the outcome comparison of the `life` stream).

The real program is run with trace points (build tag `verif`) at the places the LTS has labels for:
the stages of Run's start-up, the phases of every call of `shutdown`, the exits of the handler
goroutines and of the read loop, the end of the event loop, Run's tail and return. The harness
records them in one total order and turns each into an OBSERVATION. This file decides whether the
model has a run whose observable part is exactly the recorded sequence; everything the trace
points do not see (user callbacks returning, the loop receiving a message, the listener's
flushes, decoded input, …) is HIDDEN and may happen anywhere in between.

`accepts` is a subset construction: the set of model states compatible with the observations so
far, closed under hidden steps.  It is only a CHECKER (part of the correspondence machinery, like
the stream drivers); the theorems are about `step`.  Soundness of the checker (`accepts = true →
there is a model run with that projection`) is by construction of `advance`: every state it keeps
is reached from a kept state by `step` along labels of the alternative chosen.
-/
namespace Tea.Runtime.Life

deriving instance Hashable for Cause
deriving instance Hashable for ErrClass
deriving instance Hashable for ElPc
deriving instance Hashable for SigPc
deriving instance Hashable for HPc
deriving instance Hashable for ReadPc
deriving instance Hashable for ListenPc
deriving instance Hashable for ShPhase
deriving instance Hashable for StartPc
deriving instance Hashable for RunPc
deriving instance Hashable for SendKind
deriving instance Hashable for APc
deriving instance Hashable for Caller
deriving instance BEq for St
deriving instance Hashable for St

/-- what the harness records -/
inductive Obs where
  | lab (l : Label)                 -- exactly this step
  | alts (ls : List (List Label)) (orIf : St → Bool)
                                    -- one of these label sequences; or nothing happens, in a state where `orIf` holds
                                    -- (the goroutine whose exit was seen had already left the model's books)
  | elExited                        -- the event loop has returned (a condition on the state, not a step)
  | shCancelBy (k : Nat)            -- `shutdown` begins on a goroutine other than Run's: its k-th distinct caller

/-- the labels no trace point sees -/
def hiddenLabels (nSenders : Nat) : List Label :=
  [.callbackReturns, .callbackPanics, .viewReturns, .viewPanics, .initPanics, .firstViewPanics, .writerReturns, .tick, .decoded, .readError,
   .elRecvSig, .elRecvReader, .elRecvErr, .elCtxExit, .elCmdHandOver, .elCmdAbort, .signal true, .signal false] ++
  (List.range nSenders).map Label.elRecvSender ++ (List.range nSenders).map Label.sendAbort

abbrev StSet := Std.HashSet St

/-- states reachable by hidden steps (breadth first, bounded by `fuel` rounds) -/
def closure (hid : List Label) (fuel : Nat) (seen : StSet) (frontier : List St) : StSet :=
  match fuel with
  | 0 => seen
  | fuel + 1 =>
    if frontier.isEmpty then seen else
    let (seen', next) := frontier.foldl (fun (acc : StSet × List St) s =>
      hid.foldl (fun (acc : StSet × List St) l =>
        match step s l with
        | some s' => if acc.1.contains s' then acc else (acc.1.insert s', s' :: acc.2)
        | none => acc) acc) (seen, [])
    closure hid fuel seen' next

def closeSet (hid : List Label) (ss : List St) : List St :=
  let seen : StSet := ss.foldl (fun acc s => acc.insert s) {}
  (closure hid 4096 seen ss).toList

def runSeq (s : St) : List Label → Option St
  | [] => some s
  | l :: ls => match step s l with
    | some s' => runSeq s' ls
    | none => none

/-- one observation applied to every compatible state -/
def advance (hid : List Label) (ss : List St) (o : Obs) : List St :=
  let next : List St := match o with
    | .lab l => ss.filterMap (fun s => step s l)
    | .alts as orIf => ss.flatMap (fun s => (if orIf s then [s] else []) ++ as.filterMap (fun ls => runSeq s ls))
    | .elExited => ss.filter (fun s => match s.el with | .exited _ => true | _ => false)
    | .shCancelBy k =>
      ss.flatMap (fun s =>
        -- the caller is new (Kill(), or the panic handler of a command goroutine): it arrives and cancels
        (if s.killers.length = k then (runSeq s [.killCall, .shCancel (some k)]).toList else []) )
  closeSet hid next

def acceptsFrom (hid : List Label) : List St → List Obs → Nat → Option Nat
  | _, [], _ => none
  | ss, o :: os, i =>
    match advance hid ss o with
    | [] => some i
    | ss' => acceptsFrom hid ss' os (i + 1)

/-- `none`: the model has a run with exactly this observable history; `some i`: no model run
explains observation number `i` after the ones before it -/
def firstRejected (c : Config) (obs : List Obs) : Option Nat :=
  let hid := hiddenLabels c.senders.length
  acceptsFrom hid (closeSet hid [init0 c]) obs 0

end Tea.Runtime.Life
