/-
Window-size reporting of signals_unix.go / tty.go / tea.go / commands.go as a labelled
transition system (C18, second half).

   handleResize():      if output is a terminal { go p.listenForResize(done) }
   listenForResize():   sig := make(chan os.Signal, 1); signal.Notify(sig, SIGWINCH)
                        p.checkResize()     -- the initial size, AFTER the subscription
                        for { select { case <-ctx.Done(): return; case <-sig: }; p.checkResize() }
     (until the repair of the start-up:  handleResize() { go p.checkResize(); go p.listenForResize(done) },
      no `checkResize` in `listenForResize` before its loop - see "Start-up" below)
   checkResize():       w, h := term.GetSize(fd);  p.Send(WindowSizeMsg{w, h})
   event loop:          case windowSizeMsg (the WindowSize() command): go p.checkResize()
   os/signal:           a signal is delivered into `sig` with a non-blocking send: if the 1-slot
                        buffer is full the signal is dropped (coalesced).

The goroutines are: the LISTENER (`listenForResize`, one, sequential: wait for the signal, query
the size, hand the message to the event loop, wait again) and the CHECKERS (one `checkResize`
goroutine started at start-up, one more for every WindowSize command: query the size, hand the
message over, gone).  The environment changes the terminal's size at any moment (`resize`), which
raises SIGWINCH into the 1-slot channel.  `term.GetSize` reads the size AT THE MOMENT OF THE CALL
(`query`), the hand-over to the event loop (`deliver`: `Send` blocks until the loop takes the
message) happens later, and anything may happen in between - that interleaving is the whole
point of the model.

Cancellation (`cancel`: the context is done).  Afterwards the listener leaves at its `select`,
every `Send` leaves at its `case <-ctx.Done()` and the event loop ends: `take`, `deliver`
and `windowSizeCmd` are disabled.  (Go's `select` may still pick the other ready case once;
such an execution is the one of the model with that step BEFORE `cancel`: `cancel` only sets
the flag, and the guards of `resize` / `query` do not look at it.)  Nothing is promised after
cancellation; how the goroutines are collected is the subject of the Lifecycle LTS
(`resizeExit`).

Start-up.  `St` / `step` / `stepL` describe the program while the listener is subscribed to
SIGWINCH (`resize` always raises the signal), and `init` is the start-up as it used to be, seen
from there: one start-up checker in flight, the listener waiting.  The SUBSCRIPTION itself -
`signal.Notify` is a step of the listener goroutine, and a resize before it changes the size and
raises no signal - is the START-UP LAYER at the end of this file (`StS`; `stepOldS`: the start-up
as it was, the start-up query a goroutine of its own racing with the subscription; `stepNewS`:
the current code, the listener subscribes first and performs the initial query itself).

Not modelled: `term.GetSize` failing (checkResize returns without a message), output not being
a terminal (neither goroutine exists), Windows (no SIGWINCH: only the checkers exist).
-/
namespace Tea.Runtime.Resize

/-- width × height -/
abbrev Size := Nat × Nat

/-- the listener goroutine: blocked in its `select`; inside `term.GetSize`; blocked in `Send`
with the size it read -/
inductive LPc where
  | waiting | querying | sending (sz : Size)
  deriving DecidableEq, Repr

/-- one `go p.checkResize()` in flight -/
inductive CPc where
  | querying | sending (sz : Size)
  deriving DecidableEq, Repr

structure St where
  size : Size                       -- the terminal's true size (changed by the environment only)
  pending : Bool := false           -- a SIGWINCH sits in the listener's 1-slot channel
  listener : LPc := .waiting
  checkers : List CPc := [.querying]  -- the checkResize goroutines in flight (a finished one is removed)
  reported : List Size := []        -- the WindowSizeMsgs the event loop (Update) received, in order
  cancelled : Bool := false
  deriving DecidableEq, Repr

/-- `who`: `none` = the listener, `some i` = the i-th checker in flight -/
inductive Label where
  -- external: the environment, the program's commands
  | resize (sz : Size) | windowSizeCmd | cancel
  -- internal: steps of the goroutines
  | take | query (who : Option Nat) | deliver (who : Option Nat)
  deriving DecidableEq, Repr

def Label.isInternal : Label → Bool
  | .take | .query _ | .deliver _ => true
  | _ => false

def Label.isResize : Label → Bool
  | .resize _ => true
  | _ => false

def step (s : St) : Label → Option St
  -- the terminal is resized: the size changes and SIGWINCH is raised; the non-blocking send
  -- into the full 1-slot channel drops it (the flag simply stays set)
  | .resize sz => some { s with size := sz, pending := true }
  -- the event loop handles the WindowSize() command: `go p.checkResize()`
  | .windowSizeCmd =>
    match s.cancelled with
    | false => some { s with checkers := s.checkers ++ [.querying] }
    | true => none
  | .cancel => some { s with cancelled := true }
  -- `case <-sig:` the listener takes the signal out of the channel
  | .take =>
    match s.cancelled, s.listener, s.pending with
    | false, .waiting, true => some { s with listener := .querying, pending := false }
    | _, _, _ => none
  -- `term.GetSize`: the size of THIS moment
  | .query none =>
    match s.listener with
    | .querying => some { s with listener := .sending s.size }
    | _ => none
  | .query (some i) =>
    match s.checkers[i]? with
    | some .querying => some { s with checkers := s.checkers.set i (.sending s.size) }
    | _ => none
  -- `p.msgs <- msg` taken by the event loop: Update receives the WindowSizeMsg
  | .deliver none =>
    match s.cancelled, s.listener with
    | false, .sending sz => some { s with listener := .waiting, reported := s.reported ++ [sz] }
    | _, _ => none
  | .deliver (some i) =>
    match s.cancelled, s.checkers[i]? with
    | false, some (.sending sz) =>
      some { s with checkers := s.checkers.eraseIdx i, reported := s.reported ++ [sz] }
    | _, _ => none

/-- start-up with a terminal of size `sz`: the start-up checker in flight, the listener waiting,
no signal pending -/
def init (sz : Size) : St := { size := sz }

inductive Reachable (sz : Size) : St → Prop where
  | init : Reachable sz (init sz)
  | step {s s' : St} (l : Label) : Reachable sz s → step s l = some s' → Reachable sz s'

def runLabels (s : St) : List Label → Option St
  | [] => some s
  | l :: ls => match step s l with
    | some s' => runLabels s' ls
    | none => none

/-- nothing left to do: no signal pending, the listener waiting, no checker in flight, and the
program still running -/
def Quiescent (s : St) : Prop :=
  s.pending = false ∧ s.listener = .waiting ∧ s.checkers = [] ∧ s.cancelled = false

instance (s : St) : Decidable (Quiescent s) := by unfold Quiescent; infer_instance

/-- the last size Update was told -/
def lastReported (s : St) : Option Size := s.reported.getLast?

/-! ### the variant that drains: a NEGATIVE model

A listener that, after each `checkResize`, empties its channel once more ("the size I just
reported is fresh anyway") - `select { case <-sig: default: }` after the call.  It loses the
resize that arrived between its `GetSize` and its `Send`: see `C18_drain_loses_resize`. -/

def stepDrain (s : St) : Label → Option St
  | .deliver none => (step s (.deliver none)).map (fun s' => { s' with pending := false })
  | l => step s l

def runLabelsDrain (s : St) : List Label → Option St
  | [] => some s
  | l :: ls => match stepDrain s l with
    | some s' => runLabelsDrain s' ls
    | none => none

/-! ### measures used by the theorems -/

/-- the number of `take` / `windowSizeCmd` / `resize` labels of a run -/
def takes (ls : List Label) : Nat := ls.count .take
def commands (ls : List Label) : Nat := ls.count .windowSizeCmd
def resizes (ls : List Label) : Nat := (ls.filter Label.isResize).length

/-- the goroutines that still owe a delivery -/
def inFlight (s : St) : Nat :=
  s.checkers.length + (match s.listener with | .waiting => 0 | _ => 1)

def checkerCost : List CPc → Nat
  | [] => 0
  | .querying :: cs => 2 + checkerCost cs
  | .sending _ :: cs => 1 + checkerCost cs

def listenerCost (s : St) : Nat :=
  (match s.listener with | .waiting => 0 | .querying => 2 | .sending _ => 1) +
  (if s.pending then 3 else 0)

/-- the number of internal steps to quiescence (exact for the schedule "checkers first, then
the listener") -/
def rank (s : St) : Nat := checkerCost s.checkers + listenerCost s

/-- a checker hands over a size that is not the terminal's any more -/
def staleDelivery (s : St) : Label → Bool
  | .deliver (some i) =>
    match s.checkers[i]? with
    | some (.sending sz) => sz != s.size
    | _ => false
  | _ => false

/-- no step of the run from `s` is a stale delivery by a checker -/
def raceFree (s : St) : List Label → Bool
  | [] => true
  | l :: ls => !staleDelivery s l &&
    (match step s l with
     | some s' => raceFree s' ls
     | none => true)

/-! ### the invariants the theorems are about -/

/-- a listener blocked in `Send` with a size that is not the terminal's any more has a signal
waiting for it: the resize that made its size stale came after its `take` -/
def ListenerOk (s : St) : Prop :=
  ∀ sz, s.listener = .sending sz → sz ≠ s.size → s.pending = true

/-- "there is still a report to come whose query happens after the last resize (a signal is
pending, the listener or a checker is about to query), or whose query already saw the current
size (the listener or a checker is handing over the current size), or the last report
delivered IS the current size" -/
def Fresh (s : St) : Prop :=
  s.pending = true ∨ s.listener = .querying ∨ s.listener = .sending s.size ∨
  (∃ c ∈ s.checkers, c = .querying ∨ c = .sending s.size) ∨
  lastReported s = some s.size

/-- the same, for the reports delivered after a given moment (`base` = what had been reported
by then): a report of `sz` is still to come, or is among those delivered since -/
def Owed (base : List Size) (sz : Size) (s : St) : Prop :=
  ∃ extra, s.reported = base ++ extra ∧
    (s.pending = true ∨ s.listener = .querying ∨ s.listener = .sending sz ∨
     (∃ c ∈ s.checkers, c = .querying ∨ c = .sending sz) ∨ sz ∈ extra)

/-- `sz` was the terminal's true size when some goroutine queried it, in the run `ls` from
start-up, at a moment when at most `n` reports had been delivered -/
def SeenBefore (z : Size) (ls : List Label) (sz : Size) (n : Nat) : Prop :=
  ∃ pre who post t, ls = pre ++ Label.query who :: post ∧ runLabels (init z) pre = some t ∧
    t.size = sz ∧ t.reported.length ≤ n

/-! ### the model AFTER the repair: size queries are serialised by a mutex

tty.go now reads

    func (p *Program) checkResize() {
        if p.ttyOutput == nil { return }
        p.resizeMu.Lock(); defer p.resizeMu.Unlock()
        w, h, err := term.GetSize(fd); ...
        p.Send(WindowSizeMsg{w, h})     // blocks until the loop takes it, or the context is done
    }

so a goroutine (the listener or a checker) holds `resizeMu` from just before its `GetSize` to
the return of its `Send`: in the model, while it is in the `sending` phase.  Taking the mutex
and reading the size are ONE step of the model (`query`: nothing another goroutine could observe
happens between `Lock` returning and `GetSize`; a goroutine blocked in `Lock` is simply one whose
`query` step is not enabled yet).  `stepL` is `step` with that single extra guard on `query`;
state, labels and every other step are those of the model before the repair, which stays above
as the record of the defect (`C18_stale_checker_race`).

Cancellation.  `cancel` is as before: it only sets the flag.  A goroutine that is `sending` when
the flag is set leaves `Send` at `case <-ctx.Done()` and its deferred `Unlock` runs: it keeps
its `sending` entry in the state (its `deliver` is disabled for good, as before), but it does
NOT hold the mutex any more - `mutexHeld` is false in every cancelled state, so after
cancellation the remaining goroutines may query one after the other (each one's `Send` returns
at once and releases the mutex again), and several `sending` entries may pile up.  Nothing is
delivered after cancellation, and the theorems about the repaired model are about runs that
are not cancelled (`cancelled` is never reset, so a run whose last state is not cancelled has
no cancelled state at all). -/

/-- the sizes held by the `checkResize` goroutines that are between query and delivery -/
def cSending : List CPc → List Size
  | [] => []
  | .querying :: cs => cSending cs
  | .sending sz :: cs => sz :: cSending cs

/-- the size held by the listener if it is between query and delivery -/
def lSending : LPc → List Size
  | .sending sz => [sz]
  | _ => []

/-- the sizes held by the goroutines that are between their query and their delivery (the
listener first) -/
def sendingNow (s : St) : List Size := lSending s.listener ++ cSending s.checkers

/-- `resizeMu` is held: the program is not cancelled and some goroutine is in its `sending`
phase -/
def mutexHeld (s : St) : Bool := !s.cancelled && !(sendingNow s).isEmpty

/-- the repaired model: a `query` (of the listener or of a checker) needs the mutex -/
def stepL (s : St) : Label → Option St
  | .query who =>
    match mutexHeld s with
    | false => step s (.query who)
    | true => none
  | l => step s l

inductive ReachableL (sz : Size) : St → Prop where
  | init : ReachableL sz (init sz)
  | step {s s' : St} (l : Label) : ReachableL sz s → stepL s l = some s' → ReachableL sz s'

def runLabelsL (s : St) : List Label → Option St
  | [] => some s
  | l :: ls => match stepL s l with
    | some s' => runLabelsL s' ls
    | none => none

/-- what the step `l` taken in state `s` reads from the terminal: a `query` reads `s.size`,
the other steps read nothing -/
def readBy (s : St) : Label → List Size
  | .query _ => [s.size]
  | _ => []

/-- the sizes read by the `query` steps of the run `ls` of the repaired model from `s`, in the
order of these steps (`s.size` at the moment of each query) -/
def queriedL (s : St) : List Label → List Size
  | [] => []
  | l :: ls =>
    readBy s l ++
    (match stepL s l with
     | some s' => queriedL s' ls
     | none => [])

/-- a goroutine holding a size that is not the terminal's any more will be followed by the
listener: the resize that made its size stale came after its query, i.e. while it held the
mutex, so the signal of that resize is still in the channel, or the listener has taken it and
is waiting for the mutex (`querying`).  Generalises `ListenerOk` (the listener itself cannot
take a signal while it is sending). -/
def SenderOk (s : St) : Prop :=
  s.cancelled = false → ∀ sz ∈ sendingNow s, sz ≠ s.size →
    s.pending = true ∨ s.listener = .querying

/-! ### the START-UP LAYER: the subscription to SIGWINCH is a step of the listener

The start-up used to be

    handleResize():      go p.checkResize()            -- the start-up query, a goroutine of its own
                         go p.listenForResize(done)    -- sig := make(chan, 1); signal.Notify(sig, SIGWINCH); loop

so a resize AFTER the start-up query had read the size and BEFORE `signal.Notify` raised a signal
nobody was subscribed to (the Go runtime ignores SIGWINCH then): the stale size stayed the last
one reported (`stepOldS`, `C18S_resize_before_subscription_lost`; reproduced on the real code).
The code is now

    handleResize():      go p.listenForResize(done)
    listenForResize():   sig := make(chan, 1); signal.Notify(sig, SIGWINCH)
                         p.checkResize()               -- the initial size, AFTER the subscription
                         loop as before

(`stepNewS`).  Both systems are layers on top of `stepL` - state, labels and steps of the core
are untouched: the layer adds the flag `subscribed`, the step `subscribe` of the listener
(internal: nothing it waits for), and the rule that a resize while nobody is subscribed changes
the size only.  While not subscribed the listener does nothing else in either system (`take`
needs `pending`, which only a subscribed resize sets; `StartupInv`); WindowSize commands may
already start checkers - ordinary checkers of the core.  `subscribe` is disabled once the
program is cancelled (the listener leaves; nothing is promised after cancellation). -/

structure StS where
  core : St
  subscribed : Bool := false          -- `signal.Notify(sig, SIGWINCH)` has returned
  deriving DecidableEq, Repr

inductive LabelS where
  | subscribe                         -- the listener's `signal.Notify`
  | core (l : Label)
  deriving DecidableEq, Repr

def LabelS.isInternal : LabelS → Bool
  | .subscribe => true
  | .core l => l.isInternal

/-- a resize while nobody is subscribed changes the size and raises no signal -/
def resizeUnsub (s : St) (sz : Size) : St := { s with size := sz }

/-- a step of the core under the start-up layer (the same in both systems): a resize while not
subscribed is `resizeUnsub`, everything else is `stepL` -/
def coreStep (subscribed : Bool) (c : St) (l : Label) : Option St :=
  match subscribed, l with
  | false, .resize sz => some (resizeUnsub c sz)
  | _, l => stepL c l

/-- the start-up BEFORE the repair: `subscribe` only sets the flag (the start-up query is the
checker `init` starts with) -/
def stepOldS (s : StS) : LabelS → Option StS
  | .subscribe =>
    match s.subscribed, s.core.cancelled with
    | false, false => some { s with subscribed := true }
    | _, _ => none
  | .core l =>
    match coreStep s.subscribed s.core l with
    | some c => some { s with core := c }
    | none => none

/-- the start-up checker in flight, the listener waiting, not subscribed -/
def initOldS (sz : Size) : StS := { core := init sz }

/-- the start-up AFTER the repair: `subscribe` sets the flag AND puts the listener (`waiting`
until then) into `querying`: it performs the initial query itself, driven by `stepL` from there
(query under the mutex, deliver, waiting) -/
def stepNewS (s : StS) : LabelS → Option StS
  | .subscribe =>
    match s.subscribed, s.core.cancelled with
    | false, false => some { core := { s.core with listener := .querying }, subscribed := true }
    | _, _ => none
  | .core l =>
    match coreStep s.subscribed s.core l with
    | some c => some { s with core := c }
    | none => none

/-- no start-up checker, the listener waiting, not subscribed -/
def initNewS (sz : Size) : StS := { core := { size := sz, checkers := [] } }

inductive ReachableOldS (sz : Size) : StS → Prop where
  | init : ReachableOldS sz (initOldS sz)
  | step {s s' : StS} (l : LabelS) :
    ReachableOldS sz s → stepOldS s l = some s' → ReachableOldS sz s'

inductive ReachableNewS (sz : Size) : StS → Prop where
  | init : ReachableNewS sz (initNewS sz)
  | step {s s' : StS} (l : LabelS) :
    ReachableNewS sz s → stepNewS s l = some s' → ReachableNewS sz s'

def runLabelsOldS (s : StS) : List LabelS → Option StS
  | [] => some s
  | l :: ls => match stepOldS s l with
    | some s' => runLabelsOldS s' ls
    | none => none

def runLabelsNewS (s : StS) : List LabelS → Option StS
  | [] => some s
  | l :: ls => match stepNewS s l with
    | some s' => runLabelsNewS s' ls
    | none => none

/-- nothing left to do, and the listener is subscribed -/
def QuiescentS (s : StS) : Prop := s.subscribed = true ∧ Quiescent s.core

instance (s : StS) : Decidable (QuiescentS s) := by unfold QuiescentS; infer_instance

/-- the invariant of the repaired start-up: before the subscription the listener has done
nothing (it is waiting, no signal is in its channel); from the subscription on - which makes the
listener `querying` - the two invariants of the repaired core hold -/
def StartupInv (s : StS) : Prop :=
  (s.subscribed = false ∧ s.core.listener = .waiting ∧ s.core.pending = false) ∨
  (s.subscribed = true ∧ Fresh s.core ∧ SenderOk s.core)

/-- the labels of the core in a run of the layered system -/
def coreLabels : List LabelS → List Label
  | [] => []
  | .subscribe :: ls => coreLabels ls
  | .core l :: ls => l :: coreLabels ls

/-- the number of internal steps to `QuiescentS`: the subscription, then the listener's initial
query and its delivery, on top of the core's `rank` -/
def rankS (s : StS) : Nat := rank s.core + (if s.subscribed then 0 else 3)

end Tea.Runtime.Resize
