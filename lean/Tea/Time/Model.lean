/-
Model of commands.go `Every` / `Tick`: instants and durations are integer
nanoseconds (instants counted from Go's zero time, which is what
`Time.Truncate` rounds against).
-/
namespace Tea.Time

/-- Go `Time.Truncate(d)` on the absolute instant `t` -/
def truncate (t d : Int) : Int := if d ≤ 0 then t else t - t % d

/-- `n.Truncate(d).Add(d).Sub(n)`: the delay `Every` arms its timer with -/
def everyDelay (n d : Int) : Int := truncate n d + d - n

/-- `Tick` arms its timer with the duration itself -/
def tickDelay (d : Int) : Int := d

/-- nanoseconds between Go's zero time (year 1) and the Unix epoch -/
def unixToZero : Int := 62135596800 * 1000000000

/-- A Go timer: armed at `armedAt` with `delay`; it delivers the instant `fired` on its
channel. `notEarly` is the Go runtime's contract (a hypothesis carried by the structure,
not an axiom): a timer never fires before its duration has elapsed. -/
structure Timer where
  armedAt : Int
  delay : Int
  fired : Int
  notEarly : armedAt + delay ≤ fired

/-- the command returned by Tick/Every: waits for the timer and applies the callback to
the value received from the timer channel -/
def runCmd {Msg : Type} (t : Timer) (fn : Int → Msg) : Msg := fn t.fired

end Tea.Time
