-- FROZEN expectation of the facts extracted from the source (written by `harness freeze-facts`
-- after the models were brought in line with the code; kept by hand). The specification side of the bridge.
namespace Tea.Doc

def fact_body_Batch : List String := [
    "{ var validCmds []Cmd for _, c := range cmds { if c == nil { continue } validCmds = append(validCmds, c) } switch len(validCmds) { case 0: return nil case 1: return validCmds[0] default: return func() Msg { return BatchMsg(validCmds) } } }"]

def fact_body_Every : List String := [
    "{ n := time.Now() d := n.Truncate(duration).Add(duration).Sub(n) t := time.NewTimer(d) return func() Msg { ts := <-t.C t.Stop() for len(t.C) > 0 { <-t.C } return fn(ts) } }"]

def fact_body_Program_Kill : List String := [
    "{ p.shutdown(true) }"]

def fact_body_Program_Printf : List String := [
    "{ p.Send(printLineMessage{ messageBody: fmt.Sprintf(template, args...), }) }"]

def fact_body_Program_Println : List String := [
    "{ p.Send(printLineMessage{ messageBody: fmt.Sprint(args...), }) }"]

def fact_body_Program_Quit : List String := [
    "{ p.Send(Quit()) }"]

def fact_body_Program_Send : List String := [
    "{ select { case <-p.ctx.Done(): case p.msgs <- msg: } }"]

def fact_body_Program_Wait : List String := [
    "{ <-p.finished }"]

def fact_body_Program_checkResize : List String := [
    "{ if p.ttyOutput == nil { return } w, h, err := term.GetSize(p.ttyOutput.Fd()) if err != nil { select { case <-p.ctx.Done(): case p.errs <- err: } return } p.Send(WindowSizeMsg{ Width: w, Height: h, }) }"]

def fact_body_Program_handleCommands : List String := [
    "{ ch := make(chan struct{}) go func() { defer close(ch) for { select { case <-p.ctx.Done(): return case cmd := <-cmds: if cmd == nil { continue } go func() { if !p.startupOptions.has(withoutCatchPanics) { defer p.recoverFromPanic() } msg := cmd() p.Send(msg) }() } } }() return ch }"]

def fact_body_Program_handleResize : List String := [
    "{ ch := make(chan struct{}) if p.ttyOutput != nil { go p.checkResize() go p.listenForResize(ch) } else { close(ch) } return ch }"]

def fact_body_Program_handleSignals : List String := [
    "{ ch := make(chan struct{}) go func() { sig := make(chan os.Signal, 1) signal.Notify(sig, syscall.SIGINT, syscall.SIGTERM) defer func() { signal.Stop(sig) close(ch) }() for { select { case <-p.ctx.Done(): return case s := <-sig: if atomic.LoadUint32(&p.ignoreSignals) == 0 { switch s { case syscall.SIGINT: p.Send(InterruptMsg{}) default: p.Send(QuitMsg{}) } return } } } }() return ch }"]

def fact_body_Program_initCancelReader : List String := [
    "{ if cancel && p.cancelReader != nil { p.cancelReader.Cancel() p.waitForReadLoop() } var err error p.cancelReader, err = newInputReader(p.input, p.mouseMode) if err != nil { return fmt.Errorf(\"error creating cancelreader: %w\", err) } p.readLoopDone = make(chan struct{}) go p.readLoop() return nil }"]

def fact_body_Program_listenForResize : List String := [
    "{ sig := make(chan os.Signal, 1) signal.Notify(sig, syscall.SIGWINCH) defer func() { signal.Stop(sig) close(done) }() for { select { case <-p.ctx.Done(): return case <-sig: } p.checkResize() } }"]

def fact_body_Program_readLoop : List String := [
    "{ defer close(p.readLoopDone) err := readInputs(p.ctx, p.msgs, p.cancelReader) if !errors.Is(err, io.EOF) && !errors.Is(err, cancelreader.ErrCanceled) { select { case <-p.ctx.Done(): case p.errs <- err: } } }"]

def fact_body_Program_waitForReadLoop : List String := [
    "{ select { case <-p.readLoopDone: case <-time.After(500 * time.Millisecond): } }"]

def fact_body_Sequence : List String := [
    "{ return func() Msg { return sequenceMsg(cmds) } }"]

def fact_body_Tick : List String := [
    "{ t := time.NewTimer(d) return func() Msg { ts := <-t.C t.Stop() for len(t.C) > 0 { <-t.C } return fn(ts) } }"]

def fact_body_WithFPS : List String := [
    "{ return func(p *Program) { p.fps = fps } }"]

def fact_body_WithFilter : List String := [
    "{ return func(p *Program) { p.filter = filter } }"]

def fact_body_channelHandlers_shutdown : List String := [
    "{ var wg sync.WaitGroup for _, ch := range h { wg.Add(1) go func(ch chan struct{}) { <-ch wg.Done() }(ch) } wg.Wait() }"]

def fact_body_detectReportFocus : List String := [
    "{ switch { case bytes.Equal(input, []byte(\"\\x1b[I\")): return true, 3, FocusMsg{} case bytes.Equal(input, []byte(\"\\x1b[O\")): return true, 3, BlurMsg{} } return false, 0, nil }"]

def fact_body_newRenderer : List String := [
    "{ if fps < 1 { fps = defaultFPS } else if fps > maxFPS { fps = maxFPS } r := &standardRenderer{ out: out, mtx: &sync.Mutex{}, done: make(chan struct{}), framerate: time.Second / time.Duration(fps), useANSICompressor: useANSICompressor, queuedMessageLines: []string{}, } if r.useANSICompressor { r.out = &compressor.Writer{Forward: out} } return r }"]

def fact_body_standardRenderer_handleMessages : List String := [
    "{ switch msg := msg.(type) { case repaintMsg: r.mtx.Lock() r.repaint() r.mtx.Unlock() case WindowSizeMsg: r.mtx.Lock() r.width = msg.Width r.height = msg.Height r.repaint() r.mtx.Unlock() case clearScrollAreaMsg: r.clearIgnoredLines() r.mtx.Lock() r.repaint() r.mtx.Unlock() case syncScrollAreaMsg: r.clearIgnoredLines() r.setIgnoredLines(msg.topBoundary, msg.bottomBoundary) r.insertTop(msg.lines, msg.topBoundary, msg.bottomBoundary) r.mtx.Lock() r.repaint() r.mtx.Unlock() case scrollUpMsg: r.insertTop(msg.lines, msg.topBoundary, msg.bottomBoundary) case scrollDownMsg: r.insertBottom(msg.lines, msg.topBoundary, msg.bottomBoundary) case printLineMessage: if !r.altScreenActive { lines := strings.Split(msg.messageBody, \"\\n\") r.mtx.Lock() r.queuedMessageLines = append(r.queuedMessageLines, lines...) r.repaint() r.mtx.Unlock() } } }"]

def fact_body_standardRenderer_listen : List String := [
    "{ for { select { case <-r.done: r.ticker.Stop() return case <-r.ticker.C: r.flush() } } }"]

def fact_body_standardRenderer_repaint : List String := [
    "{ r.lastRender = \"\" r.lastRenderedLines = nil }"]

def fact_body_standardRenderer_start : List String := [
    "{ if r.ticker == nil { r.ticker = time.NewTicker(r.framerate) } else { r.ticker.Reset(r.framerate) } r.once = sync.Once{} go r.listen() }"]

def fact_body_standardRenderer_write : List String := [
    "{ r.mtx.Lock() defer r.mtx.Unlock() r.buf.Reset() if s == \"\" { s = \" \" } _, _ = r.buf.WriteString(s) }"]

def fact_bufsize : List String := [
    "256"]

def fact_calls : List String := [
    "Program.Kill|p.shutdown|go=false|defer=false",
    "Program.ReleaseTerminal|p.restoreTerminalState|go=false|defer=false",
    "Program.Run|model.Init|go=false|defer=false",
    "Program.Run|model.View|go=false|defer=false",
    "Program.Run|model.View|go=false|defer=false",
    "Program.Run|p.shutdown|go=false|defer=false",
    "Program.Run|p.shutdown|go=false|defer=false",
    "Program.Run|recover|go=false|defer=true",
    "Program.eventLoop|model.Update|go=false|defer=false",
    "Program.eventLoop|model.View|go=false|defer=false",
    "Program.eventLoop|p.filter|go=false|defer=false",
    "Program.eventLoop|r.handleMessages|go=false|defer=false",
    "Program.handleCommands|p.recoverFromPanic|go=true|defer=true",
    "Program.handlePanic|p.shutdown|go=false|defer=false",
    "Program.recoverFromPanic|recover|go=false|defer=false",
    "Program.shutdown|p.handlers.shutdown|go=false|defer=false",
    "Program.shutdown|p.restoreTerminalState|go=false|defer=false",
    "standardRenderer.listen|r.flush|go=false|defer=false",
    "standardRenderer.stop|r.flush|go=false|defer=false"]

def fact_closes : List String := [
    "Program.Run|ch",
    "Program.Run|p.finished",
    "Program.handleCommands|ch",
    "Program.handleResize|ch",
    "Program.handleSignals|ch",
    "Program.listenForResize|done",
    "Program.readLoop|p.readLoopDone"]

def fact_ctxchecks : List String := [
    "Program.Run|p.ctx.Done",
    "Program.Run|p.ctx.Err",
    "Program.Run|p.ctx.Err",
    "Program.Send|p.ctx.Done",
    "Program.checkResize|p.ctx.Done",
    "Program.eventLoop|p.ctx.Done",
    "Program.eventLoop|p.ctx.Done",
    "Program.eventLoop|p.ctx.Done",
    "Program.handleCommands|p.ctx.Done",
    "Program.handleSignals|p.ctx.Done",
    "Program.listenForResize|p.ctx.Done",
    "Program.readLoop|p.ctx.Done",
    "readAnsiInputs|ctx.Done",
    "readAnsiInputs|ctx.Done",
    "readAnsiInputs|ctx.Err",
    "readAnsiInputs|ctx.Err"]

def fact_el_case_BatchMsg : List String := [
    "for _, cmd := range msg { select { case <-p.ctx.Done(): return model, nil case cmds <- cmd: } }; continue"]

def fact_el_case_InterruptMsg : List String := [
    "return model, ErrInterrupted"]

def fact_el_case_QuitMsg : List String := [
    "return model, nil"]

def fact_el_case_SuspendMsg : List String := [
    "if suspendSupported { p.suspend() }"]

def fact_el_case_clearScreenMsg : List String := [
    "p.renderer.clearScreen()"]

def fact_el_case_disableBracketedPasteMsg : List String := [
    "p.renderer.disableBracketedPaste()"]

def fact_el_case_disableMouseMsg : List String := [
    "p.disableMouse(); if runtime.GOOS == \"windows\" && p.mouseMode { p.mouseMode = false p.initCancelReader(true) }"]

def fact_el_case_disableReportFocusMsg : List String := [
    "p.renderer.disableReportFocus()"]

def fact_el_case_enableBracketedPasteMsg : List String := [
    "p.renderer.enableBracketedPaste()"]

def fact_el_case_enableMouseCellMotionMsg_enableMouseAllMotionMsg : List String := [
    "switch msg.(type) { case enableMouseCellMotionMsg: p.renderer.enableMouseCellMotion() case enableMouseAllMotionMsg: p.renderer.enableMouseAllMotion() }; p.renderer.enableMouseSGRMode(); if runtime.GOOS == \"windows\" && !p.mouseMode { p.mouseMode = true p.initCancelReader(true) }"]

def fact_el_case_enableReportFocusMsg : List String := [
    "p.renderer.enableReportFocus()"]

def fact_el_case_enterAltScreenMsg : List String := [
    "p.renderer.enterAltScreen()"]

def fact_el_case_execMsg : List String := [
    "p.exec(msg.cmd, msg.fn)"]

def fact_el_case_exitAltScreenMsg : List String := [
    "p.renderer.exitAltScreen()"]

def fact_el_case_hideCursorMsg : List String := [
    "p.renderer.hideCursor()"]

def fact_el_case_sequenceMsg : List String := [
    "go func() { for _, cmd := range msg { if cmd == nil { continue } msg := cmd() if batchMsg, ok := msg.(BatchMsg); ok { g, _ := errgroup.WithContext(p.ctx) for _, cmd := range batchMsg { if cmd == nil { continue } cmd := cmd g.Go(func() error { p.Send(cmd()) return nil }) } g.Wait() continue } p.Send(msg) } }()"]

def fact_el_case_setWindowTitleMsg : List String := [
    "p.SetWindowTitle(string(msg))"]

def fact_el_case_showCursorMsg : List String := [
    "p.renderer.showCursor()"]

def fact_el_case_windowSizeMsg : List String := [
    "go p.checkResize()"]

def fact_el_head : List String := [
    "case <-p.ctx.Done(): return model, nil",
    "case err := <-p.errs: return model, err",
    "case msg := <-p.msgs:",
    "if p.filter != nil { msg = p.filter(model, msg) }",
    "if msg == nil { continue }"]

def fact_el_tail : List String := [
    "if r, ok := p.renderer.(*standardRenderer); ok { r.handleMessages(msg) }",
    "var cmd Cmd",
    "model, cmd = model.Update(msg)",
    "select { case <-p.ctx.Done(): return model, nil case cmds <- cmd: }",
    "p.renderer.write(model.View())"]

def fact_gostmts : List String := [
    "Program.RestoreTerminal|p.Send",
    "Program.RestoreTerminal|p.checkResize",
    "Program.Run|func-literal",
    "Program.eventLoop|func-literal",
    "Program.eventLoop|p.checkResize",
    "Program.exec|p.Send",
    "Program.exec|p.Send",
    "Program.exec|p.Send",
    "Program.handleCommands|func-literal",
    "Program.handleCommands|func-literal",
    "Program.handleResize|p.checkResize",
    "Program.handleResize|p.listenForResize",
    "Program.handleSignals|func-literal",
    "Program.initCancelReader|p.readLoop",
    "Program.suspend|p.Send",
    "channelHandlers.shutdown|func-literal",
    "standardRenderer.start|r.listen"]

def fact_locks : List String := [
    "altScreen|Lock;defer Unlock",
    "bracketedPasteActive|Lock;defer Unlock",
    "clearScreen|Lock;defer Unlock;r.execute;r.execute",
    "disableBracketedPaste|Lock;defer Unlock;r.execute",
    "disableMouseAllMotion|Lock;defer Unlock;r.execute",
    "disableMouseCellMotion|Lock;defer Unlock;r.execute",
    "disableMouseSGRMode|Lock;defer Unlock;r.execute",
    "disableReportFocus|Lock;defer Unlock;r.execute",
    "enableBracketedPaste|Lock;defer Unlock;r.execute",
    "enableMouseAllMotion|Lock;defer Unlock;r.execute",
    "enableMouseCellMotion|Lock;defer Unlock;r.execute",
    "enableMouseSGRMode|Lock;defer Unlock;r.execute",
    "enableReportFocus|Lock;defer Unlock;r.execute",
    "enterAltScreen|Lock;defer Unlock;r.execute;r.execute;r.execute;r.execute;r.execute",
    "execute|io.WriteString",
    "exitAltScreen|Lock;defer Unlock;r.execute;r.execute;r.execute",
    "flush|Lock;defer Unlock;r.out.Write;r.buf.Reset",
    "handleMessages|Lock;Unlock;Lock;Unlock;Lock;Unlock;Lock;Unlock;Lock;Unlock",
    "hideCursor|Lock;defer Unlock;r.execute",
    "insertBottom|Lock;defer Unlock;r.out.Write",
    "insertTop|Lock;defer Unlock;r.out.Write",
    "kill|Lock;defer Unlock;r.execute;r.execute",
    "listen|r.flush",
    "reportFocus|Lock;defer Unlock",
    "setIgnoredLines|Lock;defer Unlock;r.out.Write",
    "setWindowTitle|r.execute",
    "showCursor|Lock;defer Unlock;r.execute",
    "stop|r.flush;Lock;defer Unlock;r.execute;r.execute",
    "write|Lock;defer Unlock;r.buf.Reset;r.buf.WriteString"]

def fact_makechans : List String := [
    "NewProgram|chan Msg|cap=0",
    "Program.Run|chan Cmd|cap=0",
    "Program.Run|chan error|cap=0",
    "Program.Run|chan struct{}|cap=0",
    "Program.Run|chan struct{}|cap=0",
    "Program.handleCommands|chan struct{}|cap=0",
    "Program.handleResize|chan struct{}|cap=0",
    "Program.handleSignals|chan os.Signal|cap=1",
    "Program.handleSignals|chan struct{}|cap=0",
    "Program.initCancelReader|chan struct{}|cap=0",
    "Program.listenForResize|chan os.Signal|cap=1",
    "newRenderer|chan struct{}|cap=0",
    "suspendProcess|chan os.Signal|cap=1"]

def fact_order_Program_ReleaseTerminal : List String := [
    "atomic.StoreUint32(&p.ignoreSignals,1)",
    "[p.cancelReader != nil]p.cancelReader.Cancel",
    "p.waitForReadLoop",
    "[p.renderer != nil]p.renderer.stop",
    "[p.renderer != nil]p.renderer.altScreen",
    "[p.renderer != nil]p.renderer.bracketedPasteActive",
    "[p.renderer != nil]p.renderer.reportFocus",
    "p.restoreTerminalState"]

def fact_order_Program_RestoreTerminal : List String := [
    "atomic.StoreUint32(&p.ignoreSignals,0)",
    "p.initTerminal",
    "[p.input != nil]p.initCancelReader(false)",
    "[p.altScreenWasActive]p.renderer.enterAltScreen",
    "[!p.altScreenWasActive]p.Send",
    "[p.renderer != nil]p.renderer.start",
    "[p.bpWasActive]p.renderer.enableBracketedPaste",
    "[p.reportFocus]p.renderer.enableReportFocus",
    "p.checkResize"]

def fact_order_Program_Run : List String := [
    "close(p.finished)",
    "p.cancel",
    "openInputTTY",
    "openInputTTY",
    "p.startupOptions.has",
    "[!p.startupOptions.has(withoutSignalHandler)]p.handlers.add",
    "[!p.startupOptions.has(withoutSignalHandler)]p.handleSignals",
    "p.startupOptions.has",
    "[!p.startupOptions.has(withoutCatchPanics)]{lit}[r != nil]p.handlePanic",
    "[p.renderer == nil]newRenderer",
    "[p.renderer == nil]p.startupOptions.has",
    "p.initTerminal",
    "[p.startupTitle != \"\"]p.renderer.setWindowTitle",
    "[p.startupOptions&withAltScreen != 0]p.renderer.enterAltScreen",
    "[p.startupOptions&withoutBracketedPaste == 0]p.renderer.enableBracketedPaste",
    "[p.startupOptions&withMouseCellMotion != 0]p.renderer.enableMouseCellMotion",
    "[p.startupOptions&withMouseCellMotion != 0]p.renderer.enableMouseSGRMode",
    "[!p.startupOptions&withMouseCellMotion != 0][p.startupOptions&withMouseAllMotion != 0]p.renderer.enableMouseAllMotion",
    "[!p.startupOptions&withMouseCellMotion != 0][p.startupOptions&withMouseAllMotion != 0]p.renderer.enableMouseSGRMode",
    "[p.startupOptions&withReportFocus != 0]p.renderer.enableReportFocus",
    "p.renderer.start",
    "[initCmd != nil]p.handlers.add",
    "[initCmd != nil]{lit}close(ch)",
    "[initCmd != nil]{lit}p.ctx.Done",
    "p.renderer.write",
    "[p.input != nil]p.initCancelReader(false)",
    "[p.input != nil][err != nil]p.shutdown(true)",
    "p.handlers.add",
    "p.handleResize",
    "p.handlers.add",
    "p.handleCommands",
    "p.eventLoop",
    "p.ctx.Err",
    "[killed && err == nil]p.ctx.Err",
    "[err == nil]p.renderer.write",
    "p.shutdown(killed)"]

def fact_order_Program_disableMouse : List String := [
    "p.renderer.disableMouseCellMotion",
    "p.renderer.disableMouseAllMotion",
    "p.renderer.disableMouseSGRMode"]

def fact_order_Program_exec : List String := [
    "p.ReleaseTerminal",
    "[err != nil][fn != nil]p.Send",
    "c.SetStdin",
    "c.SetStdout",
    "c.SetStderr",
    "c.Run",
    "[err != nil]p.RestoreTerminal",
    "[err != nil][fn != nil]p.Send",
    "p.RestoreTerminal",
    "[fn != nil]p.Send"]

def fact_order_Program_initTerminal : List String := [
    "p.initInput",
    "p.renderer.hideCursor"]

def fact_order_Program_recoverFromPanic : List String := [
    "[r != nil]p.handlePanic"]

def fact_order_Program_restoreTerminalState : List String := [
    "[p.renderer != nil]p.renderer.disableBracketedPaste",
    "[p.renderer != nil]p.renderer.showCursor",
    "[p.renderer != nil]p.disableMouse",
    "[p.renderer != nil]p.renderer.reportFocus",
    "[p.renderer != nil][p.renderer.reportFocus()]p.renderer.disableReportFocus",
    "[p.renderer != nil]p.renderer.altScreen",
    "[p.renderer != nil][p.renderer.altScreen()]p.renderer.exitAltScreen",
    "p.restoreInput"]

def fact_order_Program_shutdown : List String := [
    "p.cancel",
    "p.handlers.shutdown",
    "[p.cancelReader != nil]p.cancelReader.Cancel",
    "[p.cancelReader != nil][p.cancelReader.Cancel()][!kill]p.waitForReadLoop",
    "[p.cancelReader != nil]p.cancelReader.Close",
    "[p.renderer != nil][kill]p.renderer.kill",
    "[p.renderer != nil][!kill]p.renderer.stop",
    "p.restoreTerminalState"]

def fact_order_standardRenderer_kill : List String := [
    "r.once.Do",
    "r.mtx.Lock",
    "r.mtx.Unlock",
    "r.execute(ansi.EraseEntireLine)",
    "r.execute(\"\\r\")"]

def fact_order_standardRenderer_listen : List String := [
    "r.ticker.Stop",
    "r.flush"]

def fact_order_standardRenderer_start : List String := [
    "[!r.ticker == nil]r.ticker.Reset",
    "r.listen"]

def fact_order_standardRenderer_stop : List String := [
    "r.once.Do",
    "r.flush",
    "r.mtx.Lock",
    "r.mtx.Unlock",
    "r.execute(ansi.EraseEntireLine)",
    "r.execute(\"\\r\")",
    "r.repaint"]

def fact_recvs : List String := [
    "Every|t.C|bare|go=false",
    "Every|t.C|bare|go=false",
    "Program.Run|p.ctx.Done()|select+done|go=true",
    "Program.Send|p.ctx.Done()|select+done|go=false",
    "Program.Wait|p.finished|bare|go=false",
    "Program.checkResize|p.ctx.Done()|select+done|go=false",
    "Program.eventLoop|p.ctx.Done()|select+done|go=false",
    "Program.eventLoop|p.ctx.Done()|select+done|go=false",
    "Program.eventLoop|p.ctx.Done()|select+done|go=false",
    "Program.eventLoop|p.errs|select+done|go=false",
    "Program.eventLoop|p.msgs|select+done|go=false",
    "Program.handleCommands|cmds|select+done|go=true",
    "Program.handleCommands|p.ctx.Done()|select+done|go=true",
    "Program.handleSignals|p.ctx.Done()|select+done|go=true",
    "Program.handleSignals|sig|select+done|go=true",
    "Program.listenForResize|p.ctx.Done()|select+done|go=false",
    "Program.listenForResize|sig|select+done|go=false",
    "Program.readLoop|p.ctx.Done()|select+done|go=false",
    "Program.waitForReadLoop|p.readLoopDone|select|go=false",
    "Program.waitForReadLoop|time.After(500 * time.Millisecond)|select|go=false",
    "Tick|t.C|bare|go=false",
    "Tick|t.C|bare|go=false",
    "channelHandlers.shutdown|ch|bare|go=true",
    "readAnsiInputs|ctx.Done()|select+done|go=false",
    "readAnsiInputs|ctx.Done()|select+done|go=false",
    "standardRenderer.listen|r.done|select|go=false",
    "standardRenderer.listen|r.ticker.C|select|go=false",
    "suspendProcess|c|bare|go=false"]

def fact_sendcalls : List String := [
    "Program.Printf|printLineMessage{ messageBody: fmt.Sprintf(template, args...), }|go=false",
    "Program.Println|printLineMessage{ messageBody: fmt.Sprint(args...), }|go=false",
    "Program.Quit|Quit()|go=false",
    "Program.RestoreTerminal|repaintMsg{}|go=true",
    "Program.checkResize|WindowSizeMsg{ Width: w, Height: h, }|go=false",
    "Program.eventLoop|cmd()|go=true",
    "Program.eventLoop|msg|go=true",
    "Program.exec|fn(err)|go=true",
    "Program.exec|fn(err)|go=true",
    "Program.exec|fn(err)|go=true",
    "Program.handleCommands|msg|go=true",
    "Program.handleSignals|InterruptMsg{}|go=true",
    "Program.handleSignals|QuitMsg{}|go=true",
    "Program.suspend|ResumeMsg{}|go=true"]

def fact_sends : List String := [
    "Program.Run|cmds|select+done|go=true",
    "Program.Send|p.msgs|select+done|go=false",
    "Program.checkResize|p.errs|select+done|go=false",
    "Program.eventLoop|cmds|select+done|go=false",
    "Program.eventLoop|cmds|select+done|go=false",
    "Program.readLoop|p.errs|select+done|go=false",
    "readAnsiInputs|msgs|select+done|go=false",
    "readAnsiInputs|msgs|select+done|go=false",
    "standardRenderer.kill|r.done|bare|go=false",
    "standardRenderer.stop|r.done|bare|go=false"]

def fact_sig_Program_Run : List String := [
    "func() (returnModel Model, returnErr error)"]

end Tea.Doc
