-- FROZEN expectation of the facts extracted from the source (written by `harness freeze-facts`
-- after the models were brought in line with the code; kept by hand). The specification side of the bridge.
namespace Tea.Doc

def fact_bodies_nilRenderer : List String := [
    "altScreen|{ return false }",
    "bracketedPasteActive|{ return false }",
    "clearScreen|{ }",
    "disableBracketedPaste|{ }",
    "disableMouseAllMotion|{ }",
    "disableMouseCellMotion|{ }",
    "disableMouseSGRMode|{ }",
    "disableReportFocus|{ }",
    "enableBracketedPaste|{ }",
    "enableMouseAllMotion|{ }",
    "enableMouseCellMotion|{ }",
    "enableMouseSGRMode|{ }",
    "enableReportFocus|{ }",
    "enterAltScreen|{ }",
    "exitAltScreen|{ }",
    "hideCursor|{ }",
    "kill|{ }",
    "repaint|{ }",
    "reportFocus|{ return false }",
    "setWindowTitle|{ }",
    "showCursor|{ }",
    "start|{ }",
    "stop|{ }",
    "write|{ }"]

def fact_body_Batch : List String := [
    "{ var v1 []Cmd for _, v2 := range a1 { if v2 == nil { continue } v1 = append(v1, v2) } switch len(v1) { case 0: return nil case 1: return v1[0] default: return func() Msg { return BatchMsg(v1) } } }"]

def fact_body_ClearScreen : List String := [
    "{ return clearScreenMsg{} }"]

def fact_body_DisableBracketedPaste : List String := [
    "{ return disableBracketedPasteMsg{} }"]

def fact_body_DisableMouse : List String := [
    "{ return disableMouseMsg{} }"]

def fact_body_DisableReportFocus : List String := [
    "{ return disableReportFocusMsg{} }"]

def fact_body_EnableBracketedPaste : List String := [
    "{ return enableBracketedPasteMsg{} }"]

def fact_body_EnableMouseAllMotion : List String := [
    "{ return enableMouseAllMotionMsg{} }"]

def fact_body_EnableMouseCellMotion : List String := [
    "{ return enableMouseCellMotionMsg{} }"]

def fact_body_EnableReportFocus : List String := [
    "{ return enableReportFocusMsg{} }"]

def fact_body_EnterAltScreen : List String := [
    "{ return enterAltScreenMsg{} }"]

def fact_body_Every : List String := [
    "{ v1 := time.Now() v2 := v1.Truncate(a1).Add(a1).Sub(v1) v3 := time.NewTimer(v2) return func() Msg { v4 := <-v3.C v3.Stop() for len(v3.C) > 0 { <-v3.C } return a2(v4) } }"]

def fact_body_Exec : List String := [
    "{ return func() Msg { return execMsg{cmd: a1, a2: a2} } }"]

def fact_body_ExecProcess : List String := [
    "{ return Exec(wrapExecCommand(a1), a2) }"]

def fact_body_ExitAltScreen : List String := [
    "{ return exitAltScreenMsg{} }"]

def fact_body_HideCursor : List String := [
    "{ return hideCursorMsg{} }"]

def fact_body_Interrupt : List String := [
    "{ return InterruptMsg{} }"]

def fact_body_Key_String : List String := [
    "{ var v1 strings.Builder if k.Alt { v1.WriteString(\"alt+\") } if k.Type == KeyRunes { if k.Paste { v1.WriteByte('[') } v1.WriteString(string(k.Runes)) if k.Paste { v1.WriteByte(']') } return v1.String() } else if v2, v3 := keyNames[k.Type]; v3 { v1.WriteString(v2) return v1.String() } return \"\" }"]

def fact_body_MouseEvent_IsWheel : List String := [
    "{ return m.Button == MouseButtonWheelUp || m.Button == MouseButtonWheelDown || m.Button == MouseButtonWheelLeft || m.Button == MouseButtonWheelRight }"]

def fact_body_NewProgram : List String := [
    "{ v1 := &Program{ initialModel: a1, msgs: make(chan Msg), finished: make(chan struct{}), } for _, v2 := range a2 { v2(v1) } if v1.ctx == nil { v1.ctx = context.Background() } v1.ctx, v1.cancel = context.WithCancel(v1.ctx) if v1.output == nil { v1.output = os.Stdout } if v1.environ == nil { v1.environ = os.Environ() } return v1 }"]

def fact_body_Printf : List String := [
    "{ return func() Msg { return printLineMessage{ messageBody: fmt.Sprintf(a1, a2...), } } }"]

def fact_body_Println : List String := [
    "{ return func() Msg { return printLineMessage{ messageBody: fmt.Sprint(a1...), } } }"]

def fact_body_Program_DisableMouseAllMotion : List String := [
    "{ if p.renderer != nil { p.renderer.disableMouseAllMotion() } else { p.startupOptions &^= withMouseAllMotion } }"]

def fact_body_Program_DisableMouseCellMotion : List String := [
    "{ if p.renderer != nil { p.renderer.disableMouseCellMotion() } else { p.startupOptions &^= withMouseCellMotion } }"]

def fact_body_Program_EnableMouseAllMotion : List String := [
    "{ if p.renderer != nil { p.renderer.enableMouseAllMotion() } else { p.startupOptions |= withMouseAllMotion } }"]

def fact_body_Program_EnableMouseCellMotion : List String := [
    "{ if p.renderer != nil { p.renderer.enableMouseCellMotion() } else { p.startupOptions |= withMouseCellMotion } }"]

def fact_body_Program_EnterAltScreen : List String := [
    "{ if p.renderer != nil { p.renderer.enterAltScreen() } else { p.startupOptions |= withAltScreen } }"]

def fact_body_Program_ExitAltScreen : List String := [
    "{ if p.renderer != nil { p.renderer.exitAltScreen() } else { p.startupOptions &^= withAltScreen } }"]

def fact_body_Program_Kill : List String := [
    "{ p.shutdown(true) }"]

def fact_body_Program_Printf : List String := [
    "{ p.Send(printLineMessage{ messageBody: fmt.Sprintf(a1, a2...), }) }"]

def fact_body_Program_Println : List String := [
    "{ p.Send(printLineMessage{ messageBody: fmt.Sprint(a1...), }) }"]

def fact_body_Program_Quit : List String := [
    "{ p.Send(Quit()) }"]

def fact_body_Program_Send : List String := [
    "{ select { case <-p.ctx.Done(): case p.msgs <- a1: } }"]

def fact_body_Program_SetWindowTitle : List String := [
    "{ if p.renderer != nil { p.renderer.setWindowTitle(a1) } else { p.startupTitle = a1 } }"]

def fact_body_Program_Start : List String := [
    "{ _, v1 := p.Run() return v1 }"]

def fact_body_Program_StartReturningModel : List String := [
    "{ return p.Run() }"]

def fact_body_Program_Wait : List String := [
    "{ <-p.finished }"]

def fact_body_Program_checkResize : List String := [
    "{ if p.ttyOutput == nil { return } p.resizeMu.Lock() defer p.resizeMu.Unlock() v1, v2, v3 := term.GetSize(p.ttyOutput.Fd()) if v3 != nil { select { case <-p.ctx.Done(): case p.errs <- v3: } return } verifPause(\"checkResize: size read\") p.Send(WindowSizeMsg{ Width: v1, Height: v2, }) }"]

def fact_body_Program_handleCommands : List String := [
    "{ v1 := make(chan struct{}) go func() { defer close(v1) defer verifPause(\"cmds: exit\") for { select { case <-p.ctx.Done(): return case v2 := <-a1: if v2 == nil { continue } go func() { if !p.startupOptions.has(withoutCatchPanics) { defer p.recoverFromPanic() } v3 := v2() p.Send(v3) }() } } }() return v1 }"]

def fact_body_Program_handlePanic : List String := [
    "{ p.shutdown(true) fmt.Printf(\"Caught panic:\\n\\n%s\\n\\nRestoring terminal...\\n\\n\", a1) debug.PrintStack() }"]

def fact_body_Program_handleResize : List String := [
    "{ v1 := make(chan struct{}) if p.ttyOutput != nil { go p.listenForResize(v1) } else { close(v1) } return v1 }"]

def fact_body_Program_handleSignals : List String := [
    "{ v1 := make(chan struct{}) go func() { v2 := make(chan os.Signal, 1) signal.Notify(v2, syscall.SIGINT, syscall.SIGTERM) defer func() { signal.Stop(v2) verifPause(\"sig: exit\") close(v1) }() for { select { case <-p.ctx.Done(): return case v3 := <-v2: if atomic.LoadUint32(&p.ignoreSignals) == 0 { switch v3 { case syscall.SIGINT: p.Send(InterruptMsg{}) default: p.Send(QuitMsg{}) } return } } } }() return v1 }"]

def fact_body_Program_initCancelReader : List String := [
    "{ if a1 && p.cancelReader != nil { p.cancelReader.Cancel() p.waitForReadLoop() } var v1 error p.cancelReader, v1 = newInputReader(p.input, p.mouseMode) if v1 != nil { return fmt.Errorf(\"error creating cancelreader: %w\", v1) } p.readLoopDone = make(chan struct{}) verifPause(\"reader: spawn\") go p.readLoop() return nil }"]

def fact_body_Program_initInput : List String := [
    "{ if v1, v2 := p.input.(term.File); v2 && term.IsTerminal(v1.Fd()) { p.ttyInput = v1 p.previousTtyInputState, o1 = term.MakeRaw(p.ttyInput.Fd()) if o1 != nil { return fmt.Errorf(\"error entering raw mode: %w\", o1) } } if v3, v4 := p.output.(term.File); v4 && term.IsTerminal(v3.Fd()) { p.ttyOutput = v3 } return nil }"]

def fact_body_Program_listenForResize : List String := [
    "{ v1 := make(chan os.Signal, 1) verifPause(\"resize: subscribe\") signal.Notify(v1, syscall.SIGWINCH) defer func() { signal.Stop(v1) verifPause(\"resize: exit\") close(a1) }() p.checkResize() for { select { case <-p.ctx.Done(): return case <-v1: } p.checkResize() } }"]

def fact_body_Program_readLoop : List String := [
    "{ defer close(p.readLoopDone) defer verifPause(\"reader: exit\") v1 := readInputs(p.ctx, p.msgs, p.cancelReader) if !errors.Is(v1, io.EOF) && !errors.Is(v1, cancelreader.ErrCanceled) { select { case <-p.ctx.Done(): case p.errs <- v1: } } }"]

def fact_body_Program_restoreInput : List String := [
    "{ if p.ttyInput != nil && p.previousTtyInputState != nil { if v1 := term.Restore(p.ttyInput.Fd(), p.previousTtyInputState); v1 != nil { return fmt.Errorf(\"error restoring console: %w\", v1) } } if p.ttyOutput != nil && p.previousOutputState != nil { if v2 := term.Restore(p.ttyOutput.Fd(), p.previousOutputState); v2 != nil { return fmt.Errorf(\"error restoring console: %w\", v2) } } return nil }"]

def fact_body_Program_suspend : List String := [
    "{ if v1 := p.ReleaseTerminal(); v1 != nil { return } suspendProcess() _ = p.RestoreTerminal() go p.Send(ResumeMsg{}) }"]

def fact_body_Program_waitForReadLoop : List String := [
    "{ select { case <-p.readLoopDone: case <-time.After(500 * time.Millisecond): } }"]

def fact_body_Quit : List String := [
    "{ return QuitMsg{} }"]

def fact_body_Sequence : List String := [
    "{ return func() Msg { return sequenceMsg(a1) } }"]

def fact_body_Sequentially : List String := [
    "{ return func() Msg { for _, v1 := range a1 { if v1 == nil { continue } if v2 := v1(); v2 != nil { return v2 } } return nil } }"]

def fact_body_SetWindowTitle : List String := [
    "{ return func() Msg { return setWindowTitleMsg(a1) } }"]

def fact_body_ShowCursor : List String := [
    "{ return showCursorMsg{} }"]

def fact_body_Suspend : List String := [
    "{ return SuspendMsg{} }"]

def fact_body_Tick : List String := [
    "{ v1 := time.NewTimer(a1) return func() Msg { v2 := <-v1.C v1.Stop() for len(v1.C) > 0 { <-v1.C } return a2(v2) } }"]

def fact_body_WindowSize : List String := [
    "{ return func() Msg { return windowSizeMsg{} } }"]

def fact_body_WithANSICompressor : List String := [
    "{ return func(v1 *Program) { v1.startupOptions |= withANSICompressor } }"]

def fact_body_WithAltScreen : List String := [
    "{ return func(v1 *Program) { v1.startupOptions |= withAltScreen } }"]

def fact_body_WithContext : List String := [
    "{ return func(v1 *Program) { v1.ctx = a1 } }"]

def fact_body_WithEnvironment : List String := [
    "{ return func(v1 *Program) { v1.environ = a1 } }"]

def fact_body_WithFPS : List String := [
    "{ return func(v1 *Program) { v1.fps = a1 } }"]

def fact_body_WithFilter : List String := [
    "{ return func(v1 *Program) { v1.filter = a1 } }"]

def fact_body_WithInput : List String := [
    "{ return func(v1 *Program) { v1.input = a1 v1.inputType = customInput } }"]

def fact_body_WithInputTTY : List String := [
    "{ return func(v1 *Program) { v1.inputType = ttyInput } }"]

def fact_body_WithMouseAllMotion : List String := [
    "{ return func(v1 *Program) { v1.startupOptions |= withMouseAllMotion v1.startupOptions &^= withMouseCellMotion } }"]

def fact_body_WithMouseCellMotion : List String := [
    "{ return func(v1 *Program) { v1.startupOptions |= withMouseCellMotion v1.startupOptions &^= withMouseAllMotion } }"]

def fact_body_WithOutput : List String := [
    "{ return func(v1 *Program) { v1.output = a1 } }"]

def fact_body_WithReportFocus : List String := [
    "{ return func(v1 *Program) { v1.startupOptions |= withReportFocus } }"]

def fact_body_WithoutBracketedPaste : List String := [
    "{ return func(v1 *Program) { v1.startupOptions |= withoutBracketedPaste } }"]

def fact_body_WithoutCatchPanics : List String := [
    "{ return func(v1 *Program) { v1.startupOptions |= withoutCatchPanics } }"]

def fact_body_WithoutRenderer : List String := [
    "{ return func(v1 *Program) { v1.renderer = &nilRenderer{} } }"]

def fact_body_WithoutSignalHandler : List String := [
    "{ return func(v1 *Program) { v1.startupOptions |= withoutSignalHandler } }"]

def fact_body_WithoutSignals : List String := [
    "{ return func(v1 *Program) { v1.withoutSignals = true atomic.StoreUint32(&v1.ignoreSignals, 1) } }"]

def fact_body_channelHandlers_add : List String := [
    "{ *h = append(*h, a1) }"]

def fact_body_channelHandlers_shutdown : List String := [
    "{ var v1 sync.WaitGroup for _, v2 := range h { v1.Add(1) go func(v3 chan struct{}) { <-v3 v1.Done() }(v2) } v1.Wait() }"]

def fact_body_detectBracketedPaste : List String := [
    "{ const bpStart = \"\\x1b[200~\" if len(a1) < len(bpStart) || string(a1[:len(bpStart)]) != bpStart { return false, 0, nil } a1 = a1[len(bpStart):] const bpEnd = \"\\x1b[201~\" v1 := bytes.Index(a1, []byte(bpEnd)) v2 := len(bpStart) + v1 + len(bpEnd) if v1 == -1 { return true, 0, nil } v3 := a1[:v1] v4 := Key{Type: KeyRunes, Paste: true} for len(v3) > 0 { v5, v6 := utf8.DecodeRune(v3) if v5 != utf8.RuneError { v4.Runes = append(v4.Runes, v5) } v3 = v3[v6:] } return true, v2, KeyMsg(v4) }"]

def fact_body_detectOneMsg : List String := [
    "{ if a2 && isIncompleteEvent(a1) { return 0, nil } const mouseEventX10Len = 6 if len(a1) >= mouseEventX10Len && a1[0] == '\\x1b' && a1[1] == '[' { switch a1[2] { case 'M': return mouseEventX10Len, MouseMsg(parseX10MouseEvent(a1)) case '<': if v1 := mouseSGRRegex.FindSubmatchIndex(a1[3:]); v1 != nil { v2 := v1[1] + 3 return v2, MouseMsg(parseSGRMouseEvent(a1)) } } } var v3 bool v3, o1, o2 = detectReportFocus(a1) if v3 { return o1, o2 } var v4 bool v4, o1, o2 = detectBracketedPaste(a1) if v4 { return o1, o2 } var v5 bool v5, o1, o2 = detectSequence(a1) if v5 { return o1, o2 } v6 := false v7 := 0 if a1[0] == '\\x1b' { v6 = true v7++ } if v7 < len(a1) && a1[v7] == 0 { return v7 + 1, KeyMsg{Type: keyNUL, Alt: v6} } var v8 []rune for v9 := 0; v7 < len(a1); v7 += v9 { var v10 rune v10, v9 = utf8.DecodeRune(a1[v7:]) if v10 == utf8.RuneError && a2 && !utf8.FullRune(a1[v7:]) { return 0, nil } if v10 == utf8.RuneError || v10 <= rune(keyUS) || v10 == rune(keyDEL) || v10 == ' ' { break } v8 = append(v8, v10) if v6 { v7 += v9 break } } if v7 >= len(a1) && a2 { return 0, nil } if len(v8) > 0 { v11 := Key{Type: KeyRunes, Runes: v8, Alt: v6} if len(v8) == 1 && v8[0] == ' ' { v11.Type = KeySpace } return v7, KeyMsg(v11) } if v6 && len(a1) == 1 { return 1, KeyMsg(Key{Type: KeyEscape}) } return 1, unknownInputByteMsg(a1[0]) }"]

def fact_body_detectReportFocus : List String := [
    "{ switch { case bytes.Equal(a1, []byte(\"\\x1b[I\")): return true, 3, FocusMsg{} case bytes.Equal(a1, []byte(\"\\x1b[O\")): return true, 3, BlurMsg{} } return false, 0, nil }"]

def fact_body_detectSequence : List String := [
    "{ v1 := extSequences for _, v2 := range seqLengths { if v2 > len(a1) { continue } v3 := a1[:v2] v4, v5 := v1[string(v3)] if v5 { return true, v2, KeyMsg(v4) } } if v6 := unknownCSIRe.FindIndex(a1); v6 != nil { return true, v6[1], unknownCSISequenceMsg(append([]byte(nil), a1[:v6[1]]...)) } return false, 0, nil }"]

def fact_body_isIncompleteEvent : List String := [
    "{ if len(a1) == 0 || a1[0] != '\\x1b' { return false } if _, v1 := extSequencePrefixes[string(a1)]; v1 { return true } if len(a1) < 2 || a1[1] != '[' { return false } if v2, _, _ := detectReportFocus(a1); v2 { return true } if len(a1) >= 3 && a1[2] == 'M' { return len(a1) < 6 } v3 := 2 for v3 < len(a1) && a1[v3] >= 0x30 && a1[v3] <= 0x3f { v3++ } for v3 < len(a1) && a1[v3] >= 0x20 && a1[v3] <= 0x2f { v3++ } return v3 == len(a1) }"]

def fact_body_newInputReader : List String := [
    "{ v1, v2 := cancelreader.NewReader(a1) if v2 != nil { return nil, fmt.Errorf(\"bubbletea: error creating cancel reader: %w\", v2) } return v1, nil }"]

def fact_body_newRenderer : List String := [
    "{ if a3 < 1 { a3 = defaultFPS } else if a3 > maxFPS { a3 = maxFPS } v1 := &standardRenderer{ a1: a1, mtx: &sync.Mutex{}, done: make(chan struct{}), framerate: time.Second / time.Duration(a3), a2: a2, queuedMessageLines: []string{}, } if v1.useANSICompressor { v1.out = &compressor.Writer{Forward: a1} } return v1 }"]

def fact_body_openInputTTY : List String := [
    "{ v1, v2 := os.Open(\"/dev/tty\") if v2 != nil { return nil, fmt.Errorf(\"could not open a new TTY: %w\", v2) } return v1, nil }"]

def fact_body_osExecCommand_SetStderr : List String := [
    "{ if c.Stderr == nil { c.Stderr = a1 } }"]

def fact_body_osExecCommand_SetStdin : List String := [
    "{ if c.Stdin == nil { c.Stdin = a1 } }"]

def fact_body_osExecCommand_SetStdout : List String := [
    "{ if c.Stdout == nil { c.Stdout = a1 } }"]

def fact_body_parseMouseButton : List String := [
    "{ var v1 MouseEvent v2 := a1 if !a2 { v2 -= x10MouseByteOffset } const ( bitShift = 0b0000_0100 bitAlt = 0b0000_1000 bitCtrl = 0b0001_0000 bitMotion = 0b0010_0000 bitWheel = 0b0100_0000 bitAdd = 0b1000_0000 bitsMask = 0b0000_0011 ) if v2&bitAdd != 0 { v1.Button = MouseButtonBackward + MouseButton(v2&bitsMask) } else if v2&bitWheel != 0 { v1.Button = MouseButtonWheelUp + MouseButton(v2&bitsMask) } else { v1.Button = MouseButtonLeft + MouseButton(v2&bitsMask) if v2&bitsMask == bitsMask { v1.Action = MouseActionRelease v1.Button = MouseButtonNone } } if v2&bitMotion != 0 && !v1.IsWheel() { v1.Action = MouseActionMotion } v1.Alt = v2&bitAlt != 0 v1.Ctrl = v2&bitCtrl != 0 v1.Shift = v2&bitShift != 0 switch { case v1.Button == MouseButtonLeft && v1.Action == MouseActionPress: v1.Type = MouseLeft case v1.Button == MouseButtonMiddle && v1.Action == MouseActionPress: v1.Type = MouseMiddle case v1.Button == MouseButtonRight && v1.Action == MouseActionPress: v1.Type = MouseRight case v1.Button == MouseButtonNone && v1.Action == MouseActionRelease: v1.Type = MouseRelease case v1.Button == MouseButtonWheelUp && v1.Action == MouseActionPress: v1.Type = MouseWheelUp case v1.Button == MouseButtonWheelDown && v1.Action == MouseActionPress: v1.Type = MouseWheelDown case v1.Button == MouseButtonWheelLeft && v1.Action == MouseActionPress: v1.Type = MouseWheelLeft case v1.Button == MouseButtonWheelRight && v1.Action == MouseActionPress: v1.Type = MouseWheelRight case v1.Button == MouseButtonBackward && v1.Action == MouseActionPress: v1.Type = MouseBackward case v1.Button == MouseButtonForward && v1.Action == MouseActionPress: v1.Type = MouseForward case v1.Action == MouseActionMotion: v1.Type = MouseMotion switch v1.Button { case MouseButtonLeft: v1.Type = MouseLeft case MouseButtonMiddle: v1.Type = MouseMiddle case MouseButtonRight: v1.Type = MouseRight case MouseButtonBackward: v1.Type = MouseBackward case MouseButtonForward: v1.Type = MouseForward } default: v1.Type = MouseUnknown } return v1 }"]

def fact_body_parseSGRMouseEvent : List String := [
    "{ v1 := string(a1[3:]) v2 := mouseSGRRegex.FindStringSubmatch(v1) if len(v2) != 5 { panic(\"invalid mouse event\") } v3, _ := strconv.Atoi(v2[1]) v4 := v2[2] v5 := v2[3] v6 := v2[4] == \"m\" v7 := parseMouseButton(v3, true) if v7.Action != MouseActionMotion && !v7.IsWheel() && v6 { v7.Action = MouseActionRelease v7.Type = MouseRelease } v8, _ := strconv.Atoi(v4) v9, _ := strconv.Atoi(v5) v7.X = v8 - 1 v7.Y = v9 - 1 return v7 }"]

def fact_body_parseX10MouseEvent : List String := [
    "{ v1 := a1[3:6] v2 := parseMouseButton(int(v1[0]), false) v2.X = int(v1[1]) - x10MouseByteOffset - 1 v2.Y = int(v1[2]) - x10MouseByteOffset - 1 return v2 }"]

def fact_body_readAnsiInputs : List String := [
    "{ var v1 [256]byte var v2 []byte var v3 error loop: for { var v4 int v5 := v3 if v5 == nil { v4, v5 = a3.Read(v1[:]) } if v5 != nil && v4 > 0 { v3, v5 = v5, nil } if v5 != nil { if errors.Is(v5, io.EOF) { for v6 := v2; len(v6) > 0; { v7, v8 := detectOneMsg(v6, false) if v7 == 0 { break } select { case a2 <- v8: case <-a1.Done(): return fmt.Errorf(\"found context error while reading input: %w\", a1.Err()) } v6 = v6[v7:] } } return fmt.Errorf(\"error reading input: %w\", v5) } v9 := v1[:v4] if v2 != nil { v9 = append(v2, v9...) } v10 := v4 == len(v1) && v3 == nil var v11, v12 int for v11, v12 = 0, 0; v11 < len(v9); v11 += v12 { var v13 Msg v12, v13 = detectOneMsg(v9[v11:], v10) if v12 == 0 { v2 = make([]byte, 0, len(v9[v11:])+len(v1)) v2 = append(v2, v9[v11:]...) continue loop } select { case a2 <- v13: case <-a1.Done(): v14 := a1.Err() if v14 != nil { v14 = fmt.Errorf(\"found context error while reading input: %w\", v14) } return v14 } } v2 = nil } }"]

def fact_body_readInputs : List String := [
    "{ return readAnsiInputs(a1, a2, a3) }"]

def fact_body_standardRenderer_altScreen : List String := [
    "{ r.mtx.Lock() defer r.mtx.Unlock() return r.altScreenActive }"]

def fact_body_standardRenderer_bracketedPasteActive : List String := [
    "{ r.mtx.Lock() defer r.mtx.Unlock() return r.bpActive }"]

def fact_body_standardRenderer_clearScreen : List String := [
    "{ r.mtx.Lock() defer r.mtx.Unlock() r.execute(ansi.EraseEntireScreen) r.execute(ansi.CursorHomePosition) r.repaint() }"]

def fact_body_standardRenderer_enterAltScreen : List String := [
    "{ r.mtx.Lock() defer r.mtx.Unlock() if r.altScreenActive { return } if len(r.queuedMessageLines) > 0 { r.render() } r.altScreenActive = true r.execute(ansi.SetAltScreenSaveCursorMode) r.execute(ansi.EraseEntireScreen) r.execute(ansi.CursorHomePosition) if r.cursorHidden { r.execute(ansi.HideCursor) } else { r.execute(ansi.ShowCursor) } r.altLinesRendered = 0 r.repaint() }"]

def fact_body_standardRenderer_execute : List String := [
    "{ _, _ = io.WriteString(r.out, a1) }"]

def fact_body_standardRenderer_exitAltScreen : List String := [
    "{ r.mtx.Lock() defer r.mtx.Unlock() if !r.altScreenActive { return } r.altScreenActive = false r.execute(ansi.ResetAltScreenSaveCursorMode) if r.cursorHidden { r.execute(ansi.HideCursor) } else { r.execute(ansi.ShowCursor) } r.repaint() }"]

def fact_body_standardRenderer_flush : List String := [
    "{ r.mtx.Lock() defer r.mtx.Unlock() r.render() }"]

def fact_body_standardRenderer_halt : List String := [
    "{ r.listenMtx.Lock() defer r.listenMtx.Unlock() if !r.listening { return } r.done <- struct{}{} r.ticker.Stop() r.listening = false }"]

def fact_body_standardRenderer_handleMessages : List String := [
    "{ switch v1 := a1.(type) { case repaintMsg: r.mtx.Lock() r.repaint() r.mtx.Unlock() case WindowSizeMsg: r.mtx.Lock() r.width = v1.Width r.height = v1.Height r.repaint() r.mtx.Unlock() case clearScrollAreaMsg: r.clearIgnoredLines() r.mtx.Lock() r.repaint() r.mtx.Unlock() case syncScrollAreaMsg: r.clearIgnoredLines() r.setIgnoredLines(v1.topBoundary, v1.bottomBoundary) r.insertTop(v1.lines, v1.topBoundary, v1.bottomBoundary) r.mtx.Lock() r.repaint() r.mtx.Unlock() case scrollUpMsg: r.insertTop(v1.lines, v1.topBoundary, v1.bottomBoundary) case scrollDownMsg: r.insertBottom(v1.lines, v1.topBoundary, v1.bottomBoundary) case printLineMessage: if !r.altScreenActive { v2 := strings.Split(v1.messageBody, \"\\n\") r.mtx.Lock() r.queuedMessageLines = append(r.queuedMessageLines, v2...) r.repaint() r.mtx.Unlock() } } }"]

def fact_body_standardRenderer_kill : List String := [
    "{ r.halt() r.mtx.Lock() defer r.mtx.Unlock() r.execute(ansi.EraseEntireLine) r.execute(\"\\r\") r.repaint() }"]

def fact_body_standardRenderer_lastLinesRendered : List String := [
    "{ if r.altScreenActive { return r.altLinesRendered } return r.linesRendered }"]

def fact_body_standardRenderer_listen : List String := [
    "{ for { select { case <-r.done: verifPause(\"listen: stop received\") return case <-r.ticker.C: r.flush() } } }"]

def fact_body_standardRenderer_render : List String := [
    "{ if r.buf.Len() == 0 || r.buf.String() == r.lastRender { return } v1 := &bytes.Buffer{} if r.altScreenActive { v1.WriteString(ansi.CursorHomePosition) } else if r.linesRendered > 1 { v1.WriteString(ansi.CursorUp(r.linesRendered - 1)) } v2 := strings.Split(r.buf.String(), \"\\n\") if r.height > 0 && len(v2) > r.height { v2 = v2[len(v2)-r.height:] } v3 := len(r.queuedMessageLines) > 0 && !r.altScreenActive if v3 { for _, v4 := range r.queuedMessageLines { if v5 := ansi.StringWidth(v4); r.width > 0 && (v5 == 0 || v5%r.width != 0) { v4 = v4 + ansi.EraseLineRight } _, _ = v1.WriteString(v4) _, _ = v1.WriteString(\"\\r\\n\") } r.queuedMessageLines = []string{} } v6 := r.lastLinesRendered() > len(v2) v7 := false for v8 := 0; v8 < len(v2); v8++ { v9 := v6 && v8 == len(v2)-1 v10 := !v3 && !v9 && len(r.lastRenderedLines) > v8 && r.lastRenderedLines[v8] == v2[v8] if _, v11 := r.ignoreLines[v8]; v11 || v10 { if v8 < len(v2)-1 { v1.WriteByte('\\n') } continue } if v8 == 0 && r.lastRender == \"\" { v1.WriteByte('\\r') } if v9 { v1.WriteString(ansi.EraseScreenBelow) v7 = true } v12 := v2[v8] if r.width > 0 { v12 = ansi.Truncate(v12, r.width, \"\") } if ansi.StringWidth(v12) < r.width { v12 = v12 + ansi.EraseLineRight } _, _ = v1.WriteString(v12) if v8 < len(v2)-1 { _, _ = v1.WriteString(\"\\r\\n\") } } if v6 && !v7 { v1.WriteString(ansi.EraseScreenBelow) } if r.altScreenActive { r.altLinesRendered = len(v2) } else { r.linesRendered = len(v2) } if r.altScreenActive { v1.WriteString(ansi.CursorPosition(0, len(v2))) } else { v1.WriteString(ansi.CursorBackward(r.width)) } _, _ = r.out.Write(v1.Bytes()) r.lastRender = r.buf.String() r.lastRenderedLines = v2 r.buf.Reset() }"]

def fact_body_standardRenderer_repaint : List String := [
    "{ r.lastRender = \"\" r.lastRenderedLines = nil }"]

def fact_body_standardRenderer_reportFocus : List String := [
    "{ r.mtx.Lock() defer r.mtx.Unlock() return r.reportingFocus }"]

def fact_body_standardRenderer_setWindowTitle : List String := [
    "{ r.execute(ansi.SetWindowTitle(a1)) }"]

def fact_body_standardRenderer_start : List String := [
    "{ r.listenMtx.Lock() defer r.listenMtx.Unlock() if r.ticker == nil { r.ticker = time.NewTicker(r.framerate) } else { r.ticker.Reset(r.framerate) } if r.listening { return } r.listening = true go r.listen() }"]

def fact_body_standardRenderer_stop : List String := [
    "{ r.halt() r.flush() r.mtx.Lock() defer r.mtx.Unlock() r.execute(ansi.EraseEntireLine) r.execute(\"\\r\") r.repaint() if r.useANSICompressor { if v1, v2 := r.out.(io.WriteCloser); v2 { _ = v1.Close() } } }"]

def fact_body_standardRenderer_write : List String := [
    "{ r.mtx.Lock() defer r.mtx.Unlock() r.buf.Reset() if a1 == \"\" { a1 = \" \" } _, _ = r.buf.WriteString(a1) }"]

def fact_body_startupOptions_has : List String := [
    "{ return s&a1 != 0 }"]

def fact_body_suspendProcess : List String := [
    "{ v1 := make(chan os.Signal, 1) signal.Notify(v1, syscall.SIGCONT) _ = syscall.Kill(0, syscall.SIGTSTP) <-v1 }"]

def fact_body_wrapExecCommand : List String := [
    "{ return &osExecCommand{Cmd: a1} }"]

def fact_bufsize : List String := [
    "256"]

def fact_calls : List String := [
    "Program.Kill|p.shutdown|go=false|defer=false",
    "Program.ReleaseTerminal|p.restoreTerminalState|go=false|defer=false",
    "Program.Run|p.shutdown|go=false|defer=false",
    "Program.Run|p.shutdown|go=false|defer=false",
    "Program.Run|recover|go=false|defer=true",
    "Program.Run|v9.Init|go=false|defer=false",
    "Program.Run|v9.View|go=false|defer=false",
    "Program.Run|v9.View|go=false|defer=false",
    "Program.eventLoop|a1.Update|go=false|defer=false",
    "Program.eventLoop|a1.View|go=false|defer=false",
    "Program.eventLoop|p.filter|go=false|defer=false",
    "Program.eventLoop|v12.handleMessages|go=false|defer=false",
    "Program.handleCommands|p.recoverFromPanic|go=true|defer=true",
    "Program.handlePanic|p.shutdown|go=false|defer=false",
    "Program.recoverFromPanic|recover|go=false|defer=false",
    "Program.shutdown|p.handlers.shutdown|go=false|defer=false",
    "Program.shutdown|p.restoreTerminalState|go=false|defer=false",
    "standardRenderer.listen|r.flush|go=false|defer=false",
    "standardRenderer.stop|r.flush|go=false|defer=false"]

def fact_closes : List String := [
    "Program.Run|p.finished",
    "Program.Run|v11",
    "Program.handleCommands|v1",
    "Program.handleResize|v1",
    "Program.handleSignals|v1",
    "Program.listenForResize|a1",
    "Program.readLoop|p.readLoopDone"]

def fact_ctxchecks : List String := [
    "Program.Run|p.ctx.Done",
    "Program.Run|p.ctx.Err",
    "Program.Run|p.ctx.Err",
    "Program.Send|p.ctx.Done",
    "Program.checkResize|p.ctx.Done",
    "Program.eventLoop|p.ctx.Done",
    "Program.eventLoop|p.ctx.Done",
    "Program.eventLoop|p.ctx.Done",
    "Program.handleCommands|p.ctx.Done",
    "Program.handleSignals|p.ctx.Done",
    "Program.listenForResize|p.ctx.Done",
    "Program.readLoop|p.ctx.Done",
    "readAnsiInputs|a1.Done",
    "readAnsiInputs|a1.Done",
    "readAnsiInputs|a1.Err",
    "readAnsiInputs|a1.Err"]

def fact_el_case_BatchMsg : List String := [
    "for _, v4 := range v3 { select { case <-p.ctx.Done(): return a1, nil case a2 <- v4: } }; continue"]

def fact_el_case_InterruptMsg : List String := [
    "return a1, ErrInterrupted"]

def fact_el_case_QuitMsg : List String := [
    "return a1, nil"]

def fact_el_case_SuspendMsg : List String := [
    "if suspendSupported { p.suspend() }"]

def fact_el_case_clearScreenMsg : List String := [
    "p.renderer.clearScreen()"]

def fact_el_case_disableBracketedPasteMsg : List String := [
    "p.renderer.disableBracketedPaste()"]

def fact_el_case_disableMouseMsg : List String := [
    "p.disableMouse(); if runtime.GOOS == \"windows\" && p.mouseMode { p.mouseMode = false p.initCancelReader(true) }"]

def fact_el_case_disableReportFocusMsg : List String := [
    "p.renderer.disableReportFocus()"]

def fact_el_case_enableBracketedPasteMsg : List String := [
    "p.renderer.enableBracketedPaste()"]

def fact_el_case_enableMouseCellMotionMsg_enableMouseAllMotionMsg : List String := [
    "switch v3.(type) { case enableMouseCellMotionMsg: p.renderer.enableMouseCellMotion() case enableMouseAllMotionMsg: p.renderer.enableMouseAllMotion() }; p.renderer.enableMouseSGRMode(); if runtime.GOOS == \"windows\" && !p.mouseMode { p.mouseMode = true p.initCancelReader(true) }"]

def fact_el_case_enableReportFocusMsg : List String := [
    "p.renderer.enableReportFocus()"]

def fact_el_case_enterAltScreenMsg : List String := [
    "p.renderer.enterAltScreen()"]

def fact_el_case_execMsg : List String := [
    "p.exec(v3.cmd, v3.fn)"]

def fact_el_case_exitAltScreenMsg : List String := [
    "p.renderer.exitAltScreen()"]

def fact_el_case_hideCursorMsg : List String := [
    "p.renderer.hideCursor()"]

def fact_el_case_sequenceMsg : List String := [
    "go func() { for _, v5 := range v3 { if v5 == nil { continue } v6 := v5() if v7, v8 := v6.(BatchMsg); v8 { v9, _ := errgroup.WithContext(p.ctx) for _, v10 := range v7 { if v10 == nil { continue } v11 := v10 v9.Go(func() error { p.Send(v11()) return nil }) } v9.Wait() continue } p.Send(v6) } }()"]

def fact_el_case_setWindowTitleMsg : List String := [
    "p.SetWindowTitle(string(v3))"]

def fact_el_case_showCursorMsg : List String := [
    "p.renderer.showCursor()"]

def fact_el_case_windowSizeMsg : List String := [
    "go p.checkResize()"]

def fact_el_cases : List String := [
    "QuitMsg",
    "InterruptMsg",
    "SuspendMsg",
    "clearScreenMsg",
    "enterAltScreenMsg",
    "exitAltScreenMsg",
    "enableMouseCellMotionMsg_enableMouseAllMotionMsg",
    "disableMouseMsg",
    "showCursorMsg",
    "hideCursorMsg",
    "enableBracketedPasteMsg",
    "disableBracketedPasteMsg",
    "enableReportFocusMsg",
    "disableReportFocusMsg",
    "execMsg",
    "BatchMsg",
    "sequenceMsg",
    "setWindowTitleMsg",
    "windowSizeMsg"]

def fact_el_head : List String := [
    "case <-p.ctx.Done(): return a1, nil",
    "case v1 := <-p.errs: return a1, v1",
    "case v2 := <-p.msgs:",
    "if p.filter != nil { v2 = p.filter(a1, v2) }",
    "if v2 == nil { continue }"]

def fact_el_tail : List String := [
    "if v12, v13 := p.renderer.(*standardRenderer); v13 { v12.handleMessages(v2) }",
    "var v14 Cmd",
    "a1, v14 = a1.Update(v2)",
    "select { case <-p.ctx.Done(): return a1, nil case a2 <- v14: }",
    "p.renderer.write(a1.View())"]

def fact_gostmts : List String := [
    "Program.RestoreTerminal|p.Send",
    "Program.RestoreTerminal|p.checkResize",
    "Program.Run|func-literal",
    "Program.eventLoop|func-literal",
    "Program.eventLoop|p.checkResize",
    "Program.exec|p.Send",
    "Program.exec|p.Send",
    "Program.exec|p.Send",
    "Program.handleCommands|func-literal",
    "Program.handleCommands|func-literal",
    "Program.handleResize|p.listenForResize",
    "Program.handleSignals|func-literal",
    "Program.initCancelReader|p.readLoop",
    "Program.suspend|p.Send",
    "channelHandlers.shutdown|func-literal",
    "standardRenderer.start|r.listen"]

def fact_locks : List String := [
    "altScreen|Lock;defer Unlock",
    "bracketedPasteActive|Lock;defer Unlock",
    "clearScreen|Lock;defer Unlock;r.execute;r.execute",
    "disableBracketedPaste|Lock;defer Unlock;r.execute",
    "disableMouseAllMotion|Lock;defer Unlock;r.execute",
    "disableMouseCellMotion|Lock;defer Unlock;r.execute",
    "disableMouseSGRMode|Lock;defer Unlock;r.execute",
    "disableReportFocus|Lock;defer Unlock;r.execute",
    "enableBracketedPaste|Lock;defer Unlock;r.execute",
    "enableMouseAllMotion|Lock;defer Unlock;r.execute",
    "enableMouseCellMotion|Lock;defer Unlock;r.execute",
    "enableMouseSGRMode|Lock;defer Unlock;r.execute",
    "enableReportFocus|Lock;defer Unlock;r.execute",
    "enterAltScreen|Lock;defer Unlock;r.execute;r.execute;r.execute;r.execute;r.execute",
    "execute|io.WriteString",
    "exitAltScreen|Lock;defer Unlock;r.execute;r.execute;r.execute",
    "flush|Lock;defer Unlock",
    "handleMessages|Lock;Unlock;Lock;Unlock;Lock;Unlock;Lock;Unlock;Lock;Unlock",
    "hideCursor|Lock;defer Unlock;r.execute",
    "insertBottom|Lock;defer Unlock;r.out.Write",
    "insertTop|Lock;defer Unlock;r.out.Write",
    "kill|Lock;defer Unlock;r.execute;r.execute",
    "listen|r.flush",
    "render|r.out.Write;r.buf.Reset",
    "reportFocus|Lock;defer Unlock",
    "setIgnoredLines|Lock;defer Unlock;r.out.Write",
    "setWindowTitle|r.execute",
    "showCursor|Lock;defer Unlock;r.execute",
    "stop|r.flush;Lock;defer Unlock;r.execute;r.execute",
    "write|Lock;defer Unlock;r.buf.Reset;r.buf.WriteString"]

def fact_makechans : List String := [
    "NewProgram|chan Msg|cap=0",
    "NewProgram|chan struct{}|cap=0",
    "Program.Run|chan Cmd|cap=0",
    "Program.Run|chan error|cap=0",
    "Program.Run|chan struct{}|cap=0",
    "Program.Run|chan struct{}|cap=0",
    "Program.handleCommands|chan struct{}|cap=0",
    "Program.handleResize|chan struct{}|cap=0",
    "Program.handleSignals|chan os.Signal|cap=1",
    "Program.handleSignals|chan struct{}|cap=0",
    "Program.initCancelReader|chan struct{}|cap=0",
    "Program.listenForResize|chan os.Signal|cap=1",
    "newRenderer|chan struct{}|cap=0",
    "suspendProcess|chan os.Signal|cap=1"]

def fact_methods_osExecCommand : List String := [
    "SetStderr",
    "SetStdin",
    "SetStdout"]

def fact_order_Program_ReleaseTerminal : List String := [
    "atomic.StoreUint32(&p.ignoreSignals,1)",
    "[p.cancelReader != nil]p.cancelReader.Cancel",
    "p.waitForReadLoop",
    "[p.renderer != nil]p.renderer.stop",
    "[p.renderer != nil]p.renderer.altScreen",
    "[p.renderer != nil]p.renderer.bracketedPasteActive",
    "[p.renderer != nil]p.renderer.reportFocus",
    "p.restoreTerminalState"]

def fact_order_Program_RestoreTerminal : List String := [
    "[!p.withoutSignals]atomic.StoreUint32(&p.ignoreSignals,0)",
    "p.initTerminal",
    "[p.input != nil]p.initCancelReader(false)",
    "[p.altScreenWasActive]p.renderer.enterAltScreen",
    "[!p.altScreenWasActive]p.Send",
    "[p.renderer != nil]p.renderer.start",
    "[p.bpWasActive]p.renderer.enableBracketedPaste",
    "[p.reportFocus]p.renderer.enableReportFocus",
    "p.checkResize"]

def fact_order_Program_Run : List String := [
    "close(p.finished)",
    "p.cancel",
    "openInputTTY",
    "openInputTTY",
    "verifPause",
    "p.startupOptions.has",
    "[!p.startupOptions.has(withoutSignalHandler)]p.handlers.add",
    "[!p.startupOptions.has(withoutSignalHandler)]p.handleSignals",
    "p.startupOptions.has",
    "[!p.startupOptions.has(withoutCatchPanics)]{lit}[_ != nil]p.handlePanic",
    "[p.renderer == nil]newRenderer",
    "[p.renderer == nil]p.startupOptions.has",
    "verifPause",
    "p.initTerminal",
    "[_ != nil]verifPause",
    "[p.startupTitle != \"\"]p.renderer.setWindowTitle",
    "[p.startupOptions&withAltScreen != 0]p.renderer.enterAltScreen",
    "[p.startupOptions&withoutBracketedPaste == 0]p.renderer.enableBracketedPaste",
    "[p.startupOptions&withMouseCellMotion != 0]p.renderer.enableMouseCellMotion",
    "[p.startupOptions&withMouseCellMotion != 0]p.renderer.enableMouseSGRMode",
    "[!p.startupOptions&withMouseCellMotion != 0][p.startupOptions&withMouseAllMotion != 0]p.renderer.enableMouseAllMotion",
    "[!p.startupOptions&withMouseCellMotion != 0][p.startupOptions&withMouseAllMotion != 0]p.renderer.enableMouseSGRMode",
    "[p.startupOptions&withReportFocus != 0]p.renderer.enableReportFocus",
    "verifPause",
    "verifPause",
    "p.renderer.start",
    "[_ != nil]p.handlers.add",
    "[_ != nil]verifPause",
    "[_ != nil]{lit}close(_)",
    "[_ != nil]{lit}verifPause",
    "[_ != nil]{lit}p.ctx.Done",
    "verifPause",
    "p.renderer.write",
    "verifPause",
    "[p.input != nil]p.initCancelReader(false)",
    "[p.input != nil][_ != nil]verifPause",
    "[p.input != nil][_ != nil]p.shutdown(true)",
    "verifPause",
    "p.handlers.add",
    "p.handleResize",
    "p.handlers.add",
    "p.handleCommands",
    "p.eventLoop",
    "verifPause",
    "p.ctx.Err",
    "[_ && _ == nil]p.ctx.Err",
    "[_ == nil]p.renderer.write",
    "p.shutdown(_)",
    "verifPause"]

def fact_order_Program_disableMouse : List String := [
    "p.renderer.disableMouseCellMotion",
    "p.renderer.disableMouseAllMotion",
    "p.renderer.disableMouseSGRMode"]

def fact_order_Program_exec : List String := [
    "p.ReleaseTerminal",
    "[_ != nil][_ != nil]p.Send",
    "[_ != nil]p.RestoreTerminal",
    "[_ != nil][_ != nil]p.Send",
    "p.RestoreTerminal",
    "[_ != nil]p.Send"]

def fact_order_Program_initTerminal : List String := [
    "p.initInput",
    "p.renderer.hideCursor"]

def fact_order_Program_recoverFromPanic : List String := [
    "[_ != nil]p.handlePanic"]

def fact_order_Program_restoreTerminalState : List String := [
    "[p.renderer != nil]p.renderer.disableBracketedPaste",
    "[p.renderer != nil]p.renderer.showCursor",
    "[p.renderer != nil]p.disableMouse",
    "[p.renderer != nil]p.renderer.reportFocus",
    "[p.renderer != nil][p.renderer.reportFocus()]p.renderer.disableReportFocus",
    "[p.renderer != nil]p.renderer.altScreen",
    "[p.renderer != nil][p.renderer.altScreen()]p.renderer.exitAltScreen",
    "p.restoreInput"]

def fact_order_Program_shutdown : List String := [
    "verifPause",
    "p.cancel",
    "p.handlers.shutdown",
    "verifPause",
    "verifPause",
    "[p.cancelReader != nil]p.cancelReader.Cancel",
    "[p.cancelReader != nil][p.cancelReader.Cancel()][!_]p.waitForReadLoop",
    "[p.cancelReader != nil]p.cancelReader.Close",
    "[p.renderer != nil][_]p.renderer.kill",
    "[p.renderer != nil][!_]p.renderer.stop",
    "verifPause",
    "p.restoreTerminalState",
    "verifPause"]

def fact_order_standardRenderer_kill : List String := [
    "r.halt",
    "r.mtx.Lock",
    "r.mtx.Unlock",
    "r.execute(ansi.EraseEntireLine)",
    "r.execute(\"\\r\")",
    "r.repaint"]

def fact_order_standardRenderer_listen : List String := [
    "verifPause",
    "r.flush"]

def fact_order_standardRenderer_start : List String := [
    "r.listenMtx.Lock",
    "r.listenMtx.Unlock",
    "[!r.ticker == nil]r.ticker.Reset",
    "r.listen"]

def fact_order_standardRenderer_stop : List String := [
    "r.halt",
    "r.flush",
    "r.mtx.Lock",
    "r.mtx.Unlock",
    "r.execute(ansi.EraseEntireLine)",
    "r.execute(\"\\r\")",
    "r.repaint"]

def fact_recvs : List String := [
    "Every|v3.C|bare|go=false",
    "Every|v3.C|bare|go=false",
    "Program.Run|p.ctx.Done()|select+done|go=true",
    "Program.Run|p.finished|select+default|go=false",
    "Program.Send|p.ctx.Done()|select+done|go=false",
    "Program.Wait|p.finished|bare|go=false",
    "Program.checkResize|p.ctx.Done()|select+done|go=false",
    "Program.eventLoop|p.ctx.Done()|select+done|go=false",
    "Program.eventLoop|p.ctx.Done()|select+done|go=false",
    "Program.eventLoop|p.ctx.Done()|select+done|go=false",
    "Program.eventLoop|p.errs|select+done|go=false",
    "Program.eventLoop|p.msgs|select+done|go=false",
    "Program.handleCommands|a1|select+done|go=true",
    "Program.handleCommands|p.ctx.Done()|select+done|go=true",
    "Program.handleSignals|p.ctx.Done()|select+done|go=true",
    "Program.handleSignals|v2|select+done|go=true",
    "Program.listenForResize|p.ctx.Done()|select+done|go=false",
    "Program.listenForResize|v1|select+done|go=false",
    "Program.readLoop|p.ctx.Done()|select+done|go=false",
    "Program.waitForReadLoop|p.readLoopDone|select|go=false",
    "Program.waitForReadLoop|time.After(500 * time.Millisecond)|select|go=false",
    "Tick|v1.C|bare|go=false",
    "Tick|v1.C|bare|go=false",
    "channelHandlers.shutdown|v3|bare|go=true",
    "readAnsiInputs|a1.Done()|select+done|go=false",
    "readAnsiInputs|a1.Done()|select+done|go=false",
    "standardRenderer.listen|r.done|select|go=false",
    "standardRenderer.listen|r.ticker.C|select|go=false",
    "suspendProcess|v1|bare|go=false"]

def fact_regexps : List String := [
    "mouseSGRRegex|`(\\d+);(\\d+);(\\d+)([Mm])`",
    "unknownCSIRe|`^\\x1b\\[[\\x30-\\x3f]*[\\x20-\\x2f]*[\\x40-\\x7e]`"]

def fact_sendcalls : List String := [
    "Program.Printf|printLineMessage{ messageBody: fmt.Sprintf(a1, a2...), }|go=false",
    "Program.Println|printLineMessage{ messageBody: fmt.Sprint(a1...), }|go=false",
    "Program.Quit|Quit()|go=false",
    "Program.RestoreTerminal|repaintMsg{}|go=true",
    "Program.checkResize|WindowSizeMsg{ Width: v1, Height: v2, }|go=false",
    "Program.eventLoop|v11()|go=true",
    "Program.eventLoop|v6|go=true",
    "Program.exec|a2(v1)|go=true",
    "Program.exec|a2(v2)|go=true",
    "Program.exec|a2(v3)|go=true",
    "Program.handleCommands|v3|go=true",
    "Program.handleSignals|InterruptMsg{}|go=true",
    "Program.handleSignals|QuitMsg{}|go=true",
    "Program.suspend|ResumeMsg{}|go=true"]

def fact_sends : List String := [
    "Program.Run|v1|select+done|go=true",
    "Program.Send|p.msgs|select+done|go=false",
    "Program.checkResize|p.errs|select+done|go=false",
    "Program.eventLoop|a2|select+done|go=false",
    "Program.eventLoop|a2|select+done|go=false",
    "Program.readLoop|p.errs|select+done|go=false",
    "readAnsiInputs|a2|select+done|go=false",
    "readAnsiInputs|a2|select+done|go=false",
    "standardRenderer.halt|r.done|bare|go=false"]

def fact_sig_Program_Run : List String := [
    "func() (o1 Model, o2 error)"]

end Tea.Doc
