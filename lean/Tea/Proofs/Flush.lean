import Tea.Proofs.PaintLoop
import Tea.Proofs.TermLift
/-
`flush` as a whole: the shape of its output, the frame it paints, and the effect
of an alt-screen flush / an inline flush on a terminal buffer.
-/
namespace Tea.Render
open Tea Tea.VT

/-! ### every operation of the paint loop is a buffer operation -/

theorem paintLineOps_bufOps (r : RState) (fq sh : Bool) (n i : Nat) (l : Line) :
    ∀ op ∈ paintLineOps r fq sh n i l, isBufOp op = true := by
  have : (paintLineOps r fq sh n i l).all isBufOp = true := by
    unfold paintLineOps
    simp only []
    repeat' split
    all_goals simp [isBufOp]
  simpa [List.all_eq_true] using this

theorem paintOps_bufOps (r : RState) (fq sh : Bool) (n : Nat) : ∀ (ls : List Line) (i : Nat),
    ∀ op ∈ paintOps r fq sh n i ls, isBufOp op = true := by
  intro ls
  induction ls with
  | nil => intro i op hop; simp [paintOps] at hop
  | cons l ls ih =>
    intro i op hop
    simp only [paintOps, List.mem_append] at hop
    rcases hop with hop | hop
    · exact paintLineOps_bufOps r fq sh n i l op hop
    · exact ih (i + 1) op hop

theorem queuedLineOps_isBufOp (w : Nat) (l : Line) : ∀ op ∈ queuedLineOps w l, isBufOp op = true := by
  have : (queuedLineOps w l).all isBufOp = true := by
    unfold queuedLineOps
    split <;> simp [isBufOp]
  simpa [List.all_eq_true] using this

/-- every operation a flush writes (cursor-up / HOME, the printed lines, the paint loop, the final
cursor move) acts on the active buffer only -/
theorem flush_bufOps (r : RState) : ∀ op ∈ (flush r).2, isBufOp op = true := by
  intro op hop
  unfold flush at hop
  split at hop
  · simp at hop
  · simp only [List.mem_append] at hop
    rcases hop with ((hop | hop) | hop) | hop
    · split at hop
      · simp at hop; subst hop; rfl
      · split at hop
        · simp at hop; subst hop; rfl
        · simp at hop
    · split at hop
      · obtain ⟨l, _, hl⟩ := List.mem_flatMap.1 hop
        exact queuedLineOps_isBufOp _ l op hl
      · simp at hop
    · exact paintOps_bufOps _ _ _ _ _ _ op hop
    · split at hop <;> (simp at hop; subst hop; rfl)

/-! ### the frame -/

/-- the lines a flush paints, as a function of the height and the view -/
def frameOf (height : Nat) (buf : Bytes) : List Line :=
  let ls := splitLines buf
  if height > 0 && ls.length > height then ls.drop (ls.length - height) else ls

theorem frameLines_eq (r : RState) : frameLines r = frameOf r.height r.buf := rfl

theorem splitLines_go_length_pos : ∀ (s : Bytes) (cur : Line), 1 ≤ (splitLines.go s cur).length := by
  intro s
  induction s with
  | nil => intro cur; simp [splitLines.go]
  | cons c cs ih =>
    intro cur
    simp only [splitLines.go]
    split
    · simp
    · exact ih _

theorem splitLines_length_pos (s : Bytes) : 1 ≤ (splitLines s).length :=
  splitLines_go_length_pos s []

/-- the frame is the last `height` lines of the view (all of them if there are fewer) -/
theorem frameOf_eq_drop (height : Nat) (buf : Bytes) (hh : 1 ≤ height) :
    frameOf height buf = (splitLines buf).drop ((splitLines buf).length - height) := by
  unfold frameOf
  simp only []
  by_cases hl : (splitLines buf).length > height
  · simp [hl]; omega
  · have : (splitLines buf).length - height = 0 := by omega
    simp [hl, this]

theorem frameOf_length_pos (height : Nat) (buf : Bytes) : 1 ≤ (frameOf height buf).length := by
  have := splitLines_length_pos buf
  unfold frameOf
  simp only []
  split
  · rename_i hc
    simp at hc
    simp [List.length_drop]
    omega
  · exact this

theorem frameOf_length_le (height : Nat) (buf : Bytes) (hh : 1 ≤ height) :
    (frameOf height buf).length ≤ height := by
  rw [frameOf_eq_drop height buf hh]
  simp [List.length_drop]
  omega

/-! ### the shape of a flush -/

/-- a flush does nothing when there is no view or the view is byte-identical to the last one -/
theorem flush_noop (r : RState) (h : (r.buf.isEmpty || r.buf == r.lastRender) = true) :
    flush r = (r, []) := by
  unfold flush
  rw [if_pos h]

/-- the operations of a flush on the alt screen -/
theorem flush_alt_ops (r : RState) (halt : r.altActive = true)
    (h : (r.buf.isEmpty || r.buf == r.lastRender) = false) :
    (flush r).2 = [.home] ++ (paintOps r false (decide (r.altLinesRendered > (frameLines r).length))
        (frameLines r).length 0 (frameLines r) ++ [.cup (frameLines r).length]) := by
  unfold flush
  simp [h, halt, RState.lastLinesRendered]

/-- the state after a flush that paints -/
theorem flush_state (r : RState) (h : (r.buf.isEmpty || r.buf == r.lastRender) = false) :
    (flush r).1 = { r with
      queued := if (!r.queued.isEmpty && !r.altActive) = true then [] else r.queued
      linesRendered := if r.altActive = true then r.linesRendered else (frameLines r).length
      altLinesRendered := if r.altActive = true then (frameLines r).length else r.altLinesRendered
      lastRender := r.buf
      lastLines := some (frameLines r)
      buf := [] } := by
  unfold flush
  simp [h]

/-! ### an alt-screen flush on a buffer -/

/-- HOME, the paint loop, CUP n on a buffer, from any cursor position: no scrolling, the `n ≤ h`
lines end up in the first `n` window rows (given that skipped lines were already there), rows
below are untouched or (when shrinking) blank, the cursor ends at the start of window row
`n - 1` -/
theorem altFlush_buf (r : RState) (sh : Bool) (w h : Nat) (b : Buf) (ls : List Line)
    (hw : r.width = w) (hw1 : 1 ≤ w) (hn1 : 1 ≤ ls.length) (hnh : ls.length ≤ h)
    (hskip : ∀ j l, ls[j]? = some l → canSkip r false sh ls.length j l = true →
      rowShows w b (b.top + j) (Ansi.visible l)) :
    ∀ b', b' = applyBufs w h b ([.home] ++ (paintOps r false sh ls.length 0 ls ++ [.cup ls.length])) →
    b'.top = b.top ∧ b'.cr = b.top + ls.length - 1 ∧ b'.cc = 0 ∧ b'.pw = false ∧
    (∀ j l, ls[j]? = some l → rowShows w b' (b.top + j) (Ansi.visible l)) ∧
    (∀ ρ, ρ < b.top → ∀ c, b'.cells ρ c = b.cells ρ c) ∧
    (sh = false → ∀ ρ, b.top + ls.length ≤ ρ → ∀ c, b'.cells ρ c = b.cells ρ c) ∧
    (sh = true → ∀ ρ, b.top + ls.length ≤ ρ → ρ < b.top + h → rowBlank w b' ρ) := by
  intro b' hb'
  replace hb' : b' = applyBuf w h (applyBufs w h (applyBuf w h b .home)
      (paintOps r false sh ls.length 0 ls)) (.cup ls.length) := by
    rw [hb']
    simp only [applyBufs_cons, applyBufs_append, applyBufs_nil]
  have hh1 : 1 ≤ h := by omega
  have hcr0 := applyBuf_home_cr w h b hh1
  obtain ⟨s1, _, s3, s4, s5, s6, s7⟩ := paintOps_spec r false sh ls.length w h hw hw1 ls 0
    (applyBuf w h b .home) (by simp) (by intro hnil; rw [hnil] at hn1; simp at hn1)
    (by simp) (by simp) (by rw [hcr0]; simp; omega)
    (by
      intro j l hj hcs
      rw [hcr0]
      exact rowShows_congr (fun c => by simp) (hskip j l hj (by simpa using hcs)))
  rw [hcr0] at s1 s3 s4 s5 s6 s7
  simp only [applyBuf_home_top, applyBuf_home_cells] at s3 s4 s5 s6 s7
  have htop : (applyBufs w h (applyBuf w h b .home) (paintOps r false sh ls.length 0 ls)).top = b.top := by
    rw [s3]; omega
  rw [htop] at s7
  generalize applyBufs w h (applyBuf w h b .home) (paintOps r false sh ls.length 0 ls) = b2 at *
  subst hb'
  refine ⟨by simp [htop], ?_, by simp, by simp, ?_, ?_, ?_, ?_⟩
  · rw [applyBuf_cup_cr w h b2 _ hn1 hnh, htop]
  · intro j l hj
    exact rowShows_congr (fun c => by simp) (s4 j l hj)
  · intro ρ hρ c
    simpa using s5 ρ hρ c
  · intro hsh ρ hρ c
    simpa using s6 hsh ρ hρ c
  · intro hsh ρ hρ hρ2
    exact rowBlank_congr (fun c => by simp) (s7 hsh ρ hρ hρ2)

end Tea.Render
