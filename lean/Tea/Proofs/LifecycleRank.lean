import Tea.Proofs.Lifecycle
/-
The rank argument for C04: every progress step (the internal steps of Run's start-up and of an Exec
included) strictly decreases `rank`, every return of user code decreases `rank` or the user code in
progress (`sched`), no other step except
`killCall` increases it, the no-deadlock lemma, and their combination.
-/
namespace Tea.Runtime.Life
set_option linter.unusedSimpArgs false

theorem rank_setKiller (s s' : St) (j : Nat) (x y : ShPhase) (h : s.killers[j]? = some y)
    (hxy : phaseW x < phaseW y) (hk : s'.killers = s.killers.set j x)
    (h1 : s'.runPc = s.runPc) (h2 : s'.runSh = s.runSh) (h3 : s'.el = s.el)
    (h4 : s'.dispAlive = s.dispAlive) (h5 : s'.sig = s.sig) (h6 : s'.resize = s.resize)
    (h7 : s'.initG = s.initG) (h8 : s'.reader = s.reader) (h9 : s'.senders = s.senders) :
    rank s' < rank s := by
  have := killersW_set (x := x) h
  simp only [rank, runW, hk, h1, h2, h3, h4, h5, h6, h7, h8, h9]
  omega

/-- every progress step strictly decreases the rank -/
theorem rank_decreases {s s' : St} {l : Label} (hp : progressLabel l = true)
    (hs : step s l = some s') : rank s' < rank s := by
  step_cases hs l
  all_goals first
    | (simp [progressLabel] at hp; done)
    | (simp_all [rank, runW, phaseW, elW, sigW, hW, readW, stageW]; done)
    | (simp_all [rank, runW, phaseW, elW, sigW, hW, readW, stageW]; omega)
    | (simp_all [rank, runW, phaseW, elW, sigW, hW, readW, stageW, sendersW_append, sendersW_user2]; done)
    | (simp_all [rank, runW, phaseW, elW, sigW, hW, readW, stageW, sendersW_append, sendersW_user2]; omega)
    | exact rank_setKiller _ _ _ _ _ (by assumption) (by decide) rfl rfl rfl rfl rfl rfl rfl rfl rfl rfl
    | exact rank_setKiller _ _ _ _ _ (And.left (by assumption)) (by decide) rfl rfl rfl rfl rfl rfl rfl rfl rfl rfl

/-- ... and so does every return of the user code of Run's start-up -/
theorem rank_decreases_startup {s s' : St} {l : Label} (hp : startupScheduleLabel l = true)
    (hs : step s l = some s') : rank s' < rank s := by
  cases hpl : progressLabel l with
  | true => exact rank_decreases hpl hs
  | false =>
    have hr : startupReturn l = true := by simpa [startupScheduleLabel, hpl] using hp
    cases l <;> simp [startupReturn] at hr <;>
      (simp only [step] at hs; split at hs <;> cases hs; simp_all [rank, runW, stageW])

theorem sched_setKiller (s s' : St) (j : Nat) (x y : ShPhase) (h : s.killers[j]? = some y)
    (hxy : phaseW x < phaseW y) (hk : s'.killers = s.killers.set j x)
    (h1 : s'.runPc = s.runPc) (h2 : s'.runSh = s.runSh) (h3 : s'.el = s.el)
    (h4 : s'.dispAlive = s.dispAlive) (h5 : s'.sig = s.sig) (h6 : s'.resize = s.resize)
    (h7 : s'.initG = s.initG) (h8 : s'.reader = s.reader) (h9 : s'.senders = s.senders)
    (h10 : pendW s' ≤ pendW s) : rank s' + pendW s' < rank s + pendW s := by
  have := rank_setKiller s s' j x y h hxy hk h1 h2 h3 h4 h5 h6 h7 h8 h9
  omega

/-- the measure of the schedules: the rank, plus one for user code in progress on the loop (or to be
entered by the Exec in progress), plus one for the listen goroutine inside the user's writer -/
def sched (s : St) : Nat := rank s + pendW s

/-- every progress step and every return of user code strictly decreases `sched` -/
theorem sched_decreases {s s' : St} {l : Label} (hp : scheduleLabel l = true)
    (hs : step s l = some s') : sched s' < sched s := by
  unfold sched
  step_cases hs l
  all_goals first
    | (simp [scheduleLabel, progressLabel, userReturn] at hp; done)
    | (simp_all [rank, pendW, runW, phaseW, elW, sigW, hW, readW, stageW]; done)
    | (simp_all [rank, pendW, runW, phaseW, elW, sigW, hW, readW, stageW]; omega)
    | (simp_all [rank, pendW, runW, phaseW, elW, sigW, hW, readW, stageW, sendersW_append, sendersW_user2]; done)
    | (simp_all [rank, pendW, runW, phaseW, elW, sigW, hW, readW, stageW, sendersW_append, sendersW_user2]; omega)
    | exact sched_setKiller _ _ _ _ _ (by assumption) (by decide) rfl rfl rfl rfl rfl rfl rfl rfl rfl rfl
        (Nat.le_refl _)
    | exact sched_setKiller _ _ _ _ _ (by assumption) (by decide) rfl rfl rfl rfl rfl rfl rfl rfl rfl rfl
        (by simp_all [pendW])
    | exact sched_setKiller _ _ _ _ _ (And.left (by assumption)) (by decide) rfl rfl rfl rfl rfl rfl rfl rfl rfl rfl
        (Nat.le_refl _)

theorem rank_setKiller_le (s s' : St) (j : Nat) (x y : ShPhase) (h : s.killers[j]? = some y)
    (hxy : phaseW x ≤ phaseW y) (hk : s'.killers = s.killers.set j x)
    (h1 : s'.runPc = s.runPc) (h2 : s'.runSh = s.runSh) (h3 : s'.el = s.el)
    (h4 : s'.dispAlive = s.dispAlive) (h5 : s'.sig = s.sig) (h6 : s'.resize = s.resize)
    (h7 : s'.initG = s.initG) (h8 : s'.reader = s.reader) (h9 : s'.senders = s.senders) :
    rank s' ≤ rank s := by
  have := killersW_set (x := x) h
  simp only [rank, runW, hk, h1, h2, h3, h4, h5, h6, h7, h8, h9]
  omega

/-- a step that changes one Send caller (and possibly the loop) does not increase the rank if it does
not increase the caller's and the loop's shares together -/
theorem rank_setSender_le (s s' : St) (j : Nat) (x y : Caller) (h : s.senders[j]? = some y)
    (hk : s'.senders = s.senders.set j x) (hw : callerW x + elW s'.el ≤ callerW y + elW s.el)
    (h1 : s'.runPc = s.runPc) (h2 : s'.runSh = s.runSh) (h3 : s'.killers = s.killers)
    (h4 : s'.dispAlive = s.dispAlive) (h5 : s'.sig = s.sig) (h6 : s'.resize = s.resize)
    (h7 : s'.initG = s.initG) (h8 : s'.reader = s.reader) : rank s' ≤ rank s := by
  have := sendersW_set (x := x) h
  simp only [rank, runW, hk, h1, h2, h3, h4, h5, h6, h7, h8]
  omega

/-- no step other than a new `Kill()` / panic handler entering shutdown increases the rank -/
theorem rank_le {s s' : St} {l : Label} (hl : l ≠ .killCall)
    (hs : step s l = some s') : rank s' ≤ rank s := by
  step_cases hs l
  all_goals first
    | exact absurd rfl hl
    | exact Nat.le_refl _
    | (simp_all [rank, runW, phaseW, elW, sigW, hW, readW, stageW]; done)
    | (simp_all [rank, runW, phaseW, elW, sigW, hW, readW, stageW]; omega)
    | (simp_all [rank, runW, phaseW, elW, sigW, hW, readW, stageW, sendersW_append, sendersW_user1, sendersW_user2]; done)
    | (simp_all [rank, runW, phaseW, elW, sigW, hW, readW, stageW, sendersW_append, sendersW_user1, sendersW_user2]; omega)
    | (refine rank_setSender_le _ _ _ _ _ (by assumption) rfl ?_ rfl rfl rfl rfl rfl rfl rfl rfl
       simp_all [callerW, elW]; done)
    | (refine rank_setSender_le _ _ _ _ _ (by assumption) rfl ?_ rfl rfl rfl rfl rfl rfl rfl rfl
       simp_all [callerW, elW]; split <;> simp_all; done)
    | exact rank_setKiller_le _ _ _ _ _ (by assumption) (by decide) rfl rfl rfl rfl rfl rfl rfl rfl rfl rfl
    | exact rank_setKiller_le _ _ _ _ _ (And.left (by assumption)) (by decide) rfl rfl rfl rfl rfl rfl rfl rfl rfl rfl

/-- a new shutdown caller adds its seven phases (six steps) of work -/
theorem rank_killCall {s s' : St} (hs : step s .killCall = some s') : rank s' = rank s + 6 := by
  simp only [step] at hs
  cases hs
  simp only [rank, runW, killersW_append]
  omega

/-! ### no deadlock -/

/-- with the context cancelled, a handler that has not finished can finish by itself -/
theorem handlers_progress {s : St} (hctx : s.ctxDone = true) (hd : handlersDone s = false) :
    ∃ l, progressLabel l = true ∧ (step s l).isSome = true := by
  by_cases h1 : s.dispAlive = true
  · exact ⟨.dispExit, rfl, by simp [step, h1, hctx]⟩
  cases h2 : s.sig with
  | waiting => exact ⟨.sigExit, rfl, by simp [step, h2, hctx]⟩
  | sending b => exact ⟨.sigAbort, rfl, by simp [step, h2, hctx]⟩
  | absent =>
    cases h3 : s.resize with
    | waiting => exact ⟨.resizeExit, rfl, by simp [step, h3, hctx]⟩
    | absent =>
      cases h4 : s.initG with
      | waiting => exact ⟨.initAbort, rfl, by simp [step, h4, hctx]⟩
      | absent => simp [handlersDone, sigGone, handlerGone, h1, h2, h3, h4] at hd
      | exited => simp [handlersDone, sigGone, handlerGone, h1, h2, h3, h4] at hd
    | exited =>
      cases h4 : s.initG with
      | waiting => exact ⟨.initAbort, rfl, by simp [step, h4, hctx]⟩
      | absent => simp [handlersDone, sigGone, handlerGone, h1, h2, h3, h4] at hd
      | exited => simp [handlersDone, sigGone, handlerGone, h1, h2, h3, h4] at hd
  | exited =>
    cases h3 : s.resize with
    | waiting => exact ⟨.resizeExit, rfl, by simp [step, h3, hctx]⟩
    | absent =>
      cases h4 : s.initG with
      | waiting => exact ⟨.initAbort, rfl, by simp [step, h4, hctx]⟩
      | absent => simp [handlersDone, sigGone, handlerGone, h1, h2, h3, h4] at hd
      | exited => simp [handlersDone, sigGone, handlerGone, h1, h2, h3, h4] at hd
    | exited =>
      cases h4 : s.initG with
      | waiting => exact ⟨.initAbort, rfl, by simp [step, h4, hctx]⟩
      | absent => simp [handlersDone, sigGone, handlerGone, h1, h2, h3, h4] at hd
      | exited => simp [handlersDone, sigGone, handlerGone, h1, h2, h3, h4] at hd

/-- with a live context, every shutdown caller on another goroutine is still before `cancel()`,
so the first one can take that step -/
theorem killer_progress {c : Config} {s : St} (hr : Reachable c s) (hctx : ¬ s.ctxDone = true)
    (hk : s.killers ≠ []) : (step s (.shCancel (some 0))).isSome = true := by
  cases hks : s.killers with
  | nil => exact absurd hks hk
  | cons ph ks =>
    have hph : ph = .cancel := by
      apply Classical.byContradiction
      intro hne
      exact hctx ((inv_ctx hr).killers ph (by rw [hks]; exact List.mem_cons_self) hne)
    simp [step, phaseOf, hks, hph]

/-- `halt()` never waits unless the listen goroutine is inside the user's writer: whoever has
reached the renderer phase of its shutdown can take the step - whether the renderer has been
created or not, started or not, halted already or not -/
theorem shRenderer_enabled (s : St) (who : Option Nat) (hph : phaseOf s who = some .renderer)
    (hfl : s.listen ≠ .flushing) : (step s (.shRenderer who)).isSome = true := by
  simp only [step]
  rw [if_pos hph]
  split
  · rfl
  · cases hl : s.listen with
    | flushing => exact absurd hl hfl
    | _ => rfl

/-- ... and exactly then: the step of somebody in its renderer phase is disabled iff the renderer
exists and its listen goroutine is inside the user's writer -/
theorem shRenderer_disabled_iff (s : St) (who : Option Nat) (hph : phaseOf s who = some .renderer) :
    step s (.shRenderer who) = none ↔ (s.rendererMade = true ∧ s.listen = .flushing) := by
  simp only [step]
  rw [if_pos hph]
  cases hm : s.rendererMade <;> cases hl : s.listen <;> simp

/-- Run's return cannot be blocked: in every reachable state in which termination has begun,
Run has not returned and no user callback is in progress, some progress step is enabled -/
theorem no_deadlock {c : Config} {s : St} (hr : Reachable c s) (ht : Terminating s)
    (hn : s.runPc ≠ .returned) (hc : NoCallback s) :
    ∃ l, progressLabel l = true ∧ (step s l).isSome = true := by
  have I := inv_ctx hr
  have S := inv_start hr
  obtain ⟨hcb, hvw, hfl, hmw, hic, hfv, hxc⟩ := hc
  cases hpc : s.runPc with
  | returned => exact absurd hpc hn
  | starting p =>
    cases p with
    | sigHandler => exact ⟨.suSigHandler, rfl, by simp [step, hpc]⟩
    | newRenderer => exact ⟨.suNewRenderer, rfl, by simp [step, hpc]⟩
    | modeWrites => exact absurd hpc hmw
    | startRenderer => exact ⟨.suStartRenderer, rfl, by simp [step, hpc]⟩
    | initCall => exact absurd hpc hic
    | spawnInit => exact ⟨.suSpawnInit, rfl, by simp [step, hpc]⟩
    | firstView => exact absurd hpc hfv
    | openReader => exact ⟨.suOpenReader, rfl, by simp [step, hpc]⟩
    | spawnHandlers => exact ⟨.suSpawnHandlers, rfl, by simp [step, hpc, (S.starting _ hpc).1]⟩
  | loop =>
    have hkill : ¬ s.ctxDone = true → (∀ cz, s.el ≠ .exited cz) → s.killers ≠ [] := by
      intro hctx hel
      rcases ht with h | ⟨cz, h⟩ | h | h | h
      · exact absurd h hctx
      · exact absurd h (hel cz)
      · exact h
      · rw [hpc] at h; cases h
      · rw [hpc] at h; cases h
    cases hel : s.el with
    | notStarted => exact absurd hel (S.loop hpc).1
    | callback => exact absurd hel hcb
    | view => exact absurd hel hvw
    | exited cz => exact ⟨.runTail, rfl, by simp [step, hel, hpc]⟩
    | execCmd => exact absurd hel hxc
    | execRelease ph =>
      cases ph with
      | cancelReader => exact ⟨.exRelCancel, rfl, by simp [step, hel]⟩
      | waitRead => exact ⟨.exRelWaitTimeout, rfl, by simp [step, hel]⟩
      | renderer =>
        refine ⟨.exRelRenderer, rfl, ?_⟩
        simp only [step, hel, if_true]
        split
        · rfl
        · cases hl : s.listen with
          | flushing => exact absurd hl hfl
          | _ => rfl
      | restore => exact ⟨.exRelRestore, rfl, by simp [step, hel]⟩
    | execRestore ph =>
      cases ph with
      | reader =>
        refine ⟨.exResReader, rfl, ?_⟩
        simp only [step, hel, if_true]
        split <;> rfl
      | renderer => exact ⟨.exResRenderer, rfl, by simp [step, hel]⟩
      | spawn => exact ⟨.exResSpawn, rfl, by simp [step, hel]⟩
    | select =>
      by_cases hctx : s.ctxDone = true
      · exact ⟨.elCtxExit, rfl, by simp [step, hel, hctx]⟩
      · exact ⟨.shCancel (some 0), rfl, killer_progress hr hctx (hkill hctx (by simp [hel]))⟩
    | cmdSend =>
      by_cases hctx : s.ctxDone = true
      · exact ⟨.elCmdAbort, rfl, by simp [step, hel, hctx]⟩
      · exact ⟨.shCancel (some 0), rfl, killer_progress hr hctx (hkill hctx (by simp [hel]))⟩
  | tail =>
    cases hsh : s.runSh with
    | cancel => exact ⟨.shCancel none, rfl, by simp [step, phaseOf, hpc, hsh]⟩
    | waitHandlers =>
      have hctx : s.ctxDone = true := I.tail hpc (by rw [hsh]; decide)
      cases hd : handlersDone s with
      | true => exact ⟨.shHandlers none, rfl, by simp [step, phaseOf, hpc, hsh, hd]⟩
      | false => exact handlers_progress hctx hd
    | reader =>
      refine ⟨.shReader none, rfl, ?_⟩
      simp only [step, phaseOf, hpc, hsh, if_true]
      split
      · rfl
      · split <;> rfl
    | waitRead => exact ⟨.shWaitReadTimeout none, rfl, by simp [step, phaseOf, hpc, hsh]⟩
    | renderer =>
      exact ⟨.shRenderer none, rfl, shRenderer_enabled s none ((phaseOf_none s _).2 ⟨hpc, hsh⟩) hfl⟩
    | restore => exact ⟨.shRestore none, rfl, by simp [step, phaseOf, hpc, hsh]⟩
    | done => exact ⟨.runReturn, rfl, by simp [step, hpc, hsh]⟩

/-- the same with user code in progress anywhere: then the return of that code is the enabled step.
In EVERY reachable state in which termination has begun and Run has not returned, a progress step
or the return of user code in progress is enabled -/
theorem no_deadlock_schedule {c : Config} {s : St} (hr : Reachable c s) (ht : Terminating s)
    (hn : s.runPc ≠ .returned) :
    ∃ l, scheduleLabel l = true ∧ (step s l).isSome = true := by
  by_cases h1 : s.runPc = .starting .modeWrites
  · exact ⟨.startWriterReturns, rfl, by simp [step, h1]⟩
  by_cases h2 : s.runPc = .starting .initCall
  · exact ⟨.initReturns, rfl, by simp [step, h2]⟩
  by_cases h3 : s.runPc = .starting .firstView
  · exact ⟨.firstViewReturns, rfl, by simp [step, h3]⟩
  by_cases h4 : s.el = .callback
  · exact ⟨.callbackReturns, rfl, by simp [step, h4]⟩
  by_cases h5 : s.el = .view
  · exact ⟨.viewReturns, rfl, by simp [step, h5]⟩
  by_cases h6 : s.listen = .flushing
  · exact ⟨.writerReturns, rfl, by simp [step, h6]⟩
  by_cases h7 : s.el = .execCmd
  · exact ⟨.execCmdReturns, rfl, by simp [step, h7]⟩
  obtain ⟨l, hp, he⟩ := no_deadlock hr ht hn ⟨h4, h5, h6, h1, h2, h3, h7⟩
  exact ⟨l, by simp [scheduleLabel, hp], he⟩

/-- outside an Exec and with no user code in progress on the loop or the listen goroutine, a
progress step or the return of the start-up's user code is enabled -/
theorem no_deadlock_startup {c : Config} {s : St} (hr : Reachable c s) (ht : Terminating s)
    (hn : s.runPc ≠ .returned) (hq : LoopQuiet s) (hex : s.el.inExec = false) :
    ∃ l, startupScheduleLabel l = true ∧ (step s l).isSome = true := by
  by_cases h1 : s.runPc = .starting .modeWrites
  · exact ⟨.startWriterReturns, rfl, by simp [step, h1]⟩
  by_cases h2 : s.runPc = .starting .initCall
  · exact ⟨.initReturns, rfl, by simp [step, h2]⟩
  by_cases h3 : s.runPc = .starting .firstView
  · exact ⟨.firstViewReturns, rfl, by simp [step, h3]⟩
  have h7 : s.el ≠ .execCmd := by intro h; rw [h] at hex; cases hex
  obtain ⟨l, hp, he⟩ := no_deadlock hr ht hn ⟨hq.1, hq.2.1, hq.2.2, h1, h2, h3, h7⟩
  exact ⟨l, by simp [startupScheduleLabel, hp], he⟩

/-- a shutdown call on another goroutine (Kill(), a panic handler) cannot be blocked either -/
theorem killer_no_deadlock {c : Config} {s : St} (hr : Reachable c s) (hc : NoCallback s)
    (j : Nat) (ph : ShPhase) (hj : s.killers[j]? = some ph) (hph : ph ≠ .done) :
    ∃ l, progressLabel l = true ∧ (step s l).isSome = true := by
  have I := inv_ctx hr
  obtain ⟨hcb, hvw, hfl, _, _, _, _⟩ := hc
  cases ph with
  | done => exact absurd rfl hph
  | cancel => exact ⟨.shCancel (some j), rfl, by simp [step, phaseOf, hj]⟩
  | waitHandlers =>
    have hctx : s.ctxDone = true := I.killers _ (List.mem_of_getElem? hj) (by decide)
    cases hd : handlersDone s with
    | true => exact ⟨.shHandlers (some j), rfl, by simp [step, phaseOf, hj, hd]⟩
    | false => exact handlers_progress hctx hd
  | reader =>
    refine ⟨.shReader (some j), rfl, ?_⟩
    simp only [step, phaseOf, hj, if_true]
    split
    · rfl
    · split <;> rfl
  | waitRead => exact ⟨.shWaitReadTimeout (some j), rfl, by simp [step, phaseOf, hj]⟩
  | renderer => exact ⟨.shRenderer (some j), rfl, shRenderer_enabled s (some j) hj hfl⟩
  | restore => exact ⟨.shRestore (some j), rfl, by simp [step, phaseOf, hj]⟩

/-! ### combination -/

theorem terminating_runLabels {s s' : St} (ls : List Label) (h : runLabels s ls = some s')
    (ht : Terminating s) : Terminating s' := by
  induction ls generalizing s with
  | nil => simp only [runLabels] at h; cases h; exact ht
  | cons l ls ih =>
    simp only [runLabels] at h
    split at h
    · rename_i s1 h1; exact ih h (terminating_stable h1 ht)
    · cases h

/-- the scheme of every "Run returns" theorem: if every step of an alphabet `A` decreases a measure
`μ` and keeps an invariant `I`, and `I` enables some step of `A` as long as Run has not returned, then
from every state with `I` a schedule of at most `μ s` steps of `A`, each enabled in turn, leads
to a state with `I` in which Run has returned -/
theorem schedule_exists (A : Label → Bool) (I : St → Prop) (μ : St → Nat)
    (hdec : ∀ s s' l, A l = true → step s l = some s' → μ s' < μ s)
    (hI : ∀ s s' l, I s → A l = true → step s l = some s' → I s')
    (hen : ∀ s, I s → s.runPc ≠ .returned → ∃ l, A l = true ∧ (step s l).isSome = true) :
    ∀ (n : Nat) {s : St}, μ s ≤ n → I s →
      ∃ ls s', (∀ l ∈ ls, A l = true) ∧ ls.length ≤ μ s ∧ runLabels s ls = some s' ∧ I s' ∧
        s'.runPc = .returned := by
  intro n
  induction n with
  | zero =>
    intro s hn hi
    by_cases hret : s.runPc = .returned
    · exact ⟨[], s, by simp, by simp, rfl, hi, hret⟩
    · obtain ⟨l, hp, he⟩ := hen s hi hret
      obtain ⟨s1, hs1⟩ := Option.isSome_iff_exists.1 he
      have := hdec _ _ _ hp hs1
      omega
  | succ n ih =>
    intro s hn hi
    by_cases hret : s.runPc = .returned
    · exact ⟨[], s, by simp, by simp, rfl, hi, hret⟩
    · obtain ⟨l, hp, he⟩ := hen s hi hret
      obtain ⟨s1, hs1⟩ := Option.isSome_iff_exists.1 he
      have hlt := hdec _ _ _ hp hs1
      obtain ⟨ls, s2, hall, hlen, hrun, hi2, hfin⟩ := ih (s := s1) (by omega) (hI _ _ _ hi hp hs1)
      refine ⟨l :: ls, s2, ?_, ?_, ?_, hi2, hfin⟩
      · intro l' hl'
        rcases List.mem_cons.1 hl' with h | h
        · rw [h]; exact hp
        · exact hall l' h
      · simp only [List.length_cons]; omega
      · simp only [runLabels, hs1]; exact hrun

/-- from EVERY reachable state in which termination has begun, at most `rank s + pendW s` steps -
progress steps and the returns of user code (in progress, or still to be called by a Run that is
starting up / a loop that is inside an Exec) -, each enabled in turn, bring Run to its return -/
theorem run_returns {c : Config} {s : St} (hr : Reachable c s) (ht : Terminating s) :
    ∃ ls s', (∀ l ∈ ls, scheduleLabel l = true) ∧ ls.length ≤ rank s + pendW s ∧
      runLabels s ls = some s' ∧ s'.runPc = .returned := by
  obtain ⟨ls, s', h1, h2, h3, _, h5⟩ :=
    schedule_exists scheduleLabel (fun s => Reachable c s ∧ Terminating s) sched
      (fun _ _ _ hp hs => sched_decreases hp hs)
      (fun _ _ l hi hp hs => ⟨Reachable.step l hi.1 hs, terminating_stable hs hi.2⟩)
      (fun _ hi hn => no_deadlock_schedule hi.1 hi.2 hn)
      (sched s) (Nat.le_refl _) ⟨hr, ht⟩
  exact ⟨ls, s', h1, h2, h3, h5⟩

/-- when the loop is not inside an Exec and no user code is in progress on the loop or the listen
goroutine - Run may be at any stage of its start-up -, at most `rank s` steps do it: progress steps and
the returns of the start-up's user code -/
theorem run_returns_quiet {c : Config} {s : St} (hr : Reachable c s) (ht : Terminating s)
    (hq : LoopQuiet s) (hex : s.el.inExec = false) :
    ∃ ls s', (∀ l ∈ ls, startupScheduleLabel l = true) ∧ ls.length ≤ rank s ∧ runLabels s ls = some s' ∧
      s'.runPc = .returned := by
  obtain ⟨ls, s', h1, h2, h3, _, h5⟩ :=
    schedule_exists startupScheduleLabel
      (fun s => Reachable c s ∧ Terminating s ∧ LoopQuiet s ∧ s.el.inExec = false) rank
      (fun _ _ _ hp hs => rank_decreases_startup hp hs)
      (fun _ _ l hi hp hs =>
        ⟨Reachable.step l hi.1 hs, terminating_stable hs hi.2.1,
          quiet_startupSchedule hp hs hi.2.2.1 hi.2.2.2⟩)
      (fun _ hi hn => no_deadlock_startup hi.1 hi.2.1 hn hi.2.2.1 hi.2.2.2)
      (rank s) (Nat.le_refl _) ⟨hr, ht, hq, hex⟩
  exact ⟨ls, s', h1, h2, h3, h5⟩

/-- once Run is past its start-up (in its loop or its tail) and the loop is not inside an Exec,
progress steps ALONE do it, at most `rank s` of them: the statement of the model that started at the
loop and had no Exec, for every state of the extended model in which neither is in progress -/
theorem run_returns_past {c : Config} {s : St} (hr : Reachable c s) (ht : Terminating s)
    (hc : NoCallback s) (hpast : ∀ p, s.runPc ≠ .starting p) (hex : s.el.inExec = false) :
    ∃ ls s', (∀ l ∈ ls, progressLabel l = true) ∧ ls.length ≤ rank s ∧ runLabels s ls = some s' ∧
      s'.runPc = .returned := by
  obtain ⟨ls, s', h1, h2, h3, _, h5⟩ :=
    schedule_exists progressLabel
      (fun s => Reachable c s ∧ Terminating s ∧ NoCallback s ∧ (∀ p, s.runPc ≠ .starting p) ∧
        s.el.inExec = false) rank
      (fun _ _ _ hp hs => rank_decreases hp hs)
      (fun _ _ l hi hp hs =>
        ⟨Reachable.step l hi.1 hs, terminating_stable hs hi.2.1,
          noCallback_progress_past hp hs hi.2.2.2.1 hi.2.2.2.2 hi.2.2.1⟩)
      (fun _ hi hn => no_deadlock hi.1 hi.2.1 hn hi.2.2.1)
      (rank s) (Nat.le_refl _) ⟨hr, ht, hc, hpast, hex⟩
  exact ⟨ls, s', h1, h2, h3, h5⟩

/-- steps of the schedule alphabet alone, at most `rank s + pendW s` of them, lead to a state in which
none is enabled; no user code is in progress there -/
theorem run_to_quiescence : ∀ (n : Nat) {s : St}, sched s ≤ n →
    ∃ ls s', (∀ l ∈ ls, scheduleLabel l = true) ∧ ls.length ≤ sched s ∧ runLabels s ls = some s' ∧
      NoCallback s' ∧ ∀ l, scheduleLabel l = true → step s' l = none := by
  have fin : ∀ s : St, (∀ l, scheduleLabel l = true → step s l = none) → NoCallback s := by
    intro s hnone
    refine ⟨?_, ?_, ?_, ?_, ?_, ?_, ?_⟩
    · intro h; have := hnone .callbackReturns rfl; simp [step, h] at this
    · intro h; have := hnone .viewReturns rfl; simp [step, h] at this
    · intro h; have := hnone .writerReturns rfl; simp [step, h] at this
    · intro h; have := hnone .startWriterReturns rfl; simp [step, h] at this
    · intro h; have := hnone .initReturns rfl; simp [step, h] at this
    · intro h; have := hnone .firstViewReturns rfl; simp [step, h] at this
    · intro h; have := hnone .execCmdReturns rfl; simp [step, h] at this
  intro n
  induction n with
  | zero =>
    intro s hn
    have hnone : ∀ l, scheduleLabel l = true → step s l = none := by
      intro l hp
      cases hs : step s l with
      | none => rfl
      | some s1 => have := sched_decreases hp hs; omega
    exact ⟨[], s, by simp, by simp, rfl, fin s hnone, hnone⟩
  | succ n ih =>
    intro s hn
    by_cases hex : ∃ l, scheduleLabel l = true ∧ (step s l).isSome = true
    · obtain ⟨l, hp, hen⟩ := hex
      obtain ⟨s1, hs1⟩ := Option.isSome_iff_exists.1 hen
      have hlt := sched_decreases hp hs1
      obtain ⟨ls, s2, hall, hlen, hrun, hc2, hq⟩ := ih (s := s1) (by omega)
      refine ⟨l :: ls, s2, ?_, ?_, ?_, hc2, hq⟩
      · intro l' hl'
        rcases List.mem_cons.1 hl' with h | h
        · rw [h]; exact hp
        · exact hall l' h
      · simp only [List.length_cons]; omega
      · simp only [runLabels, hs1]; exact hrun
    · have hnone : ∀ l, scheduleLabel l = true → step s l = none := by
        intro l hp
        cases hs : step s l with
        | none => rfl
        | some s1 => exact absurd ⟨l, hp, by rw [hs]; rfl⟩ hex
      exact ⟨[], s, by simp, by simp, rfl, fin s hnone, hnone⟩

/-- ... and in that state every shutdown call has completed: Run has returned (if termination
had begun) and every Kill() / panic handler has finished its shutdown -/
theorem everybody_done {c : Config} {s : St} (hr : Reachable c s) :
    ∃ ls s', (∀ l ∈ ls, scheduleLabel l = true) ∧ ls.length ≤ rank s + pendW s ∧
      runLabels s ls = some s' ∧
      (Terminating s → s'.runPc = .returned) ∧ (∀ (j : Nat) (ph : ShPhase), s'.killers[j]? = some ph → ph = .done) := by
  obtain ⟨ls, s', hall, hlen, hrun, hc', hq⟩ := run_to_quiescence (sched s) (Nat.le_refl _)
  have hr' := reachable_runLabels ls hr hrun
  have hq' : ∀ l, progressLabel l = true → step s' l = none :=
    fun l hp => hq l (by simp [scheduleLabel, hp])
  refine ⟨ls, s', hall, hlen, hrun, ?_, ?_⟩
  · intro ht
    apply Classical.byContradiction
    intro hn
    obtain ⟨l, hp, he⟩ := no_deadlock hr' (terminating_runLabels ls hrun ht) hn hc'
    rw [hq' l hp] at he
    cases he
  · intro j ph hj
    apply Classical.byContradiction
    intro hn
    obtain ⟨l, hp, he⟩ := killer_no_deadlock hr' hc' j ph hj hn
    rw [hq' l hp] at he
    cases he

/-- the same outside an Exec with no user code in progress on the loop or the listen goroutine:
progress steps and returns of the start-up's user code, at most `rank s` of them -/
theorem run_to_quiescence_quiet : ∀ (n : Nat) {s : St}, rank s ≤ n → LoopQuiet s → s.el.inExec = false →
    ∃ ls s', (∀ l ∈ ls, startupScheduleLabel l = true) ∧ ls.length ≤ rank s ∧ runLabels s ls = some s' ∧
      NoCallback s' ∧ ∀ l, startupScheduleLabel l = true → step s' l = none := by
  have fin : ∀ s : St, LoopQuiet s → s.el.inExec = false →
      (∀ l, startupScheduleLabel l = true → step s l = none) → NoCallback s := by
    intro s hq hx hnone
    refine ⟨hq.1, hq.2.1, hq.2.2, ?_, ?_, ?_, ?_⟩
    · intro h; have := hnone .startWriterReturns rfl; simp [step, h] at this
    · intro h; have := hnone .initReturns rfl; simp [step, h] at this
    · intro h; have := hnone .firstViewReturns rfl; simp [step, h] at this
    · intro h; rw [h] at hx; cases hx
  intro n
  induction n with
  | zero =>
    intro s hn hc hx
    have hnone : ∀ l, startupScheduleLabel l = true → step s l = none := by
      intro l hp
      cases hs : step s l with
      | none => rfl
      | some s1 => have := rank_decreases_startup hp hs; omega
    exact ⟨[], s, by simp, by simp, rfl, fin s hc hx hnone, hnone⟩
  | succ n ih =>
    intro s hn hc hx
    by_cases hex : ∃ l, startupScheduleLabel l = true ∧ (step s l).isSome = true
    · obtain ⟨l, hp, hen⟩ := hex
      obtain ⟨s1, hs1⟩ := Option.isSome_iff_exists.1 hen
      have hlt := rank_decreases_startup hp hs1
      obtain ⟨hc1, hx1⟩ := quiet_startupSchedule hp hs1 hc hx
      obtain ⟨ls, s2, hall, hlen, hrun, hc2, hq⟩ := ih (s := s1) (by omega) hc1 hx1
      refine ⟨l :: ls, s2, ?_, ?_, ?_, hc2, hq⟩
      · intro l' hl'
        rcases List.mem_cons.1 hl' with h | h
        · rw [h]; exact hp
        · exact hall l' h
      · simp only [List.length_cons]; omega
      · simp only [runLabels, hs1]; exact hrun
    · have hnone : ∀ l, startupScheduleLabel l = true → step s l = none := by
        intro l hp
        cases hs : step s l with
        | none => rfl
        | some s1 => exact absurd ⟨l, hp, by rw [hs]; rfl⟩ hex
      exact ⟨[], s, by simp, by simp, rfl, fin s hc hx hnone, hnone⟩

theorem everybody_done_quiet {c : Config} {s : St} (hr : Reachable c s) (hc : LoopQuiet s)
    (hx : s.el.inExec = false) :
    ∃ ls s', (∀ l ∈ ls, startupScheduleLabel l = true) ∧ ls.length ≤ rank s ∧ runLabels s ls = some s' ∧
      (Terminating s → s'.runPc = .returned) ∧ (∀ (j : Nat) (ph : ShPhase), s'.killers[j]? = some ph → ph = .done) := by
  obtain ⟨ls, s', hall, hlen, hrun, hc', hq⟩ := run_to_quiescence_quiet (rank s) (Nat.le_refl _) hc hx
  have hr' := reachable_runLabels ls hr hrun
  have hq' : ∀ l, progressLabel l = true → step s' l = none :=
    fun l hp => hq l (by simp [startupScheduleLabel, hp])
  refine ⟨ls, s', hall, hlen, hrun, ?_, ?_⟩
  · intro ht
    apply Classical.byContradiction
    intro hn
    obtain ⟨l, hp, he⟩ := no_deadlock hr' (terminating_runLabels ls hrun ht) hn hc'
    rw [hq' l hp] at he
    cases he
  · intro j ph hj
    apply Classical.byContradiction
    intro hn
    obtain ⟨l, hp, he⟩ := killer_no_deadlock hr' hc' j ph hj hn
    rw [hq' l hp] at he
    cases he

/-- in ANY schedule (any labels, external ones included) the number of progress steps is
bounded by the rank at its start plus six per `Kill()` / panic handler that joins in -/
theorem progress_budget {s s' : St} (ls : List Label) (h : runLabels s ls = some s') :
    ls.countP progressLabel + rank s' ≤ rank s + 6 * ls.count .killCall := by
  induction ls generalizing s with
  | nil => simp only [runLabels] at h; cases h; simp
  | cons l ls ih =>
    simp only [runLabels] at h
    split at h
    · rename_i s1 h1
      have := ih h
      by_cases hk : l = .killCall
      · subst hk
        have hr := rank_killCall h1
        simp only [List.countP_cons, List.count_cons_self, progressLabel] at this ⊢
        simp at this ⊢
        omega
      · have hle := rank_le hk h1
        have hne : (l == Label.killCall) = false := by simpa using hk
        simp only [List.countP_cons, List.count_cons, hne] at this ⊢
        cases hp : progressLabel l with
        | true =>
          have hlt := rank_decreases hp h1
          simp at this ⊢
          omega
        | false =>
          simp at this ⊢
          omega
    · cases h

end Tea.Runtime.Life
