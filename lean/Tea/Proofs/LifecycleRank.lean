import Tea.Proofs.Lifecycle
/-
The rank argument for C04: every progress step strictly decreases `rank`, no other step
except `killCall` increases it, the no-deadlock lemma, and their combination.
-/
namespace Tea.Runtime.Life

theorem rank_setKiller (s s' : St) (j : Nat) (x y : ShPhase) (h : s.killers[j]? = some y)
    (hxy : phaseW x < phaseW y) (hk : s'.killers = s.killers.set j x)
    (h1 : s'.runPc = s.runPc) (h2 : s'.runSh = s.runSh) (h3 : s'.el = s.el)
    (h4 : s'.dispAlive = s.dispAlive) (h5 : s'.sig = s.sig) (h6 : s'.resize = s.resize)
    (h7 : s'.initG = s.initG) (h8 : s'.reader = s.reader) : rank s' < rank s := by
  have := killersW_set (x := x) h
  simp only [rank, runW, hk, h1, h2, h3, h4, h5, h6, h7, h8]
  omega

/-- every progress step strictly decreases the rank -/
theorem rank_decreases {s s' : St} {l : Label} (hp : progressLabel l = true)
    (hs : step s l = some s') : rank s' < rank s := by
  step_cases hs l
  all_goals first
    | (simp [progressLabel] at hp; done)
    | (simp_all [rank, runW, phaseW, elW, sigW, hW, readW]; done)
    | (simp_all [rank, runW, phaseW, elW, sigW, hW, readW]; omega)
    | exact rank_setKiller _ _ _ _ _ (by assumption) (by decide) rfl rfl rfl rfl rfl rfl rfl rfl rfl
    | exact rank_setKiller _ _ _ _ _ (And.left (by assumption)) (by decide) rfl rfl rfl rfl rfl rfl rfl rfl rfl

theorem rank_setKiller_le (s s' : St) (j : Nat) (x y : ShPhase) (h : s.killers[j]? = some y)
    (hxy : phaseW x ≤ phaseW y) (hk : s'.killers = s.killers.set j x)
    (h1 : s'.runPc = s.runPc) (h2 : s'.runSh = s.runSh) (h3 : s'.el = s.el)
    (h4 : s'.dispAlive = s.dispAlive) (h5 : s'.sig = s.sig) (h6 : s'.resize = s.resize)
    (h7 : s'.initG = s.initG) (h8 : s'.reader = s.reader) : rank s' ≤ rank s := by
  have := killersW_set (x := x) h
  simp only [rank, runW, hk, h1, h2, h3, h4, h5, h6, h7, h8]
  omega

/-- no step other than a new `Kill()` / panic handler entering shutdown increases the rank -/
theorem rank_le {s s' : St} {l : Label} (hl : l ≠ .killCall)
    (hs : step s l = some s') : rank s' ≤ rank s := by
  step_cases hs l
  all_goals first
    | exact absurd rfl hl
    | exact Nat.le_refl _
    | (simp_all [rank, runW, phaseW, elW, sigW, hW, readW]; done)
    | (simp_all [rank, runW, phaseW, elW, sigW, hW, readW]; omega)
    | exact rank_setKiller_le _ _ _ _ _ (by assumption) (by decide) rfl rfl rfl rfl rfl rfl rfl rfl rfl
    | exact rank_setKiller_le _ _ _ _ _ (And.left (by assumption)) (by decide) rfl rfl rfl rfl rfl rfl rfl rfl rfl

/-- a new shutdown caller adds its seven phases (six steps) of work -/
theorem rank_killCall {s s' : St} (hs : step s .killCall = some s') : rank s' = rank s + 6 := by
  simp only [step] at hs
  cases hs
  simp only [rank, runW, killersW_append]
  omega

/-! ### no deadlock -/

/-- with the context cancelled, a handler that has not finished can finish by itself -/
theorem handlers_progress {s : St} (hctx : s.ctxDone = true) (hd : handlersDone s = false) :
    ∃ l, progressLabel l = true ∧ (step s l).isSome = true := by
  by_cases h1 : s.dispAlive = true
  · exact ⟨.dispExit, rfl, by simp [step, h1, hctx]⟩
  cases h2 : s.sig with
  | waiting => exact ⟨.sigExit, rfl, by simp [step, h2, hctx]⟩
  | sending b => exact ⟨.sigAbort, rfl, by simp [step, h2, hctx]⟩
  | absent =>
    cases h3 : s.resize with
    | waiting => exact ⟨.resizeExit, rfl, by simp [step, h3, hctx]⟩
    | absent =>
      cases h4 : s.initG with
      | waiting => exact ⟨.initAbort, rfl, by simp [step, h4, hctx]⟩
      | absent => simp [handlersDone, sigGone, handlerGone, h1, h2, h3, h4] at hd
      | exited => simp [handlersDone, sigGone, handlerGone, h1, h2, h3, h4] at hd
    | exited =>
      cases h4 : s.initG with
      | waiting => exact ⟨.initAbort, rfl, by simp [step, h4, hctx]⟩
      | absent => simp [handlersDone, sigGone, handlerGone, h1, h2, h3, h4] at hd
      | exited => simp [handlersDone, sigGone, handlerGone, h1, h2, h3, h4] at hd
  | exited =>
    cases h3 : s.resize with
    | waiting => exact ⟨.resizeExit, rfl, by simp [step, h3, hctx]⟩
    | absent =>
      cases h4 : s.initG with
      | waiting => exact ⟨.initAbort, rfl, by simp [step, h4, hctx]⟩
      | absent => simp [handlersDone, sigGone, handlerGone, h1, h2, h3, h4] at hd
      | exited => simp [handlersDone, sigGone, handlerGone, h1, h2, h3, h4] at hd
    | exited =>
      cases h4 : s.initG with
      | waiting => exact ⟨.initAbort, rfl, by simp [step, h4, hctx]⟩
      | absent => simp [handlersDone, sigGone, handlerGone, h1, h2, h3, h4] at hd
      | exited => simp [handlersDone, sigGone, handlerGone, h1, h2, h3, h4] at hd

/-- with a live context, every shutdown caller on another goroutine is still before `cancel()`,
so the first one can take that step -/
theorem killer_progress {c : Config} {s : St} (hr : Reachable c s) (hctx : ¬ s.ctxDone = true)
    (hk : s.killers ≠ []) : (step s (.shCancel (some 0))).isSome = true := by
  cases hks : s.killers with
  | nil => exact absurd hks hk
  | cons ph ks =>
    have hph : ph = .cancel := by
      apply Classical.byContradiction
      intro hne
      exact hctx ((inv_ctx hr).killers ph (by rw [hks]; exact List.mem_cons_self) hne)
    simp [step, phaseOf, hks, hph]

/-- Run's return cannot be blocked: in every reachable state in which termination has begun,
Run has not returned and no user callback is in progress, some progress step is enabled -/
theorem no_deadlock {c : Config} {s : St} (hr : Reachable c s) (ht : Terminating s)
    (hn : s.runPc ≠ .returned) (hc : NoCallback s) :
    ∃ l, progressLabel l = true ∧ (step s l).isSome = true := by
  have I := inv_ctx hr
  have L := inv_listen hr
  obtain ⟨hcb, hvw, hfl⟩ := hc
  cases hpc : s.runPc with
  | returned => exact absurd hpc hn
  | loop =>
    cases hel : s.el with
    | callback => exact absurd hel hcb
    | view => exact absurd hel hvw
    | exited cz => exact ⟨.runTail, rfl, by simp [step, hel, hpc]⟩
    | select =>
      by_cases hctx : s.ctxDone = true
      · exact ⟨.elCtxExit, rfl, by simp [step, hel, hctx]⟩
      · refine ⟨.shCancel (some 0), rfl, killer_progress hr hctx ?_⟩
        rcases ht with h | ⟨cz, h⟩ | h
        · exact absurd h hctx
        · rw [hel] at h; cases h
        · exact h
    | cmdSend =>
      by_cases hctx : s.ctxDone = true
      · exact ⟨.elCmdAbort, rfl, by simp [step, hel, hctx]⟩
      · refine ⟨.shCancel (some 0), rfl, killer_progress hr hctx ?_⟩
        rcases ht with h | ⟨cz, h⟩ | h
        · exact absurd h hctx
        · rw [hel] at h; cases h
        · exact h
  | tail =>
    cases hsh : s.runSh with
    | cancel => exact ⟨.shCancel none, rfl, by simp [step, phaseOf, hpc, hsh]⟩
    | waitHandlers =>
      have hctx : s.ctxDone = true := I.tail hpc (by rw [hsh]; decide)
      cases hd : handlersDone s with
      | true => exact ⟨.shHandlers none, rfl, by simp [step, phaseOf, hpc, hsh, hd]⟩
      | false => exact handlers_progress hctx hd
    | reader =>
      refine ⟨.shReader none, rfl, ?_⟩
      simp only [step, phaseOf, hpc, hsh, if_true]
      split
      · rfl
      · split <;> rfl
    | waitRead => exact ⟨.shWaitReadTimeout none, rfl, by simp [step, phaseOf, hpc, hsh]⟩
    | renderer =>
      refine ⟨.shRenderer none, rfl, ?_⟩
      by_cases ho : s.onceDone = true
      · simp [step, phaseOf, hpc, hsh, ho]
      · have hli : s.listen = .idle := by
          cases hl : s.listen with
          | idle => rfl
          | flushing => exact absurd hl hfl
          | stopped => exact absurd (L.1 hl) ho
        simp [step, phaseOf, hpc, hsh, ho, hli]
    | restore => exact ⟨.shRestore none, rfl, by simp [step, phaseOf, hpc, hsh]⟩
    | done => exact ⟨.runReturn, rfl, by simp [step, hpc, hsh]⟩

/-- a shutdown call on another goroutine (Kill(), a panic handler) cannot be blocked either -/
theorem killer_no_deadlock {c : Config} {s : St} (hr : Reachable c s) (hc : NoCallback s)
    (j : Nat) (ph : ShPhase) (hj : s.killers[j]? = some ph) (hph : ph ≠ .done) :
    ∃ l, progressLabel l = true ∧ (step s l).isSome = true := by
  have I := inv_ctx hr
  have L := inv_listen hr
  obtain ⟨hcb, hvw, hfl⟩ := hc
  cases ph with
  | done => exact absurd rfl hph
  | cancel => exact ⟨.shCancel (some j), rfl, by simp [step, phaseOf, hj]⟩
  | waitHandlers =>
    have hctx : s.ctxDone = true := I.killers _ (List.mem_of_getElem? hj) (by decide)
    cases hd : handlersDone s with
    | true => exact ⟨.shHandlers (some j), rfl, by simp [step, phaseOf, hj, hd]⟩
    | false => exact handlers_progress hctx hd
  | reader =>
    refine ⟨.shReader (some j), rfl, ?_⟩
    simp only [step, phaseOf, hj, if_true]
    split
    · rfl
    · split <;> rfl
  | waitRead => exact ⟨.shWaitReadTimeout (some j), rfl, by simp [step, phaseOf, hj]⟩
  | renderer =>
    refine ⟨.shRenderer (some j), rfl, ?_⟩
    by_cases ho : s.onceDone = true
    · simp [step, phaseOf, hj, ho]
    · have hli : s.listen = .idle := by
        cases hl : s.listen with
        | idle => rfl
        | flushing => exact absurd hl hfl
        | stopped => exact absurd (L.1 hl) ho
      simp [step, phaseOf, hj, ho, hli]
  | restore => exact ⟨.shRestore (some j), rfl, by simp [step, phaseOf, hj]⟩

/-! ### combination -/

theorem terminating_runLabels {s s' : St} (ls : List Label) (h : runLabels s ls = some s')
    (ht : Terminating s) : Terminating s' := by
  induction ls generalizing s with
  | nil => simp only [runLabels] at h; cases h; exact ht
  | cons l ls ih =>
    simp only [runLabels] at h
    split at h
    · rename_i s1 h1; exact ih h (terminating_stable h1 ht)
    · cases h

/-- from every reachable terminating state with no callback in progress, at most `rank s`
progress steps, each enabled in turn, bring Run to its return -/
theorem run_returns {c : Config} : ∀ (n : Nat) {s : St}, rank s ≤ n → Reachable c s → Terminating s →
    NoCallback s →
    ∃ ls s', (∀ l ∈ ls, progressLabel l = true) ∧ ls.length ≤ rank s ∧ runLabels s ls = some s' ∧
      s'.runPc = .returned := by
  intro n
  induction n with
  | zero =>
    intro s hn hr ht hc
    by_cases hret : s.runPc = .returned
    · exact ⟨[], s, by simp, by simp, rfl, hret⟩
    · obtain ⟨l, hp, hen⟩ := no_deadlock hr ht hret hc
      obtain ⟨s1, hs1⟩ := Option.isSome_iff_exists.1 hen
      have := rank_decreases hp hs1
      omega
  | succ n ih =>
    intro s hn hr ht hc
    by_cases hret : s.runPc = .returned
    · exact ⟨[], s, by simp, by simp, rfl, hret⟩
    · obtain ⟨l, hp, hen⟩ := no_deadlock hr ht hret hc
      obtain ⟨s1, hs1⟩ := Option.isSome_iff_exists.1 hen
      have hlt := rank_decreases hp hs1
      obtain ⟨ls, s2, hall, hlen, hrun, hfin⟩ :=
        ih (s := s1) (by omega) (Reachable.step l hr hs1) (terminating_stable hs1 ht)
          (noCallback_progress hp hs1 hc)
      refine ⟨l :: ls, s2, ?_, ?_, ?_, hfin⟩
      · intro l' hl'
        rcases List.mem_cons.1 hl' with h | h
        · rw [h]; exact hp
        · exact hall l' h
      · simp only [List.length_cons]; omega
      · simp only [runLabels, hs1]; exact hrun

/-- progress steps alone, at most `rank s` of them, lead to a state in which none is enabled -/
theorem run_to_quiescence : ∀ (n : Nat) {s : St}, rank s ≤ n → NoCallback s →
    ∃ ls s', (∀ l ∈ ls, progressLabel l = true) ∧ ls.length ≤ rank s ∧ runLabels s ls = some s' ∧
      NoCallback s' ∧ ∀ l, progressLabel l = true → step s' l = none := by
  intro n
  induction n with
  | zero =>
    intro s hn hc
    refine ⟨[], s, by simp, by simp, rfl, hc, ?_⟩
    intro l hp
    cases hs : step s l with
    | none => rfl
    | some s1 => have := rank_decreases hp hs; omega
  | succ n ih =>
    intro s hn hc
    by_cases hex : ∃ l, progressLabel l = true ∧ (step s l).isSome = true
    · obtain ⟨l, hp, hen⟩ := hex
      obtain ⟨s1, hs1⟩ := Option.isSome_iff_exists.1 hen
      have hlt := rank_decreases hp hs1
      obtain ⟨ls, s2, hall, hlen, hrun, hc2, hq⟩ :=
        ih (s := s1) (by omega) (noCallback_progress hp hs1 hc)
      refine ⟨l :: ls, s2, ?_, ?_, ?_, hc2, hq⟩
      · intro l' hl'
        rcases List.mem_cons.1 hl' with h | h
        · rw [h]; exact hp
        · exact hall l' h
      · simp only [List.length_cons]; omega
      · simp only [runLabels, hs1]; exact hrun
    · refine ⟨[], s, by simp, by simp, rfl, hc, ?_⟩
      intro l hp
      cases hs : step s l with
      | none => rfl
      | some s1 => exact absurd ⟨l, hp, by rw [hs]; rfl⟩ hex

/-- ... and in that state every shutdown call has completed: Run has returned (if termination
had begun) and every Kill() / panic handler has finished its shutdown -/
theorem everybody_done {c : Config} {s : St} (hr : Reachable c s) (hc : NoCallback s) :
    ∃ ls s', (∀ l ∈ ls, progressLabel l = true) ∧ ls.length ≤ rank s ∧ runLabels s ls = some s' ∧
      (Terminating s → s'.runPc = .returned) ∧ (∀ (j : Nat) (ph : ShPhase), s'.killers[j]? = some ph → ph = .done) := by
  obtain ⟨ls, s', hall, hlen, hrun, hc', hq⟩ := run_to_quiescence (rank s) (Nat.le_refl _) hc
  have hr' := reachable_runLabels ls hr hrun
  refine ⟨ls, s', hall, hlen, hrun, ?_, ?_⟩
  · intro ht
    apply Classical.byContradiction
    intro hn
    obtain ⟨l, hp, he⟩ := no_deadlock hr' (terminating_runLabels ls hrun ht) hn hc'
    rw [hq l hp] at he
    cases he
  · intro j ph hj
    apply Classical.byContradiction
    intro hn
    obtain ⟨l, hp, he⟩ := killer_no_deadlock hr' hc' j ph hj hn
    rw [hq l hp] at he
    cases he

/-- in ANY schedule (any labels, external ones included) the number of progress steps is
bounded by the rank at its start plus six per `Kill()` / panic handler that joins in -/
theorem progress_budget {s s' : St} (ls : List Label) (h : runLabels s ls = some s') :
    ls.countP progressLabel + rank s' ≤ rank s + 6 * ls.count .killCall := by
  induction ls generalizing s with
  | nil => simp only [runLabels] at h; cases h; simp
  | cons l ls ih =>
    simp only [runLabels] at h
    split at h
    · rename_i s1 h1
      have := ih h
      by_cases hk : l = .killCall
      · subst hk
        have hr := rank_killCall h1
        simp only [List.countP_cons, List.count_cons_self, progressLabel] at this ⊢
        simp at this ⊢
        omega
      · have hle := rank_le hk h1
        have hne : (l == Label.killCall) = false := by simpa using hk
        simp only [List.countP_cons, List.count_cons, hne] at this ⊢
        cases hp : progressLabel l with
        | true =>
          have hlt := rank_decreases hp h1
          simp at this ⊢
          omega
        | false =>
          simp at this ⊢
          omega
    · cases h

end Tea.Runtime.Life
