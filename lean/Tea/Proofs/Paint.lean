import Tea.VT.Term
import Tea.Proofs.Ansi
/-
Level 1 of C06: what each terminal operation does to the visible part of a buffer
(`cells`, `top`, `cr`, `cc`, `pw`).  Everything is stated on `applyBuf` /
`applyBufs` (a fold of `applyBuf`); `Tea/Proofs/TermLift.lean` transfers the
results to `applyOps` on a `Term`.
-/
namespace Tea.VT
open Tea

/-- run a list of buffer operations -/
def applyBufs (w h : Nat) (b : Buf) (ops : List TermOp) : Buf := ops.foldl (applyBuf w h) b

@[simp] theorem applyBufs_nil (w h : Nat) (b : Buf) : applyBufs w h b [] = b := rfl
@[simp] theorem applyBufs_cons (w h : Nat) (b : Buf) (op : TermOp) (ops : List TermOp) :
    applyBufs w h b (op :: ops) = applyBufs w h (applyBuf w h b op) ops := rfl
theorem applyBufs_append (w h : Nat) (b : Buf) (o1 o2 : List TermOp) :
    applyBufs w h b (o1 ++ o2) = applyBufs w h (applyBufs w h b o1) o2 := by
  simp [applyBufs, List.foldl_append]

/-- row `R` of the tape shows the bytes of `l` on columns `[0, w)`: byte `c` of `l` in column
`c`, blanks after the end of `l`; bytes of `l` beyond column `w` are not shown -/
def rowShows (w : Nat) (b : Buf) (R : Nat) (l : Bytes) : Prop :=
  ∀ c, c < w → b.cells R c = l.getD c 32

/-- row `R` is blank on columns `[0, w)` -/
def rowBlank (w : Nat) (b : Buf) (R : Nat) : Prop := ∀ c, c < w → b.cells R c = 32

theorem rowShows_nil_iff (w : Nat) (b : Buf) (R : Nat) : rowShows w b R [] ↔ rowBlank w b R := by
  simp [rowShows, rowBlank]

/-- a row shows a line iff it shows the line cut at the width -/
theorem rowShows_take (w : Nat) (b : Buf) (R : Nat) (l : Bytes) :
    rowShows w b R (l.take w) ↔ rowShows w b R l := by
  unfold rowShows
  constructor
  · intro hh c hc
    rw [hh c hc]
    simp [List.getD, hc]
  · intro hh c hc
    rw [hh c hc]
    simp [List.getD, hc]

theorem rowShows_congr {w : Nat} {b b' : Buf} {R : Nat} {l : Bytes}
    (h : ∀ c, b'.cells R c = b.cells R c) : rowShows w b R l → rowShows w b' R l := by
  intro hs c hc
  rw [h c]
  exact hs c hc

theorem rowBlank_congr {w : Nat} {b b' : Buf} {R : Nat}
    (h : ∀ c, b'.cells R c = b.cells R c) : rowBlank w b R → rowBlank w b' R := by
  intro hs c hc
  rw [h c]
  exact hs c hc

/-- the visible content of tape row `R`: its cells in columns `0 .. w-1` -/
def Buf.row (b : Buf) (w R : Nat) : Bytes := (List.range w).map (fun c => b.cells R c)

/-- a line as it should appear on a `w`-column row: cut at `w` bytes, then padded with blanks -/
def padLine (w : Nat) (l : Bytes) : Bytes := l.take w ++ List.replicate (w - l.length) 32

theorem padLine_length (w : Nat) (l : Bytes) : (padLine w l).length = w := by
  simp [padLine, List.length_take]; omega

theorem padLine_getElem? (w : Nat) (l : Bytes) (c : Nat) (hc : c < w) :
    (padLine w l)[c]? = some (l.getD c 32) := by
  unfold padLine
  by_cases hl : c < l.length
  · rw [List.getElem?_append_left (by simp [List.length_take]; omega)]
    simp [hc, List.getD, hl]
  · rw [List.getElem?_append_right (by simp [List.length_take]; omega)]
    simp only [List.length_take, List.getD, List.getElem?_eq_none (Nat.le_of_not_lt hl),
      Option.getD_none]
    rw [List.getElem?_replicate, if_pos (by omega)]

/-- cutting at the width first does not change the padded line -/
theorem padLine_take (w : Nat) (l : Bytes) : padLine w (l.take w) = padLine w l := by
  simp only [padLine, List.take_take, Nat.min_self, List.length_take]
  congr 2
  omega

/-- the padded line starts with the line cut at the width -/
theorem padLine_take_min (w : Nat) (l : Bytes) : (padLine w l).take (min w l.length) = l.take w := by
  simp [padLine, List.length_take]

/-- `rowShows` says exactly that the visible row equals the cut and padded line -/
theorem rowShows_iff_row (w : Nat) (b : Buf) (R : Nat) (l : Bytes) :
    rowShows w b R l ↔ b.row w R = padLine w l := by
  constructor
  · intro hs
    apply List.ext_getElem?
    intro c
    by_cases hc : c < w
    · rw [padLine_getElem? w l c hc, ← hs c hc]
      simp [Buf.row, hc]
    · rw [List.getElem?_eq_none (by simp [Buf.row]; omega),
        List.getElem?_eq_none (by rw [padLine_length]; omega)]
  · intro he c hc
    have h1 : (b.row w R)[c]? = some (b.cells R c) := by simp [Buf.row, hc]
    rw [he, padLine_getElem? w l c hc] at h1
    exact (Option.some.inj h1).symm

theorem rowBlank_iff_row (w : Nat) (b : Buf) (R : Nat) :
    rowBlank w b R ↔ b.row w R = List.replicate w 32 := by
  rw [← rowShows_nil_iff, rowShows_iff_row]
  simp [padLine]

/-! ### (a) text -/

/-- the "virtual column": where the next character would go if the line were unbounded -/
def vcol (b : Buf) : Nat := if b.pw then b.cc + 1 else b.cc

/-- the cursor column is inside the window and a pending wrap only occurs in the last column -/
def ColOK (w : Nat) (b : Buf) : Prop := b.cc < w ∧ (b.pw = true → b.cc + 1 = w)

theorem putChar_nopw (w h : Nat) (b : Buf) (ch : Nat) (hpw : b.pw = false) :
    (putChar w h b ch).top = b.top ∧ (putChar w h b ch).cr = b.cr ∧
    (∀ r c, (putChar w h b ch).cells r c = if r = b.cr ∧ c = b.cc then ch else b.cells r c) ∧
    (b.cc + 1 ≥ w → (putChar w h b ch).cc = b.cc ∧ (putChar w h b ch).pw = true) ∧
    (b.cc + 1 < w → (putChar w h b ch).cc = b.cc + 1 ∧ (putChar w h b ch).pw = false) := by
  unfold putChar
  simp only [hpw, Bool.false_eq_true, if_false, Buf.setCell]
  by_cases hc : b.cc + 1 ≥ w
  · simp [hc]
  · simp [hc]

/-- (a) printing `s` where it fits in the rest of the row: the cells are written, nothing else
changes, the virtual column advances by `s.length` (so a pending wrap is set exactly when the
last column was filled) and no wrap or scroll happens -/
theorem text_spec (w h : Nat) : ∀ (s : Bytes) (b : Buf), ColOK w b → vcol b + s.length ≤ w →
    (s.foldl (putChar w h) b).top = b.top ∧ (s.foldl (putChar w h) b).cr = b.cr ∧
    ColOK w (s.foldl (putChar w h) b) ∧ vcol (s.foldl (putChar w h) b) = vcol b + s.length ∧
    ∀ r c, (s.foldl (putChar w h) b).cells r c =
      if r = b.cr ∧ vcol b ≤ c ∧ c < vcol b + s.length then s.getD (c - vcol b) 32
      else b.cells r c := by
  intro s
  induction s with
  | nil =>
    intro b hok _
    simp only [List.foldl_nil, List.length_nil, Nat.add_zero, true_and, hok]
    intro r c
    rw [if_neg (by omega)]
  | cons a s ih =>
    intro b hok hlen
    have hpw : b.pw = false := by
      cases hp : b.pw with
      | false => rfl
      | true =>
        have := hok.2 hp
        simp [vcol, hp] at hlen
        omega
    have hv : vcol b = b.cc := by simp [vcol, hpw]
    obtain ⟨h1, h2, h3, h4, h5⟩ := putChar_nopw w h b a hpw
    have hok1 : ColOK w (putChar w h b a) := by
      by_cases hc : b.cc + 1 ≥ w
      · obtain ⟨e1, e2⟩ := h4 hc
        have := hok.1
        constructor
        · omega
        · intro _; omega
      · obtain ⟨e1, e2⟩ := h5 (by omega)
        constructor
        · omega
        · intro hp; rw [e2] at hp; cases hp
    have hv1 : vcol (putChar w h b a) = b.cc + 1 := by
      by_cases hc : b.cc + 1 ≥ w
      · obtain ⟨e1, e2⟩ := h4 hc
        simp [vcol, e1, e2]
      · obtain ⟨e1, e2⟩ := h5 (by omega)
        simp [vcol, e1, e2]
    have hlen1 : vcol (putChar w h b a) + s.length ≤ w := by
      rw [hv1]; simp at hlen; omega
    obtain ⟨i1, i2, i3, i4, i5⟩ := ih (putChar w h b a) hok1 hlen1
    simp only [List.foldl_cons]
    refine ⟨by rw [i1, h1], by rw [i2, h2], i3, by rw [i4, hv1, hv]; simp; omega, ?_⟩
    intro r c
    rw [i5 r c, hv1, h2, h3 r c, hv]
    by_cases hr : r = b.cr
    · by_cases hc0 : c = b.cc
      · subst hc0
        rw [if_neg (by omega), if_pos ⟨hr, rfl⟩, if_pos ⟨hr, Nat.le_refl _, by simp⟩]
        simp
      · by_cases hc1 : b.cc + 1 ≤ c ∧ c < b.cc + 1 + s.length
        · have e : c - b.cc = (c - (b.cc + 1)) + 1 := by omega
          have hc2 : b.cc ≤ c ∧ c < b.cc + (a :: s).length := by simp; omega
          simp only [hr, hc1, hc2, and_self, if_true, true_and]
          rw [e, List.getD_cons_succ]
        · have hc2 : ¬ (b.cc ≤ c ∧ c < b.cc + (a :: s).length) := by simp; omega
          rw [if_neg (by intro hh; exact hc1 hh.2), if_neg (by intro hh; exact hc0 hh.2),
            if_neg (by intro hh; exact hc2 hh.2)]
    · rw [if_neg (by intro hh; exact hr hh.1), if_neg (by intro hh; exact hr hh.1),
        if_neg (by intro hh; exact hr hh.1)]

/-- `.text s` from column `c`, no pending wrap, the visible part of `s` fits in the rest of the
row: exactly the visible bytes of `s` are written (its escape sequences take no cell) -/
theorem applyBuf_text (w h : Nat) (b : Buf) (s : Bytes) (hc : b.cc + Ansi.width s ≤ w) (hcw : b.cc < w)
    (hpw : b.pw = false) :
    (applyBuf w h b (.text s)).top = b.top ∧ (applyBuf w h b (.text s)).cr = b.cr ∧
    ColOK w (applyBuf w h b (.text s)) ∧ vcol (applyBuf w h b (.text s)) = b.cc + Ansi.width s ∧
    ∀ r c, (applyBuf w h b (.text s)).cells r c =
      if r = b.cr ∧ b.cc ≤ c ∧ c < b.cc + Ansi.width s then (Ansi.visible s).getD (c - b.cc) 32
      else b.cells r c := by
  have hv : vcol b = b.cc := by simp [vcol, hpw]
  have hok : ColOK w b := ⟨hcw, by intro hp; rw [hpw] at hp; cases hp⟩
  have := text_spec w h (Ansi.visible s) b hok (by rw [hv]; exact hc)
  rw [hv] at this
  exact this

/-- after `.text s` that fits: the real column and the wrap flag -/
theorem colOK_vcol_lt {w : Nat} {b : Buf} (hok : ColOK w b) {v : Nat} (hv : vcol b = v) (hlt : v < w) :
    b.cc = v ∧ b.pw = false := by
  cases hp : b.pw with
  | false => simp [vcol, hp] at hv; exact ⟨hv, rfl⟩
  | true =>
    have := hok.2 hp
    simp [vcol, hp] at hv
    omega

theorem colOK_vcol_eq {w : Nat} {b : Buf} (hok : ColOK w b) (hv : vcol b = w) :
    b.cc = w - 1 ∧ b.pw = true := by
  cases hp : b.pw with
  | false => simp [vcol, hp] at hv; have := hok.1; omega
  | true => have := hok.2 hp; exact ⟨by omega, rfl⟩

/-! ### (b) one rewrite lemma per operation -/

theorem applyBuf_cr_noop (w h : Nat) (b : Buf) (hc : b.cc = 0) (hp : b.pw = false) :
    applyBuf w h b .cr = b := by
  cases b
  simp only [applyBuf] at *
  simp [hc, hp]

@[simp] theorem applyBuf_cr_cells (w h : Nat) (b : Buf) : (applyBuf w h b .cr).cells = b.cells := rfl
@[simp] theorem applyBuf_cr_top (w h : Nat) (b : Buf) : (applyBuf w h b .cr).top = b.top := rfl
@[simp] theorem applyBuf_cr_cr (w h : Nat) (b : Buf) : (applyBuf w h b .cr).cr = b.cr := rfl
@[simp] theorem applyBuf_cr_cc (w h : Nat) (b : Buf) : (applyBuf w h b .cr).cc = 0 := rfl
@[simp] theorem applyBuf_cr_pw (w h : Nat) (b : Buf) : (applyBuf w h b .cr).pw = false := rfl

@[simp] theorem applyBuf_lf_cells (w h : Nat) (b : Buf) : (applyBuf w h b .lf).cells = b.cells := by
  simp only [applyBuf, lineFeed]; split <;> rfl
@[simp] theorem applyBuf_lf_cr (w h : Nat) (b : Buf) : (applyBuf w h b .lf).cr = b.cr + 1 := by
  simp only [applyBuf, lineFeed]; split <;> rfl
@[simp] theorem applyBuf_lf_cc (w h : Nat) (b : Buf) : (applyBuf w h b .lf).cc = b.cc := by
  simp only [applyBuf, lineFeed]; split <;> rfl
@[simp] theorem applyBuf_lf_pw (w h : Nat) (b : Buf) : (applyBuf w h b .lf).pw = false := by
  simp only [applyBuf, lineFeed]; split <;> rfl
/-- LF scrolls (the window moves down the tape by one row) exactly on the last window row -/
theorem applyBuf_lf_top (w h : Nat) (b : Buf) :
    (applyBuf w h b .lf).top = if b.cr + 1 = b.top + h then b.top + 1 else b.top := by
  simp only [applyBuf, lineFeed]; split <;> rfl

@[simp] theorem applyBuf_cuu_cells (w h : Nat) (b : Buf) (n : Nat) : (applyBuf w h b (.cuu n)).cells = b.cells := rfl
@[simp] theorem applyBuf_cuu_top (w h : Nat) (b : Buf) (n : Nat) : (applyBuf w h b (.cuu n)).top = b.top := rfl
@[simp] theorem applyBuf_cuu_cc (w h : Nat) (b : Buf) (n : Nat) : (applyBuf w h b (.cuu n)).cc = b.cc := rfl
@[simp] theorem applyBuf_cuu_pw (w h : Nat) (b : Buf) (n : Nat) : (applyBuf w h b (.cuu n)).pw = false := rfl
/-- CUU n (n ≥ 1) moves up `n` rows when that stays inside the window -/
theorem applyBuf_cuu_cr (w h : Nat) (b : Buf) (n : Nat) (hn : 1 ≤ n) (hin : b.top + n ≤ b.cr) :
    (applyBuf w h b (.cuu n)).cr = b.cr - n := by
  have : countOr1 n = n := by simp [countOr1]; omega
  simp only [applyBuf, this]
  rw [if_neg (by omega)]
/-- CUU stops at the top row of the window -/
theorem applyBuf_cuu_cr_clamp (w h : Nat) (b : Buf) (n : Nat) (hin : b.cr < b.top + countOr1 n) :
    (applyBuf w h b (.cuu n)).cr = b.top := by
  simp only [applyBuf]
  split <;> omega

@[simp] theorem applyBuf_cub_cells (w h : Nat) (b : Buf) (n : Nat) : (applyBuf w h b (.cub n)).cells = b.cells := rfl
@[simp] theorem applyBuf_cub_top (w h : Nat) (b : Buf) (n : Nat) : (applyBuf w h b (.cub n)).top = b.top := rfl
@[simp] theorem applyBuf_cub_cr (w h : Nat) (b : Buf) (n : Nat) : (applyBuf w h b (.cub n)).cr = b.cr := rfl
@[simp] theorem applyBuf_cub_pw (w h : Nat) (b : Buf) (n : Nat) : (applyBuf w h b (.cub n)).pw = false := rfl
/-- CUB by at least the cursor column ends in column 0 -/
theorem applyBuf_cub_cc (w h : Nat) (b : Buf) (n : Nat) (hn : 1 ≤ n) (hc : b.cc ≤ n) :
    (applyBuf w h b (.cub n)).cc = 0 := by
  have : countOr1 n = n := by simp [countOr1]; omega
  simp only [applyBuf, this]
  omega

@[simp] theorem applyBuf_home_cells (w h : Nat) (b : Buf) : (applyBuf w h b .home).cells = b.cells := rfl
@[simp] theorem applyBuf_home_top (w h : Nat) (b : Buf) : (applyBuf w h b .home).top = b.top := rfl
@[simp] theorem applyBuf_home_cc (w h : Nat) (b : Buf) : (applyBuf w h b .home).cc = 0 := rfl
@[simp] theorem applyBuf_home_pw (w h : Nat) (b : Buf) : (applyBuf w h b .home).pw = false := rfl
theorem applyBuf_home_cr (w h : Nat) (b : Buf) (hh : 1 ≤ h) : (applyBuf w h b .home).cr = b.top := by
  simp only [applyBuf, cupRow]
  rw [if_neg (by omega), if_neg (by omega)]
  omega

@[simp] theorem applyBuf_cup_cells (w h : Nat) (b : Buf) (n : Nat) : (applyBuf w h b (.cup n)).cells = b.cells := rfl
@[simp] theorem applyBuf_cup_top (w h : Nat) (b : Buf) (n : Nat) : (applyBuf w h b (.cup n)).top = b.top := rfl
@[simp] theorem applyBuf_cup_cc (w h : Nat) (b : Buf) (n : Nat) : (applyBuf w h b (.cup n)).cc = 0 := rfl
@[simp] theorem applyBuf_cup_pw (w h : Nat) (b : Buf) (n : Nat) : (applyBuf w h b (.cup n)).pw = false := rfl
/-- CUP to (1-based) row `n` inside the window -/
theorem applyBuf_cup_cr (w h : Nat) (b : Buf) (n : Nat) (h1 : 1 ≤ n) (h2 : n ≤ h) :
    (applyBuf w h b (.cup n)).cr = b.top + n - 1 := by
  simp only [applyBuf, cupRow]
  rw [if_neg (by omega), if_neg (by omega)]

@[simp] theorem applyBuf_el0_top (w h : Nat) (b : Buf) : (applyBuf w h b .el0).top = b.top := rfl
@[simp] theorem applyBuf_el0_cr (w h : Nat) (b : Buf) : (applyBuf w h b .el0).cr = b.cr := rfl
@[simp] theorem applyBuf_el0_cc (w h : Nat) (b : Buf) : (applyBuf w h b .el0).cc = b.cc := rfl
@[simp] theorem applyBuf_el0_pw (w h : Nat) (b : Buf) : (applyBuf w h b .el0).pw = b.pw := rfl
/-- EL0 blanks `[cc, w)` of the cursor row and nothing else -/
theorem applyBuf_el0_cells (w h : Nat) (b : Buf) (r c : Nat) :
    (applyBuf w h b .el0).cells r c = if r = b.cr ∧ b.cc ≤ c ∧ c < w then 32 else b.cells r c := rfl

@[simp] theorem applyBuf_ed0_top (w h : Nat) (b : Buf) : (applyBuf w h b .ed0).top = b.top := rfl
@[simp] theorem applyBuf_ed0_cr (w h : Nat) (b : Buf) : (applyBuf w h b .ed0).cr = b.cr := rfl
@[simp] theorem applyBuf_ed0_cc (w h : Nat) (b : Buf) : (applyBuf w h b .ed0).cc = b.cc := rfl
@[simp] theorem applyBuf_ed0_pw (w h : Nat) (b : Buf) : (applyBuf w h b .ed0).pw = b.pw := rfl
/-- ED0 blanks `[cc, w)` of the cursor row and `[0, w)` of every later row of the window -/
theorem applyBuf_ed0_cells (w h : Nat) (b : Buf) (r c : Nat) :
    (applyBuf w h b .ed0).cells r c =
      if b.cr + 1 ≤ r ∧ r < b.top + h ∧ c < w then 32
      else if r = b.cr ∧ b.cc ≤ c ∧ c < w then 32 else b.cells r c := rfl

@[simp] theorem applyBuf_ed2_top (w h : Nat) (b : Buf) : (applyBuf w h b .ed2).top = b.top := rfl
@[simp] theorem applyBuf_ed2_cr (w h : Nat) (b : Buf) : (applyBuf w h b .ed2).cr = b.cr := rfl
@[simp] theorem applyBuf_ed2_cc (w h : Nat) (b : Buf) : (applyBuf w h b .ed2).cc = b.cc := rfl
@[simp] theorem applyBuf_ed2_pw (w h : Nat) (b : Buf) : (applyBuf w h b .ed2).pw = b.pw := rfl
/-- ED2 blanks the whole window (columns `[0, w)`), the cursor stays -/
theorem applyBuf_ed2_cells (w h : Nat) (b : Buf) (r c : Nat) :
    (applyBuf w h b .ed2).cells r c =
      if b.top ≤ r ∧ r < b.top + h ∧ c < w then 32 else b.cells r c := rfl

@[simp] theorem applyBuf_el2_top (w h : Nat) (b : Buf) : (applyBuf w h b .el2).top = b.top := rfl
@[simp] theorem applyBuf_el2_cr (w h : Nat) (b : Buf) : (applyBuf w h b .el2).cr = b.cr := rfl
@[simp] theorem applyBuf_el2_cc (w h : Nat) (b : Buf) : (applyBuf w h b .el2).cc = b.cc := rfl
@[simp] theorem applyBuf_el2_pw (w h : Nat) (b : Buf) : (applyBuf w h b .el2).pw = b.pw := rfl
theorem applyBuf_el2_cells (w h : Nat) (b : Buf) (r c : Nat) :
    (applyBuf w h b .el2).cells r c = if r = b.cr ∧ 0 ≤ c ∧ c < w then 32 else b.cells r c := rfl

/-! ### (c) painting one line -/

/-- the operations that paint one (already cut) line: the text, then EL0 unless it fills the row
(the cells it takes are those of its visible part) -/
def lineOps (w : Nat) (s : Bytes) : List TermOp := [.text s] ++ (if Ansi.width s < w then [.el0] else [])

/-- (c) from column 0 with no pending wrap, `lineOps w s` with `Ansi.width s ≤ w` makes the cursor
row show exactly the visible part of `s` followed by blanks, leaves every other row alone, does
not move the cursor to another row and does not scroll -/
theorem lineOps_spec (w h : Nat) (b : Buf) (s : Bytes) (hw : 1 ≤ w) (hs : Ansi.width s ≤ w)
    (hc : b.cc = 0) (hp : b.pw = false) :
    (applyBufs w h b (lineOps w s)).top = b.top ∧ (applyBufs w h b (lineOps w s)).cr = b.cr ∧
    ColOK w (applyBufs w h b (lineOps w s)) ∧
    (∀ r, r ≠ b.cr → ∀ c, (applyBufs w h b (lineOps w s)).cells r c = b.cells r c) ∧
    rowShows w (applyBufs w h b (lineOps w s)) b.cr (Ansi.visible s) := by
  obtain ⟨t1, t2, t3, t4, t5⟩ := applyBuf_text w h b s (by omega) (by omega) hp
  rw [hc] at t4 t5
  unfold lineOps
  by_cases hlt : Ansi.width s < w
  · obtain ⟨e1, e2⟩ := colOK_vcol_lt t3 t4 (by omega)
    simp only [hlt, if_true, List.cons_append, List.nil_append, applyBufs_cons, applyBufs_nil,
      applyBuf_el0_top, applyBuf_el0_cr, t1, t2, true_and]
    refine ⟨?_, ?_, ?_⟩
    · exact ⟨by simp [e1]; omega, by simp [e2]⟩
    · intro r hr c
      rw [applyBuf_el0_cells, t2, if_neg (by intro hh; exact hr hh.1), t5,
        if_neg (by intro hh; exact hr hh.1)]
    · intro c hcw
      rw [applyBuf_el0_cells, t2, e1, t5]
      by_cases hcs : c < Ansi.width s
      · rw [if_neg (by omega), if_pos ⟨rfl, by omega, by omega⟩]
        simp
      · rw [if_pos ⟨rfl, by omega, hcw⟩]
        simp [List.getD, List.getElem?_eq_none (Nat.le_of_not_lt hcs)]
  · have hsw : Ansi.width s = w := by omega
    simp only [hlt, if_false, List.append_nil, applyBufs_cons, applyBufs_nil, t1, t2, true_and]
    refine ⟨t3, ?_, ?_⟩
    · intro r hr c
      rw [t5, if_neg (by intro hh; exact hr hh.1)]
    · intro c hcw
      rw [t5, if_pos ⟨rfl, by omega, by omega⟩]
      simp

end Tea.VT
