import Tea.Runtime.Resize
/-
Helper lemmas about the window-size LTS (Tea/Runtime/Resize.lean) for C18: runs, the counting
equations, the invariants `ListenerOk` / `Fresh` / `Owed`, the history invariant behind
`C18_report_was_true`, and the schedules to quiescence.
-/
namespace Tea.Runtime.Resize

/-! ### runs -/

theorem reachable_induct {z : Size} (Inv : St → Prop)
    (h0 : Inv (init z))
    (hstep : ∀ s s' l, Reachable z s → Inv s → step s l = some s' → Inv s')
    {s : St} (hr : Reachable z s) : Inv s := by
  induction hr with
  | init => exact h0
  | step l hr hs ih => exact hstep _ _ l hr ih hs

theorem reachable_runLabels {z : Size} {s s' : St} (ls : List Label)
    (hr : Reachable z s) (h : runLabels s ls = some s') : Reachable z s' := by
  induction ls generalizing s with
  | nil => simp only [runLabels] at h; cases h; exact hr
  | cons l ls ih =>
    simp only [runLabels] at h
    split at h
    · rename_i s1 h1; exact ih (Reachable.step l hr h1) h
    · cases h

theorem reachable_of_run {z : Size} {s : St} {ls : List Label}
    (h : runLabels (init z) ls = some s) : Reachable z s :=
  reachable_runLabels ls Reachable.init h

theorem runLabels_cons {s s' : St} {l : Label} {ls : List Label}
    (h : runLabels s (l :: ls) = some s') : ∃ s1, step s l = some s1 ∧ runLabels s1 ls = some s' := by
  simp only [runLabels] at h
  split at h
  · rename_i s1 h1; exact ⟨s1, h1, h⟩
  · cases h

theorem runLabels_append {s s1 : St} (ls ls' : List Label) (h : runLabels s ls = some s1) :
    runLabels s (ls ++ ls') = runLabels s1 ls' := by
  induction ls generalizing s with
  | nil => simp only [runLabels] at h; cases h; rfl
  | cons l ls ih =>
    obtain ⟨s2, h2, h3⟩ := runLabels_cons h
    simp only [List.cons_append, runLabels, h2]
    exact ih h3

theorem exists_run_of_reachable {z : Size} {s : St} (hr : Reachable z s) :
    ∃ ls, runLabels (init z) ls = some s := by
  induction hr with
  | init => exact ⟨[], rfl⟩
  | step l _ hs ih =>
    obtain ⟨ls, h⟩ := ih
    refine ⟨ls ++ [l], ?_⟩
    rw [runLabels_append ls [l] h]
    simp only [runLabels, hs]

/-- case analysis of one step: one case per label and enabled branch of its guard, with the
explicit successor and the guards as hypotheses -/
@[elab_as_elim] theorem step_elim {motive : St → Label → St → Prop}
    (resize : ∀ (s : St) sz, motive s (.resize sz) { s with size := sz, pending := true })
    (cmd : ∀ (s : St), s.cancelled = false →
      motive s .windowSizeCmd { s with checkers := s.checkers ++ [.querying] })
    (cancel : ∀ (s : St), motive s .cancel { s with cancelled := true })
    (take : ∀ (s : St), s.cancelled = false → s.listener = .waiting → s.pending = true →
      motive s .take { s with listener := .querying, pending := false })
    (queryL : ∀ (s : St), s.listener = .querying →
      motive s (.query none) { s with listener := .sending s.size })
    (queryC : ∀ (s : St) i, s.checkers[i]? = some .querying →
      motive s (.query (some i)) { s with checkers := s.checkers.set i (.sending s.size) })
    (deliverL : ∀ (s : St) sz, s.cancelled = false → s.listener = .sending sz →
      motive s (.deliver none) { s with listener := .waiting, reported := s.reported ++ [sz] })
    (deliverC : ∀ (s : St) i sz, s.cancelled = false → s.checkers[i]? = some (.sending sz) →
      motive s (.deliver (some i))
        { s with checkers := s.checkers.eraseIdx i, reported := s.reported ++ [sz] })
    {s : St} {l : Label} {s' : St} (hs : step s l = some s') : motive s l s' := by
  cases l with
  | resize sz => simp only [step] at hs; cases hs; exact resize s sz
  | windowSizeCmd =>
    simp only [step] at hs
    split at hs
    · rename_i h; cases hs; exact cmd s h
    · cases hs
  | cancel => simp only [step] at hs; cases hs; exact cancel s
  | take =>
    simp only [step] at hs
    split at hs
    · rename_i h1 h2 h3; cases hs; exact take s h1 h2 h3
    · cases hs
  | query who =>
    cases who with
    | none =>
      simp only [step] at hs
      split at hs
      · rename_i h; cases hs; exact queryL s h
      · cases hs
    | some i =>
      simp only [step] at hs
      split at hs
      · rename_i h; cases hs; exact queryC s i h
      · cases hs
  | deliver who =>
    cases who with
    | none =>
      simp only [step] at hs
      split at hs
      · rename_i sz h1 h2; cases hs; exact deliverL s sz h1 h2
      · cases hs
    | some i =>
      simp only [step] at hs
      split at hs
      · rename_i sz h1 h2; cases hs; exact deliverC s i sz h1 h2
      · cases hs

/- `rstep_elim hs`: the goal must be a statement about `s`, `l`, `s'` of `hs : step s l = some s'`
only (revert what else mentions them); leaves the eight cases of `step_elim` -/
set_option hygiene false in
macro "rstep_elim" hs:ident : tactic => `(tactic|
  refine step_elim ?resize ?cmd ?cancel ?take ?queryL ?queryC ?deliverL ?deliverC $hs:ident)

/-! ### lists -/

theorem mem_of_getElem? {α} {l : List α} {i : Nat} {a : α} (h : l[i]? = some a) : a ∈ l :=
  List.mem_of_getElem? h

theorem lt_of_getElem? {α} {l : List α} {i : Nat} {a : α} (h : l[i]? = some a) : i < l.length := by
  cases hlt : decide (i < l.length) with
  | true => exact of_decide_eq_true hlt
  | false =>
    have : l.length ≤ i := Nat.le_of_not_lt (of_decide_eq_false hlt)
    rw [List.getElem?_eq_none this] at h
    cases h

/-- an element other than the replaced one survives a `set` -/
theorem mem_set_of_ne {α} {l : List α} {i : Nat} {a d e : α} (hm : a ∈ l) (hi : l[i]? = some d)
    (hne : d ≠ a) : a ∈ l.set i e := by
  induction l generalizing i with
  | nil => cases hm
  | cons x xs ih =>
    cases i with
    | zero =>
      simp only [List.getElem?_cons_zero, Option.some.injEq] at hi
      simp only [List.set_cons_zero, List.mem_cons]
      rcases List.mem_cons.1 hm with h | h
      · exact absurd (hi ▸ h.symm) hne
      · exact Or.inr h
    | succ i =>
      simp only [List.getElem?_cons_succ] at hi
      simp only [List.set_cons_succ, List.mem_cons]
      rcases List.mem_cons.1 hm with h | h
      · exact Or.inl h
      · exact Or.inr (ih h hi)

/-- an element other than the erased one survives an `eraseIdx` -/
theorem mem_eraseIdx_of_ne {α} {l : List α} {i : Nat} {a d : α} (hm : a ∈ l) (hi : l[i]? = some d)
    (hne : d ≠ a) : a ∈ l.eraseIdx i := by
  induction l generalizing i with
  | nil => cases hm
  | cons x xs ih =>
    cases i with
    | zero =>
      simp only [List.getElem?_cons_zero, Option.some.injEq] at hi
      simp only [List.eraseIdx_cons_zero]
      rcases List.mem_cons.1 hm with h | h
      · exact absurd (hi ▸ h.symm) hne
      · exact h
    | succ i =>
      simp only [List.getElem?_cons_succ] at hi
      simp only [List.eraseIdx_cons_succ, List.mem_cons]
      rcases List.mem_cons.1 hm with h | h
      · exact Or.inl h
      · exact Or.inr (ih h hi)

theorem mem_set_self {α} {l : List α} {i : Nat} {d e : α} (hi : l[i]? = some d) : e ∈ l.set i e := by
  induction l generalizing i with
  | nil => cases hi
  | cons x xs ih =>
    cases i with
    | zero => simp
    | succ i =>
      simp only [List.getElem?_cons_succ] at hi
      simp only [List.set_cons_succ, List.mem_cons]
      exact Or.inr (ih hi)

theorem length_eraseIdx_of_getElem? {α} {l : List α} {i : Nat} {d : α} (hi : l[i]? = some d) :
    (l.eraseIdx i).length + 1 = l.length := by
  induction l generalizing i with
  | nil => cases hi
  | cons x xs ih =>
    cases i with
    | zero => simp
    | succ i =>
      simp only [List.getElem?_cons_succ] at hi
      simp only [List.eraseIdx_cons_succ, List.length_cons]
      rw [ih hi]

theorem lastReported_snoc (s : St) (x : Size) :
    (s.reported ++ [x]).getLast? = some x := by
  simp

/-! ### counting: deliveries, takes, commands, resizes -/

/-- one step: a `take` and a `windowSizeCmd` each add one goroutine that owes a delivery, a
delivery moves one from "in flight" to "reported", nothing else changes the sum -/
theorem count_step {s s' : St} {l : Label} (hs : step s l = some s') :
    inFlight s' + s'.reported.length =
      inFlight s + s.reported.length + takes [l] + commands [l] := by
  rstep_elim hs
  case deliverC =>
    intro s i sz _ hi
    have := length_eraseIdx_of_getElem? hi
    simp [inFlight, takes, commands]
    omega
  all_goals intros
  all_goals simp_all [inFlight, takes, commands]
  all_goals omega

theorem takes_cons (l : Label) (ls : List Label) : takes (l :: ls) = takes [l] + takes ls := by
  simp only [takes, List.count_cons, List.count_nil]; omega

theorem commands_cons (l : Label) (ls : List Label) :
    commands (l :: ls) = commands [l] + commands ls := by
  simp only [commands, List.count_cons, List.count_nil]; omega

theorem resizes_cons (l : Label) (ls : List Label) :
    resizes (l :: ls) = resizes [l] + resizes ls := by
  simp only [resizes, List.filter_cons]
  split <;> simp <;> omega

/-- over a run: deliveries + goroutines in flight grow by exactly the takes and the commands -/
theorem count_run {s s' : St} {ls : List Label} (h : runLabels s ls = some s') :
    inFlight s' + s'.reported.length =
      inFlight s + s.reported.length + takes ls + commands ls := by
  induction ls generalizing s with
  | nil => simp only [runLabels] at h; cases h; simp [takes, commands]
  | cons l ls ih =>
    obtain ⟨s1, h1, h2⟩ := runLabels_cons h
    have e1 := count_step h1
    have e2 := ih h2
    rw [takes_cons, commands_cons]
    omega

/-- one step: every `take` consumes a signal only a `resize` can raise -/
theorem signal_step {s s' : St} {l : Label} (hs : step s l = some s') :
    takes [l] + (if s'.pending then 1 else 0) ≤ resizes [l] + (if s.pending then 1 else 0) := by
  rstep_elim hs
  case resize => intro s sz; simp [takes, resizes, List.filter, Label.isResize]
  all_goals intros
  all_goals simp_all [takes, resizes, List.filter, Label.isResize]

theorem signal_run {s s' : St} {ls : List Label} (h : runLabels s ls = some s') :
    takes ls + (if s'.pending then 1 else 0) ≤ resizes ls + (if s.pending then 1 else 0) := by
  induction ls generalizing s with
  | nil => simp only [runLabels] at h; cases h; simp [takes, resizes]
  | cons l ls ih =>
    obtain ⟨s1, h1, h2⟩ := runLabels_cons h
    have e1 := signal_step h1
    have e2 := ih h2
    rw [takes_cons, resizes_cons]
    omega

/-! ### `ListenerOk` -/

theorem listenerOk_init (z : Size) : ListenerOk (init z) := by
  intro sz h; cases h

theorem listenerOk_step {s s' : St} {l : Label} (hs : step s l = some s') :
    ListenerOk s → ListenerOk s' := by
  rstep_elim hs
  case resize => intro s sz _ x _ _; rfl
  case cmd => intro s _ h; exact h
  case cancel => intro s h; exact h
  case take => intro s _ _ _ _ x hx; cases hx
  case queryL =>
    intro s _ _ x hx hne
    simp only [LPc.sending.injEq] at hx
    exact absurd hx.symm hne
  case queryC => intro s i _ h; exact h
  case deliverL => intro s sz _ _ _ x hx; cases hx
  case deliverC => intro s i sz _ _ h; exact h

theorem listenerOk_run {s s' : St} {ls : List Label} (h : runLabels s ls = some s')
    (hl : ListenerOk s) : ListenerOk s' := by
  induction ls generalizing s with
  | nil => simp only [runLabels] at h; cases h; exact hl
  | cons l ls ih =>
    obtain ⟨s1, h1, h2⟩ := runLabels_cons h
    exact ih h2 (listenerOk_step h1 hl)

theorem listenerOk_reachable {z : Size} {s : St} (hr : Reachable z s) : ListenerOk s :=
  reachable_induct ListenerOk (listenerOk_init z) (fun _ _ _ _ ih hs => listenerOk_step hs ih) hr

/-! ### `Fresh` -/

theorem fresh_init (z : Size) : Fresh (init z) :=
  Or.inr (Or.inr (Or.inr (Or.inl ⟨.querying, by simp [init], Or.inl rfl⟩)))

/-- EVERY step except a stale delivery by a checker (and `cancel`, which changes nothing)
ESTABLISHES `Fresh`, whatever was the case before -/
theorem fresh_established {s s' : St} {l : Label} (hs : step s l = some s') :
    ListenerOk s → l ≠ .cancel → staleDelivery s l = false → Fresh s' := by
  rstep_elim hs
  case resize => intro s sz _ _ _; exact Or.inl rfl
  case cmd =>
    intro s _ _ _ _
    exact Or.inr (Or.inr (Or.inr (Or.inl ⟨.querying, by simp, Or.inl rfl⟩)))
  case cancel => intro s _ h; exact absurd rfl h
  case take => intro s _ _ _ _ _ _; exact Or.inr (Or.inl rfl)
  case queryL => intro s _ _ _ _; exact Or.inr (Or.inr (Or.inl rfl))
  case queryC =>
    intro s i hi _ _ _
    exact Or.inr (Or.inr (Or.inr (Or.inl ⟨.sending s.size, mem_set_self hi, Or.inr rfl⟩)))
  case deliverL =>
    intro s sz _ hl hok _ _
    cases hd : decide (sz = s.size) with
    | true =>
      have : sz = s.size := of_decide_eq_true hd
      refine Or.inr (Or.inr (Or.inr (Or.inr ?_)))
      simp [lastReported, this]
    | false => exact Or.inl (hok sz hl (of_decide_eq_false hd))
  case deliverC =>
    intro s i sz _ hi _ _ hst
    simp only [staleDelivery, hi, bne_eq_false_iff_eq] at hst
    refine Or.inr (Or.inr (Or.inr (Or.inr ?_)))
    simp [lastReported, hst]

/-- `Fresh` is inductive along every step that is not a stale delivery by a checker -/
theorem fresh_step {s s' : St} {l : Label} (hs : step s l = some s') (hok : ListenerOk s)
    (hf : Fresh s) (hst : staleDelivery s l = false) : Fresh s' := by
  cases hc : decide (l = .cancel) with
  | false => exact fresh_established hs hok (of_decide_eq_false hc) hst
  | true =>
    have hl : l = .cancel := of_decide_eq_true hc
    subst hl
    simp only [step, Option.some.injEq] at hs
    subst hs
    exact hf

theorem fresh_run {s s' : St} {ls : List Label} (h : runLabels s ls = some s')
    (hok : ListenerOk s) (hf : Fresh s) (hrf : raceFree s ls = true) : Fresh s' := by
  induction ls generalizing s with
  | nil => simp only [runLabels] at h; cases h; exact hf
  | cons l ls ih =>
    obtain ⟨s1, h1, h2⟩ := runLabels_cons h
    simp only [raceFree, h1, Bool.and_eq_true, Bool.not_eq_eq_eq_not, Bool.not_true] at hrf
    exact ih h2 (listenerOk_step h1 hok) (fresh_step h1 hok hf hrf.1) hrf.2

/-- in a quiescent state `Fresh` says: the last report is the true size -/
theorem fresh_quiescent {s : St} (hf : Fresh s) (hq : Quiescent s) :
    lastReported s = some s.size := by
  obtain ⟨h1, h2, h3, _⟩ := hq
  rcases hf with h | h | h | ⟨c, hc, _⟩ | h
  · rw [h1] at h; cases h
  · rw [h2] at h; cases h
  · rw [h2] at h; cases h
  · rw [h3] at hc; cases hc
  · exact h

/-! ### `Owed`: a resize is not lost -/

/-- right after a resize to `sz` the report of `sz` is owed (the signal is pending) -/
theorem owed_after_resize (s : St) (sz : Size) :
    Owed s.reported sz { s with size := sz, pending := true } :=
  ⟨[], by simp, Or.inl rfl⟩

/-- at start-up the report of the initial size is owed (by the start-up checker) -/
theorem owed_init (z : Size) : Owed [] z (init z) :=
  ⟨[], rfl, Or.inr (Or.inr (Or.inr (Or.inl ⟨.querying, by simp [init], Or.inl rfl⟩)))⟩

/-- `Owed` is inductive along every step but a resize (while the size stays `sz`) -/
theorem owed_step {base : List Size} {sz : Size} {s s' : St} {l : Label}
    (hs : step s l = some s') :
    l.isResize = false → s.size = sz → Owed base sz s → Owed base sz s' ∧ s'.size = sz := by
  rstep_elim hs
  case resize => intro s z h; cases h
  case cmd =>
    intro s _ _ hsz ⟨extra, he, ho⟩
    refine ⟨⟨extra, he, ?_⟩, hsz⟩
    rcases ho with h | h | h | ⟨c, hc, hcc⟩ | h
    · exact Or.inl h
    · exact Or.inr (Or.inl h)
    · exact Or.inr (Or.inr (Or.inl h))
    · exact Or.inr (Or.inr (Or.inr (Or.inl ⟨c, List.mem_append_left _ hc, hcc⟩)))
    · exact Or.inr (Or.inr (Or.inr (Or.inr h)))
  case cancel => intro s _ hsz ⟨extra, he, ho⟩; exact ⟨⟨extra, he, ho⟩, hsz⟩
  case take =>
    intro s _ _ _ _ hsz ⟨extra, he, _⟩
    exact ⟨⟨extra, he, Or.inr (Or.inl rfl)⟩, hsz⟩
  case queryL =>
    intro s _ _ hsz ⟨extra, he, _⟩
    exact ⟨⟨extra, he, Or.inr (Or.inr (Or.inl (by rw [← hsz])))⟩, hsz⟩
  case queryC =>
    intro s i hi _ hsz ⟨extra, he, _⟩
    refine ⟨⟨extra, he, Or.inr (Or.inr (Or.inr (Or.inl
      ⟨.sending s.size, mem_set_self hi, Or.inr (by rw [hsz])⟩)))⟩, hsz⟩
  case deliverL =>
    intro s x _ hl _ hsz ⟨extra, he, ho⟩
    refine ⟨⟨extra ++ [x], by simp [he], ?_⟩, hsz⟩
    rcases ho with h | h | h | h | h
    · exact Or.inl h
    · rw [hl] at h; cases h
    · rw [hl] at h
      simp only [LPc.sending.injEq] at h
      exact Or.inr (Or.inr (Or.inr (Or.inr (by simp [h]))))
    · exact Or.inr (Or.inr (Or.inr (Or.inl h)))
    · exact Or.inr (Or.inr (Or.inr (Or.inr (List.mem_append_left _ h))))
  case deliverC =>
    intro s i x _ hi _ hsz ⟨extra, he, ho⟩
    refine ⟨⟨extra ++ [x], by simp [he], ?_⟩, hsz⟩
    rcases ho with h | h | h | ⟨c, hc, hcc⟩ | h
    · exact Or.inl h
    · exact Or.inr (Or.inl h)
    · exact Or.inr (Or.inr (Or.inl h))
    · by_cases hd : CPc.sending x = c
      · rcases hcc with hq | hq
        · rw [hq] at hd; cases hd
        · rw [hq] at hd
          simp only [CPc.sending.injEq] at hd
          exact Or.inr (Or.inr (Or.inr (Or.inr (by simp [hd]))))
      · exact Or.inr (Or.inr (Or.inr (Or.inl ⟨c, mem_eraseIdx_of_ne hc hi hd, hcc⟩)))
    · exact Or.inr (Or.inr (Or.inr (Or.inr (List.mem_append_left _ h))))

theorem owed_run {base : List Size} {sz : Size} {s s' : St} {ls : List Label}
    (h : runLabels s ls = some s') (hnr : ∀ l ∈ ls, l.isResize = false) (hsz : s.size = sz)
    (ho : Owed base sz s) : Owed base sz s' ∧ s'.size = sz := by
  induction ls generalizing s with
  | nil => simp only [runLabels] at h; cases h; exact ⟨ho, hsz⟩
  | cons l ls ih =>
    obtain ⟨s1, h1, h2⟩ := runLabels_cons h
    obtain ⟨ho1, hsz1⟩ := owed_step h1 (hnr l (List.mem_cons_self ..)) hsz ho
    exact ih h2 (fun l' hl' => hnr l' (List.mem_cons_of_mem _ hl')) hsz1 ho1

/-- in a quiescent state what was owed has been delivered -/
theorem owed_quiescent {base : List Size} {sz : Size} {s : St} (ho : Owed base sz s)
    (hq : Quiescent s) : ∃ extra, s.reported = base ++ extra ∧ sz ∈ extra := by
  obtain ⟨h1, h2, h3, _⟩ := hq
  obtain ⟨extra, he, ho⟩ := ho
  refine ⟨extra, he, ?_⟩
  rcases ho with h | h | h | ⟨c, hc, _⟩ | h
  · rw [h1] at h; cases h
  · rw [h2] at h; cases h
  · rw [h2] at h; cases h
  · rw [h3] at hc; cases hc
  · exact h

/-! ### the history: every report was read by a query of the run -/

theorem seenBefore_mono {z : Size} {ls : List Label} {sz : Size} {n m : Nat} (l : Label)
    (h : SeenBefore z ls sz n) (hnm : n ≤ m) : SeenBefore z (ls ++ [l]) sz m := by
  obtain ⟨pre, who, post, t, e, hr, hs, hn⟩ := h
  exact ⟨pre, who, post ++ [l], t, by rw [e]; simp, hr, hs, Nat.le_trans hn hnm⟩

/-- the history invariant: the reports delivered, and the sizes the goroutines blocked in `Send`
hold, were all read by a `query` step of the run, before the position they are (or will be)
delivered at -/
def Hist (z : Size) (ls : List Label) (s : St) : Prop :=
  (∀ k sz, s.reported[k]? = some sz → SeenBefore z ls sz k) ∧
  (∀ sz, s.listener = .sending sz → SeenBefore z ls sz s.reported.length) ∧
  (∀ c ∈ s.checkers, ∀ sz, c = .sending sz → SeenBefore z ls sz s.reported.length)

theorem hist_init (z : Size) : Hist z [] (init z) := by
  refine ⟨?_, ?_, ?_⟩
  · intro k sz h; simp [init] at h
  · intro sz h; cases h
  · intro c hc sz h
    simp only [init, List.mem_singleton] at hc
    rw [hc] at h; cases h

theorem getElem?_snoc_cases {α} {l : List α} {x a : α} {k : Nat} (h : (l ++ [x])[k]? = some a) :
    l[k]? = some a ∨ (k = l.length ∧ a = x) := by
  rw [List.getElem?_append] at h
  split at h
  · exact Or.inl h
  · rename_i hlt
    have hk : k - l.length = 0 := by
      cases hk : k - l.length with
      | zero => rfl
      | succ n => rw [hk] at h; simp at h
    rw [hk] at h
    simp only [List.getElem?_cons_zero, Option.some.injEq] at h
    exact Or.inr ⟨by omega, h.symm⟩

theorem hist_step {z : Size} {pre : List Label} {s s' : St} {l : Label}
    (hs : step s l = some s') :
    runLabels (init z) pre = some s → Hist z pre s → Hist z (pre ++ [l]) s' := by
  rstep_elim hs
  case resize =>
    intro s sz _ ⟨h1, h2, h3⟩
    exact ⟨fun k x hk => seenBefore_mono _ (h1 k x hk) (Nat.le_refl _),
      fun x hx => seenBefore_mono _ (h2 x hx) (Nat.le_refl _),
      fun c hc x hx => seenBefore_mono _ (h3 c hc x hx) (Nat.le_refl _)⟩
  case cmd =>
    intro s _ _ ⟨h1, h2, h3⟩
    refine ⟨fun k x hk => seenBefore_mono _ (h1 k x hk) (Nat.le_refl _),
      fun x hx => seenBefore_mono _ (h2 x hx) (Nat.le_refl _), ?_⟩
    intro c hc x hx
    rcases List.mem_append.1 hc with hc | hc
    · exact seenBefore_mono _ (h3 c hc x hx) (Nat.le_refl _)
    · simp only [List.mem_singleton] at hc
      rw [hc] at hx; cases hx
  case cancel =>
    intro s _ ⟨h1, h2, h3⟩
    exact ⟨fun k x hk => seenBefore_mono _ (h1 k x hk) (Nat.le_refl _),
      fun x hx => seenBefore_mono _ (h2 x hx) (Nat.le_refl _),
      fun c hc x hx => seenBefore_mono _ (h3 c hc x hx) (Nat.le_refl _)⟩
  case take =>
    intro s _ _ _ _ ⟨h1, _, h3⟩
    exact ⟨fun k x hk => seenBefore_mono _ (h1 k x hk) (Nat.le_refl _),
      (fun x hx => by cases hx),
      fun c hc x hx => seenBefore_mono _ (h3 c hc x hx) (Nat.le_refl _)⟩
  case queryL =>
    intro s _ hrun ⟨h1, _, h3⟩
    refine ⟨fun k x hk => seenBefore_mono _ (h1 k x hk) (Nat.le_refl _), ?_,
      fun c hc x hx => seenBefore_mono _ (h3 c hc x hx) (Nat.le_refl _)⟩
    intro x hx
    simp only [LPc.sending.injEq] at hx
    exact ⟨pre, none, [], s, rfl, hrun, hx, Nat.le_refl _⟩
  case queryC =>
    intro s i _ hrun ⟨h1, h2, h3⟩
    refine ⟨fun k x hk => seenBefore_mono _ (h1 k x hk) (Nat.le_refl _),
      fun x hx => seenBefore_mono _ (h2 x hx) (Nat.le_refl _), ?_⟩
    intro c hc x hx
    rcases List.mem_or_eq_of_mem_set hc with hc | hc
    · exact seenBefore_mono _ (h3 c hc x hx) (Nat.le_refl _)
    · rw [hc] at hx
      simp only [CPc.sending.injEq] at hx
      exact ⟨pre, some i, [], s, rfl, hrun, hx, Nat.le_refl _⟩
  case deliverL =>
    intro s sz _ hl _ ⟨h1, h2, h3⟩
    refine ⟨?_, (fun x hx => by cases hx), ?_⟩
    · intro k x hk
      rcases getElem?_snoc_cases hk with hk | ⟨hk, hx⟩
      · exact seenBefore_mono _ (h1 k x hk) (Nat.le_refl _)
      · rw [hk, hx]; exact seenBefore_mono _ (h2 sz hl) (Nat.le_refl _)
    · intro c hc x hx
      exact seenBefore_mono _ (h3 c hc x hx) (by simp)
  case deliverC =>
    intro s i sz _ hi _ ⟨h1, h2, h3⟩
    refine ⟨?_, ?_, ?_⟩
    · intro k x hk
      rcases getElem?_snoc_cases hk with hk | ⟨hk, hx⟩
      · exact seenBefore_mono _ (h1 k x hk) (Nat.le_refl _)
      · rw [hk, hx]
        exact seenBefore_mono _ (h3 _ (mem_of_getElem? hi) sz rfl) (Nat.le_refl _)
    · intro x hx
      exact seenBefore_mono _ (h2 x hx) (by simp)
    · intro c hc x hx
      exact seenBefore_mono _ (h3 c (List.mem_of_mem_eraseIdx hc) x hx) (by simp)

theorem hist_run_aux {z : Size} (post : List Label) :
    ∀ (pre : List Label) (t s : St), runLabels (init z) pre = some t → Hist z pre t →
      runLabels t post = some s → Hist z (pre ++ post) s := by
  induction post with
  | nil =>
    intro pre t s _ hh h
    simp only [runLabels] at h; cases h
    simpa using hh
  | cons l post ih =>
    intro pre t s hpre hh h
    obtain ⟨t1, h1, h2⟩ := runLabels_cons h
    have hpre1 : runLabels (init z) (pre ++ [l]) = some t1 := by
      rw [runLabels_append pre [l] hpre]; simp only [runLabels, h1]
    have := ih (pre ++ [l]) t1 s hpre1 (hist_step h1 hpre hh) h2
    simpa using this

theorem hist_run {z : Size} {ls : List Label} {s : St} (h : runLabels (init z) ls = some s) :
    Hist z ls s := by
  have := hist_run_aux (z := z) ls [] (init z) s rfl (hist_init z) h
  simpa using this

/-! ### schedules to quiescence -/

/-- the checkers in flight can all finish, front to back: `checkerCost` internal steps that
touch nothing but the checkers and the reports -/
theorem finish_checkers (cs : List CPc) :
    ∀ s : St, s.checkers = cs → s.cancelled = false →
      ∃ ps s', (∀ l ∈ ps, l.isInternal = true) ∧ ps.length = checkerCost cs ∧
        runLabels s ps = some s' ∧ s'.checkers = [] ∧ s'.pending = s.pending ∧
        s'.listener = s.listener ∧ s'.size = s.size ∧ s'.cancelled = false := by
  induction cs with
  | nil => intro s hc hn; exact ⟨[], s, by simp, rfl, rfl, hc, rfl, rfl, rfl, hn⟩
  | cons c cs ih =>
    intro s hc hn
    cases c with
    | querying =>
      obtain ⟨ps, s', p1, p2, p3, p4, p5, p6, p7, p8⟩ :=
        ih { s with checkers := cs, reported := s.reported ++ [s.size] } rfl hn
      refine ⟨.query (some 0) :: .deliver (some 0) :: ps, s', ?_, ?_, ?_, p4, p5, p6, p7, p8⟩
      · intro l hl
        rcases List.mem_cons.1 hl with h | hl
        · rw [h]; rfl
        · rcases List.mem_cons.1 hl with h | hl
          · rw [h]; rfl
          · exact p1 l hl
      · simp [checkerCost, p2]; omega
      · simp only [runLabels, step, hc, hn, List.getElem?_cons_zero, List.set_cons_zero,
          List.eraseIdx_cons_zero]
        simp only [hn] at p3
        exact p3
    | sending x =>
      obtain ⟨ps, s', p1, p2, p3, p4, p5, p6, p7, p8⟩ :=
        ih { s with checkers := cs, reported := s.reported ++ [x] } rfl hn
      refine ⟨.deliver (some 0) :: ps, s', ?_, ?_, ?_, p4, p5, p6, p7, p8⟩
      · intro l hl
        rcases List.mem_cons.1 hl with h | hl
        · rw [h]; rfl
        · exact p1 l hl
      · simp [checkerCost, p2]; omega
      · simp only [runLabels, step, hc, hn, List.getElem?_cons_zero, List.eraseIdx_cons_zero]
        simp only [hn] at p3
        exact p3

/-- with no checker in flight the listener finishes its round, and one more if a signal is
pending: `listenerCost` internal steps to a quiescent state; if a signal was pending, or the
listener was about to query or held the current size, its last report is the true size -/
theorem finish_listener (s : St) (hc : s.checkers = []) (hn : s.cancelled = false) :
    ∃ ps s', (∀ l ∈ ps, l.isInternal = true) ∧ ps.length = listenerCost s ∧
      runLabels s ps = some s' ∧ Quiescent s' ∧ s'.size = s.size ∧
      ((s.pending = true ∨ s.listener = .querying ∨ s.listener = .sending s.size) →
        lastReported s' = some s.size) := by
  obtain ⟨size, pending, listener, checkers, reported, cancelled⟩ := s
  simp only at hc hn
  subst hc hn
  cases listener with
  | waiting =>
    cases pending with
    | false =>
      exact ⟨[], _, by simp, rfl, rfl, ⟨rfl, rfl, rfl, rfl⟩, rfl, by simp⟩
    | true =>
      exact ⟨[.take, .query none, .deliver none], _, by simp [Label.isInternal], rfl, rfl,
        ⟨rfl, rfl, rfl, rfl⟩, rfl, by simp [lastReported]⟩
  | querying =>
    cases pending with
    | false =>
      exact ⟨[.query none, .deliver none], _, by simp [Label.isInternal], rfl, rfl,
        ⟨rfl, rfl, rfl, rfl⟩, rfl, by simp [lastReported]⟩
    | true =>
      exact ⟨[.query none, .deliver none, .take, .query none, .deliver none], _,
        by simp [Label.isInternal], rfl, rfl, ⟨rfl, rfl, rfl, rfl⟩, rfl, by simp [lastReported]⟩
  | sending x =>
    cases pending with
    | false =>
      refine ⟨[.deliver none], _, by simp [Label.isInternal], rfl, rfl,
        ⟨rfl, rfl, rfl, rfl⟩, rfl, ?_⟩
      intro h
      simp only [Bool.false_eq_true, reduceCtorEq, LPc.sending.injEq, false_or] at h
      simp [lastReported, h]
    | true =>
      exact ⟨[.deliver none, .take, .query none, .deliver none], _,
        by simp [Label.isInternal], rfl, rfl, ⟨rfl, rfl, rfl, rfl⟩, rfl, by simp [lastReported]⟩

theorem checkerCost_le (cs : List CPc) : checkerCost cs ≤ 2 * cs.length := by
  induction cs with
  | nil => simp [checkerCost]
  | cons c cs ih => cases c <;> simp [checkerCost] <;> omega

theorem listenerCost_le (s : St) : listenerCost s ≤ 5 := by
  simp only [listenerCost]
  cases s.listener <;> cases s.pending <;> simp

theorem rank_le (s : St) : rank s ≤ 2 * s.checkers.length + 5 := by
  have := checkerCost_le s.checkers
  have := listenerCost_le s
  simp only [rank]; omega

/-- from ANY state that is not cancelled: exactly `rank s` internal steps (checkers first, then
the listener) reach a quiescent state without the size changing; and if a report by the
listener was still to come, the last report there is the true size -/
theorem quiesce (s : St) (hn : s.cancelled = false) :
    ∃ ps s', (∀ l ∈ ps, l.isInternal = true) ∧ ps.length = rank s ∧
      runLabels s ps = some s' ∧ Quiescent s' ∧ s'.size = s.size ∧
      ((s.pending = true ∨ s.listener = .querying ∨ s.listener = .sending s.size) →
        lastReported s' = some s.size) := by
  obtain ⟨ps1, s1, a1, a2, a3, a4, a5, a6, a7, a8⟩ := finish_checkers s.checkers s rfl hn
  obtain ⟨ps2, s2, b1, b2, b3, b4, b5, b6⟩ := finish_listener s1 a4 a8
  refine ⟨ps1 ++ ps2, s2, ?_, ?_, ?_, b4, by rw [b5, a7], ?_⟩
  · intro l hl
    rcases List.mem_append.1 hl with h | h
    · exact a1 l h
    · exact b1 l h
  · simp only [List.length_append, a2, b2, rank, listenerCost, a5, a6]
  · rw [runLabels_append ps1 ps2 a3]; exact b3
  · intro h
    rw [← a7]
    apply b6
    rw [a5, a6, a7]
    exact h

/-- internal steps are not resizes -/
theorem internal_not_resize {ps : List Label} (h : ∀ l ∈ ps, l.isInternal = true) :
    ∀ l ∈ ps, l.isResize = false := by
  intro l hl
  have := h l hl
  cases l <;> simp_all [Label.isInternal, Label.isResize]

/-! ### more invariants of reachable states -/

/-- in every reachable state the report of the CURRENT size is owed or was delivered (since the
last resize, or since start-up) -/
theorem owed_reachable {z : Size} {s : St} (hr : Reachable z s) :
    ∃ base, Owed base s.size s := by
  induction hr with
  | init => exact ⟨[], owed_init z⟩
  | step l _ hs ih =>
    obtain ⟨base, ho⟩ := ih
    cases hl : l.isResize with
    | false =>
      obtain ⟨ho', hsz⟩ := owed_step hs hl rfl ho
      exact ⟨base, by rw [hsz]; exact ho'⟩
    | true =>
      cases l with
      | resize sz =>
        simp only [step, Option.some.injEq] at hs
        subst hs
        exact ⟨_, owed_after_resize _ sz⟩
      | _ => cases hl

/-- a signal raised is taken or still pending -/
theorem taken_step {s s' : St} {l : Label} (hs : step s l = some s') :
    (s.pending = true ∨ 0 < resizes [l]) → (s'.pending = true ∨ 0 < takes [l]) := by
  rstep_elim hs
  case resize => intro s sz _; exact Or.inl rfl
  case take => intro s _ _ _ _; exact Or.inr (by simp [takes])
  all_goals intros
  all_goals simp_all [takes, resizes, List.filter, Label.isResize]

theorem taken_run {s s' : St} {ls : List Label} (h : runLabels s ls = some s') :
    (s.pending = true ∨ 0 < resizes ls) → (s'.pending = true ∨ 0 < takes ls) := by
  induction ls generalizing s with
  | nil =>
    simp only [runLabels] at h; cases h
    intro h; rcases h with h | h
    · exact Or.inl h
    · simp [resizes] at h
  | cons l ls ih =>
    obtain ⟨s1, h1, h2⟩ := runLabels_cons h
    rw [takes_cons, resizes_cons]
    intro hp
    have e1 := taken_step h1
    have e2 := ih h2
    have : (s.pending = true ∨ 0 < resizes [l]) ∨ 0 < resizes ls := by
      rcases hp with hp | hp
      · exact Or.inl (Or.inl hp)
      · by_cases h0 : 0 < resizes [l]
        · exact Or.inl (Or.inr h0)
        · exact Or.inr (by omega)
    rcases this with hh | hh
    · rcases e1 hh with e | e
      · rcases e2 (Or.inl e) with e | e
        · exact Or.inl e
        · exact Or.inr (by omega)
      · exact Or.inr (by omega)
    · rcases e2 (Or.inr hh) with e | e
      · exact Or.inl e
      · exact Or.inr (by omega)

theorem resizes_eq_zero {ls : List Label} (h : ∀ l ∈ ls, l.isResize = false) : resizes ls = 0 := by
  simp only [resizes, List.length_eq_zero_iff, List.filter_eq_nil_iff]
  intro l hl; simp [h l hl]

end Tea.Runtime.Resize
