import Tea.Proofs.ChunkedEvents
import Tea.Doc.KeyTable
/-
Helper lemmas for C15: closed facts about the table derived from the documented key table
(`deriveExt Tea.Doc.sequences`), checked by kernel evaluation.  The quadratic check "which
keys are `keyStableB`" is split into three parts to keep every declaration fast.
No property theorems here.
-/
namespace Tea.Input
open Tea

/-- every entry of `l` is one of the three excluded keys or is `keyStableB` in the derived
documented table -/
def docKeysOkB (l : Table) : Bool :=
  l.all fun e => e.seq == [27, 27] || e.seq == [27, 91, 55, 36] || e.seq == [27, 91, 56, 36] ||
    keyStableB (deriveExt Tea.Doc.sequences) e

theorem docKeysOk_1 : docKeysOkB ((deriveExt Tea.Doc.sequences).take 100) = true := by decide +kernel
theorem docKeysOk_2 : docKeysOkB (((deriveExt Tea.Doc.sequences).drop 100).take 100) = true := by
  decide +kernel
theorem docKeysOk_3 : docKeysOkB ((deriveExt Tea.Doc.sequences).drop 200) = true := by decide +kernel

theorem docKeys_stable : ∀ e ∈ deriveExt Tea.Doc.sequences,
    e.seq ≠ [27, 27] → e.seq ≠ [27, 91, 55, 36] → e.seq ≠ [27, 91, 56, 36] →
    keyStableB (deriveExt Tea.Doc.sequences) e = true := by
  intro e he h1 h2 h3
  have hsplit : deriveExt Tea.Doc.sequences =
      (deriveExt Tea.Doc.sequences).take 100 ++
        (((deriveExt Tea.Doc.sequences).drop 100).take 100 ++
          ((deriveExt Tea.Doc.sequences).drop 100).drop 100) := by
    rw [List.take_append_drop, List.take_append_drop]
  rw [List.drop_drop] at hsplit
  rw [hsplit] at he
  have key : ∀ l : Table, docKeysOkB l = true → e ∈ l → keyStableB (deriveExt Tea.Doc.sequences) e = true := by
    intro l hl hel
    have := (List.all_eq_true.1 hl) e hel
    simpa [h1, h2, h3] using this
  rcases List.mem_append.1 he with h | h
  · exact key _ docKeysOk_1 h
  · rcases List.mem_append.1 h with h | h
    · exact key _ docKeysOk_2 h
    · exact key _ docKeysOk_3 h

end Tea.Input
