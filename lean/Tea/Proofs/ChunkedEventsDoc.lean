import Tea.Proofs.ChunkedEvents
import Tea.Doc.KeyTable
/-
Helper lemmas for C15: closed facts about the table derived from the documented key table
(`deriveExt Tea.Doc.sequences`), checked by kernel evaluation.  The quadratic check "which
keys are `keyStableB`" is split into three parts to keep every declaration fast.
No property theorems here.
-/
namespace Tea.Input
open Tea

/-- every entry of `l` is one of the three excluded keys or is `keyStableB` in the derived
documented table -/
def docKeysOkB (l : Table) : Bool :=
  l.all fun e => e.seq == [27, 27] || e.seq == [27, 91, 55, 36] || e.seq == [27, 91, 56, 36] ||
    keyStableB (deriveExt Tea.Doc.sequences) e

theorem docKeysOk_1 : docKeysOkB ((deriveExt Tea.Doc.sequences).take 100) = true := by decide +kernel
theorem docKeysOk_2 : docKeysOkB (((deriveExt Tea.Doc.sequences).drop 100).take 100) = true := by
  decide +kernel
theorem docKeysOk_3 : docKeysOkB ((deriveExt Tea.Doc.sequences).drop 200) = true := by decide +kernel

theorem docKeys_stable : ∀ e ∈ deriveExt Tea.Doc.sequences,
    e.seq ≠ [27, 27] → e.seq ≠ [27, 91, 55, 36] → e.seq ≠ [27, 91, 56, 36] →
    keyStableB (deriveExt Tea.Doc.sequences) e = true := by
  intro e he h1 h2 h3
  have hsplit : deriveExt Tea.Doc.sequences =
      (deriveExt Tea.Doc.sequences).take 100 ++
        (((deriveExt Tea.Doc.sequences).drop 100).take 100 ++
          ((deriveExt Tea.Doc.sequences).drop 100).drop 100) := by
    rw [List.take_append_drop, List.take_append_drop]
  rw [List.drop_drop] at hsplit
  rw [hsplit] at he
  have key : ∀ l : Table, docKeysOkB l = true → e ∈ l → keyStableB (deriveExt Tea.Doc.sequences) e = true := by
    intro l hl hel
    have := (List.all_eq_true.1 hl) e hel
    simpa [h1, h2, h3] using this
  rcases List.mem_append.1 he with h | h
  · exact key _ docKeysOk_1 h
  · rcases List.mem_append.1 h with h | h
    · exact key _ docKeysOk_2 h
    · exact key _ docKeysOk_3 h

/-! ### alt + character over the documented table -/

/-- the shape of the keys of a table that decides which `ESC c …` are comparable with a key: no
empty key, no key `ESC` alone, and every key `ESC c …` has `c` a control byte, space, DEL, `[`
or `O` -/
def escSecondB (T : Table) : Bool :=
  T.all fun e => match e.seq with
    | [] => false
    | [c] => c != 0x1b
    | 0x1b :: c :: _ => decide (c ≤ 32) || c == 127 || c == 0x5b || c == 0x4f
    | _ => true

theorem doc_escSecond : escSecondB (deriveExt Tea.Doc.sequences) = true := by decide +kernel

theorem incomparable_esc_of_second {T : Table} (hT : escSecondB T = true) {c : Nat}
    (h32 : 32 < c) (h127 : c ≠ 127) (h5 : c ≠ 0x5b) (hO : c ≠ 0x4f) (tl : Bytes) :
    incomparableB T (0x1b :: c :: tl) = true := by
  unfold incomparableB
  rw [List.all_eq_true]
  intro e he
  have h := (List.all_eq_true.1 hT) e he
  simp only [Bool.and_eq_true, Bool.not_eq_true', isPrefix_eq_false_iff]
  cases hs : e.seq with
  | nil => rw [hs] at h; simp at h
  | cons a as =>
    rw [hs] at h
    by_cases ha : a = 0x1b
    · subst ha
      cases as with
      | nil => simp at h
      | cons b bs =>
        have hb : b ≠ c := by
          simp only [Bool.or_eq_true, decide_eq_true_eq, beq_iff_eq] at h
          omega
        constructor
        · intro hp
          exact hb (List.cons_prefix_cons.1 (List.cons_prefix_cons.1 hp).2).1
        · intro hp
          exact hb (List.cons_prefix_cons.1 (List.cons_prefix_cons.1 hp).2).1.symm
    · constructor
      · intro hp; exact ha (List.cons_prefix_cons.1 hp).1
      · intro hp; exact ha (List.cons_prefix_cons.1 hp).1.symm

/-- the first byte of the encoding of `r` is `r` itself (ASCII) or at least 0xC0 -/
theorem encodeRune_head_cases (r : Nat) :
    ∃ c tl, Utf8.encodeRune r = c :: tl ∧ ((c = r ∧ r < 0x80) ∨ 0xc0 ≤ c) := by
  unfold Utf8.encodeRune
  by_cases h1 : r < 0x80
  · rw [if_pos h1]; exact ⟨_, _, rfl, Or.inl ⟨rfl, h1⟩⟩
  · rw [if_neg h1]
    by_cases h2 : r < 0x800
    · rw [if_pos h2]; exact ⟨_, _, rfl, Or.inr (by omega)⟩
    · rw [if_neg h2]
      split
      · exact ⟨_, _, rfl, Or.inr (by omega)⟩
      · split
        · exact ⟨_, _, rfl, Or.inr (by omega)⟩
        · exact ⟨_, _, rfl, Or.inr (by omega)⟩

/-- over the documented table, alt + ANY printable character other than `[` and `O` satisfies
the side condition of the grammar -/
theorem docAltRune_ok (r : Nat) (hp : printableScalar r = true) (h5 : r ≠ 0x5b) (hO : r ≠ 0x4f) :
    (Ev.altRune r).ok (deriveExt Tea.Doc.sequences) = true := by
  have hp' := hp
  simp only [printableScalar, Bool.and_eq_true, decide_eq_true_eq, bne_iff_ne, ne_eq] at hp'
  obtain ⟨⟨⟨_, h32⟩, h127⟩, _⟩ := hp'
  obtain ⟨c, tl, hc, hcases⟩ := encodeRune_head_cases r
  simp only [Ev.ok, Bool.and_eq_true, bne_iff_ne, ne_eq]
  refine ⟨⟨hp, h5⟩, ?_⟩
  rw [hc]
  rcases hcases with ⟨h, _⟩ | h
  · subst h
    exact incomparable_esc_of_second doc_escSecond h32 h127 h5 hO tl
  · exact incomparable_esc_of_second doc_escSecond (by omega) (by omega) (by omega) (by omega) tl

end Tea.Input
