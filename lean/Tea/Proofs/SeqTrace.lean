import Tea.Runtime.SeqTrace
import Tea.Proofs.LifeAccept
/-
Soundness of the trace checker of the Sequence LTS (helper lemmas; the statements that count are in
`Tea/Props/C03.lean`): an accepted history is the observable projection of a run of the product
`stepX`, and every run of the product projects to a run of the Sequence LTS.
-/
namespace Tea.Runtime.SeqTrace
open Tea.Runtime.Seq Tea.Runtime.Life

/-- `RunX nils hid s obs s'`: the product goes from `s` to `s'`, and the log shows exactly `obs` on
the way - each observed label is taken as a step, followed by any number of hidden steps -/
inductive RunX (nils : List MsgId) (hid : List XLabel) : XSt → List XLabel → XSt → Prop where
  | nil (s : XSt) : RunX nils hid s [] s
  | cons {s s1 s2 s' : XSt} {o : XLabel} {os hs : List XLabel} :
      stepX nils s o = some s1 → (∀ l, l ∈ hs → l ∈ hid) → runG (stepX nils) s1 hs = some s2 →
      RunX nils hid s2 os s' → RunX nils hid s (o :: os) s'

theorem advanceX_sound (nils : List MsgId) (hid : List XLabel) (ss : List XSt) (o : XLabel) :
    ∀ s', s' ∈ advanceX nils hid ss o →
      ∃ s, s ∈ ss ∧ ∃ s1 hs, stepX nils s o = some s1 ∧ (∀ l, l ∈ hs → l ∈ hid) ∧
        runG (stepX nils) s1 hs = some s' := by
  intro s' h
  unfold advanceX at h
  obtain ⟨s1, h1, hs, hr, hh⟩ := closeSetG_sound (stepX nils) hid _ s' h
  simp only [List.mem_filterMap] at h1
  obtain ⟨s, hs0, hstep⟩ := h1
  exact ⟨s, hs0, s1, hs, hstep, hh, hr⟩

theorem acceptsX_sound (nils : List MsgId) (hid : List XLabel) (ss : List XSt) (obs : List XLabel) (i : Nat)
    (hne : ss ≠ []) (h : acceptsX nils hid ss obs i = none) :
    ∃ s0, s0 ∈ ss ∧ ∃ sN, RunX nils hid s0 obs sN := by
  induction obs generalizing ss i with
  | nil =>
    cases ss with
    | nil => exact absurd rfl hne
    | cons s ss => exact ⟨s, List.mem_cons_self .., s, RunX.nil s⟩
  | cons o os ih =>
    unfold acceptsX at h
    split at h
    · simp at h
    · rename_i hadv
      obtain ⟨s2, hs2, sN, hrun⟩ := ih _ _ (fun he => hadv he) h
      obtain ⟨s, hs, s1, hl, hstep, hh, hr⟩ := advanceX_sound nils hid ss o s2 hs2
      exact ⟨s, hs, sN, RunX.cons hstep hh hr hrun⟩

/-- accepted: hidden steps from the initial state, then a run whose observable projection is `obs` -/
theorem firstRejectedX_sound (elems : List Elem) (nils : List MsgId) (obs : List XLabel)
    (h : firstRejectedX elems nils obs = none) :
    ∃ hs0 s0 sN, (∀ l, l ∈ hs0 → l ∈ hiddenX (widthOf elems)) ∧
      runG (stepX nils) (initX elems) hs0 = some s0 ∧ RunX nils (hiddenX (widthOf elems)) s0 obs sN := by
  unfold firstRejectedX at h
  have hne : closeSetG (stepX nils) (hiddenX (widthOf elems)) [initX elems] ≠ [] :=
    closeSetG_ne_nil (stepX nils) _ (by simp)
  obtain ⟨s0, hs0, sN, hrun⟩ := acceptsX_sound nils _ _ obs 0 hne h
  obtain ⟨s, hs, ls, hr, hh⟩ := closeSetG_sound (stepX nils) _ _ s0 hs0
  simp only [List.mem_singleton] at hs
  subst hs
  exact ⟨ls, s0, sN, hh, hr, hrun⟩

/-! ### projection to the Sequence LTS -/

/-- a step of the product is a step of the Sequence LTS, or leaves its state alone -/
theorem stepX_proj (nils : List MsgId) (x x' : XSt) (l : XLabel) (h : stepX nils x l = some x') :
    x'.seq = x.seq ∨ ∃ l', Seq.step x.seq l' = some x'.seq := by
  cases l with
  | hid l' =>
    simp only [stepX] at h
    split at h
    · cases hs : Seq.step x.seq l' with
      | none => simp [hs] at h
      | some s => simp only [hs, Option.map_some, Option.some.injEq] at h; subst h; exact Or.inr ⟨l', hs⟩
    · simp at h
  | startBatch =>
    simp only [stepX] at h
    split at h
    · cases hs : Seq.step x.seq .start with
      | none => simp [hs] at h
      | some s => simp only [hs, Option.map_some, Option.some.injEq] at h; subst h; exact Or.inr ⟨.start, hs⟩
    · simp at h
  | startPlain j =>
    simp only [stepX] at h
    split at h
    · cases hs : Seq.step x.seq .start with
      | none => simp [hs] at h
      | some s => simp only [hs, Option.map_some, Option.some.injEq] at h; subst h; exact Or.inr ⟨.start, hs⟩
    · simp at h
  | fanRunning j p =>
    simp only [stepX] at h
    split at h
    · simp only [Option.some.injEq] at h; subst h; exact Or.inl rfl
    · simp at h
  | recv =>
    simp only [stepX] at h
    split at h
    · cases hs : Seq.step x.seq .recv with
      | none => simp [hs] at h
      | some s => simp only [hs, Option.map_some, Option.some.injEq] at h; subst h; exact Or.inr ⟨.recv, hs⟩
    · simp at h
  | fanRecv k =>
    simp only [stepX] at h
    split at h
    · split at h
      · cases hs : Seq.step x.seq (.fanRecv k) with
        | none => simp [hs] at h
        | some s => simp only [hs, Option.map_some, Option.some.injEq] at h; subst h; exact Or.inr ⟨.fanRecv k, hs⟩
      · simp at h
    · simp at h
  | logSeq m =>
    simp only [stepX] at h
    split at h
    · simp only [Option.some.injEq] at h; subst h; exact Or.inl rfl
    · simp at h
  | logNil =>
    simp only [stepX] at h
    split at h
    · split at h
      · simp only [Option.some.injEq] at h; subst h; exact Or.inl rfl
      · simp at h
    · simp at h
  | logOther =>
    simp only [stepX] at h
    split at h
    · simp only [Option.some.injEq] at h; subst h; exact Or.inl rfl
    · simp at h
  | idle =>
    simp only [stepX] at h
    split at h
    · simp only [Option.some.injEq] at h; subst h; exact Or.inl rfl
    · simp at h

theorem stepX_reach (nils : List MsgId) (elems : List Elem) (x x' : XSt) (l : XLabel)
    (hr : Seq.Reachable elems x.seq) (h : stepX nils x l = some x') : Seq.Reachable elems x'.seq := by
  rcases stepX_proj nils x x' l h with he | ⟨l', hs⟩
  · rw [he]; exact hr
  · exact Seq.Reachable.step l' hr hs

theorem runG_reach (nils : List MsgId) (elems : List Elem) (x x' : XSt) (ls : List XLabel)
    (hr : Seq.Reachable elems x.seq) (h : runG (stepX nils) x ls = some x') : Seq.Reachable elems x'.seq := by
  induction ls generalizing x with
  | nil => simp only [runG, Option.some.injEq] at h; subst h; exact hr
  | cons l ls ih =>
    simp only [runG] at h
    cases hs : stepX nils x l with
    | none => simp [hs] at h
    | some t => simp only [hs] at h; exact ih t (stepX_reach nils elems x t l hr hs) h

theorem RunX.reach {nils : List MsgId} {hid : List XLabel} {elems : List Elem} {x x' : XSt} {obs : List XLabel}
    (h : RunX nils hid x obs x') (hr : Seq.Reachable elems x.seq) : Seq.Reachable elems x'.seq := by
  induction h with
  | nil s => exact hr
  | cons hstep _ hrun _ ih =>
    exact ih (runG_reach nils elems _ _ _ (stepX_reach nils elems _ _ _ hr hstep) hrun)

end Tea.Runtime.SeqTrace
