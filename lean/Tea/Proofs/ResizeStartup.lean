import Tea.Proofs.ResizeLocked
/-
Helper lemmas about the START-UP LAYER of the window-size LTS (`StS`, `stepOldS`, `stepNewS` of
Tea/Runtime/Resize.lean: the listener's subscription to SIGWINCH is a step; a resize before it
raises no signal) for section 10 of C18: one step of the layer, the invariant `StartupInv` of
the repaired start-up, runs of the core lifted to the layer, the schedule to `QuiescentS`, the
counting, and "the listener queries only after its subscription".
-/
namespace Tea.Runtime.Resize

/-! ### one step of the layer -/

theorem coreStep_true (c : St) (l : Label) : coreStep true c l = stepL c l := by
  cases l <;> rfl

theorem coreStep_false_resize (c : St) (sz : Size) :
    coreStep false c (.resize sz) = some (resizeUnsub c sz) := rfl

theorem coreStep_of_not_resize (b : Bool) (c : St) {l : Label} (h : l.isResize = false) :
    coreStep b c l = stepL c l := by
  cases b with
  | true => exact coreStep_true c l
  | false =>
    cases l with
    | resize sz => simp [Label.isResize] at h
    | _ => rfl

/-- a step of the core under the layer is the silent resize (not subscribed), or a step of the
repaired core that is not such a resize -/
theorem coreStep_cases {b : Bool} {c c' : St} {l : Label} (h : coreStep b c l = some c') :
    (b = false ∧ ∃ sz, l = .resize sz ∧ c' = resizeUnsub c sz) ∨
    ((b = true ∨ l.isResize = false) ∧ stepL c l = some c') := by
  cases b with
  | true => rw [coreStep_true] at h; exact Or.inr ⟨Or.inl rfl, h⟩
  | false =>
    cases hl : l.isResize with
    | false => rw [coreStep_of_not_resize false c hl] at h; exact Or.inr ⟨Or.inr rfl, h⟩
    | true =>
      cases l with
      | resize sz =>
        rw [coreStep_false_resize] at h
        cases h
        exact Or.inl ⟨rfl, sz, rfl, rfl⟩
      | _ => simp [Label.isResize] at hl

/-- one step of the repaired start-up: the subscription, or a step of the core -/
theorem stepNewS_cases {s s' : StS} {l : LabelS} (h : stepNewS s l = some s') :
    (l = .subscribe ∧ s.subscribed = false ∧ s.core.cancelled = false ∧
      s' = { core := { s.core with listener := .querying }, subscribed := true }) ∨
    (∃ cl c', l = .core cl ∧ coreStep s.subscribed s.core cl = some c' ∧
      s' = { s with core := c' }) := by
  cases l with
  | subscribe =>
    simp only [stepNewS] at h
    split at h
    · rename_i h1 h2
      cases h
      exact Or.inl ⟨rfl, h1, h2, rfl⟩
    · cases h
  | core cl =>
    simp only [stepNewS] at h
    split at h
    · rename_i c' hc
      cases h
      exact Or.inr ⟨cl, c', rfl, hc, rfl⟩
    · cases h

/-- one step of the start-up before the repair -/
theorem stepOldS_cases {s s' : StS} {l : LabelS} (h : stepOldS s l = some s') :
    (l = .subscribe ∧ s.subscribed = false ∧ s.core.cancelled = false ∧
      s' = { s with subscribed := true }) ∨
    (∃ cl c', l = .core cl ∧ coreStep s.subscribed s.core cl = some c' ∧
      s' = { s with core := c' }) := by
  cases l with
  | subscribe =>
    simp only [stepOldS] at h
    split at h
    · rename_i h1 h2
      cases h
      exact Or.inl ⟨rfl, h1, h2, rfl⟩
    · cases h
  | core cl =>
    simp only [stepOldS] at h
    split at h
    · rename_i c' hc
      cases h
      exact Or.inr ⟨cl, c', rfl, hc, rfl⟩
    · cases h

theorem stepNewS_subscribe {s : StS} (h1 : s.subscribed = false) (h2 : s.core.cancelled = false) :
    stepNewS s .subscribe =
      some { core := { s.core with listener := .querying }, subscribed := true } := by
  simp only [stepNewS, h1, h2]

/-- once subscribed, a step of the repaired core is a step of the layer -/
theorem stepNewS_core_subscribed {c c' : St} {l : Label} (h : stepL c l = some c') :
    stepNewS { core := c, subscribed := true } (.core l) = some { core := c', subscribed := true } := by
  simp only [stepNewS, coreStep_true, h]

/-! ### runs -/

theorem runLabelsNewS_cons {s s' : StS} {l : LabelS} {ls : List LabelS}
    (h : runLabelsNewS s (l :: ls) = some s') :
    ∃ s1, stepNewS s l = some s1 ∧ runLabelsNewS s1 ls = some s' := by
  simp only [runLabelsNewS] at h
  split at h
  · rename_i s1 h1; exact ⟨s1, h1, h⟩
  · cases h

theorem runLabelsNewS_append {s s1 : StS} (ls ls' : List LabelS)
    (h : runLabelsNewS s ls = some s1) :
    runLabelsNewS s (ls ++ ls') = runLabelsNewS s1 ls' := by
  induction ls generalizing s with
  | nil => simp only [runLabelsNewS] at h; cases h; rfl
  | cons l ls ih =>
    obtain ⟨s2, h2, h3⟩ := runLabelsNewS_cons h
    simp only [List.cons_append, runLabelsNewS, h2]
    exact ih h3

theorem reachableNewS_runLabels {z : Size} {s s' : StS} (ls : List LabelS)
    (hr : ReachableNewS z s) (h : runLabelsNewS s ls = some s') : ReachableNewS z s' := by
  induction ls generalizing s with
  | nil => simp only [runLabelsNewS] at h; cases h; exact hr
  | cons l ls ih =>
    obtain ⟨s1, h1, h2⟩ := runLabelsNewS_cons h
    exact ih (ReachableNewS.step l hr h1) h2

theorem reachableNewS_of_run {z : Size} {s : StS} {ls : List LabelS}
    (h : runLabelsNewS (initNewS z) ls = some s) : ReachableNewS z s :=
  reachableNewS_runLabels ls ReachableNewS.init h

theorem exists_run_of_reachableNewS {z : Size} {s : StS} (hr : ReachableNewS z s) :
    ∃ ls, runLabelsNewS (initNewS z) ls = some s := by
  induction hr with
  | init => exact ⟨[], rfl⟩
  | step l _ hs ih =>
    obtain ⟨ls, h⟩ := ih
    refine ⟨ls ++ [l], ?_⟩
    rw [runLabelsNewS_append ls [l] h]
    simp only [runLabelsNewS, hs]

/-- a run of the repaired core, lifted to the layer once subscribed -/
theorem runLabelsNewS_lift {c c' : St} {ps : List Label} (h : runLabelsL c ps = some c') :
    runLabelsNewS { core := c, subscribed := true } (ps.map .core) =
      some { core := c', subscribed := true } := by
  induction ps generalizing c with
  | nil => simp only [runLabelsL] at h; cases h; rfl
  | cons l ps ih =>
    obtain ⟨c1, h1, h2⟩ := runLabelsL_cons h
    simp only [List.map_cons, runLabelsNewS, stepNewS_core_subscribed h1]
    exact ih h2

/-! ### the invariant of the repaired start-up -/

/-- a step of the core other than a resize leaves an idle listener idle: `take` needs the
signal, `query none` / `deliver none` need a listener that is not waiting -/
theorem idle_stepL {s s' : St} {l : Label} (hs : stepL s l = some s') :
    l.isResize = false → s.listener = .waiting → s.pending = false →
      s'.listener = .waiting ∧ s'.pending = false := by
  rstepL_elim hs
  case resize => intro s sz h; simp [Label.isResize] at h
  case cmd => intro s _ _ hl hp; exact ⟨hl, hp⟩
  case cancel => intro s _ hl hp; exact ⟨hl, hp⟩
  case take => intro s _ _ hp _ _ hp'; rw [hp'] at hp; cases hp
  case queryL => intro s _ hl _ hl' _; rw [hl'] at hl; cases hl
  case queryC => intro s i _ _ _ hl hp; exact ⟨hl, hp⟩
  case deliverL => intro s sz _ hl _ hl' _; rw [hl'] at hl; cases hl
  case deliverC => intro s i sz _ _ _ hl hp; exact ⟨hl, hp⟩

theorem startupInv_init (z : Size) : StartupInv (initNewS z) := Or.inl ⟨rfl, rfl, rfl⟩

/-- `StartupInv` is inductive.  At `subscribe` the listener becomes `querying`, which makes
`Fresh` and `SenderOk` true whatever the checkers hold. -/
theorem startupInv_step {s s' : StS} {l : LabelS} (hs : stepNewS s l = some s')
    (hi : StartupInv s) : StartupInv s' := by
  rcases stepNewS_cases hs with ⟨_, _, _, rfl⟩ | ⟨cl, c', _, hc, rfl⟩
  · exact Or.inr ⟨rfl, Or.inr (Or.inl rfl), fun _ _ _ _ => Or.inr rfl⟩
  · rcases hi with ⟨hsub, hl, hp⟩ | ⟨hsub, hf, hok⟩
    · refine Or.inl ⟨hsub, ?_⟩
      rcases coreStep_cases hc with ⟨_, sz, _, rfl⟩ | ⟨hb, hstep⟩
      · exact ⟨hl, hp⟩
      · rcases hb with hb | hb
        · rw [hsub] at hb; cases hb
        · exact idle_stepL hstep hb hl hp
    · rcases coreStep_cases hc with ⟨hb, _⟩ | ⟨_, hstep⟩
      · rw [hsub] at hb; cases hb
      · exact Or.inr ⟨hsub, freshL_step hstep hok hf, senderOk_stepL hstep hok⟩

theorem startupInv_reachable {z : Size} {s : StS} (hr : ReachableNewS z s) : StartupInv s := by
  induction hr with
  | init => exact startupInv_init z
  | step l _ hs ih => exact startupInv_step hs ih

theorem startupInv_quiescent {s : StS} (hi : StartupInv s) (hq : QuiescentS s) :
    lastReported s.core = some s.core.size := by
  rcases hi with ⟨hsub, _, _⟩ | ⟨_, hf, _⟩
  · rw [hq.1] at hsub; cases hsub
  · exact fresh_quiescent hf hq.2

/-! ### the schedule to `QuiescentS` -/

theorem internal_map_core {ps : List Label} (h : ∀ l ∈ ps, l.isInternal = true) :
    ∀ l ∈ ps.map LabelS.core, l.isInternal = true := by
  intro l hl
  obtain ⟨a, ha, rfl⟩ := List.mem_map.1 hl
  exact h a ha

/-- from ANY state of the repaired start-up that is not cancelled (and whose listener is waiting
if it is not subscribed yet), exactly `rankS s` internal steps (the subscription first if it has
not happened yet, then the schedule of the repaired core) reach a `QuiescentS` state without the
size changing -/
theorem quiesceS (s : StS) (hn : s.core.cancelled = false)
    (hw : s.subscribed = false → s.core.listener = .waiting) :
    ∃ ps s', (∀ l ∈ ps, l.isInternal = true) ∧ ps.length = rankS s ∧
      runLabelsNewS s ps = some s' ∧ QuiescentS s' ∧ s'.core.size = s.core.size ∧
      s'.core.cancelled = false := by
  obtain ⟨c, sub⟩ := s
  simp only at hn hw
  cases sub with
  | true =>
    obtain ⟨ps, c', p1, p2, p3, p4, p5⟩ := quiesceL (rank c) c rfl hn
    refine ⟨ps.map .core, ⟨c', true⟩, internal_map_core p1, ?_, runLabelsNewS_lift p3,
      ⟨rfl, p4⟩, p5, p4.2.2.2⟩
    simp [rankS, p2]
  | false =>
    have hn' : ({ c with listener := .querying } : St).cancelled = false := hn
    obtain ⟨ps, c', p1, p2, p3, p4, p5⟩ :=
      quiesceL (rank { c with listener := .querying }) { c with listener := .querying } rfl hn'
    refine ⟨.subscribe :: ps.map .core, ⟨c', true⟩, ?_, ?_, ?_, ⟨rfl, p4⟩, p5, p4.2.2.2⟩
    · intro l hl
      rcases List.mem_cons.1 hl with h | h
      · rw [h]; rfl
      · exact internal_map_core p1 l h
    · have hl : c.listener = .waiting := hw rfl
      simp only [List.length_cons, List.length_map, p2, rankS, rank, listenerCost, hl]
      simp
      omega
    · simp only [runLabelsNewS, stepNewS_subscribe (s := ⟨c, false⟩) rfl hn]
      exact runLabelsNewS_lift p3

/-! ### counting -/

theorem coreLabels_cons (l : LabelS) (ls : List LabelS) :
    coreLabels (l :: ls) = coreLabels [l] ++ coreLabels ls := by
  cases l <;> rfl

theorem takes_append (a b : List Label) : takes (a ++ b) = takes a + takes b := by
  simp only [takes, List.count_append]

theorem commands_append (a b : List Label) : commands (a ++ b) = commands a + commands b := by
  simp only [commands, List.count_append]

theorem resizes_append (a b : List Label) : resizes (a ++ b) = resizes a + resizes b := by
  simp only [resizes, List.filter_append, List.length_append]

/-- one step of the repaired start-up: the subscription adds the listener's initial report to
those owed, a `take` and a `windowSizeCmd` each add one, a delivery moves one from "in flight"
to "reported", nothing else changes the sum -/
theorem countS_step {s s' : StS} {l : LabelS} (hs : stepNewS s l = some s')
    (hw : s.subscribed = false → s.core.listener = .waiting) :
    inFlight s'.core + s'.core.reported.length + (if s.subscribed then 1 else 0) =
      inFlight s.core + s.core.reported.length + (if s'.subscribed then 1 else 0) +
        takes (coreLabels [l]) + commands (coreLabels [l]) := by
  rcases stepNewS_cases hs with ⟨rfl, hsub, _, rfl⟩ | ⟨cl, c', rfl, hc, rfl⟩
  · have hl := hw hsub
    simp [inFlight, hl, hsub, coreLabels, takes, commands]
    omega
  · rcases coreStep_cases hc with ⟨_, sz, rfl, rfl⟩ | ⟨_, hstep⟩
    · simp [coreLabels, takes, commands, resizeUnsub, inFlight]
    · have := count_step (stepL_step hstep).1
      simp only [coreLabels]
      omega

theorem countS_run {s s' : StS} {ls : List LabelS} (h : runLabelsNewS s ls = some s')
    (hi : StartupInv s) :
    inFlight s'.core + s'.core.reported.length + (if s.subscribed then 1 else 0) =
      inFlight s.core + s.core.reported.length + (if s'.subscribed then 1 else 0) +
        takes (coreLabels ls) + commands (coreLabels ls) := by
  induction ls generalizing s with
  | nil => simp only [runLabelsNewS] at h; cases h; simp [coreLabels, takes, commands]
  | cons l ls ih =>
    obtain ⟨s1, h1, h2⟩ := runLabelsNewS_cons h
    have hw : s.subscribed = false → s.core.listener = .waiting := by
      intro hsub
      rcases hi with ⟨_, hl, _⟩ | ⟨hs, _, _⟩
      · exact hl
      · rw [hsub] at hs; cases hs
    have e1 := countS_step h1 hw
    have e2 := ih h2 (startupInv_step h1 hi)
    rw [coreLabels_cons, takes_append, commands_append]
    omega

/-- one step: every `take` consumes a signal only a resize can raise (a resize before the
subscription raises none) -/
theorem signalS_step {s s' : StS} {l : LabelS} (hs : stepNewS s l = some s') :
    takes (coreLabels [l]) + (if s'.core.pending then 1 else 0) ≤
      resizes (coreLabels [l]) + (if s.core.pending then 1 else 0) := by
  rcases stepNewS_cases hs with ⟨rfl, _, _, rfl⟩ | ⟨cl, c', rfl, hc, rfl⟩
  · simp [coreLabels, takes, resizes]
  · rcases coreStep_cases hc with ⟨_, sz, rfl, rfl⟩ | ⟨_, hstep⟩
    · have e1 : takes [Label.resize sz] = 0 := by simp [takes]
      have e2 : resizes [Label.resize sz] = 1 := rfl
      simp only [coreLabels, e1, e2, Nat.zero_add]
      exact Nat.le_add_left _ _
    · exact signal_step (stepL_step hstep).1

theorem signalS_run {s s' : StS} {ls : List LabelS} (h : runLabelsNewS s ls = some s') :
    takes (coreLabels ls) + (if s'.core.pending then 1 else 0) ≤
      resizes (coreLabels ls) + (if s.core.pending then 1 else 0) := by
  induction ls generalizing s with
  | nil => simp only [runLabelsNewS] at h; cases h; simp [coreLabels, takes, resizes]
  | cons l ls ih =>
    obtain ⟨s1, h1, h2⟩ := runLabelsNewS_cons h
    have e1 := signalS_step h1
    have e2 := ih h2
    rw [coreLabels_cons, takes_append, resizes_append]
    omega

/-! ### the listener works only after its subscription -/

theorem runLabelsNewS_append_some {s s' : StS} {a b : List LabelS}
    (h : runLabelsNewS s (a ++ b) = some s') :
    ∃ t, runLabelsNewS s a = some t ∧ runLabelsNewS t b = some s' := by
  induction a generalizing s with
  | nil => exact ⟨s, rfl, h⟩
  | cons l a ih =>
    obtain ⟨s1, h1, h2⟩ := runLabelsNewS_cons (ls := a ++ b) h
    obtain ⟨t, h3, h4⟩ := ih h2
    exact ⟨t, by simp only [runLabelsNewS, h1, h3], h4⟩

/-- only `subscribe` sets the flag -/
theorem subscribe_mem_of_run {s s' : StS} {ls : List LabelS} (h : runLabelsNewS s ls = some s')
    (h0 : s.subscribed = false) (h1 : s'.subscribed = true) : LabelS.subscribe ∈ ls := by
  induction ls generalizing s with
  | nil => simp only [runLabelsNewS] at h; cases h; rw [h0] at h1; cases h1
  | cons l ls ih =>
    obtain ⟨s1, hs1, h2⟩ := runLabelsNewS_cons h
    rcases stepNewS_cases hs1 with ⟨rfl, _⟩ | ⟨cl, c', rfl, _, rfl⟩
    · exact List.mem_cons_self
    · exact List.mem_cons_of_mem _ (ih h2 h0)

/-- a step of the listener (`take`, its `query`, its `deliver`) is not enabled while it is idle -/
theorem listener_step_not_idle {c c' : St} {l : Label} (hs : stepL c l = some c')
    (hl : l = .take ∨ l = .query none ∨ l = .deliver none) :
    ¬ (c.listener = .waiting ∧ c.pending = false) := by
  intro ⟨hw, hp⟩
  have h := (stepL_step hs).1
  rcases hl with rfl | rfl | rfl
  · simp only [step, hw, hp] at h
    split at h <;> simp_all
  · simp only [step, hw] at h
    cases h
  · simp only [step, hw] at h
    split at h <;> simp_all

/-- in every run of the repaired start-up, a step of the listener - in particular its initial
query - comes after `subscribe` -/
theorem listener_step_after_subscribe {z : Size} {pre post : List LabelS} {l : Label} {s : StS}
    (h : runLabelsNewS (initNewS z) (pre ++ .core l :: post) = some s)
    (hl : l = .take ∨ l = .query none ∨ l = .deliver none) : LabelS.subscribe ∈ pre := by
  obtain ⟨t, h1, h2⟩ := runLabelsNewS_append_some h
  obtain ⟨t1, h3, _⟩ := runLabelsNewS_cons h2
  cases hsub : t.subscribed with
  | true => exact subscribe_mem_of_run h1 rfl hsub
  | false =>
    exfalso
    rcases startupInv_reachable (reachableNewS_of_run h1) with ⟨_, hw, hp⟩ | ⟨hs, _, _⟩
    · rcases stepNewS_cases h3 with ⟨hh, _⟩ | ⟨cl, c', hh, hc, _⟩
      · cases hh
      · cases hh
        have hnr : l.isResize = false := by rcases hl with rfl | rfl | rfl <;> rfl
        rw [coreStep_of_not_resize _ _ hnr] at hc
        exact listener_step_not_idle hc hl ⟨hw, hp⟩
    · rw [hsub] at hs; cases hs

/-! ### a resize, subscribed or not -/

/-- a resize is always enabled; it sets the size and touches neither the checkers nor the flags
of the layer (whether it raises the signal depends on `subscribed`) -/
theorem stepNewS_resize (t : StS) (sz : Size) :
    ∃ t1, stepNewS t (.core (.resize sz)) = some t1 ∧ t1.core.size = sz ∧
      t1.core.checkers = t.core.checkers ∧ t1.core.cancelled = t.core.cancelled ∧
      t1.subscribed = t.subscribed ∧ t1.core.pending = (t.subscribed || t.core.pending) := by
  obtain ⟨c, sub⟩ := t
  cases sub with
  | true => exact ⟨_, rfl, rfl, rfl, rfl, rfl, rfl⟩
  | false => exact ⟨_, rfl, rfl, rfl, rfl, rfl, rfl⟩

/-- in a state satisfying the invariant the schedule to `QuiescentS` is no longer than the one of
the subscribed core: before the subscription the listener owes nothing yet -/
theorem rankS_le {s : StS} (hi : StartupInv s) : rankS s ≤ 2 * s.core.checkers.length + 5 := by
  rcases hi with ⟨hsub, hl, hp⟩ | ⟨hsub, _, _⟩
  · have := checkerCost_le s.core.checkers
    simp only [rankS, rank, listenerCost, hsub, hl, hp]
    simp
    omega
  · have := rank_le s.core
    simp only [rankS, hsub]
    simp
    omega

theorem startupInv_waiting {s : StS} (hi : StartupInv s) :
    s.subscribed = false → s.core.listener = .waiting ∧ s.core.pending = false := by
  intro hsub
  rcases hi with ⟨_, hl, hp⟩ | ⟨hs, _, _⟩
  · exact ⟨hl, hp⟩
  · rw [hsub] at hs; cases hs

/-! ### what a run without a resize / a run that ends unsubscribed does not do -/

theorem size_stepL {s s' : St} {l : Label} (hs : stepL s l = some s') :
    l.isResize = false → s'.size = s.size := by
  rstepL_elim hs
  case resize => intro s sz h; simp [Label.isResize] at h
  all_goals intros; rfl

/-- only a resize changes the size -/
theorem size_runS {s s' : StS} {ls : List LabelS} (h : runLabelsNewS s ls = some s')
    (hnr : ∀ l ∈ coreLabels ls, l.isResize = false) : s'.core.size = s.core.size := by
  induction ls generalizing s with
  | nil => simp only [runLabelsNewS] at h; cases h; rfl
  | cons l ls ih =>
    obtain ⟨s1, h1, h2⟩ := runLabelsNewS_cons h
    rw [coreLabels_cons] at hnr
    have e := ih h2 (fun a ha => hnr a (List.mem_append_right _ ha))
    rcases stepNewS_cases h1 with ⟨_, _, _, rfl⟩ | ⟨cl, c', rfl, hc, rfl⟩
    · exact e
    · have hcl : cl.isResize = false := hnr cl (List.mem_append_left _ (by simp [coreLabels]))
      rw [coreStep_of_not_resize _ _ hcl] at hc
      rw [e]
      exact size_stepL hc hcl

/-- `subscribed` is never reset -/
theorem subscribed_run {s s' : StS} {ls : List LabelS} (h : runLabelsNewS s ls = some s')
    (h0 : s.subscribed = true) : s'.subscribed = true := by
  induction ls generalizing s with
  | nil => simp only [runLabelsNewS] at h; cases h; exact h0
  | cons l ls ih =>
    obtain ⟨s1, h1, h2⟩ := runLabelsNewS_cons h
    rcases stepNewS_cases h1 with ⟨_, _, _, rfl⟩ | ⟨cl, c', rfl, _, rfl⟩
    · exact ih h2 rfl
    · exact ih h2 h0

/-- a run that ends not subscribed contains no `take` -/
theorem takes_unsub_run {s s' : StS} {ls : List LabelS} (h : runLabelsNewS s ls = some s')
    (h1 : s'.subscribed = false) (hw : s.core.listener = .waiting) (hp : s.core.pending = false) :
    takes (coreLabels ls) = 0 := by
  induction ls generalizing s with
  | nil => rfl
  | cons l ls ih =>
    obtain ⟨s1, hs1, h2⟩ := runLabelsNewS_cons h
    cases hsub : s.subscribed with
    | true => rw [subscribed_run h hsub] at h1; cases h1
    | false =>
      rcases stepNewS_cases hs1 with ⟨_, _, _, rfl⟩ | ⟨cl, c', rfl, hc, rfl⟩
      · rw [subscribed_run h2 rfl] at h1; cases h1
      · rw [coreLabels_cons, takes_append]
        rcases coreStep_cases hc with ⟨_, sz, rfl, rfl⟩ | ⟨hb, hstep⟩
        · rw [ih h2 hw hp]; simp [coreLabels, takes]
        · rcases hb with hb | hb
          · rw [hsub] at hb; cases hb
          · obtain ⟨hw', hp'⟩ := idle_stepL hstep hb hw hp
            rw [ih h2 hw' hp']
            cases hd : decide (cl = .take) with
            | true =>
              exact absurd ⟨hw, hp⟩
                (listener_step_not_idle hstep (Or.inl (of_decide_eq_true hd)))
            | false =>
              have hne : cl ≠ .take := of_decide_eq_false hd
              simp [coreLabels, takes, hne]

end Tea.Runtime.Resize
