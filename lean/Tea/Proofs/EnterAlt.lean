import Tea.Render.Model
/-
The shape of `enterAlt` since it brings the main screen up to date first: `preAlt r` is the
ordinary render that precedes the switch (nothing when no printed line is queued, `flush r`
otherwise); `enterAlt` is `preAlt` followed by the four switching operations.  With an empty
queue this is the old definition (`enterAlt_noq`).
-/
namespace Tea.Render
open Tea Tea.VT

/-- what `enterAltScreen()` does before switching: one ordinary render when printed lines are
queued, nothing otherwise -/
def preAlt (r : RState) : RState × List TermOp :=
  if r.queued.isEmpty then (r, []) else flush r

/-- the four operations that switch to the alt screen -/
def switchOps (hidden : Bool) : List TermOp := [.decset 1049, .ed2, .home, cursorOp hidden]

theorem enterAlt_active (r : RState) (ha : r.altActive = true) : enterAlt r = (r, []) := by
  simp [enterAlt, ha]

theorem enterAlt_eq (r : RState) (ha : r.altActive = false) :
    enterAlt r = (({ (preAlt r).1 with altActive := true, altLinesRendered := 0 } : RState).repaint,
      (preAlt r).2 ++ switchOps (preAlt r).1.cursorHidden) := by
  simp [enterAlt, ha, preAlt, switchOps]

theorem preAlt_noq (r : RState) (hq : r.queued = []) : preAlt r = (r, []) := by
  simp [preAlt, hq]

theorem preAlt_q (r : RState) (hq : r.queued ≠ []) : preAlt r = flush r := by
  unfold preAlt
  cases h : r.queued with
  | nil => exact absurd h hq
  | cons _ _ => rfl

/-- `preAlt` is nothing or a flush -/
theorem preAlt_cases (r : RState) : preAlt r = (r, []) ∨ preAlt r = flush r := by
  unfold preAlt
  split
  · exact Or.inl rfl
  · exact Or.inr rfl

/-- with nothing queued, `enterAlt` is the plain switch (the definition before the repair) -/
theorem enterAlt_noq (r : RState) (ha : r.altActive = false) (hq : r.queued = []) :
    enterAlt r = (({ r with altActive := true, altLinesRendered := 0 } : RState).repaint,
      [.decset 1049, .ed2, .home, cursorOp r.cursorHidden]) := by
  rw [enterAlt_eq r ha, preAlt_noq r hq]
  rfl

/-- a flush does not touch the flags, the size, or (off the alt screen) `altLinesRendered` -/
theorem flush_keeps (r : RState) :
    (flush r).1.altActive = r.altActive ∧ (flush r).1.bpActive = r.bpActive ∧
    (flush r).1.focusActive = r.focusActive ∧ (flush r).1.cursorHidden = r.cursorHidden ∧
    (flush r).1.width = r.width ∧ (flush r).1.height = r.height := by
  unfold flush
  split <;> simp

theorem preAlt_keeps (r : RState) :
    (preAlt r).1.altActive = r.altActive ∧ (preAlt r).1.bpActive = r.bpActive ∧
    (preAlt r).1.focusActive = r.focusActive ∧ (preAlt r).1.cursorHidden = r.cursorHidden ∧
    (preAlt r).1.width = r.width ∧ (preAlt r).1.height = r.height := by
  rcases preAlt_cases r with h | h <;> rw [h]
  · exact ⟨rfl, rfl, rfl, rfl, rfl, rfl⟩
  · exact flush_keeps r

/-- the ops of `enterAlt` from the main screen: the render, then the switch -/
theorem enterAlt_ops (r : RState) (ha : r.altActive = false) :
    (enterAlt r).2 = (preAlt r).2 ++ switchOps r.cursorHidden := by
  rw [enterAlt_eq r ha, (preAlt_keeps r).2.2.2.1]

/-- the fields of the state after `enterAlt` from the main screen -/
theorem enterAlt_fields (r : RState) (ha : r.altActive = false) :
    (enterAlt r).1.altActive = true ∧ (enterAlt r).1.altLinesRendered = 0 ∧
    (enterAlt r).1.lastRender = [] ∧ (enterAlt r).1.lastLines = none ∧
    (enterAlt r).1.buf = (preAlt r).1.buf ∧ (enterAlt r).1.queued = (preAlt r).1.queued ∧
    (enterAlt r).1.linesRendered = (preAlt r).1.linesRendered ∧
    (enterAlt r).1.cursorHidden = r.cursorHidden ∧ (enterAlt r).1.bpActive = r.bpActive ∧
    (enterAlt r).1.focusActive = r.focusActive ∧
    (enterAlt r).1.width = r.width ∧ (enterAlt r).1.height = r.height := by
  obtain ⟨_, h2, h3, h4, h5, h6⟩ := preAlt_keeps r
  rw [enterAlt_eq r ha]
  exact ⟨rfl, rfl, rfl, rfl, rfl, rfl, rfl, h4, h2, h3, h5, h6⟩

/-- writing the pending view again changes nothing -/
theorem write_self (r : RState) (h : r.buf ≠ []) : write r r.buf = r := by
  unfold write
  cases hb : r.buf with
  | nil => exact absurd hb h
  | cons x xs =>
    have : (if (x :: xs).isEmpty = true then [32] else x :: xs) = r.buf := by rw [hb]; rfl
    rw [this]

end Tea.Render
