import Tea.Proofs.Quit
/-
Helper lemmas for the `kill` part of C07 (`Tea/Props/C07.lean`, section 4b): the renderer's
`kill` = EL2, CR on the terminal — NO flush — and the invalidation of both caches.  It is the
second half of `stop` (`InlineInv.eraseLine` in `Tea/Proofs/Quit.lean`) applied to the state as it
is, whatever view is pending.
-/
namespace Tea.Render
open Tea Tea.VT

/-- `kill` is EL2, CR with both caches invalidated; nothing is flushed -/
theorem kill_eq (r : RState) : kill r = (r.repaint, [.el2, .cr]) := rfl

/-- what `kill` writes: EL2, CR and nothing else -/
theorem kill_ops (r : RState) : (kill r).2 = [.el2, .cr] := rfl

/-- the state after `kill`: the state as it was with both caches invalidated -/
theorem kill_state (r : RState) : (kill r).1 = r.repaint := rfl

/-- **after `kill` the inline invariant holds again.**  `kill` = EL2, CR, caches invalidated, no
flush: renderer and terminal still satisfy `InlineInv`; the pending view and the queued lines are
as they were (nothing was flushed); both caches are invalid; `linesRendered`, the size, the first
view row, the window and the cursor row are unchanged; the cursor is at column 0 of the last view
row, which is blank; EVERY other row of the tape is untouched — so every line of the view rendered
last (the line cache before the kill) but the one of the cursor row is still on its row. -/
theorem inline_kill_inv (r : RState) (t : Term) (hinv : InlineInv r t)
    (r1 : RState) (t1 : Term) (hr1 : r1 = (kill r).1) (ht1 : t1 = applyOps t (kill r).2) :
    InlineInv r1 t1 ∧ r1.queued = r.queued ∧ r1.buf = r.buf ∧
    r1.lastRender = [] ∧ r1.lastLines = none ∧
    r1.linesRendered = r.linesRendered ∧ r1.height = r.height ∧ r1.width = r.width ∧
    viewTop r1 t1 = viewTop r t ∧ t1.alt = t.alt ∧ t1.w = t.w ∧ t1.h = t.h ∧
    t1.main.top = t.main.top ∧ t1.main.cr = t.main.cr ∧
    t1.main.cr + 1 = viewTop r t + max r.linesRendered 1 ∧
    t1.main.cc = 0 ∧ t1.main.pw = false ∧ rowBlank t.w t1.main t1.main.cr ∧
    (∀ ρ, ρ ≠ t.main.cr → ∀ c, t1.main.cells ρ c = t.main.cells ρ c) ∧
    (∀ ls, r.lastLines = some ls → ls.length = r.linesRendered ∧
      ∀ i l, i + 1 < ls.length → ls[i]? = some l →
        rowShows t.w t1.main (viewTop r t + i) (Ansi.visible l)) := by
  rw [kill_ops] at ht1
  rw [kill_state] at hr1
  obtain ⟨b1, b2, b3, b4, b5, b6, b7, b8, b9⟩ := hinv.eraseLine t1 ht1
  subst hr1
  have hin := hinv.inside.1
  refine ⟨b1, rfl, rfl, rfl, rfl, rfl, rfl, rfl, b2, b5, b6, b7, b4, b3, ?_, b1.col.1, b1.col.2,
    b8, b9, ?_⟩
  · rw [b3]; unfold viewTop; omega
  · intro ls hls
    obtain ⟨c1, c2⟩ := hinv.cache ls hls
    refine ⟨c1, ?_⟩
    intro i l hi hl
    refine rowShows_congr (b9 _ ?_) (c2 i l hl)
    unfold viewTop
    omega

end Tea.Render
